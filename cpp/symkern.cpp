// symkern.cpp — runs the REAL numeric kernels of the library under test over a symbolic scalar
// type (the free term algebra) and prints, per kernel instance, the arithmetic expression the
// C++ templates compute.  gen/symkern.py turns the output into coq/gen/KernelGen.v.
//
// Build:  g++ -std=c++17 -O1 -I$VERIF_REPO/include cpp/symkern.cpp
//
// Output: one line per instance
//     KERNEL <name> <n_results> <term_1> ... <term_n>
//   | KERNEL <name> BRANCH <comparisons executed by the kernel>
//   | KERNEL <name> UNINIT <terms>          (a result depends on a default-constructed scalar)
//   | KERNEL <name> EXCEPTION <what>
// Term syntax (prefix, fully parenthesised):
//     term ::= (v NAME) | (c INTEGER) | (u)
//            | (add t t) | (sub t t) | (mul t t) | (div t t) | (neg t)
// Compound assignment `x op= y` prints as `(op x y)`.
//
// Sym offers exactly what the library documents for its scalar type: default/copy construction,
// EXPLICIT construction from built-in integers, + - * / (compound forms), unary minus, the six
// comparisons.  There is no construction from floating point (deleted: routing a value through
// float/double does not compile).  Comparisons are answered from an exact rational *shadow
// value* (needed only to get through Grid's monotonicity check) and are counted: a kernel that
// executes one is reported as BRANCH, because then the printed term would not describe the
// computation for every scalar value.

// ---- every standard / boost header used by the library or by this file, and the scalar type Sym,
// ---- come FIRST (cpp/symkern_sym.h), so that the access-specifier defines below cannot reach
// ---- libstdc++ or boost.
#include "symkern_sym.h"

// ---- the library under test, private members reachable ---------------------------------------
#define private public
#define protected public
#include <bspline/Spline.h>
#include <bspline/integration/BilinearForm.h>
#include <bspline/integration/LinearForm.h>
#include <bspline/internal/misc.h>
#include <bspline/operators/Derivative.h>
#include <bspline/operators/GenericOperators.h>
#include <bspline/operators/Position.h>
#include <bspline/support/Grid.h>
#undef private
#undef protected

namespace bs = bspline;

// ---------------------------------------------------------------------------
// driver helpers
// ---------------------------------------------------------------------------
// variables get distinct, increasing, non-integral shadow values (so g0 < g1)
static int g_var_counter = 0;
static std::string g_var_prefix;  // "zz" during the decoy run of an instance, see instance()
static Sym fresh(const std::string &name) {
  ++g_var_counter;
  return Sym::var(g_var_prefix + name, Rat(BigInt(1000 + 37 * g_var_counter), BigInt(101)));
}
template <size_t n>
static std::array<Sym, n> fresh_array(const std::string &prefix) {
  std::array<Sym, n> a;
  for (size_t i = 0; i < n; i++) a[i] = fresh(prefix + std::to_string(i));
  return a;
}

static void begin_kernel() {
  g_sym.comparisons.clear();
  g_sym.shadow_trouble = false;
}

static void report(const std::string &name, const std::vector<Sym> &results) {
  if (!g_sym.comparisons.empty()) {
    std::cout << "KERNEL " << name << " BRANCH";
    for (const auto &c : g_sym.comparisons) std::cout << " [" << c << "]";
    std::cout << "\n";
    return;
  }
  bool uninit = false;
  std::ostringstream os;
  for (const auto &r : results) os << " " << r.str(&uninit);
  std::cout << "KERNEL " << name << " " << (uninit ? "UNINIT" : std::to_string(results.size()))
            << os.str() << "\n";
}

template <size_t n>
static std::vector<Sym> vec(const std::array<Sym, n> &a) {
  return std::vector<Sym>(a.begin(), a.end());
}

// Run `body` (which returns the results) as the instance `name`.  The body is run twice: first a
// decoy run whose variables are called zz<name> and whose results are discarded, then the real run.
// A kernel that keeps state between calls (static / thread_local caches) then shows decoy
// variables in its terms, which the generator rejects as undeclared.
template <typename Body>
static void instance(const std::string &name, Body body) {
  try {
    g_var_counter = 100;
    g_var_prefix = "zz";
    (void)body();
    g_var_counter = 0;
    g_var_prefix = "";
    std::vector<Sym> res = body();
    report(name, res);
  } catch (const std::exception &e) {
    std::string w = e.what();
    std::replace(w.begin(), w.end(), '\n', ' ');
    std::cout << "KERNEL " << name << " EXCEPTION " << w << "\n";
  } catch (...) {
    std::cout << "KERNEL " << name << " EXCEPTION unknown\n";
  }
}

// compile-time loops: for_range<lo, hi>(f) calls f(integral_constant<size_t, i>) for lo <= i <= hi
template <size_t lo, size_t... is, typename Fn>
static void for_range_impl(std::index_sequence<is...>, Fn f) {
  (f(std::integral_constant<size_t, lo + is>{}), ...);
}
template <size_t lo, size_t hi, typename Fn>
static void for_range(Fn f) {
  for_range_impl<lo>(std::make_index_sequence<hi - lo + 1>{}, f);
}

static std::string nm(const std::string &family, std::initializer_list<size_t> ps) {
  std::string s = family;
  for (size_t p : ps) s += "_" + std::to_string(p);
  return s;
}

// ---------------------------------------------------------------------------
// the instances
// ---------------------------------------------------------------------------
int main() {
  std::cout << std::unitbuf;  // a crash must not lose the lines already printed
  using bs::operators::IdentityOperator;
  using LF = bs::integration::LinearForm<IdentityOperator>;
  using BF = bs::integration::BilinearForm<IdentityOperator, IdentityOperator>;

  // internal::evaluateInterval<Sym,n>(x, coeffs, xm), n = 1..8
  for_range<1, 8>([](auto N) {
    constexpr size_t n = decltype(N)::value;
    instance(nm("eval", {n}), [] {
      const Sym x = fresh("x");
      const std::array<Sym, n> c = fresh_array<n>("c");
      const Sym xm = fresh("xm");
      begin_kernel();
      return std::vector<Sym>{bs::internal::evaluateInterval<Sym, n>(x, c, xm)};
    });
  });

  // internal::faculty<Sym>(n), n = 0..12
  for (size_t n = 0; n <= 12; n++) {
    instance(nm("faculty", {n}), [n] {
      begin_kernel();
      return std::vector<Sym>{bs::internal::faculty<Sym>(n)};
    });
  }
  // internal::facultyRatio<Sym>(c, d), c, d = 0..8
  for (size_t c = 0; c <= 8; c++) {
    for (size_t d = 0; d <= 8; d++) {
      instance(nm("facratio", {c, d}), [c, d] {
        begin_kernel();
        return std::vector<Sym>{bs::internal::facultyRatio<Sym>(c, d)};
      });
    }
  }
  // large arguments (family "big"): results beyond 2^64 and beyond 2^53 - an intermediate integer type, or a
  // detour through a floating type, cannot hide here.  Exact tie only (no rounding bound is claimed for these).
  {
    const size_t bigfac[] = {13, 18, 20, 21, 22, 25, 30};
    for (size_t n : bigfac) {
      instance(nm("bigfaculty", {n}), [n] {
        begin_kernel();
        return std::vector<Sym>{bs::internal::faculty<Sym>(n)};
      });
    }
    const size_t bigratio[][2] = {{21, 0}, {22, 2}, {25, 5}, {30, 12}, {0, 21}, {3, 25}, {40, 20}};
    for (auto &cd : bigratio) {
      const size_t c = cd[0], d = cd[1];
      instance(nm("bigfacratio", {c, d}), [c, d] {
        begin_kernel();
        return std::vector<Sym>{bs::internal::facultyRatio<Sym>(c, d)};
      });
    }
    const size_t bigbinom[][2] = {{22, 11}, {25, 10}, {30, 15}, {40, 20}, {40, 3}, {34, 17}};
    for (auto &nk : bigbinom) {
      const size_t n = nk[0], k = nk[1];
      instance(nm("bigbinom", {n, k}), [n, k] {
        begin_kernel();
        return std::vector<Sym>{bs::internal::binomialCoefficient<Sym>(n, k)};
      });
    }
  }
  // internal::binomialCoefficient<Sym>(n, k), n, k = 0..8
  for (size_t n = 0; n <= 8; n++) {
    for (size_t k = 0; k <= 8; k++) {
      instance(nm("binom", {n, k}), [n, k] {
        begin_kernel();
        return std::vector<Sym>{bs::internal::binomialCoefficient<Sym>(n, k)};
      });
    }
  }

  // internal::add<Sym,na,nb>(a, b), na, nb = 1..5
  for_range<1, 5>([](auto NA) {
    for_range<1, 5>([](auto NB) {
      constexpr size_t na = decltype(NA)::value;
      constexpr size_t nb = decltype(NB)::value;
      instance(nm("add", {na, nb}), [] {
        const std::array<Sym, na> a = fresh_array<na>("a");
        const std::array<Sym, nb> b = fresh_array<nb>("b");
        begin_kernel();
        return vec(bs::internal::add<Sym, na, nb>(a, b));
      });
    });
  });

  // internal::changearraysize<Sym,nin,nout>(in), 1 <= nin <= nout <= 5
  for_range<1, 5>([](auto NI) {
    for_range<1, 5>([](auto NO) {
      constexpr size_t nin = decltype(NI)::value;
      constexpr size_t nout = decltype(NO)::value;
      if constexpr (nout >= nin) {
        instance(nm("chsize", {nin, nout}), [] {
          const std::array<Sym, nin> a = fresh_array<nin>("a");
          begin_kernel();
          return vec(bs::internal::changearraysize<Sym, nin, nout>(a));
        });
      }
    });
  });

  // LinearForm<O>::evaluateInterval<Sym,n>(a, dxhalf), n = 1..8
  for_range<1, 8>([](auto N) {
    constexpr size_t n = decltype(N)::value;
    instance(nm("lin", {n}), [] {
      const std::array<Sym, n> a = fresh_array<n>("a");
      const Sym h = fresh("h");
      begin_kernel();
      return std::vector<Sym>{LF::evaluateInterval<Sym, n>(a, h)};
    });
  });

  // BilinearForm<O1,O2>::evaluateInterval<Sym,na,nb>(a, b, dxhalf), na, nb = 1..7
  for_range<1, 7>([](auto NA) {
    for_range<1, 7>([](auto NB) {
      constexpr size_t na = decltype(NA)::value;
      constexpr size_t nb = decltype(NB)::value;
      instance(nm("bi", {na, nb}), [] {
        const std::array<Sym, na> a = fresh_array<na>("a");
        const std::array<Sym, nb> b = fresh_array<nb>("b");
        const Sym h = fresh("h");
        begin_kernel();
        return std::vector<Sym>{BF::evaluateInterval<Sym, na, nb>(a, b, h)};
      });
    });
  });

  // Derivative<k>::transform<Sym,n>(input, grid, 0), k = 0..4, n = 1..7
  for_range<0, 4>([](auto KK) {
    for_range<1, 7>([](auto N) {
      constexpr size_t k = decltype(KK)::value;
      constexpr size_t n = decltype(N)::value;
      instance(nm("der", {k, n}), [] {
        const std::array<Sym, n> c = fresh_array<n>("c");
        const Sym g0 = fresh("g0");
        const Sym g1 = fresh("g1");
        // constructing the grid executes comparisons (monotonicity check): before begin_kernel
        const bs::support::Grid<Sym> grid(std::vector<Sym>{g0, g1});
        const bs::operators::Derivative<k> op{};
        begin_kernel();
        return vec(op.template transform<Sym, n>(c, grid, 0));
      });
    });
  });

  // Position<k>::transform<Sym,n>(input, grid, 0), k = 0..4, n = 1..6
  for_range<0, 4>([](auto KK) {
    for_range<1, 6>([](auto N) {
      constexpr size_t k = decltype(KK)::value;
      constexpr size_t n = decltype(N)::value;
      instance(nm("pos", {k, n}), [] {
        const std::array<Sym, n> c = fresh_array<n>("c");
        const Sym g0 = fresh("g0");
        const Sym g1 = fresh("g1");
        const bs::support::Grid<Sym> grid(std::vector<Sym>{g0, g1});
        const bs::operators::Position<k> op{};
        begin_kernel();
        return vec(op.template transform<Sym, n>(c, grid, 0));
      });
    });
  });

  std::cout << "END\n";
  return 0;
}

// symkern.cpp — runs the REAL numeric kernels of the library under test over a symbolic scalar
// type (the free term algebra) and prints, per kernel instance, the arithmetic expression the
// C++ templates compute.  gen/symkern.py turns the output into coq/gen/KernelGen.v.
//
// Build:  g++ -std=c++17 -O1 -I$VERIF_REPO/include cpp/symkern.cpp
//
// Output: one line per instance
//     KERNEL <name> <n_results> <term_1> ... <term_n>
//   | KERNEL <name> BRANCH <comparisons executed by the kernel>
//   | KERNEL <name> UNINIT <terms>          (a result depends on a default-constructed scalar)
//   | KERNEL <name> EXCEPTION <what>
// Term syntax (prefix, fully parenthesised):
//     term ::= (v NAME) | (c INTEGER) | (u)
//            | (add t t) | (sub t t) | (mul t t) | (div t t) | (neg t)
// Compound assignment `x op= y` prints as `(op x y)`.
//
// Sym offers exactly what the library documents for its scalar type: default/copy construction,
// EXPLICIT construction from built-in integers, + - * / (compound forms), unary minus, the six
// comparisons.  There is no construction from floating point (deleted: routing a value through
// float/double does not compile).  Comparisons are answered from an exact rational *shadow
// value* (needed only to get through Grid's monotonicity check) and are counted: a kernel that
// executes one is reported as BRANCH, because then the printed term would not describe the
// computation for every scalar value.

// ---- every standard / boost header used by the library or by this file comes FIRST, so that
// ---- the access-specifier defines below cannot reach libstdc++ or boost.
#include <boost/multiprecision/cpp_int.hpp>

#include <algorithm>
#include <array>
#include <cstddef>
#include <cstdint>
#include <cstdio>
#include <exception>
#include <functional>
#include <initializer_list>
#include <iostream>
#include <iterator>
#include <limits>
#include <memory>
#include <optional>
#include <sstream>
#include <stdexcept>
#include <string>
#include <type_traits>
#include <utility>
#include <vector>

// ---------------------------------------------------------------------------
// Sym
// ---------------------------------------------------------------------------
using BigInt = boost::multiprecision::cpp_int;
using Rat = boost::multiprecision::cpp_rational;

struct Node {
  enum Kind { VAR, CONST, UNINIT, ADD, SUB, MUL, DIV, NEG };
  Kind kind;
  std::string name;  // VAR
  BigInt value;      // CONST
  std::shared_ptr<const Node> l, r;
};
using NodeP = std::shared_ptr<const Node>;

struct SymGlobals {
  // comparisons executed since the last reset, as text
  std::vector<std::string> comparisons;
  // a shadow value could not be computed (division by a zero shadow)
  bool shadow_trouble = false;
};
static SymGlobals g_sym;

static void print_node(std::ostream &os, const NodeP &n, bool &has_uninit) {
  switch (n->kind) {
    case Node::VAR: os << "(v " << n->name << ")"; return;
    case Node::CONST: os << "(c " << n->value.str() << ")"; return;
    case Node::UNINIT: has_uninit = true; os << "(u)"; return;
    case Node::NEG:
      os << "(neg ";
      print_node(os, n->l, has_uninit);
      os << ")";
      return;
    default: break;
  }
  const char *op = n->kind == Node::ADD   ? "add"
                   : n->kind == Node::SUB ? "sub"
                   : n->kind == Node::MUL ? "mul"
                                          : "div";
  os << "(" << op << " ";
  print_node(os, n->l, has_uninit);
  os << " ";
  print_node(os, n->r, has_uninit);
  os << ")";
}

class Sym {
  NodeP _n;
  Rat _shadow;  // ONLY used to answer comparisons

  Sym(NodeP n, Rat s) : _n(std::move(n)), _shadow(std::move(s)) {}

  static NodeP mk(Node::Kind k, NodeP l, NodeP r = nullptr) {
    auto p = std::make_shared<Node>();
    p->kind = k;
    p->l = std::move(l);
    p->r = std::move(r);
    return p;
  }
  static Sym bin(Node::Kind k, const Sym &a, const Sym &b) {
    Rat s;
    switch (k) {
      case Node::ADD: s = a._shadow + b._shadow; break;
      case Node::SUB: s = a._shadow - b._shadow; break;
      case Node::MUL: s = a._shadow * b._shadow; break;
      default:
        if (b._shadow == 0) {
          g_sym.shadow_trouble = true;
          s = Rat(BigInt("104729"), BigInt("7919"));
        } else {
          s = a._shadow / b._shadow;
        }
    }
    return Sym(mk(k, a._n, b._n), std::move(s));
  }
  static bool cmp(const char *op, const Sym &a, const Sym &b, bool answer) {
    g_sym.comparisons.push_back(a.str() + " " + op + " " + b.str());
    return answer;
  }

 public:
  // default construction: the scalar has NO documented value
  Sym() : _shadow(Rat(BigInt("982451653"), BigInt("1000003"))) {
    auto p = std::make_shared<Node>();
    p->kind = Node::UNINIT;
    _n = std::move(p);
  }
  Sym(const Sym &) = default;
  Sym(Sym &&) = default;
  Sym &operator=(const Sym &) = default;
  Sym &operator=(Sym &&) = default;

  // static_cast<T>(i) for a built-in integer i
  template <typename I, std::enable_if_t<std::is_integral_v<I>, bool> = true>
  explicit Sym(I i) {
    auto p = std::make_shared<Node>();
    p->kind = Node::CONST;
    if constexpr (std::is_unsigned_v<I>) {
      p->value = BigInt(static_cast<unsigned long long>(i));
    } else {
      p->value = BigInt(static_cast<long long>(i));
    }
    _shadow = Rat(p->value);
    _n = std::move(p);
  }
  // no floating point, ever
  template <typename D, std::enable_if_t<std::is_floating_point_v<D>, bool> = true>
  Sym(D) = delete;

  // a named variable; the shadow value is used for comparisons only
  static Sym var(const std::string &name, const Rat &shadow) {
    auto p = std::make_shared<Node>();
    p->kind = Node::VAR;
    p->name = name;
    return Sym(std::move(p), shadow);
  }

  std::string str(bool *has_uninit = nullptr) const {
    std::ostringstream os;
    bool u = false;
    print_node(os, _n, u);
    if (has_uninit && u) *has_uninit = true;
    return os.str();
  }

  friend Sym operator+(const Sym &a, const Sym &b) { return bin(Node::ADD, a, b); }
  friend Sym operator-(const Sym &a, const Sym &b) { return bin(Node::SUB, a, b); }
  friend Sym operator*(const Sym &a, const Sym &b) { return bin(Node::MUL, a, b); }
  friend Sym operator/(const Sym &a, const Sym &b) { return bin(Node::DIV, a, b); }
  Sym operator-() const { return Sym(mk(Node::NEG, _n), -_shadow); }
  Sym &operator+=(const Sym &o) { return *this = bin(Node::ADD, *this, o); }
  Sym &operator-=(const Sym &o) { return *this = bin(Node::SUB, *this, o); }
  Sym &operator*=(const Sym &o) { return *this = bin(Node::MUL, *this, o); }
  Sym &operator/=(const Sym &o) { return *this = bin(Node::DIV, *this, o); }

  friend bool operator==(const Sym &a, const Sym &b) { return cmp("==", a, b, a._shadow == b._shadow); }
  friend bool operator!=(const Sym &a, const Sym &b) { return cmp("!=", a, b, a._shadow != b._shadow); }
  friend bool operator<(const Sym &a, const Sym &b) { return cmp("<", a, b, a._shadow < b._shadow); }
  friend bool operator<=(const Sym &a, const Sym &b) { return cmp("<=", a, b, a._shadow <= b._shadow); }
  friend bool operator>(const Sym &a, const Sym &b) { return cmp(">", a, b, a._shadow > b._shadow); }
  friend bool operator>=(const Sym &a, const Sym &b) { return cmp(">=", a, b, a._shadow >= b._shadow); }
};

// ---- the library under test, private members reachable ---------------------------------------
#define private public
#define protected public
#include <bspline/Spline.h>
#include <bspline/integration/BilinearForm.h>
#include <bspline/integration/LinearForm.h>
#include <bspline/internal/misc.h>
#include <bspline/operators/Derivative.h>
#include <bspline/operators/GenericOperators.h>
#include <bspline/operators/Position.h>
#include <bspline/support/Grid.h>
#undef private
#undef protected

namespace bs = bspline;

// ---------------------------------------------------------------------------
// driver helpers
// ---------------------------------------------------------------------------
// variables get distinct, increasing, non-integral shadow values (so g0 < g1)
static int g_var_counter = 0;
static std::string g_var_prefix;  // "zz" during the decoy run of an instance, see instance()
static Sym fresh(const std::string &name) {
  ++g_var_counter;
  return Sym::var(g_var_prefix + name, Rat(BigInt(1000 + 37 * g_var_counter), BigInt(101)));
}
template <size_t n>
static std::array<Sym, n> fresh_array(const std::string &prefix) {
  std::array<Sym, n> a;
  for (size_t i = 0; i < n; i++) a[i] = fresh(prefix + std::to_string(i));
  return a;
}

static void begin_kernel() {
  g_sym.comparisons.clear();
  g_sym.shadow_trouble = false;
}

static void report(const std::string &name, const std::vector<Sym> &results) {
  if (!g_sym.comparisons.empty()) {
    std::cout << "KERNEL " << name << " BRANCH";
    for (const auto &c : g_sym.comparisons) std::cout << " [" << c << "]";
    std::cout << "\n";
    return;
  }
  bool uninit = false;
  std::ostringstream os;
  for (const auto &r : results) os << " " << r.str(&uninit);
  std::cout << "KERNEL " << name << " " << (uninit ? "UNINIT" : std::to_string(results.size()))
            << os.str() << "\n";
}

template <size_t n>
static std::vector<Sym> vec(const std::array<Sym, n> &a) {
  return std::vector<Sym>(a.begin(), a.end());
}

// Run `body` (which returns the results) as the instance `name`.  The body is run twice: first a
// decoy run whose variables are called zz<name> and whose results are discarded, then the real run.
// A kernel that keeps state between calls (static / thread_local caches) then shows decoy
// variables in its terms, which the generator rejects as undeclared.
template <typename Body>
static void instance(const std::string &name, Body body) {
  try {
    g_var_counter = 100;
    g_var_prefix = "zz";
    (void)body();
    g_var_counter = 0;
    g_var_prefix = "";
    std::vector<Sym> res = body();
    report(name, res);
  } catch (const std::exception &e) {
    std::string w = e.what();
    std::replace(w.begin(), w.end(), '\n', ' ');
    std::cout << "KERNEL " << name << " EXCEPTION " << w << "\n";
  } catch (...) {
    std::cout << "KERNEL " << name << " EXCEPTION unknown\n";
  }
}

// compile-time loops: for_range<lo, hi>(f) calls f(integral_constant<size_t, i>) for lo <= i <= hi
template <size_t lo, size_t... is, typename Fn>
static void for_range_impl(std::index_sequence<is...>, Fn f) {
  (f(std::integral_constant<size_t, lo + is>{}), ...);
}
template <size_t lo, size_t hi, typename Fn>
static void for_range(Fn f) {
  for_range_impl<lo>(std::make_index_sequence<hi - lo + 1>{}, f);
}

static std::string nm(const std::string &family, std::initializer_list<size_t> ps) {
  std::string s = family;
  for (size_t p : ps) s += "_" + std::to_string(p);
  return s;
}

// ---------------------------------------------------------------------------
// the instances
// ---------------------------------------------------------------------------
int main() {
  std::cout << std::unitbuf;  // a crash must not lose the lines already printed
  using bs::operators::IdentityOperator;
  using LF = bs::integration::LinearForm<IdentityOperator>;
  using BF = bs::integration::BilinearForm<IdentityOperator, IdentityOperator>;

  // internal::evaluateInterval<Sym,n>(x, coeffs, xm), n = 1..8
  for_range<1, 8>([](auto N) {
    constexpr size_t n = decltype(N)::value;
    instance(nm("eval", {n}), [] {
      const Sym x = fresh("x");
      const std::array<Sym, n> c = fresh_array<n>("c");
      const Sym xm = fresh("xm");
      begin_kernel();
      return std::vector<Sym>{bs::internal::evaluateInterval<Sym, n>(x, c, xm)};
    });
  });

  // internal::faculty<Sym>(n), n = 0..12
  for (size_t n = 0; n <= 12; n++) {
    instance(nm("faculty", {n}), [n] {
      begin_kernel();
      return std::vector<Sym>{bs::internal::faculty<Sym>(n)};
    });
  }
  // internal::facultyRatio<Sym>(c, d), c, d = 0..8
  for (size_t c = 0; c <= 8; c++) {
    for (size_t d = 0; d <= 8; d++) {
      instance(nm("facratio", {c, d}), [c, d] {
        begin_kernel();
        return std::vector<Sym>{bs::internal::facultyRatio<Sym>(c, d)};
      });
    }
  }
  // internal::binomialCoefficient<Sym>(n, k), n, k = 0..8
  for (size_t n = 0; n <= 8; n++) {
    for (size_t k = 0; k <= 8; k++) {
      instance(nm("binom", {n, k}), [n, k] {
        begin_kernel();
        return std::vector<Sym>{bs::internal::binomialCoefficient<Sym>(n, k)};
      });
    }
  }

  // internal::add<Sym,na,nb>(a, b), na, nb = 1..5
  for_range<1, 5>([](auto NA) {
    for_range<1, 5>([](auto NB) {
      constexpr size_t na = decltype(NA)::value;
      constexpr size_t nb = decltype(NB)::value;
      instance(nm("add", {na, nb}), [] {
        const std::array<Sym, na> a = fresh_array<na>("a");
        const std::array<Sym, nb> b = fresh_array<nb>("b");
        begin_kernel();
        return vec(bs::internal::add<Sym, na, nb>(a, b));
      });
    });
  });

  // internal::changearraysize<Sym,nin,nout>(in), 1 <= nin <= nout <= 5
  for_range<1, 5>([](auto NI) {
    for_range<1, 5>([](auto NO) {
      constexpr size_t nin = decltype(NI)::value;
      constexpr size_t nout = decltype(NO)::value;
      if constexpr (nout >= nin) {
        instance(nm("chsize", {nin, nout}), [] {
          const std::array<Sym, nin> a = fresh_array<nin>("a");
          begin_kernel();
          return vec(bs::internal::changearraysize<Sym, nin, nout>(a));
        });
      }
    });
  });

  // LinearForm<O>::evaluateInterval<Sym,n>(a, dxhalf), n = 1..8
  for_range<1, 8>([](auto N) {
    constexpr size_t n = decltype(N)::value;
    instance(nm("lin", {n}), [] {
      const std::array<Sym, n> a = fresh_array<n>("a");
      const Sym h = fresh("h");
      begin_kernel();
      return std::vector<Sym>{LF::evaluateInterval<Sym, n>(a, h)};
    });
  });

  // BilinearForm<O1,O2>::evaluateInterval<Sym,na,nb>(a, b, dxhalf), na, nb = 1..7
  for_range<1, 7>([](auto NA) {
    for_range<1, 7>([](auto NB) {
      constexpr size_t na = decltype(NA)::value;
      constexpr size_t nb = decltype(NB)::value;
      instance(nm("bi", {na, nb}), [] {
        const std::array<Sym, na> a = fresh_array<na>("a");
        const std::array<Sym, nb> b = fresh_array<nb>("b");
        const Sym h = fresh("h");
        begin_kernel();
        return std::vector<Sym>{BF::evaluateInterval<Sym, na, nb>(a, b, h)};
      });
    });
  });

  // Derivative<k>::transform<Sym,n>(input, grid, 0), k = 0..4, n = 1..7
  for_range<0, 4>([](auto KK) {
    for_range<1, 7>([](auto N) {
      constexpr size_t k = decltype(KK)::value;
      constexpr size_t n = decltype(N)::value;
      instance(nm("der", {k, n}), [] {
        const std::array<Sym, n> c = fresh_array<n>("c");
        const Sym g0 = fresh("g0");
        const Sym g1 = fresh("g1");
        // constructing the grid executes comparisons (monotonicity check): before begin_kernel
        const bs::support::Grid<Sym> grid(std::vector<Sym>{g0, g1});
        const bs::operators::Derivative<k> op{};
        begin_kernel();
        return vec(op.template transform<Sym, n>(c, grid, 0));
      });
    });
  });

  // Position<k>::transform<Sym,n>(input, grid, 0), k = 0..4, n = 1..6
  for_range<0, 4>([](auto KK) {
    for_range<1, 6>([](auto N) {
      constexpr size_t k = decltype(KK)::value;
      constexpr size_t n = decltype(N)::value;
      instance(nm("pos", {k, n}), [] {
        const std::array<Sym, n> c = fresh_array<n>("c");
        const Sym g0 = fresh("g0");
        const Sym g1 = fresh("g1");
        const bs::support::Grid<Sym> grid(std::vector<Sym>{g0, g1});
        const bs::operators::Position<k> op{};
        begin_kernel();
        return vec(op.template transform<Sym, n>(c, grid, 0));
      });
    });
  });

  std::cout << "END\n";
  return 0;
}

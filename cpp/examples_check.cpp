// examples_check.cpp — validation harness for the shipped example solvers (C20).
// Compiled together with /repo/examples/{diffusion,spline-potential,harmonic-oscillator,hydrogen}.cpp
// of the current tree under -D_GLIBCXX_DEBUG and ASan/UBSan.  Every case prints
//   BEGIN <id>            (flushed before the case runs, so a crash is attributed to it)
//   EX <id> <check> OK|FAIL <details>
// Usage: examples_check <seed> <tier> [ids to skip...]
#include <diffusion.h>
#include <harmonic-oscillator.h>
#include <hydrogen.h>
#include <spline-potential.h>

#include <cmath>
#include <cstdio>
#include <random>
#include <set>
#include <string>
#include <vector>

using namespace bspline::examples;
using bspline::examples::diffusion::DSpline;

static std::set<std::string> skip;
static bool begin(const std::string &id) {
  if (skip.count(id)) return false;
  std::printf("BEGIN %s\n", id.c_str());
  std::fflush(stdout);
  return true;
}
static void report(const std::string &id, const char *check, bool ok, const std::string &details) {
  std::printf("EX %s %s %s %s\n", id.c_str(), check, ok ? "OK" : "FAIL", details.c_str());
  std::fflush(stdout);
}
static std::string fmt(const char *f, double a, double b = 0, double c = 0) {
  char buf[256];
  std::snprintf(buf, sizeof buf, f, a, b, c);
  return buf;
}

static DSpline makeD(const std::vector<double> &pts, const std::vector<double> &vals) {
  bspline::support::Grid<double> grid(pts);
  auto support = bspline::support::Support<double>::createWholeGrid(grid);
  std::vector<std::array<double, 1>> cs;
  for (double v : vals) cs.push_back({v});
  return DSpline(support, std::move(cs));
}

static void diffusionCase(const std::string &id, std::mt19937_64 &rng, size_t nint, bool constant) {
  if (!begin(id)) return;
  std::uniform_real_distribution<double> sp(0.2, 1.5), dv(0.1, 4.0), bv(-5.0, 10.0);
  std::vector<double> pts{-3.0};
  for (size_t i = 0; i < nint; i++) pts.push_back(pts.back() + sp(rng));
  std::vector<double> vals;
  const double d0 = dv(rng);
  for (size_t i = 0; i < nint; i++) vals.push_back(constant ? d0 : dv(rng));
  const double a = bv(rng), b = bv(rng);
  const double scale = std::max({1.0, std::fabs(a), std::fabs(b)});
  const double tol = 1e-7 * scale;
  try {
    const auto c = diffusion::solveDiffusionSteadyState(makeD(pts, vals), a, b);
    report(id, "start_value", std::fabs(c(pts.front()) - a) <= tol, fmt("c(front)=%.17g expected %.17g", c(pts.front()), a));
    report(id, "end_value", std::fabs(c(pts.back()) - b) <= tol, fmt("c(back)=%.17g expected %.17g", c(pts.back()), b));
    // positive constants from 1e-20 to 1e12: a change of physical unit (m^2/s vs. nm^2/s) must not matter
    for (double lambda : {0.5, 3.0, 1000.0, 1e-6, 1e-12, 1e-20, 1e12}) {
      std::vector<double> sv;
      for (double v : vals) sv.push_back(lambda * v);
      const auto c2 = diffusion::solveDiffusionSteadyState(makeD(pts, sv), a, b);
      double worst = 0;
      for (size_t i = 0; i + 1 < pts.size(); i++)
        for (double t : {0.0, 0.3, 0.5, 0.9, 1.0}) {
          const double x = pts[i] + t * (pts[i + 1] - pts[i]);
          worst = std::max(worst, std::fabs(c2(x) - c(x)));
        }
      report(id, "scale_invariance", worst <= tol, fmt("lambda=%g max|c_lambda-c|=%.3e tol=%.1e", lambda, worst, tol));
    }
    if (constant) {
      double worst = 0;
      for (size_t i = 0; i + 1 < pts.size(); i++)
        for (double t : {0.0, 0.25, 0.5, 0.75, 1.0}) {
          const double x = pts[i] + t * (pts[i + 1] - pts[i]);
          const double line = a + (b - a) * (x - pts.front()) / (pts.back() - pts.front());
          worst = std::max(worst, std::fabs(c(x) - line));
        }
      report(id, "straight_line", worst <= tol, fmt("max|c-line|=%.3e tol=%.1e", worst, tol));
    }
  } catch (const std::exception &e) {
    report(id, "no_exception", false, e.what());
  }
}

static void potentialCase(const std::string &id, size_t npts, double halfwidth, double shift) {
  if (!begin(id)) return;
  std::vector<double> pts;
  for (size_t i = 0; i < npts; i++) pts.push_back(-halfwidth + 2 * halfwidth * static_cast<double>(i) / static_cast<double>(npts - 1));
  try {
    const auto v = spline_potential::interpolateFunction(pts, [](double x) { return 0.5 * x * x; });
    const auto es = spline_potential::solveSEWithSplinePotential(v);
    const size_t nbasis = npts >= 12 ? npts - 11 : 0;
    report(id, "eigenpair_count", es.size() == std::min<size_t>(10, nbasis), fmt("returned %g eigenpairs, basis size %g", (double)es.size(), (double)nbasis));
    const auto v2 = spline_potential::interpolateFunction(pts, [shift](double x) { return 0.5 * x * x + shift; });
    const auto es2 = spline_potential::solveSEWithSplinePotential(v2);
    double worst = 0, scale = 1;
    for (size_t i = 0; i < std::min(es.size(), es2.size()); i++) {
      worst = std::max(worst, std::fabs(es2[i].energy - es[i].energy - shift));
      scale = std::max(scale, std::fabs(es[i].energy));
    }
    report(id, "shift", es.size() == es2.size() && worst <= 1e-8 * scale * std::max(1.0, std::fabs(shift)),
           fmt("c=%g max|E'(i)-E(i)-c|=%.3e scale=%.3e", shift, worst, scale));
  } catch (const bspline::exceptions::BSplineException &e) {
    // fewer than order+1 knots: the library refuses, which is well defined
    report(id, "refused_by_library", npts < 12, e.what());
  } catch (const std::exception &e) {
    report(id, "no_exception", false, e.what());
  }
}

// A potential that is a finite well: supported on a strict sub-window of its grid (zero outside), or empty.
static void wellCase(const std::string &id, size_t npts, size_t from, size_t to, double depth, double shift) {
  if (!begin(id)) return;
  std::vector<double> pts;
  for (size_t i = 0; i < npts; i++) pts.push_back(-5.0 + 10.0 * static_cast<double>(i) / static_cast<double>(npts - 1));
  try {
    bspline::support::Grid<double> grid(pts);
    auto make = [&](double level, double offset) {
      // level on [from, to), offset everywhere: the sum of a sub-window spline and (if offset != 0) a whole-grid constant
      std::vector<std::array<double, 4>> cs;
      for (size_t i = from; i + 1 < to; i++) cs.push_back({level, 0.0, 0.0, 0.0});
      PSpline well(from < to ? bspline::support::Support<double>(grid, from, to) : bspline::support::Support<double>::createEmpty(grid), cs);
      if (offset == 0.0) return well;
      std::vector<std::array<double, 4>> cw(npts - 1, std::array<double, 4>{offset, 0.0, 0.0, 0.0});
      return PSpline(well + PSpline(bspline::support::Support<double>::createWholeGrid(grid), cw));
    };
    const auto es = spline_potential::solveSEWithSplinePotential(make(depth, 0.0));
    const size_t nbasis = npts >= 12 ? npts - 11 : 0;
    report(id, "eigenpair_count", es.size() == std::min<size_t>(10, nbasis), fmt("returned %g eigenpairs, basis size %g", (double)es.size(), (double)nbasis));
    const auto es2 = spline_potential::solveSEWithSplinePotential(make(depth, shift));
    double worst = 0, scale = 1;
    for (size_t i = 0; i < std::min(es.size(), es2.size()); i++) {
      worst = std::max(worst, std::fabs(es2[i].energy - es[i].energy - shift));
      scale = std::max(scale, std::fabs(es[i].energy));
    }
    report(id, "shift", es.size() == es2.size() && worst <= 1e-8 * scale * std::max(1.0, std::fabs(shift)),
           fmt("c=%g max|E'(i)-E(i)-c|=%.3e scale=%.3e", shift, worst, scale));
  } catch (const std::exception &e) {
    report(id, "no_exception", false, e.what());
  }
}

int main(int argc, char **argv) {
  const unsigned long long seed = argc > 1 ? std::stoull(argv[1]) : 1;
  const std::string tier = argc > 2 ? argv[2] : "quick";
  for (int i = 3; i < argc; i++) skip.insert(argv[i]);
  std::mt19937_64 rng(seed);
  const bool thorough = tier == "thorough";

  // steady-state diffusion: 1..40 intervals, random positive piecewise-constant coefficient
  std::vector<size_t> sizes = thorough ? std::vector<size_t>{1, 2, 3, 5, 8, 13, 21, 30, 40} : std::vector<size_t>{1, 2, 5, 12};
  for (size_t n : sizes) {
    diffusionCase("diff_" + std::to_string(n), rng, n, false);
    diffusionCase("diffconst_" + std::to_string(n), rng, n, true);
  }
  // spline potential: interpolation grids on both sides of the ten-eigenvalue boundary (21 points)
  std::vector<size_t> grids = thorough ? std::vector<size_t>{8, 12, 13, 15, 20, 21, 22, 30, 45, 60} : std::vector<size_t>{12, 15, 21, 30};
  for (size_t n : grids) potentialCase("pot_" + std::to_string(n), n, 6.0, (n % 2) ? 2.5 : -1.25);

  // finite wells: the potential's support is a strict sub-window of the grid, a single interval, or empty
  wellCase("well_inner", 30, 8, 22, -2.0, 1.5);
  wellCase("well_left", 26, 0, 9, -1.0, -0.75);
  wellCase("well_one_interval", 24, 11, 13, -3.0, 2.0);
  wellCase("well_empty", 24, 0, 0, 0.0, 0.5);

  if (begin("harmonic")) {
    const auto es = harmonic_oscillator::solveHarmonicOscillator();
    double worst = 0;
    for (size_t i = 0; i < es.size(); i++) {
      const double an = (2.0 * i + 1) / 2;
      worst = std::max(worst, std::fabs((es[i].energy - an) / an));
    }
    report("harmonic", "eigenvalues_n_plus_half", !es.empty() && worst <= 1e-10, fmt("%g eigenvalues, worst relative error %.3e", (double)es.size(), worst));
  }
  if (begin("hydrogen")) {
    const auto es = hydrogen::solveRadialHydrogen();
    double worst = 0;
    for (size_t i = 0; i < es.size(); i++) {
      const double n = static_cast<double>(i + hydrogen::L + 1);
      const double an = -1.0 / (n * n);
      worst = std::max(worst, std::fabs((es[i].energy - an) / an));
    }
    report("hydrogen", "eigenvalues_minus_one_over_n_squared", !es.empty() && worst <= 1e-10, fmt("%g eigenvalues, worst relative error %.3e", (double)es.size(), worst));
  }
  std::printf("DONE\n");
  return 0;
}

// symops2.cpp — runs public operations of the library under test that BRANCH ON SCALAR VALUES over the
// symbolic scalar type of cpp/symkern_sym.h, concolically: every variable carries an exact rational
// shadow value that answers the comparisons; every comparison executed is recorded TOGETHER WITH ITS
// OUTCOME (the path condition) and printed with the object the operation returns.
// gen/symops2.py turns the output into coq/gen/PathGen_<family>.v:
//     forall variables, <path condition> -> <model operation on the same symbolic operands> = <result>.
//
// Build:  g++ -std=c++17 -O1 -I$VERIF_REPO/include cpp/symops2.cpp
//
// The scalar handed to the library is `PSym`, a wrapper around `Sym` with the same interface
// (default/copy construction, explicit construction from built-in integers, no construction from
// floating point, + - * / and compound forms, unary minus, the six comparisons); a comparison is
// delegated to Sym's (which records its text in g_sym.comparisons and answers from the shadow values)
// and the answer is recorded next to the text.  Only the public API of the library is used.
// Each scenario is run twice (first a decoy run with differently named variables) so that state kept
// between calls shows up as a foreign variable.
//
// Output, per scenario <name>, in this order:
//     VAL <name> <variable> <numerator> <denominator>     shadow value of every variable created
//     PRE <name> <0|1> <term> <op> <term>                 comparisons while the operands were built
//                                                         (Grid's monotonicity check: the invariant)
//     ARG <name> <tag> <object>                           one line per operand, read back from the object
//     CMP <name> <0|1> <term> <op> <term>                 comparisons of the operation under study
//     OP <name> <result>
// <object> ::= SCALAR <term> | LIST <n> <terms> | GRID <n> <terms> | SUPPORT <start> <end> <ngrid> <grid terms>
//            | SPLINE <order> <start> <end> <ngrid> <nintervals> <ncoef> <grid terms> <coefficient terms>
//            | BOUNDS <n> (<F|L> <derivative> <term>)* | COEFS <n> <m> <n*m terms>
// <result> ::= <object> (SCALAR, GRID, SUPPORT, SPLINE) | BOOL <0|1> | INDEX <n> | THROW <error code name>
//            | SPLINES <n> (<SPLINE ...> ;)*
//            | SYSTEM <n> <n*(n+1) terms row by row, each row followed by its right-hand side> RESULT <SPLINE ...>
//            | UNINIT <text> | EXCEPTION <what>
// Term syntax: see cpp/symkern_sym.h.
#include "symkern_sym.h"

// ---- the library under test: public interface only -------------------------------------------
#include <bspline/BSplineGenerator.h>
#include <bspline/Spline.h>
#include <bspline/exceptions/BSplineException.h>
#include <bspline/interpolation/interpolation.h>
#include <bspline/support/Grid.h>
#include <bspline/support/Support.h>

namespace bs = bspline;
using bs::Spline;
using bs::exceptions::BSplineException;

// ---------------------------------------------------------------------------
// PSym: Sym with a recorder that keeps the outcome of every comparison
// ---------------------------------------------------------------------------
struct PathEntry {
  std::string text;  // "<term> <op> <term>"
  bool outcome;
};
static std::vector<PathEntry> g_path;

class PSym {
  Sym _s;
  struct FromSym {};
  PSym(FromSym, Sym s) : _s(std::move(s)) {}
  static bool note(bool answer) {
    g_path.push_back(PathEntry{g_sym.comparisons.back(), answer});
    return answer;
  }

 public:
  PSym() = default;
  PSym(const PSym &) = default;
  PSym(PSym &&) = default;
  PSym &operator=(const PSym &) = default;
  PSym &operator=(PSym &&) = default;

  template <typename I, std::enable_if_t<std::is_integral_v<I>, bool> = true>
  explicit PSym(I i) : _s(i) {}
  template <typename D, std::enable_if_t<std::is_floating_point_v<D>, bool> = true>
  PSym(D) = delete;

  static PSym var(const std::string &name, const Rat &shadow) {
    return PSym(FromSym{}, Sym::var(name, shadow));
  }
  std::string str(bool *has_uninit = nullptr) const { return _s.str(has_uninit); }

  friend PSym operator+(const PSym &a, const PSym &b) { return PSym(FromSym{}, a._s + b._s); }
  friend PSym operator-(const PSym &a, const PSym &b) { return PSym(FromSym{}, a._s - b._s); }
  friend PSym operator*(const PSym &a, const PSym &b) { return PSym(FromSym{}, a._s * b._s); }
  friend PSym operator/(const PSym &a, const PSym &b) { return PSym(FromSym{}, a._s / b._s); }
  PSym operator-() const { return PSym(FromSym{}, -_s); }
  PSym &operator+=(const PSym &o) { _s += o._s; return *this; }
  PSym &operator-=(const PSym &o) { _s -= o._s; return *this; }
  PSym &operator*=(const PSym &o) { _s *= o._s; return *this; }
  PSym &operator/=(const PSym &o) { _s /= o._s; return *this; }

  friend bool operator==(const PSym &a, const PSym &b) { return note(a._s == b._s); }
  friend bool operator!=(const PSym &a, const PSym &b) { return note(a._s != b._s); }
  friend bool operator<(const PSym &a, const PSym &b) { return note(a._s < b._s); }
  friend bool operator<=(const PSym &a, const PSym &b) { return note(a._s <= b._s); }
  friend bool operator>(const PSym &a, const PSym &b) { return note(a._s > b._s); }
  friend bool operator>=(const PSym &a, const PSym &b) { return note(a._s >= b._s); }
};

using T = PSym;
using Grid = bs::support::Grid<T>;
using Support = bs::support::Support<T>;

// ---------------------------------------------------------------------------
// driver helpers
// ---------------------------------------------------------------------------
static Rat rat(long n, long d = 1) { return Rat(BigInt(n), BigInt(d)); }

struct Printed {
  std::string text;
  bool uninit = false;
};

static Printed describe(const T &x) {
  Printed p;
  p.text = "SCALAR " + x.str(&p.uninit);
  return p;
}
static Printed describe(bool b) {
  Printed p;
  p.text = std::string("BOOL ") + (b ? "1" : "0");
  return p;
}
static Printed describe_index(size_t i) {
  Printed p;
  p.text = "INDEX " + std::to_string(i);
  return p;
}
static Printed describe(const Grid &g) {
  Printed p;
  std::ostringstream os;
  os << "GRID " << g.size();
  for (size_t i = 0; i < g.size(); i++) os << " " << g[i].str(&p.uninit);
  p.text = os.str();
  return p;
}
static Printed describe(const Support &sup) {
  Printed p;
  const auto &grid = sup.getGrid();
  std::ostringstream os;
  os << "SUPPORT " << sup.getStartIndex() << " " << sup.getEndIndex() << " " << grid.size();
  for (size_t i = 0; i < grid.size(); i++) os << " " << grid[i].str(&p.uninit);
  p.text = os.str();
  return p;
}
static Printed describe_list(const std::vector<T> &v) {
  Printed p;
  std::ostringstream os;
  os << "LIST " << v.size();
  for (const auto &x : v) os << " " << x.str(&p.uninit);
  p.text = os.str();
  return p;
}
// the object as the public accessors show it
template <size_t order>
static Printed describe(const Spline<T, order> &s) {
  Printed p;
  const auto &sup = s.getSupport();
  const auto &grid = sup.getGrid();
  const auto &cs = s.getCoefficients();
  std::ostringstream os;
  os << "SPLINE " << order << " " << sup.getStartIndex() << " " << sup.getEndIndex() << " "
     << grid.size() << " " << cs.size() << " " << (order + 1);
  for (size_t i = 0; i < grid.size(); i++) os << " " << grid[i].str(&p.uninit);
  for (const auto &c : cs)
    for (const auto &x : c) os << " " << x.str(&p.uninit);
  p.text = os.str();
  return p;
}
template <size_t order>
static Printed describe(const std::vector<Spline<T, order>> &v) {
  Printed p;
  std::ostringstream os;
  os << "SPLINES " << v.size();
  for (const auto &s : v) {
    const Printed q = describe(s);
    p.uninit = p.uninit || q.uninit;
    os << " " << q.text << " ;";
  }
  p.text = os.str();
  return p;
}

static std::string g_var_prefix;  // "zz" during the decoy run

// shadow values of the standard grid points g0 < g1 < ... and of the positions of x relative to them
static Rat grid_shadow(size_t k) { return rat(10 * static_cast<long>(k) + 3, 7); }
static Rat between_shadow(size_t k) { return rat(10 * static_cast<long>(k) + 8, 7); }  // (g_k + g_k+1) / 2

struct Env {
  std::vector<std::string> lines;  // VAL / PRE / ARG, in order
  std::vector<std::string> names;
  std::unique_ptr<Grid> the_grid;
  int coef_counter = 0;
  bool begun = false;

  // a named variable with the given shadow value
  T var(const std::string &name, const Rat &shadow) {
    for (const auto &n : names)
      if (n == name) throw std::logic_error("variable " + name + " created twice");
    names.push_back(name);
    std::ostringstream os;
    os << "VAL " << name << " " << boost::multiprecision::numerator(shadow).str() << " "
       << boost::multiprecision::denominator(shadow).str();
    lines.push_back(os.str());
    return T::var(g_var_prefix + name, shadow);
  }
  // ... with a shadow value different from every other one (non-zero, not a grid point)
  T var(const std::string &name) {
    ++coef_counter;
    return var(name, rat(1000 + 37 * coef_counter, 101));
  }
  // comparisons made so far belong to the construction of the operands
  void flush_pre() {
    for (const auto &c : g_path) lines.push_back(std::string("PRE ") + (c.outcome ? "1 " : "0 ") + c.text);
    g_path.clear();
    g_sym.comparisons.clear();
  }
  void arg(const std::string &tag, const Printed &p) {
    if (p.uninit) throw std::logic_error("operand " + tag + " contains a default-constructed scalar");
    lines.push_back("ARG " + tag + " " + p.text);
  }

  // a grid of n points <prefix>0 < <prefix>1 < ... with the standard shadow values (or the given ones)
  // (Grid cannot be moved: the caller constructs it in place and then calls flush_pre())
  std::vector<T> grid_points(const std::string &prefix, size_t n, const std::vector<Rat> &shadows = {}) {
    std::vector<T> pts;
    for (size_t k = 0; k < n; k++)
      pts.push_back(var(prefix + std::to_string(k), shadows.empty() ? grid_shadow(k) : shadows.at(k)));
    return pts;
  }
  // the scenario's main grid g0 < g1 < g2 < g3 (one Grid object per scenario)
  const Grid &grid(size_t n = 4) {
    if (!the_grid) {
      the_grid.reset(new Grid(grid_points("g", n)));
      flush_pre();
    }
    if (the_grid->size() != n) throw std::logic_error("two sizes for the main grid");
    return *the_grid;
  }

  // a spline of the given order on the window [start, end) of gr; coefficient j of interval i is the
  // variable <tag><i><j>, with shadow value shadows[i * (order + 1) + j] if given
  template <size_t order>
  Spline<T, order> spl_on(const Grid &gr, const std::string &tag, size_t start, size_t end,
                          const std::vector<Rat> &shadows = {}) {
    Support sup(gr, start, end);
    std::vector<std::array<T, order + 1>> cs(sup.numberOfIntervals());
    for (size_t i = 0; i < cs.size(); i++)
      for (size_t j = 0; j < order + 1; j++) {
        const std::string nm = tag + std::to_string(i) + std::to_string(j);
        cs[i][j] = shadows.empty() ? var(nm) : var(nm, shadows.at(i * (order + 1) + j));
      }
    Spline<T, order> s(std::move(sup), std::move(cs));
    flush_pre();
    arg(tag, describe(s));
    return s;
  }
  template <size_t order>
  Spline<T, order> spl(const std::string &tag, size_t start, size_t end, const std::vector<Rat> &shadows = {}) {
    return spl_on<order>(grid(), tag, start, end, shadows);
  }
  T scalar(const std::string &tag, const Rat &shadow) {
    T x = var(tag, shadow);
    arg(tag, describe(x));
    return x;
  }
  std::vector<T> list(const std::string &tag, const std::string &prefix, const std::vector<Rat> &shadows) {
    std::vector<T> v;
    for (size_t k = 0; k < shadows.size(); k++) v.push_back(var(prefix + std::to_string(k), shadows[k]));
    arg(tag, describe_list(v));
    return v;
  }
  // from here on the operation under study runs
  void begin() {
    flush_pre();
    g_sym.shadow_trouble = false;
    begun = true;
  }
};

static Env *g_env = nullptr;

// Run `body` as the scenario `name`: first a decoy run whose variables are called zz<name> and whose
// result is discarded, then the real run.
template <typename Body>
static void scenario(const std::string &name, Body body) {
  auto run = [&](Env &e) -> Printed {
    g_path.clear();
    g_sym.comparisons.clear();
    g_env = &e;
    try {
      Printed r = body(e);
      g_env = nullptr;
      return r;
    } catch (const BSplineException &ex) {
      g_env = nullptr;
      if (!e.begun) throw;  // the operands could not be built
      Printed r;
      r.text = "THROW " + bs::exceptions::getErrorCodeName(ex.getErrorCode());
      return r;
    }
  };
  try {
    {
      g_var_prefix = "zz";
      Env decoy;
      (void)run(decoy);
    }
    g_var_prefix = "";
    Env e;
    Printed r = run(e);
    for (const auto &l : e.lines) {
      const auto sp = l.find(' ');
      std::cout << l.substr(0, sp) << " " << name << l.substr(sp) << "\n";
    }
    if (!e.begun) {
      std::cout << "OP " << name << " EXCEPTION the scenario never called Env::begin()\n";
      return;
    }
    for (const auto &c : g_path) std::cout << "CMP " << name << " " << (c.outcome ? "1 " : "0 ") << c.text << "\n";
    if (g_sym.shadow_trouble)
      std::cout << "OP " << name << " EXCEPTION division by a scalar whose shadow value is zero\n";
    else if (r.uninit)
      std::cout << "OP " << name << " UNINIT " << r.text << "\n";
    else
      std::cout << "OP " << name << " " << r.text << "\n";
  } catch (const std::exception &e) {
    g_env = nullptr;
    std::string w = e.what();
    std::replace(w.begin(), w.end(), '\n', ' ');
    std::cout << "OP " << name << " EXCEPTION " << w << "\n";
  } catch (...) {
    g_env = nullptr;
    std::cout << "OP " << name << " EXCEPTION unknown\n";
  }
}

// ---------------------------------------------------------------------------
// positions of x relative to the grid g0 < g1 < g2 < g3
// ---------------------------------------------------------------------------
struct Pos {
  std::string name;
  Rat shadow;
};
static std::vector<Pos> positions(size_t n) {
  std::vector<Pos> ps;
  ps.push_back(Pos{"lt0", rat(-4, 7)});
  for (size_t k = 0; k < n; k++) {
    ps.push_back(Pos{"at" + std::to_string(k), grid_shadow(k)});
    if (k + 1 < n) ps.push_back(Pos{"in" + std::to_string(k) + std::to_string(k + 1), between_shadow(k)});
  }
  ps.push_back(Pos{"gt" + std::to_string(n - 1), grid_shadow(n - 1) + rat(1, 7)});
  return ps;
}

struct Win {
  const char *name;
  size_t s, e;
};
static const Win WIN_WHOLE{"whole", 0, 4};  // [g0, g3]
static const Win WIN_G13{"g13", 1, 4};      // [g1, g3]
static const Win WIN_ONE{"one", 1, 3};      // [g1, g2]: one interval
static const Win WIN_POINT{"point", 2, 3};  // the single grid point g2: no interval
static const Win WIN_EMPTY{"empty", 0, 0};

// ---------------------------------------------------------------------------
// family eval (C02): Spline::operator()(x), front(), back()
// ---------------------------------------------------------------------------
template <size_t order>
static void eval_windows(std::initializer_list<Win> wins) {
  for (const Win &w : wins) {
    for (const Pos &p : positions(4)) {
      scenario("eval_at_" + std::to_string(order) + "_" + w.name + "_" + p.name, [&](Env &e) {
        const auto a = e.spl<order>("a", w.s, w.e);
        const T x = e.scalar("x", p.shadow);
        e.begin();
        return describe(a(x));
      });
    }
  }
}

static void family_eval() {
  eval_windows<1>({WIN_WHOLE, WIN_G13, WIN_ONE, WIN_POINT, WIN_EMPTY});
  eval_windows<2>({WIN_WHOLE, WIN_G13, WIN_ONE});
  // an object with a history: evaluated in its last interval, then assigned a spline of lower order
  // on a shorter window, then evaluated (at the end of the new support / inside it)
  for (const Pos &p : positions(4)) {
    if (p.name != "at2" && p.name != "in01" && p.name != "at0") continue;
    scenario("eval_reassigned_2_" + p.name, [&](Env &e) {
      auto a = e.spl<2>("a0", 0, 4);
      const T x1 = e.scalar("x1", between_shadow(2));
      (void)a(x1);
      const auto b = e.spl<1>("b", 0, 3);
      a = b;
      e.flush_pre();
      e.arg("a", describe(a));
      const T x = e.scalar("x", p.shadow);
      e.begin();
      return describe(a(x));
    });
  }
  for (const Win &w : {WIN_WHOLE, WIN_G13, WIN_ONE, WIN_POINT, WIN_EMPTY}) {
    scenario(std::string("eval_front_1_") + w.name, [&](Env &e) {
      const auto a = e.spl<1>("a", w.s, w.e);
      e.begin();
      return describe(a.front());
    });
    scenario(std::string("eval_back_1_") + w.name, [&](Env &e) {
      const auto a = e.spl<1>("a", w.s, w.e);
      e.begin();
      return describe(a.back());
    });
  }
}

// ---------------------------------------------------------------------------
// family grid (C11 / C13): Grid construction, findElement, operator== / !=
// ---------------------------------------------------------------------------
static void grid_ctor(const std::string &nm, const std::vector<Rat> &shadows) {
  scenario("grid_ctor_" + nm, [&](Env &e) {
    const std::vector<T> l = e.list("l", "p", shadows);
    e.begin();
    const Grid g(l);
    return describe(g);
  });
}

static void family_grid() {
  // construction: n points; strictly increasing, or the first violation is an equal pair / a descent
  // at position k (points k and k + 1); the points after the violation keep increasing
  grid_ctor("0", {});
  grid_ctor("1", {rat(3, 7)});
  for (size_t n = 2; n <= 4; n++) {
    std::vector<Rat> inc;
    for (size_t k = 0; k < n; k++) inc.push_back(grid_shadow(k));
    grid_ctor(std::to_string(n) + "_inc", inc);
    for (size_t k = 0; k + 1 < n; k++) {
      std::vector<Rat> eq = inc, desc = inc;
      eq[k + 1] = eq[k];
      desc[k + 1] = desc[k] - rat(1, 7);
      // keep the tail increasing after the violation
      for (size_t m = k + 2; m < n; m++) {
        eq[m] = eq[m - 1] + rat(10, 7);
        desc[m] = desc[m - 1] + rat(10, 7);
      }
      grid_ctor(std::to_string(n) + "_eq" + std::to_string(k), eq);
      grid_ctor(std::to_string(n) + "_desc" + std::to_string(k), desc);
    }
  }
  // the same through the iterator-pair and initializer-list constructors
  scenario("grid_ctor_iter_3_inc", [&](Env &e) {
    const std::vector<T> l = e.list("l", "p", {grid_shadow(0), grid_shadow(1), grid_shadow(2)});
    e.begin();
    const Grid g(l.begin(), l.end());
    return describe(g);
  });
  scenario("grid_ctor_init_3_desc1", [&](Env &e) {
    const std::vector<T> l = e.list("l", "p", {grid_shadow(0), grid_shadow(2), grid_shadow(1)});
    e.begin();
    const Grid g(std::initializer_list<T>{l[0], l[1], l[2]});
    return describe(g);
  });

  // validation of windows and of coefficient counts (no scalar is compared)
  struct SupCase { size_t s, e; };
  for (const SupCase &c : {SupCase{0, 4}, SupCase{1, 3}, SupCase{2, 3}, SupCase{0, 0}, SupCase{2, 2}, SupCase{3, 1},
                           SupCase{0, 5}, SupCase{4, 5}, SupCase{3, 4}}) {
    scenario("grid_supctor_" + std::to_string(c.s) + "_" + std::to_string(c.e), [&](Env &e) {
      const Grid &g = e.grid();
      e.arg("g", describe(g));
      e.begin();
      return describe(Support(g, c.s, c.e));
    });
  }
  struct SplCase { const char *name; size_t s, e, n; };
  for (const SplCase &c : {SplCase{"whole", 0, 4, 3}, SplCase{"whole", 0, 4, 2}, SplCase{"whole", 0, 4, 4},
                           SplCase{"whole", 0, 4, 0}, SplCase{"one", 1, 3, 1}, SplCase{"one", 1, 3, 0},
                           SplCase{"one", 1, 3, 2}, SplCase{"point", 2, 3, 0}, SplCase{"point", 2, 3, 1},
                           SplCase{"empty", 0, 0, 0}, SplCase{"empty", 0, 0, 1}}) {
    scenario(std::string("grid_splctor_") + c.name + "_" + std::to_string(c.n), [&](Env &e) {
      const Support sup(e.grid(), c.s, c.e);
      e.arg("sup", describe(sup));
      std::vector<std::array<T, 2>> cs(c.n);
      Printed p;
      std::ostringstream os;
      os << "COEFS " << c.n << " 2";
      for (size_t i = 0; i < c.n; i++)
        for (size_t j = 0; j < 2; j++) {
          cs[i][j] = e.var("c" + std::to_string(i) + std::to_string(j));
          os << " " << cs[i][j].str();
        }
      p.text = os.str();
      e.arg("cs", p);
      e.begin();
      return describe(Spline<T, 1>(sup, cs));
    });
  }

  // findElement
  for (const Pos &p : positions(4)) {
    scenario("grid_find_" + p.name, [&](Env &e) {
      const Grid &g = e.grid();
      e.arg("g", describe(g));
      const T x = e.scalar("x", p.shadow);
      e.begin();
      return describe_index(g.findElement(x));
    });
  }
  // ... on a grid of two points
  for (const Pos &p : positions(2)) {
    scenario("grid_find2_" + p.name, [&](Env &e) {
      const Grid &g = e.grid(2);
      e.arg("g", describe(g));
      const T x = e.scalar("x", p.shadow);
      e.begin();
      return describe_index(g.findElement(x));
    });
  }

  // operator== / != on separately built grids
  auto cmp = [&](const std::string &nm, size_t nh, int differ_at, bool negated) {
    scenario("grid_" + std::string(negated ? "ne_" : "eq_") + nm, [&](Env &e) {
      const Grid &g = e.grid();
      e.arg("g", describe(g));
      std::vector<Rat> sh;
      for (size_t k = 0; k < nh; k++) sh.push_back(grid_shadow(k));
      if (differ_at >= 0) sh.at(differ_at) += rat(1, 7);
      const Grid h(e.grid_points("h", nh, sh));
      e.flush_pre();
      e.arg("h", describe(h));
      e.begin();
      return describe(negated ? g != h : g == h);
    });
  };
  cmp("equal", 4, -1, false);
  cmp("diff0", 4, 0, false);
  cmp("diff1", 4, 1, false);
  cmp("diff2", 4, 2, false);
  cmp("diff3", 4, 3, false);
  cmp("shorter", 3, -1, false);
  cmp("equal", 4, -1, true);
  cmp("diff2", 4, 2, true);
  cmp("shorter", 3, -1, true);
  // the same object / a copy (shared data: pointer fast path)
  scenario("grid_eq_self", [&](Env &e) {
    const Grid &g = e.grid();
    e.arg("g", describe(g));
    e.begin();
    return describe(g == g);
  });
  scenario("grid_eq_copy", [&](Env &e) {
    const Grid &g = e.grid();
    e.arg("g", describe(g));
    const Grid h(g);
    e.begin();
    return describe(g == h);
  });
}

// ---------------------------------------------------------------------------
// family pred (C15): isZero, operator== / !=, checkOverlap
// ---------------------------------------------------------------------------
// shadow values of coefficients from a pattern string: '0' zero, anything else distinct non-zero
static std::vector<Rat> pattern(const std::string &pat, long salt = 0) {
  std::vector<Rat> v;
  long k = 0;
  for (char c : pat) {
    ++k;
    v.push_back(c == '0' ? rat(0) : rat(50 + 3 * k + salt, 11));
  }
  return v;
}

template <size_t order>
static void pred_iszero(const Win &w, const std::string &pat) {
  scenario("pred_iszero_" + std::to_string(order) + "_" + w.name + (pat.empty() ? "" : "_" + pat), [&](Env &e) {
    const auto a = e.spl<order>("a", w.s, w.e, pattern(pat));
    e.begin();
    return describe(a.isZero());
  });
}

template <size_t order>
static void pred_equal(const std::string &nm, const Win &wa, const Win &wb, const std::string &pata,
                       const std::string &patb, int other_grid /* -1 same object, 0 equal points, 1 differs */,
                       bool negated) {
  scenario("pred_" + std::string(negated ? "ne_" : "eq_") + std::to_string(order) + "_" + nm, [&](Env &e) {
    // equal letters in the two patterns give equal shadow values
    const auto a = e.spl<order>("a", wa.s, wa.e, pattern(pata));
    std::vector<Rat> shb = pattern(patb);
    for (size_t k = 0; k < shb.size() && k < pata.size(); k++)
      if (patb[k] != pata[k] && patb[k] != '0') shb[k] += rat(1, 11);
    if (other_grid < 0) {
      const auto b = e.spl<order>("b", wb.s, wb.e, shb);
      e.begin();
      return describe(negated ? a != b : a == b);
    }
    std::vector<Rat> sh;
    for (size_t k = 0; k < 4; k++) sh.push_back(grid_shadow(k));
    if (other_grid > 0) sh[2] += rat(1, 7);
    const Grid h(e.grid_points("h", 4, sh));
    e.flush_pre();
    const auto b = e.spl_on<order>(h, "b", wb.s, wb.e, shb);
    e.begin();
    return describe(negated ? a != b : a == b);
  });
}

template <size_t oa, size_t ob>
static void pred_overlap(const std::string &nm, const Win &wa, const Win &wb) {
  scenario("pred_overlap_" + std::to_string(oa) + std::to_string(ob) + "_" + nm, [&](Env &e) {
    const auto a = e.spl<oa>("a", wa.s, wa.e);
    const auto b = e.spl<ob>("b", wb.s, wb.e);
    e.begin();
    return describe(a.checkOverlap(b));
  });
}

static void family_pred() {
  const Win W03{"g02", 0, 3};  // two intervals
  pred_iszero<1>(W03, "0000");
  pred_iszero<1>(W03, "a000");
  pred_iszero<1>(W03, "0a00");  // only the leading coefficient of the first interval
  pred_iszero<1>(W03, "00a0");
  pred_iszero<1>(W03, "000a");  // only the very last coefficient
  pred_iszero<1>(W03, "abcd");
  pred_iszero<1>(WIN_EMPTY, "");
  pred_iszero<1>(WIN_POINT, "");
  pred_iszero<2>(WIN_WHOLE, "000000000");
  pred_iszero<2>(WIN_WHOLE, "00000000a");
  pred_iszero<2>(WIN_WHOLE, "00a000000");
  pred_iszero<0>(WIN_ONE, "0");
  pred_iszero<0>(WIN_ONE, "a");

  pred_equal<1>("same", W03, W03, "abcd", "abcd", -1, false);
  pred_equal<1>("first", W03, W03, "abcd", "xbcd", -1, false);
  pred_equal<1>("last", W03, W03, "abcd", "abcx", -1, false);
  pred_equal<1>("zeros", W03, W03, "0000", "0000", -1, false);
  pred_equal<1>("window", W03, WIN_G13, "abcd", "abcd", -1, false);
  pred_equal<1>("shorter", W03, WIN_ONE, "abcd", "ab", -1, false);
  pred_equal<1>("empty", WIN_EMPTY, WIN_EMPTY, "", "", -1, false);
  pred_equal<1>("emptypoint", WIN_EMPTY, WIN_POINT, "", "", -1, false);
  pred_equal<1>("eqgrid", W03, W03, "abcd", "abcd", 0, false);
  pred_equal<1>("eqgridlast", W03, W03, "abcd", "abcx", 0, false);
  pred_equal<1>("diffgrid", W03, W03, "abcd", "abcd", 1, false);
  pred_equal<2>("same", WIN_ONE, WIN_ONE, "abc", "abc", -1, false);
  pred_equal<2>("middle", WIN_ONE, WIN_ONE, "abc", "axc", -1, false);
  pred_equal<1>("same", W03, W03, "abcd", "abcd", -1, true);
  pred_equal<1>("last", W03, W03, "abcd", "abcx", -1, true);
  pred_equal<1>("window", W03, WIN_G13, "abcd", "abcd", -1, true);
  pred_equal<1>("diffgrid", W03, W03, "abcd", "abcd", 1, true);

  const Win W02{"g01", 0, 2}, W13{"g12", 1, 3}, W24{"g23", 2, 4}, W14{"g13", 1, 4};
  pred_overlap<1, 1>("ident", W03, W03);
  pred_overlap<1, 1>("ainb", W13, WIN_WHOLE);
  pred_overlap<1, 1>("bina", WIN_WHOLE, W13);
  pred_overlap<1, 1>("stag", W03, W14);
  pred_overlap<1, 1>("stagrev", W14, W03);
  pred_overlap<1, 1>("touch", W02, W13);
  pred_overlap<1, 1>("touchrev", W13, W02);
  pred_overlap<1, 1>("disj", W02, W24);
  pred_overlap<1, 1>("disjrev", W24, W02);
  pred_overlap<1, 1>("aempty", WIN_EMPTY, W14);
  pred_overlap<1, 1>("bempty", W03, WIN_EMPTY);
  pred_overlap<1, 1>("apoint", WIN_POINT, W03);
  pred_overlap<1, 1>("bpoint", W03, WIN_POINT);
  pred_overlap<1, 2>("stag", W03, W14);
  pred_overlap<2, 0>("touch", W02, W13);
  pred_overlap<0, 2>("disjrev", W24, W02);
}

// ---------------------------------------------------------------------------
// family interp (C12): interpolate<T, order, Solver> with a recording solver
// ---------------------------------------------------------------------------
// The solver records the dense system it was handed (entries never written stay static_cast<T>(0):
// the documented contract of ISolver) and "solves" it by returning fresh variables s0, s1, ...
struct SolverLog {
  static std::vector<std::vector<T>> &M() { static std::vector<std::vector<T>> m; return m; }
  static std::vector<T> &b() { static std::vector<T> v; return v; }
  static bool &solved() { static bool f = false; return f; }
};

class RecSolver final : public bs::interpolation::internal::ISolver<T> {
  size_t _n;
  std::vector<std::vector<T>> _M;
  std::vector<T> _b, _x;

 public:
  explicit RecSolver(size_t n) : _n(n), _M(n, std::vector<T>(n, T(0))), _b(n, T(0)), _x(n, T(0)) {}
  T &M(size_t i, size_t j) override { return _M.at(i).at(j); }
  T &b(size_t i) override { return _b.at(i); }
  T &x(size_t i) override { return _x.at(i); }
  void solve() override {
    if (SolverLog::solved()) throw std::logic_error("solve() called twice");
    SolverLog::M() = _M;
    SolverLog::b() = _b;
    SolverLog::solved() = true;
    for (size_t i = 0; i < _n; i++) _x[i] = g_env->var("s" + std::to_string(i));
  }
};

using Bnd = bs::interpolation::Boundary<T>;
using INode = bs::interpolation::Node;  // (`Node` is the term node of symkern_sym.h)
struct BndSpec {
  INode node;
  size_t derivative;
};

template <size_t order>
static Printed interp_result(const Spline<T, order> &r) {
  if (!SolverLog::solved()) throw std::logic_error("the solver was never asked to solve");
  Printed p;
  const auto &M = SolverLog::M();
  const auto &b = SolverLog::b();
  std::ostringstream os;
  os << "SYSTEM " << M.size();
  for (size_t i = 0; i < M.size(); i++) {
    if (M[i].size() != M.size()) throw std::logic_error("the recorded matrix is not square");
    for (const auto &v : M[i]) os << " " << v.str(&p.uninit);
    os << " " << b.at(i).str(&p.uninit);
  }
  const Printed q = describe(r);
  p.uninit = p.uninit || q.uninit;
  os << " RESULT " << q.text;
  p.text = os.str();
  return p;
}

// abscissae: the window [s, e) of a grid of five points; ny ordinates y0, y1, ...; `user` boundary
// conditions with symbolic values v0, v1, ... (none: the default argument)
template <size_t order>
static void interp_case(const std::string &nm, size_t s, size_t e_, size_t ny, const std::vector<BndSpec> *user) {
  scenario("interp_" + std::to_string(order) + "_" + nm, [&](Env &e) {
    SolverLog::solved() = false;
    const Grid &g = e.grid(5);
    Support x(g, s, e_);
    e.flush_pre();
    e.arg("x", describe(x));
    std::vector<Rat> ysh;
    for (size_t k = 0; k < ny; k++) ysh.push_back(rat(20 + 3 * static_cast<long>(k), 13));
    const std::vector<T> y = e.list("y", "y", ysh);
    if (!user) {
      e.begin();
      return interp_result(bs::interpolation::interpolate<T, order, RecSolver>(x, y));
    }
    std::array<Bnd, order - 1> bnds;
    if (user->size() != order - 1) throw std::logic_error("wrong number of boundary conditions");
    std::ostringstream os;
    os << "BOUNDS " << (order - 1);
    for (size_t k = 0; k < order - 1; k++) {
      const T v = e.var("v" + std::to_string(k), rat(7 + 2 * static_cast<long>(k), 5));
      bnds[k] = Bnd{(*user)[k].node, (*user)[k].derivative, v};
      os << " " << ((*user)[k].node == INode::FIRST ? "F" : "L") << " " << (*user)[k].derivative << " " << v.str();
    }
    Printed bp;
    bp.text = os.str();
    e.arg("bs", bp);
    e.begin();
    return interp_result(bs::interpolation::interpolate<T, order, RecSolver>(x, y, bnds));
  });
}

static void family_interp() {
  struct W { const char *name; size_t s, e; };
  const W wins[] = {{"w03", 0, 3}, {"w04", 0, 4}, {"w14", 1, 4}, {"w15", 1, 5}};
  const std::vector<BndSpec> u2{{INode::LAST, 1}};
  const std::vector<BndSpec> u2b{{INode::FIRST, 2}};
  const std::vector<BndSpec> u3{{INode::LAST, 2}, {INode::FIRST, 3}};
  const std::vector<BndSpec> u3b{{INode::LAST, 1}, {INode::LAST, 3}};
  for (const W &w : wins) {
    interp_case<1>(std::string(w.name) + "_default", w.s, w.e, w.e - w.s, nullptr);
    interp_case<2>(std::string(w.name) + "_default", w.s, w.e, w.e - w.s, nullptr);
    interp_case<2>(std::string(w.name) + "_user", w.s, w.e, w.e - w.s, &u2);
    interp_case<3>(std::string(w.name) + "_default", w.s, w.e, w.e - w.s, nullptr);
    interp_case<3>(std::string(w.name) + "_user", w.s, w.e, w.e - w.s, &u3);
  }
  interp_case<2>("w13_userfirst", 1, 3, 2, &u2b);
  interp_case<3>("w13_userlast", 1, 3, 2, &u3b);
  // refused: wrong number of ordinates, a single abscissa, no abscissa, unsupported derivative orders
  const std::vector<BndSpec> bad0{{INode::FIRST, 0}};
  const std::vector<BndSpec> bad3{{INode::LAST, 3}};
  const std::vector<BndSpec> bad34{{INode::FIRST, 1}, {INode::LAST, 4}};
  interp_case<1>("w03_short", 0, 3, 2, nullptr);
  interp_case<2>("w03_long", 0, 3, 4, nullptr);
  interp_case<1>("point", 2, 3, 1, nullptr);
  interp_case<2>("empty", 0, 0, 0, nullptr);
  interp_case<2>("w03_deriv0", 0, 3, 3, &bad0);
  interp_case<2>("w03_deriv3", 0, 3, 3, &bad3);
  interp_case<3>("w14_deriv4", 1, 4, 3, &bad34);
}

// ---------------------------------------------------------------------------
// family gen (C01): generateBSplines<p>(knots)
// ---------------------------------------------------------------------------
template <size_t order>
static void gen_case(const std::string &nm, const std::vector<Rat> &shadows) {
  scenario("gen_" + std::to_string(order) + "_" + nm, [&](Env &e) {
    const std::vector<T> knots = e.list("knots", "k", shadows);
    e.begin();
    return describe(bs::generateBSplines<order>(knots));
  });
}

static void family_gen() {
  auto ks = [](std::initializer_list<long> v) {
    std::vector<Rat> r;
    for (long x : v) r.push_back(rat(10 * x + 3, 7));
    return r;
  };
  gen_case<0>("simple3", ks({0, 1, 2}));
  gen_case<0>("rep12", ks({0, 1, 1, 2}));
  gen_case<0>("desc", ks({0, 2, 1}));
  gen_case<1>("simple3", ks({0, 1, 2}));
  gen_case<1>("simple4", ks({0, 1, 2, 3}));
  gen_case<1>("rep01", ks({0, 0, 1, 2}));
  gen_case<1>("rep12", ks({0, 1, 1, 2}));
  gen_case<1>("rep23", ks({0, 1, 2, 2}));
  gen_case<1>("few", ks({0}));
  gen_case<2>("simple4", ks({0, 1, 2, 3}));
  gen_case<2>("rep01", ks({0, 0, 1, 2}));
  gen_case<2>("rep12", ks({0, 1, 1, 2, 3}));
  gen_case<2>("rep012", ks({0, 0, 0, 1, 2}));
  gen_case<2>("allequal", ks({1, 1, 1, 1}));
  gen_case<2>("desc", ks({0, 1, 3, 2}));
}

int main(int argc, char **argv) {
  std::cout << std::unitbuf;  // a crash must not lose the lines already printed
  const std::string only = argc > 1 ? argv[1] : "";
  if (only.empty() || only == "eval") family_eval();
  if (only.empty() || only == "grid") family_grid();
  if (only.empty() || only == "pred") family_pred();
  if (only.empty() || only == "interp") family_interp();
  if (only.empty() || only == "gen") family_gen();
  std::cout << "END\n";
  return 0;
}

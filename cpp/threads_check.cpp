// threads_check.cpp — concurrent read-only use (C18).
// N threads simultaneously evaluate, copy, combine, transform, integrate and destroy splines,
// supports, generators, operators and forms that share grids or are themselves shared as const
// objects.  Every thread's results are compared bit for bit with a sequential run of the same
// work.  Built plain and with -fsanitize=thread.
// Usage: threads_check <seed> <tier>
#include <bspline/Core.h>

#include <atomic>
#include <cstdint>
#include <cstdio>
#include <cstring>
#include <random>
#include <string>
#include <thread>
#include <vector>

using namespace bspline;
using namespace bspline::operators;
using bspline::integration::BilinearForm;
using bspline::integration::LinearForm;
using bspline::support::Grid;
using bspline::support::Support;

template <typename T>
static auto makeHamilton(const Spline<T, 1> &v) {
  return static_cast<T>(-1) / static_cast<T>(2) * Dx<2>{} + SplineOperator{v};
}

template <typename T>
struct Shared {
  Grid<T> grid;
  std::vector<T> knots;
  std::vector<Spline<T, 3>> basis;       // shared const
  Spline<T, 1> potential;                // shared const, used as operator factor
  BSplineGenerator<T> generator;         // shared const
  BilinearForm<IdentityOperator, IdentityOperator> overlap{};
  // operators and forms with run-time state, themselves shared as const objects; the splines they are applied to live
  // on two different grid storages (the generated basis has its own, equal, grid; the potential lives on `grid`)
  Spline<T, 1> other;                    // lives on a logically different grid
  decltype(SplineOperator{std::declval<Spline<T, 1>>()}) vop;
  decltype(BilinearForm{makeHamilton(std::declval<Spline<T, 1>>())}) hshared;
  decltype(LinearForm{SplineOperator{std::declval<Spline<T, 1>>()}}) vlin;
  Shared(Grid<T> g, std::vector<T> k, Spline<T, 1> v)
      : grid(g), knots(k), basis(bspline::generateBSplines<3>(k)), potential(std::move(v)), generator(k, g),
        other(makeOther(potential)), vop(potential), hshared(makeHamilton(potential)), vlin(SplineOperator{potential}) {}
  static Spline<T, 1> makeOther(const Spline<T, 1> &v) {
    std::vector<T> pts;
    for (const auto &x : v.getSupport()) pts.push_back(x + static_cast<T>(1) / static_cast<T>(3));
    Grid<T> g2(pts);
    return Spline<T, 1>(Support<T>::createWholeGrid(g2), v.getCoefficients());
  }
};

template <typename T>
static uint64_t bits(const T &x) {
  long double y = static_cast<long double>(x);
  unsigned char buf[sizeof(long double)] = {0};
  std::memcpy(buf, &y, 10);      // the 80 significant bits of x87 long double
  uint64_t h = 1469598103934665603ull;
  for (unsigned char c : buf) { h ^= c; h *= 1099511628211ull; }
  return h;
}

// P: a position power that no earlier part of the process has used (first use happens concurrently)
template <typename T, size_t P>
static std::vector<uint64_t> work(const Shared<T> &sh, unsigned tid, unsigned rounds) {
  std::vector<uint64_t> out;
  std::mt19937 rng(1234567u + tid);
  const size_t nb = sh.basis.size();
  const auto hamilton = static_cast<T>(-1) / static_cast<T>(2) * Dx<2>{} + SplineOperator{sh.potential};
  const BilinearForm hform{hamilton};
  const LinearForm lform{X<1>{}};
  const LinearForm pform{X<P>{}};
  for (unsigned r = 0; r < rounds; r++) {
    const size_t i = rng() % nb, j = rng() % nb;
    const Spline<T, 3> &a = sh.basis[i];
    const Spline<T, 3> &b = sh.basis[j];
    // evaluate
    const T x = sh.grid[rng() % sh.grid.size()] + static_cast<T>(static_cast<int>(rng() % 7)) / static_cast<T>(16);
    out.push_back(bits(a(x)));
    // copy, combine, destroy
    {
      Spline<T, 3> c = a;                       // copy shares the grid (reference count)
      Spline<T, 3> d = c + b;
      d -= a;
      auto p = a * b;                           // order 6
      out.push_back(bits(d(x)));
      out.push_back(bits(p(x)));
      out.push_back(a.isZero() ? 1u : 0u);      // function-local static
      out.push_back(a.checkOverlap(b) ? 1u : 0u);
      Support<T> u = a.getSupport().calcUnion(b.getSupport());
      Support<T> w = a.getSupport().calcIntersection(b.getSupport());
      out.push_back(u.size() * 1000 + w.size());
      Grid<T> gcopy = sh.grid;                  // copies and destructions of the shared grid handle
      out.push_back(gcopy == a.getSupport().getGrid() ? 1u : 0u);
    }
    // transform
    {
      const auto t = (X<1>{} * Dx<1>{} - static_cast<T>(2) * IdentityOperator{}) * a;
      out.push_back(bits(t(x)));
      const auto v = SplineOperator{sh.potential} * b;
      out.push_back(bits(v(x)));
      // shared operator objects, alternately on the two grid storages
      const auto sv1 = sh.vop * b;
      const auto sv2 = sh.vop * sh.potential;
      out.push_back(bits(sv1(x)));
      out.push_back(bits(sv2(x)));
      out.push_back(bits(sh.hshared(a, b)));
      out.push_back(bits(sh.vlin(sh.potential)));
      out.push_back(bits(sh.vlin(a)));
      const auto hp = X<P>{} * a;               // higher position power (binomial coefficients)
      out.push_back(bits(hp(x)));
      out.push_back(bits(pform(b)));
    }
    // integrate
    out.push_back(bits(sh.overlap(a, b)));
    out.push_back(bits(hform(a, b)));
    out.push_back(bits(lform(a)));
    // documented error cases, hit by all threads at once: the exception objects and their texts are per call
    {
      auto text = [&](const std::exception &e) {
        uint64_t h = 1469598103934665603ull;
        for (const char *p = e.what(); *p; p++) { h ^= static_cast<unsigned char>(*p); h *= 1099511628211ull; }
        out.push_back(h);
      };
      try { (void)Support<T>::createEmpty(sh.grid).front(); out.push_back(0); } catch (const std::exception &e) { text(e); }
      try { (void)a.getSupport().at(a.getSupport().size() + r); out.push_back(0); } catch (const std::exception &e) { text(e); }
      try { (void)(a + sh.potential * sh.other); out.push_back(0); } catch (const std::exception &e) { text(e); }
      try { (void)bspline::generateBSplines<3>(std::vector<T>{static_cast<T>(0), static_cast<T>(1)}); out.push_back(0); } catch (const std::exception &e) { text(e); }
    }
    // generate (const member of a shared generator)
    if (r % 8 == 0) {
      const auto fresh = sh.generator.template generateBSplines<2>();
      out.push_back(bits(fresh[i % fresh.size()](x)));
      const auto lc = linearCombination(std::vector<T>{static_cast<T>(2), static_cast<T>(-1)},
                                        std::vector<Spline<T, 3>>{a, b});
      out.push_back(bits(lc(x)));
    }
  }
  return out;
}

template <typename T, size_t P>
static int runThreads(const char *tname, unsigned nthreads, unsigned rounds, bool thorough, const Shared<T> &sh0, const Grid<T> &grid,
                      const std::vector<T> &knots, const std::vector<std::array<T, 2>> &vc);

template <typename T>
static int run(const char *tname, unsigned seed, bool thorough) {
  std::mt19937 rng(seed);
  std::vector<T> pts;
  T x = static_cast<T>(-4);
  const size_t n = 12 + rng() % 6;
  for (size_t i = 0; i < n; i++) { pts.push_back(x); x += static_cast<T>(1 + static_cast<int>(rng() % 5)) / static_cast<T>(4); }
  std::vector<T> knots;
  for (size_t i = 0; i < n; i++) {
    const int mult = (i == 0 || i + 1 == n) ? 4 : 1 + static_cast<int>(rng() % 2);
    for (int m = 0; m < mult; m++) knots.push_back(pts[i]);
  }
  Grid<T> grid(pts);
  std::vector<std::array<T, 2>> vc;
  for (size_t i = 0; i + 1 < n; i++) vc.push_back({static_cast<T>(static_cast<int>(rng() % 9) - 4) / 8, static_cast<T>(static_cast<int>(rng() % 5) - 2) / 4});
  const Shared<T> sh0(grid, knots, Spline<T, 1>(Support<T>::createWholeGrid(grid), vc));
  const unsigned rounds = thorough ? 400 : 120;
  int failures = 0;
  // every thread count works with its own position power, so that its first use in the process is concurrent
  failures += runThreads<T, 2>(tname, 2u, rounds, thorough, sh0, grid, knots, vc);
  failures += runThreads<T, 3>(tname, 3u, rounds, thorough, sh0, grid, knots, vc);
  failures += runThreads<T, 4>(tname, 4u, rounds, thorough, sh0, grid, knots, vc);
  failures += runThreads<T, 6>(tname, 8u, rounds, thorough, sh0, grid, knots, vc);
  failures += runThreads<T, 8>(tname, 16u, rounds, thorough, sh0, grid, knots, vc);
  return failures;
}

template <typename T, size_t P>
static int runThreads(const char *tname, unsigned nthreads, unsigned rounds, bool thorough, const Shared<T> &sh0, const Grid<T> &grid,
                      const std::vector<T> &knots, const std::vector<std::array<T, 2>> &vc) {
  int failures = 0;
  std::vector<std::vector<std::vector<uint64_t>>> gots;
  {
    for (unsigned rep = 0; rep < (thorough ? 6u : 2u); rep++) {
      // the objects shared by the concurrent run are FRESH: nothing has been called on them yet, so lazily
      // initialised or cached state (if any) is first touched concurrently; on odd repetitions the generator
      // and the splines are copies of the reference objects (copies share whatever the originals share).
      // The concurrent runs come BEFORE the sequential reference, so process-wide state is first touched
      // concurrently as well.
      const Shared<T> fresh(grid, knots, Spline<T, 1>(Support<T>::createWholeGrid(grid), vc));
      const Shared<T> copied(sh0);
      const Shared<T> &sh = (rep % 2 == 0) ? fresh : copied;
      std::vector<std::vector<uint64_t>> got(nthreads);
      std::vector<std::thread> th;
      std::atomic<unsigned> go{0};
      for (unsigned t = 0; t < nthreads; t++)
        th.emplace_back([&, t] {
          go.fetch_add(1);
          while (go.load() < nthreads) {}      // start together
          got[t] = work<T, P>(sh, t, rounds);
        });
      for (auto &t : th) t.join();
      gots.push_back(std::move(got));
    }
    // sequential reference (on its own set of shared objects)
    std::vector<std::vector<uint64_t>> ref;
    for (unsigned t = 0; t < nthreads; t++) ref.push_back(work<T, P>(sh0, t, rounds));
    for (unsigned rep = 0; rep < gots.size(); rep++) {
      const auto &got = gots[rep];
      size_t mism = 0, total = 0;
      for (unsigned t = 0; t < nthreads; t++) {
        total += ref[t].size();
        if (got[t].size() != ref[t].size()) { mism++; continue; }
        for (size_t k = 0; k < ref[t].size(); k++) mism += got[t][k] != ref[t][k];
      }
      std::printf("TH %s threads=%u rep=%u results=%zu mismatches=%zu %s\n", tname, nthreads, rep, total, mism, mism ? "FAIL" : "OK");
      std::fflush(stdout);
      failures += mism != 0;
    }
  }
  return failures;
}

int main(int argc, char **argv) {
  const unsigned seed = argc > 1 ? static_cast<unsigned>(std::stoull(argv[1])) : 1u;
  const bool thorough = argc > 2 && std::string(argv[2]) == "thorough";
  int f = run<double>("double", seed, thorough);
  f += run<long double>("long_double", seed + 1, thorough);
  std::printf("DONE %d\n", f);
  return f ? 1 : 0;
}

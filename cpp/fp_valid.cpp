// fp_valid.cpp — validation of floating-point special values (C11, double tier).
// Reads the case file; for every line "XGrid n v1..vn" / "XGen n v1..vn" constructs
// Grid<double> / BSplineGenerator<double> from /repo's current headers and prints the outcome.
#include <bspline/Core.h>

#include <cstdio>
#include <fstream>
#include <iostream>
#include <limits>
#include <sstream>
#include <string>
#include <vector>

static double parseValue(const std::string &t) {
  if (t == "nan") return std::numeric_limits<double>::quiet_NaN();
  if (t == "inf") return std::numeric_limits<double>::infinity();
  if (t == "-inf") return -std::numeric_limits<double>::infinity();
  const auto p = t.find('/');
  if (p == std::string::npos) return std::stod(t);
  return std::stod(t.substr(0, p)) / std::stod(t.substr(p + 1));
}

int main(int argc, char **argv) {
  if (argc < 2) return 2;
  std::ifstream in(argv[1]);
  std::string line, caseId;
  int idx = 0;
  while (std::getline(in, line)) {
    std::istringstream is(line);
    std::string op;
    if (!(is >> op)) continue;
    if (op == "CASE") { is >> caseId; idx = 0; continue; }
    if (op == "END") continue;
    idx++;
    size_t n = 0;
    is >> n;
    std::vector<double> v;
    for (size_t i = 0; i < n; i++) { std::string t; is >> t; v.push_back(parseValue(t)); }
    std::string res;
    try {
      if (op == "XGrid") {
        bspline::support::Grid<double> g(v);
        res = "OK";
      } else if (op == "XGen") {
        bspline::BSplineGenerator<double> g(v);
        res = "OK";
      } else {
        res = "PARSE_ERROR";
      }
    } catch (const bspline::exceptions::BSplineException &e) {
      res = "THROW " + bspline::exceptions::getErrorCodeName(e.getErrorCode());
    } catch (const std::exception &e) {
      res = std::string("OTHER ") + e.what();
    }
    std::printf("%s.%d %s\n", caseId.c_str(), idx, res.c_str());
  }
  return 0;
}

// harness.h — support code for the generated correspondence programs.
// Uses only the public API of the library under test ($VERIF_REPO/include).
#ifndef VERIF_HARNESS_H
#define VERIF_HARNESS_H

#include <boost/multiprecision/cpp_int.hpp>

#include <array>
#include <cstdint>
#include <cstdio>
#include <exception>
#include <iostream>
#include <limits>
#include <optional>
#include <sstream>
#include <stdexcept>
#include <string>
#include <type_traits>
#include <vector>

// ---------------------------------------------------------------------------
// Arch: the archetype scalar.  It offers exactly the operations the library
// documents for its scalar type T: default/copy construction, explicit
// construction from built-in integers (static_cast<T>(int)), + - * / with
// compound forms, unary minus, the six comparisons.  No implicit conversion
// from numbers, no <cmath>, no numeric_limits, no streaming.  Arithmetic is
// exact (boost cpp_rational).  `rep()` is for the harness printer only.
// ---------------------------------------------------------------------------
class Arch {
 public:
  using Rat = boost::multiprecision::cpp_rational;

 private:
  Rat _v;
  // every object carries its own serial number, which takes no part in any operation: two equal scalars never have
  // the same object representation, so code that compares, hashes or copies scalars bytewise instead of through the
  // documented operations is exposed
  unsigned long long _serial = next_serial();
  static unsigned long long next_serial() { static unsigned long long n = 0x5EED0000ull; return ++n; }
  struct FromRat {};
  Arch(FromRat, Rat v) : _v(std::move(v)) {}

 public:
  // a default-constructed scalar has NO documented value: poison it, so that code relying on T() == 0 is exposed
  Arch() : _v(Rat(boost::multiprecision::cpp_int("982451653"), boost::multiprecision::cpp_int("1000003"))) {}
  Arch(const Arch &o) : _v(o._v) {}
  Arch(Arch &&o) noexcept : _v(std::move(o._v)) {}
  Arch &operator=(const Arch &o) { _v = o._v; return *this; }
  Arch &operator=(Arch &&o) noexcept { _v = std::move(o._v); return *this; }
  template <typename I, std::enable_if_t<std::is_integral_v<I>, bool> = true>
  explicit Arch(I i) : _v(static_cast<long long>(i)) {
    if constexpr (std::is_unsigned_v<I>) {
      _v = Rat(boost::multiprecision::cpp_int(static_cast<unsigned long long>(i)));
    }
  }
  template <typename D, std::enable_if_t<std::is_floating_point_v<D>, bool> = true>
  Arch(D) = delete;

  static Arch make(const std::string &num, const std::string &den = "1") {
    return Arch(FromRat{}, Rat(boost::multiprecision::cpp_int(num),
                               boost::multiprecision::cpp_int(den)));
  }
  const Rat &rep() const { return _v; }

  Arch &operator+=(const Arch &o) { _v += o._v; return *this; }
  Arch &operator-=(const Arch &o) { _v -= o._v; return *this; }
  Arch &operator*=(const Arch &o) { _v *= o._v; return *this; }
  Arch &operator/=(const Arch &o) {
    if (o._v == 0) throw std::overflow_error("Arch: division by zero");
    _v /= o._v;
    return *this;
  }
  friend Arch operator+(const Arch &a, const Arch &b) { Arch r(a); r += b; return r; }
  friend Arch operator-(const Arch &a, const Arch &b) { Arch r(a); r -= b; return r; }
  friend Arch operator*(const Arch &a, const Arch &b) { Arch r(a); r *= b; return r; }
  friend Arch operator/(const Arch &a, const Arch &b) { Arch r(a); r /= b; return r; }
  Arch operator-() const { return Arch(FromRat{}, -_v); }
  friend bool operator==(const Arch &a, const Arch &b) { return a._v == b._v; }
  friend bool operator!=(const Arch &a, const Arch &b) { return a._v != b._v; }
  friend bool operator<(const Arch &a, const Arch &b) { return a._v < b._v; }
  friend bool operator<=(const Arch &a, const Arch &b) { return a._v <= b._v; }
  friend bool operator>(const Arch &a, const Arch &b) { return a._v > b._v; }
  friend bool operator>=(const Arch &a, const Arch &b) { return a._v >= b._v; }
};

// WrapD: a second archetype with the same minimal interface, over double.  A program instantiated
// with WrapD must produce bit-identical results to the same program instantiated with double: the
// library may use nothing of `double` beyond the documented operations.
class WrapD {
  double _v;
  struct Raw {};
  WrapD(Raw, double v) : _v(v) {}

 public:
  WrapD() : _v(std::numeric_limits<double>::quiet_NaN()) {}   // no documented default value: poison
  WrapD(const WrapD &) = default;
  WrapD &operator=(const WrapD &) = default;
  template <typename I, std::enable_if_t<std::is_integral_v<I>, bool> = true>
  explicit WrapD(I i) : _v(static_cast<double>(i)) {}
  template <typename D, std::enable_if_t<std::is_floating_point_v<D>, bool> = true>
  WrapD(D) = delete;
  static WrapD raw(double v) { return WrapD(Raw{}, v); }
  double rep() const { return _v; }
  WrapD &operator+=(const WrapD &o) { _v += o._v; return *this; }
  WrapD &operator-=(const WrapD &o) { _v -= o._v; return *this; }
  WrapD &operator*=(const WrapD &o) { _v *= o._v; return *this; }
  WrapD &operator/=(const WrapD &o) { _v /= o._v; return *this; }
  friend WrapD operator+(const WrapD &a, const WrapD &b) { return raw(a._v + b._v); }
  friend WrapD operator-(const WrapD &a, const WrapD &b) { return raw(a._v - b._v); }
  friend WrapD operator*(const WrapD &a, const WrapD &b) { return raw(a._v * b._v); }
  friend WrapD operator/(const WrapD &a, const WrapD &b) { return raw(a._v / b._v); }
  WrapD operator-() const { return raw(-_v); }
  friend bool operator==(const WrapD &a, const WrapD &b) { return a._v == b._v; }
  friend bool operator!=(const WrapD &a, const WrapD &b) { return a._v != b._v; }
  friend bool operator<(const WrapD &a, const WrapD &b) { return a._v < b._v; }
  friend bool operator<=(const WrapD &a, const WrapD &b) { return a._v <= b._v; }
  friend bool operator>(const WrapD &a, const WrapD &b) { return a._v > b._v; }
  friend bool operator>=(const WrapD &a, const WrapD &b) { return a._v >= b._v; }
};

// The archetype really is minimal: no implicit conversions from built-in numbers,
// no numeric_limits, no stream output.
static_assert(!std::is_convertible_v<int, Arch> && !std::is_convertible_v<double, Arch> &&
              !std::is_convertible_v<Arch, double> && !std::is_constructible_v<Arch, double>);
static_assert(!std::numeric_limits<Arch>::is_specialized && !std::numeric_limits<WrapD>::is_specialized);
static_assert(!std::is_convertible_v<double, WrapD> && !std::is_convertible_v<int, WrapD> && !std::is_convertible_v<WrapD, double>);

#ifdef VERIF_EIGEN
#define BSPLINE_INTERPOLATION_USE_EIGEN 1
#endif
#include <bspline/Core.h>
#include <bspline/interpolation/interpolation.h>
#if defined(VERIF_FP) && !defined(VERIF_NO_QUAD)
#define VERIF_QUAD 1
#include <algorithm>
#include <bspline/integration/numerical.h>
#endif

namespace vh {

#ifdef VERIF_FP
using S = VERIF_FP;   // rounding tier: float, double or long double (inputs are exactly representable)
#else
using S = Arch;       // exact tier
#endif
using bspline::Spline;
using bspline::support::Grid;
using bspline::support::Support;
using namespace bspline::operators;
using bspline::integration::BilinearForm;
using bspline::integration::LinearForm;
using bspline::exceptions::BSplineException;
using bspline::exceptions::ErrorCode;

// scalar I/O, selected by the scalar type (exact fractions / hex floats)
template <typename T, typename = void>
struct ScalarIO;
template <>
struct ScalarIO<Arch> {
  static Arch make(const char *n, const char *d) { return Arch::make(n, d); }
  static std::string str(const Arch &x) {
    const auto &r = x.rep();
    auto num = boost::multiprecision::numerator(r);
    auto den = boost::multiprecision::denominator(r);
    std::string s = num.str();
    if (den != 1) s += "/" + den.str();
    return s;
  }
};
template <typename T>
struct ScalarIO<T, std::enable_if_t<std::is_floating_point_v<T>>> {
  static T make(const char *n, const char *d) {
    return static_cast<T>(static_cast<T>(std::stold(n)) / static_cast<T>(std::stold(d)));
  }
  static std::string str(const T &x) {
    char buf[96];
    if constexpr (std::is_same_v<T, long double>) {
      std::snprintf(buf, sizeof buf, "%La", x);
    } else {
      std::snprintf(buf, sizeof buf, "%a", static_cast<double>(x));
    }
    return buf;
  }
};

template <>
struct ScalarIO<WrapD> {
  static WrapD make(const char *n, const char *d) { return WrapD::raw(ScalarIO<double>::make(n, d)); }
  static std::string str(const WrapD &x) { return ScalarIO<double>::str(x.rep()); }
};

inline S Q(const char *n, const char *d = "1") { return ScalarIO<S>::make(n, d); }

// ---------- canonical printing ----------
struct Out {
  std::ostringstream os;
  void tag(const char *t) { os << ' ' << t; }
  void n(unsigned long long v) { os << ' ' << v; }
  void f(const S &x) { os << ' ' << ScalarIO<S>::str(x); }
  void b(bool v) { tag(v ? "true" : "false"); }
  void opt(const std::optional<size_t> &o) {
    if (o) { tag("SOME"); n(*o); } else { tag("NONE"); }
  }
  void grid(const Grid<S> &g) {
    tag("GRID");
    n(g.size());
    for (size_t i = 0; i < g.size(); i++) f(g[i]);
  }
  void sup(const Support<S> &s) {
    tag("SUP");
    n(s.getStartIndex());
    n(s.getEndIndex());
    n(s.size());
    n(s.numberOfIntervals());
    grid(s.getGrid());
  }
  template <size_t order>
  void spl(const Spline<S, order> &s) {
    tag("SPL");
    n(order);
    sup(s.getSupport());
    const auto &cs = s.getCoefficients();
    n(cs.size());
    for (const auto &c : cs) {
      n(c.size());
      for (const auto &x : c) f(x);
    }
  }
  void show(const Grid<S> &g) { grid(g); }
  void show(const Support<S> &s) { sup(s); }
  template <size_t order>
  void show(const Spline<S, order> &s) { spl(s); }
  template <size_t size>
  void arr(const std::array<S, size> &a) {
    tag("LIST");
    n(size);
    for (const auto &x : a) f(x);
  }
};

inline const char *codeName(ErrorCode c) {
  switch (c) {
    case ErrorCode::DIFFERING_GRIDS: return "DIFFERING_GRIDS";
    case ErrorCode::INCONSISTENT_DATA: return "INCONSISTENT_DATA";
    case ErrorCode::MISSING_DATA: return "MISSING_DATA";
    case ErrorCode::INVALID_ACCESS: return "INVALID_ACCESS";
    case ErrorCode::UNDETERMINED: return "UNDETERMINED";
  }
  return "UNKNOWN_CODE";
}

struct Unbound {};  // an operand slot was never bound (an earlier line failed)

template <typename O>
auto &req(O &o) {
  if (!o) throw Unbound{};
  return *o;
}

// Runs one line: prints "<case>.<idx> <outcome>".
template <typename Fn>
void line(const char *caseId, int idx, Fn &&fn) {
  Out out;
  std::string res;
  try {
    fn(out);
    res = "OK" + out.os.str();
  } catch (const Unbound &) {
    res = "UB IllTyped";
  } catch (const BSplineException &e) {
    res = std::string("THROW ") + codeName(e.getErrorCode());
  } catch (const std::bad_optional_access &) {
    res = "THROW BadOptionalAccess";
  } catch (const std::out_of_range &) {
    res = "THROW StdOutOfRange";
  } catch (const std::overflow_error &) {
    res = "UB DivByZero";
  } catch (const std::exception &e) {
    res = std::string("OTHER ") + e.what();
  } catch (...) {
    res = "OTHER unknown";
  }
  std::printf("%s.%d %s\n", caseId, idx, res.c_str());
  std::fflush(stdout);
}

// ---------- recording exact solver for interpolate ----------
// Gauss–Jordan elimination with the first non-zero pivot (the same algorithm
// as Solver.v); a singular system yields the zero vector.
struct SolverLog {
  static std::vector<std::vector<S>> &M() { static std::vector<std::vector<S>> m; return m; }
  static std::vector<S> &b() { static std::vector<S> v; return v; }
};

class RecSolver final : public bspline::interpolation::internal::ISolver<S> {
  size_t _n;
  std::vector<std::vector<S>> _M;
  std::vector<S> _b, _x;

 public:
  explicit RecSolver(size_t n)
      : _n(n), _M(n, std::vector<S>(n, S(0))), _b(n, S(0)), _x(n, S(0)) {}
  S &M(size_t i, size_t j) override { return _M.at(i).at(j); }
  S &b(size_t i) override { return _b.at(i); }
  S &x(size_t i) override { return _x.at(i); }
  void solve() override {
    SolverLog::M() = _M;
    SolverLog::b() = _b;
    std::vector<std::vector<S>> a(_n, std::vector<S>(_n + 1, S(0)));
    for (size_t i = 0; i < _n; i++) {
      for (size_t j = 0; j < _n; j++) a[i][j] = _M[i][j];
      a[i][_n] = _b[i];
    }
    bool singular = false;
    for (size_t k = 0; k < _n && !singular; k++) {
      size_t p = k;
      while (p < _n && a[p][k] == S(0)) p++;
      if (p == _n) { singular = true; break; }
      std::swap(a[k], a[p]);
      const S inv = S(1) / a[k][k];
      for (auto &v : a[k]) v *= inv;
      for (size_t i = 0; i < _n; i++) {
        if (i == k) continue;
        const S c = a[i][k];
        if (c == S(0)) continue;
        for (size_t j = 0; j <= _n; j++) a[i][j] -= c * a[k][j];
      }
    }
    for (size_t i = 0; i < _n; i++) _x[i] = singular ? S(0) : a[i][_n];
  }
};

inline void printSystem(Out &out) {
  const auto &M = SolverLog::M();
  const auto &b = SolverLog::b();
  out.tag("LIST");
  out.n(M.size());
  for (size_t i = 0; i < M.size(); i++) {
    out.tag("ROW");
    for (const auto &v : M[i]) out.f(v);
    out.f(b[i]);
  }
}

}  // namespace vh

#endif  // VERIF_HARNESS_H

// symops.cpp — runs WHOLE PUBLIC OPERATIONS of the library under test over the symbolic scalar type
// `Sym` (cpp/symkern_sym.h) on small symbolic objects and prints the object each one returns.
// gen/symops.py turns the output into coq/gen/OpsGen_<family>.v.
//
// Build:  g++ -std=c++17 -O1 -I$VERIF_REPO/include cpp/symops.cpp
//
// Every scenario works on a grid of four symbolic points g0 < g1 < g2 < g3 (the order is known to
// the shadow values only, it is needed to get through Grid's monotonicity check).  Splines have
// concrete windows [start, end) and orders; every coefficient is a named variable.  Only the public
// API is used (no access-specifier tricks).  The comparison recorder is reset by Env::begin() after
// the operands exist, immediately before the operation under study; an operation that compares
// scalar values is reported as BRANCH, because then the printed result would not describe the
// computation for every scalar value.  The one exception: `t == t` for two syntactically identical
// terms (Grid::operator== on two distinct Grid objects holding the same points, scenarios *_eqgrid)
// has the same answer for every scalar value of an ordered field and is not counted - the model
// decides the same test by reflexivity of == (list_eqb_refl in coq/Proofs_OpsTac.v).
// Each scenario is run twice (first a decoy run with differently named variables) so that state
// kept between calls shows up as a foreign variable.
//
// Output, per scenario <name>:
//     ARG <name> <tag> <object>          one line per operand, read back from the constructed object
//     OP <name> <object>                 the result
//   | OP <name> BRANCH [<comparison>] ...
//   | OP <name> UNINIT <object>          (a result depends on a default-constructed scalar)
//   | OP <name> EXCEPTION <what>
// <object> ::= SCALAR <term>
//            | SPLINE <order> <start> <end> <ngrid> <nintervals> <ncoef> <grid terms> <coefficient terms>
// Term syntax: see cpp/symkern_sym.h.
#include "symkern_sym.h"

// ---- the library under test: public interface only -------------------------------------------
#include <bspline/Spline.h>
#include <bspline/integration/BilinearForm.h>
#include <bspline/integration/LinearForm.h>
#include <bspline/operators/CompoundOperators.h>
#include <bspline/operators/Derivative.h>
#include <bspline/operators/GenericOperators.h>
#include <bspline/operators/Position.h>
#include <bspline/operators/ScalarOperators.h>
#include <bspline/operators/SplineOperator.h>
#include <bspline/support/Grid.h>
#include <bspline/support/Support.h>

namespace bs = bspline;
using bs::Spline;
using bs::integration::BilinearForm;
using bs::integration::LinearForm;
using bs::operators::Dx;
using bs::operators::IdentityOperator;
using bs::operators::SplineOperator;
using bs::operators::X;

// ---------------------------------------------------------------------------
// driver helpers
// ---------------------------------------------------------------------------
static int g_var_counter = 0;
static std::string g_var_prefix;  // "zz" during the decoy run
// variables get distinct, increasing, non-integral shadow values (so g0 < g1 < g2 < g3)
static Sym fresh(const std::string &name) {
  ++g_var_counter;
  return Sym::var(g_var_prefix + name, Rat(BigInt(1000 + 37 * g_var_counter), BigInt(101)));
}

struct Printed {
  std::string text;
  bool uninit = false;
};

static Printed describe(const Sym &x) {
  Printed p;
  p.text = "SCALAR " + x.str(&p.uninit);
  return p;
}

// the object as the public accessors show it
template <size_t order>
static Printed describe(const Spline<Sym, order> &s) {
  Printed p;
  const auto &sup = s.getSupport();
  const auto &grid = sup.getGrid();
  const auto &cs = s.getCoefficients();
  std::ostringstream os;
  os << "SPLINE " << order << " " << sup.getStartIndex() << " " << sup.getEndIndex() << " "
     << grid.size() << " " << cs.size() << " " << (order + 1);
  for (size_t i = 0; i < grid.size(); i++) os << " " << grid[i].str(&p.uninit);
  for (const auto &c : cs)
    for (const auto &x : c) os << " " << x.str(&p.uninit);
  p.text = os.str();
  return p;
}

struct Env {
  bs::support::Grid<Sym> grid;
  std::vector<std::string> args;
  bool begun = false;

  Env() : grid(std::vector<Sym>{fresh("g0"), fresh("g1"), fresh("g2"), fresh("g3")}) {}

  // a distinct Grid object holding the same points (no shared data pointer)
  bs::support::Grid<Sym> equal_grid() const {
    return bs::support::Grid<Sym>(std::vector<Sym>(grid.begin(), grid.end()));
  }

  // a spline of the given order on the window [start, end) of the grid; coefficient j of
  // interval i is the variable <tag><i><j>
  template <size_t order>
  Spline<Sym, order> spl(const std::string &tag, size_t start, size_t end) {
    return spl_on<order>(grid, tag, start, end);
  }
  template <size_t order>
  Spline<Sym, order> spl_on(const bs::support::Grid<Sym> &gr, const std::string &tag, size_t start,
                            size_t end) {
    bs::support::Support<Sym> sup(gr, start, end);
    std::vector<std::array<Sym, order + 1>> cs(sup.numberOfIntervals());
    for (size_t i = 0; i < cs.size(); i++)
      for (size_t j = 0; j < order + 1; j++)
        cs[i][j] = fresh(tag + std::to_string(i) + std::to_string(j));
    Spline<Sym, order> s(std::move(sup), std::move(cs));
    args.push_back(tag + " " + describe(s).text);
    return s;
  }
  // a scalar variable
  Sym scalar(const std::string &tag) {
    Sym x = fresh(tag);
    args.push_back(tag + " " + describe(x).text);
    return x;
  }
  // a scalar operand given by an expression (e.g. static_cast<Sym>(-1) / static_cast<Sym>(2))
  Sym konst(const std::string &tag, const Sym &x) {
    args.push_back(tag + " " + describe(x).text);
    return x;
  }
  // from here on the operation under study runs: no scalar comparison may happen
  void begin() {
    g_sym.comparisons.clear();
    g_sym.shadow_trouble = false;
    begun = true;
  }
};

// `t == t` on syntactically identical terms (terms contain no " == ")
static bool reflexive_equality(const std::string &c) {
  const std::string sep = " == ";
  const auto p = c.find(sep);
  return p != std::string::npos && c.substr(0, p) == c.substr(p + sep.size());
}

// Run `body` as the scenario `name`: first a decoy run whose variables are called zz<name> and whose
// result is discarded, then the real run.
template <typename Body>
static void scenario(const std::string &name, Body body) {
  try {
    {
      g_var_counter = 100;
      g_var_prefix = "zz";
      Env decoy;
      (void)body(decoy);
    }
    g_var_counter = 0;
    g_var_prefix = "";
    g_sym.comparisons.clear();
    Env e;
    Printed r = body(e);
    for (const auto &a : e.args) std::cout << "ARG " << name << " " << a << "\n";
    std::vector<std::string> branches;
    for (const auto &c : g_sym.comparisons)
      if (!reflexive_equality(c)) branches.push_back(c);
    if (!e.begun || !branches.empty()) {
      // (a body that forgot Env::begin() still carries the grid's comparisons: reported, too)
      std::cout << "OP " << name << " BRANCH";
      for (const auto &c : branches) std::cout << " [" << c << "]";
      std::cout << "\n";
    } else if (r.uninit) {
      std::cout << "OP " << name << " UNINIT " << r.text << "\n";
    } else {
      std::cout << "OP " << name << " " << r.text << "\n";
    }
  } catch (const std::exception &e) {
    std::string w = e.what();
    std::replace(w.begin(), w.end(), '\n', ' ');
    std::cout << "OP " << name << " EXCEPTION " << w << "\n";
  } catch (...) {
    std::cout << "OP " << name << " EXCEPTION unknown\n";
  }
}

// ---------------------------------------------------------------------------
// windows
// ---------------------------------------------------------------------------
struct Place {
  const char *name;
  size_t as, ae, bs, be;  // [as, ae) for a, [bs, be) for b
};
static const Place PLACES[] = {
    {"ident", 0, 3, 0, 3},   // identical windows
    {"ainb", 1, 3, 0, 4},    // a inside b
    {"bina", 0, 4, 1, 3},    // b inside a
    {"stag", 0, 3, 1, 4},    // staggered overlap
    {"touch", 0, 2, 1, 3},   // one common grid point
    {"disj", 0, 2, 2, 4},    // disjoint, one interval between them
    {"aempty", 0, 0, 1, 4},  // a empty
    {"bempty", 0, 3, 0, 0},  // b empty
    {"apoint", 1, 2, 0, 3},  // a consists of one grid point
};
static const Place &place(const std::string &n) {
  for (const auto &p : PLACES)
    if (n == p.name) return p;
  throw std::logic_error("no placement " + n);
}

struct Win {
  const char *name;
  size_t s, e;
};
static const Win WIN_G13{"g13", 1, 4};      // [g1, g3]
static const Win WIN_WHOLE{"whole", 0, 4};  // [g0, g3]

// ---------------------------------------------------------------------------
// family arith (C03)
// ---------------------------------------------------------------------------
template <size_t oa, size_t ob>
static void arith_binary(const std::string &tag, std::initializer_list<const char *> places) {
  for (const char *pn : places) {
    const Place p = place(pn);
    scenario("arith_add_" + tag + "_" + pn, [&](Env &e) {
      const auto a = e.spl<oa>("a", p.as, p.ae);
      const auto b = e.spl<ob>("b", p.bs, p.be);
      e.begin();
      return describe(a + b);
    });
    scenario("arith_sub_" + tag + "_" + pn, [&](Env &e) {
      const auto a = e.spl<oa>("a", p.as, p.ae);
      const auto b = e.spl<ob>("b", p.bs, p.be);
      e.begin();
      return describe(a - b);
    });
    scenario("arith_mul_" + tag + "_" + pn, [&](Env &e) {
      const auto a = e.spl<oa>("a", p.as, p.ae);
      const auto b = e.spl<ob>("b", p.bs, p.be);
      e.begin();
      return describe(a * b);
    });
  }
}

template <size_t oa, size_t ob>
static void arith_inplace(const std::string &tag, std::initializer_list<const char *> places) {
  for (const char *pn : places) {
    const Place p = place(pn);
    scenario("arith_iadd_" + tag + "_" + pn, [&](Env &e) {
      auto a = e.spl<oa>("a", p.as, p.ae);
      const auto b = e.spl<ob>("b", p.bs, p.be);
      e.begin();
      a += b;
      return describe(a);
    });
    scenario("arith_isub_" + tag + "_" + pn, [&](Env &e) {
      auto a = e.spl<oa>("a", p.as, p.ae);
      const auto b = e.spl<ob>("b", p.bs, p.be);
      e.begin();
      a -= b;
      return describe(a);
    });
  }
}

template <size_t oa>
static void arith_scalar(const std::string &tag, const Win &w) {
  const std::string suffix = tag + "_" + w.name;
  scenario("arith_scalel_" + suffix, [&](Env &e) {
    const auto a = e.spl<oa>("a", w.s, w.e);
    const Sym c = e.scalar("c");
    e.begin();
    return describe(c * a);
  });
  scenario("arith_scale_" + suffix, [&](Env &e) {
    const auto a = e.spl<oa>("a", w.s, w.e);
    const Sym c = e.scalar("c");
    e.begin();
    return describe(a * c);
  });
  scenario("arith_div_" + suffix, [&](Env &e) {
    const auto a = e.spl<oa>("a", w.s, w.e);
    const Sym c = e.scalar("c");
    e.begin();
    return describe(a / c);
  });
  scenario("arith_neg_" + suffix, [&](Env &e) {
    const auto a = e.spl<oa>("a", w.s, w.e);
    e.begin();
    return describe(-a);
  });
  scenario("arith_imul_" + suffix, [&](Env &e) {
    auto a = e.spl<oa>("a", w.s, w.e);
    const Sym c = e.scalar("c");
    e.begin();
    a *= c;
    return describe(a);
  });
  scenario("arith_idiv_" + suffix, [&](Env &e) {
    auto a = e.spl<oa>("a", w.s, w.e);
    const Sym c = e.scalar("c");
    e.begin();
    a /= c;
    return describe(a);
  });
}

static void family_arith() {
  arith_binary<1, 1>("11", {"ident", "ainb", "bina", "stag", "touch", "disj", "aempty", "bempty", "apoint"});
  arith_binary<1, 2>("12", {"ainb", "stag", "disj"});
  arith_binary<0, 2>("02", {"bina", "stag", "touch"});
  arith_inplace<1, 1>("11", {"stag", "touch"});
  arith_inplace<2, 1>("21", {"ainb", "disj"});
  arith_scalar<1>("1", Win{"g02", 0, 3});
  arith_scalar<2>("2", WIN_G13);

  // the same object on both sides of an in-place operation
  scenario("arith_iadd_11_self", [&](Env &e) {
    auto a = e.spl<1>("a", 0, 3);
    e.begin();
    a += a;
    return describe(a);
  });
  scenario("arith_isub_11_self", [&](Env &e) {
    auto a = e.spl<1>("a", 0, 3);
    e.begin();
    a -= a;
    return describe(a);
  });
  // assignment from a spline of lower order
  scenario("arith_assignup_21_g13", [&](Env &e) {
    auto a = e.spl<2>("a", 0, 2);
    const auto b = e.spl<1>("b", 1, 4);
    e.begin();
    a = b;
    return describe(a);
  });
  scenario("arith_assignup_20_empty", [&](Env &e) {
    auto a = e.spl<2>("a", 0, 4);
    const auto b = e.spl<0>("b", 0, 0);
    e.begin();
    a = b;
    return describe(a);
  });
  // operands on two distinct Grid objects holding the same points (slow path of Grid::operator==)
  scenario("arith_add_11_eqgrid", [&](Env &e) {
    const auto a = e.spl<1>("a", 0, 3);
    const auto b = e.spl_on<1>(e.equal_grid(), "b", 1, 4);
    e.begin();
    return describe(a + b);
  });
  scenario("arith_mul_11_eqgrid", [&](Env &e) {
    const auto a = e.spl<1>("a", 0, 3);
    const auto b = e.spl_on<1>(e.equal_grid(), "b", 1, 4);
    e.begin();
    return describe(a * b);
  });

  // linearCombination of three order-1 splines, collection overload
  scenario("arith_lincomb_overlap", [&](Env &e) {
    std::vector<Spline<Sym, 1>> ss;
    ss.push_back(e.spl<1>("s", 0, 3));
    ss.push_back(e.spl<1>("t", 1, 4));
    ss.push_back(e.spl<1>("u", 1, 3));
    const std::vector<Sym> cs{e.scalar("c0"), e.scalar("c1"), e.scalar("c2")};
    e.begin();
    return describe(bs::linearCombination(cs, ss));
  });
  // ... with a gap between the windows and an empty spline, iterator overload
  scenario("arith_lincomb_gap", [&](Env &e) {
    std::vector<Spline<Sym, 1>> ss;
    ss.push_back(e.spl<1>("s", 2, 4));
    ss.push_back(e.spl<1>("t", 0, 0));
    ss.push_back(e.spl<1>("u", 0, 2));
    const std::vector<Sym> cs{e.scalar("c0"), e.scalar("c1"), e.scalar("c2")};
    e.begin();
    return describe(bs::linearCombination(cs.begin(), cs.end(), ss.begin(), ss.end()));
  });
}

// ---------------------------------------------------------------------------
// family apply (C04 / C05): operator * spline on an order-2 spline
// ---------------------------------------------------------------------------
// SETUP creates further operands (through e), OPEXPR is the operator expression (an rvalue)
#define APPLY(NM, SETUP, OPEXPR) APPLY_ON(NM, (std::vector<Win>{WIN_G13, WIN_WHOLE}), SETUP, OPEXPR)
#define APPLY_ON(NM, WINS, SETUP, OPEXPR)                                   \
  for (const Win &w : WINS) {                                               \
    scenario(std::string("apply_") + NM + "_" + w.name, [&](Env &e) {       \
      const auto a = e.spl<2>("a", w.s, w.e);                               \
      SETUP;                                                                \
      e.begin();                                                            \
      return describe((OPEXPR)*a);                                          \
    });                                                                     \
  }

static void family_apply() {
  APPLY("id", , IdentityOperator{})
  APPLY("dx1", , Dx<1>{})
  APPLY("dx2", , Dx<2>{})
  APPLY("dx3", , Dx<3>{})
  APPLY("x1", , X<1>{})
  APPLY("x2", , X<2>{})
  APPLY("x1dx1", , X<1>{} * Dx<1>{})
  APPLY("dx1x1", , Dx<1>{} * X<1>{})
  APPLY("comm", , X<1>{} * Dx<1>{} - Dx<1>{} * X<1>{})
  APPLY("hamil", const Sym mh = e.konst("mh", static_cast<Sym>(-1) / static_cast<Sym>(2));
        const Sym ph = e.konst("ph", static_cast<Sym>(1) / static_cast<Sym>(2)),
        mh * Dx<2>{} + ph * X<2>{})
  APPLY("int3x1", , 3 * X<1>{})
  APPLY("x1div2", , X<1>{} / 2)
  APPLY("x1mulc", const Sym c = e.scalar("c"), X<1>{} * c)
  APPLY("x1plusc", const Sym c = e.scalar("c"), X<1>{} + c)
  APPLY("cplusx1", const Sym c = e.scalar("c"), c + X<1>{})
  APPLY("x1minusc", const Sym c = e.scalar("c"), X<1>{} - c)
  APPLY("cminusdx1", const Sym c = e.scalar("c"), c - Dx<1>{})
  APPLY("x1divc", const Sym c = e.scalar("c"), X<1>{} / c)
  APPLY("negx1", , -X<1>{})
  APPLY("splv", const auto v = e.spl<1>("v", 0, 3), SplineOperator{v})
  APPLY("splvdx1", const auto v = e.spl<1>("v", 0, 3), SplineOperator{v} * Dx<1>{})
  // splines without intervals: empty window, one grid point
  const std::vector<Win> degenerate{Win{"empty", 0, 0}, Win{"point", 2, 3}};
  APPLY_ON("dx1", degenerate, , Dx<1>{})
  APPLY_ON("x1", degenerate, , X<1>{})
  APPLY_ON("splv", degenerate, const auto v = e.spl<1>("v", 0, 3), SplineOperator{v})
  // the spline factor lives on a distinct Grid object holding the same points
  APPLY_ON("splveq", (std::vector<Win>{WIN_WHOLE}),
           const auto v = e.spl_on<1>(e.equal_grid(), "v", 0, 3), SplineOperator{v})
}

// ---------------------------------------------------------------------------
// family bilin (C06)
// ---------------------------------------------------------------------------
// fn(e, a, b, callop) builds the form and evaluates it
template <size_t oa, size_t ob, typename Fn>
static void bilin_orders(const std::string &nm, const std::string &tag, bool with_call, Fn fn) {
  static const Place places[] = {
      {"nest", 0, 4, 1, 3}, {"anest", 1, 3, 0, 4}, {"stag", 1, 4, 0, 3}, {"disj", 0, 2, 2, 4}};
  for (const Place &p : places) {
    scenario("bilin_" + nm + "_" + tag + "_" + p.name, [&](Env &e) {
      const auto a = e.spl<oa>("a", p.as, p.ae);
      const auto b = e.spl<ob>("b", p.bs, p.be);
      return describe(fn(e, a, b, false));
    });
  }
  if (with_call) {
    const Place &p = places[0];
    scenario("bilin_" + nm + "_" + tag + "_call", [&](Env &e) {
      const auto a = e.spl<oa>("a", p.as, p.ae);
      const auto b = e.spl<ob>("b", p.bs, p.be);
      return describe(fn(e, a, b, true));
    });
  }
}
template <typename Fn>
static void bilin_all(const std::string &nm, Fn fn) {
  bilin_orders<1, 1>(nm, "11", true, fn);
  bilin_orders<2, 1>(nm, "21", false, fn);
  bilin_orders<1, 2>(nm, "12", false, fn);
}
// the arguments after SETUP are the constructor arguments of BilinearForm
#define BILIN(NM, SETUP, ...)                                              \
  bilin_all(NM, [](Env &e, const auto &a, const auto &b, bool callop) {    \
    SETUP;                                                                 \
    const BilinearForm bf{__VA_ARGS__};                                    \
    e.begin();                                                             \
    return callop ? bf(a, b) : bf.evaluate(a, b);                          \
  });

static void family_bilin() {
  BILIN("id_id", , IdentityOperator{}, IdentityOperator{})
  BILIN("dx1_id", , Dx<1>{}, IdentityOperator{})
  BILIN("dx1_dx1", , Dx<1>{}, Dx<1>{})
  BILIN("x1_id", , X<1>{}, IdentityOperator{})
  BILIN("id_x2", , X<2>{})  // one-argument constructor: the left operator is the identity
  BILIN("x1dx1_dx1", , X<1>{} * Dx<1>{}, Dx<1>{})
  BILIN("splv_id", const auto v = e.template spl<1>("v", 0, 3), SplineOperator{v}, IdentityOperator{})
  BILIN("hamv_id", const auto v = e.template spl<1>("v", 0, 3);
        const Sym mh = e.konst("mh", static_cast<Sym>(-1) / static_cast<Sym>(2)),
        mh * Dx<2>{} + SplineOperator{v}, IdentityOperator{})
  // the right spline lives on a distinct Grid object holding the same points
  scenario("bilin_x1_id_11_eqgrid", [&](Env &e) {
    const auto a = e.spl<1>("a", 1, 4);
    const auto b = e.spl_on<1>(e.equal_grid(), "b", 0, 3);
    const BilinearForm bf{X<1>{}, IdentityOperator{}};
    e.begin();
    return describe(bf.evaluate(a, b));
  });
}

// ---------------------------------------------------------------------------
// family lin (C07)
// ---------------------------------------------------------------------------
template <size_t oa, typename Fn>
static void lin_orders(const std::string &nm, const std::string &tag, bool with_call, Fn fn) {
  for (const Win &w : {WIN_WHOLE, WIN_G13}) {
    scenario("lin_" + nm + "_" + tag + "_" + w.name, [&](Env &e) {
      const auto a = e.spl<oa>("a", w.s, w.e);
      return describe(fn(e, a, false));
    });
  }
  if (with_call) {
    scenario("lin_" + nm + "_" + tag + "_call", [&](Env &e) {
      const auto a = e.spl<oa>("a", WIN_WHOLE.s, WIN_WHOLE.e);
      return describe(fn(e, a, true));
    });
  }
}
#define LIN(NM, SETUP, ...)                                      \
  {                                                              \
    auto fn = [](Env &e, const auto &a, bool callop) {           \
      SETUP;                                                     \
      const LinearForm lf{__VA_ARGS__};                          \
      e.begin();                                                 \
      return callop ? lf(a) : lf.evaluate(a);                    \
    };                                                           \
    lin_orders<1>(NM, "1", false, fn);                           \
    lin_orders<2>(NM, "2", true, fn);                            \
  }

static void family_lin() {
  LIN("id", , IdentityOperator{})
  LIN("x1", , X<1>{})
  LIN("x2", , X<2>{})
  LIN("dx1", , Dx<1>{})
  LIN("splv", const auto v = e.template spl<1>("v", 0, 3), SplineOperator{v})
  LIN("cx1", const Sym c = e.scalar("c"), c * X<1>{})
  // the spline factor lives on a distinct Grid object holding the same points
  scenario("lin_splv_1_eqgrid", [&](Env &e) {
    const auto a = e.spl<1>("a", 1, 4);
    const auto v = e.spl_on<1>(e.equal_grid(), "v", 0, 3);
    const LinearForm lf{SplineOperator{v}};
    e.begin();
    return describe(lf.evaluate(a));
  });
}

int main() {
  std::cout << std::unitbuf;  // a crash must not lose the lines already printed
  family_arith();
  family_apply();
  family_bilin();
  family_lin();
  std::cout << "END\n";
  return 0;
}

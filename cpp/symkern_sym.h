// symkern_sym.h — the symbolic scalar type `Sym` shared by cpp/symkern.cpp (numeric kernels) and
// cpp/symops.cpp (whole public operations).  Factored out of symkern.cpp verbatim.
//
// Sym offers exactly what the library documents for its scalar type: default/copy construction,
// EXPLICIT construction from built-in integers, + - * / (compound forms), unary minus, the six
// comparisons.  There is no construction from floating point (deleted: routing a value through
// float/double does not compile).  Comparisons are answered from an exact rational *shadow
// value* and are recorded in g_sym.comparisons; default construction yields the marker (u).
// Term syntax printed by Sym::str (prefix, fully parenthesised):
//     term ::= (v NAME) | (c INTEGER) | (u)
//            | (add t t) | (sub t t) | (mul t t) | (div t t) | (neg t)
// Compound assignment `x op= y` prints as `(op x y)`.
#ifndef VERIF_SYMKERN_SYM_H
#define VERIF_SYMKERN_SYM_H

// ---- every standard / boost header used by the library or by this file comes FIRST, so that
// ---- the access-specifier defines below cannot reach libstdc++ or boost.
#include <boost/multiprecision/cpp_int.hpp>

#include <algorithm>
#include <array>
#include <cstddef>
#include <cstdint>
#include <cstdio>
#include <exception>
#include <functional>
#include <initializer_list>
#include <iostream>
#include <iterator>
#include <limits>
#include <memory>
#include <optional>
#include <sstream>
#include <stdexcept>
#include <string>
#include <type_traits>
#include <utility>
#include <vector>

// ---------------------------------------------------------------------------
// Sym
// ---------------------------------------------------------------------------
using BigInt = boost::multiprecision::cpp_int;
using Rat = boost::multiprecision::cpp_rational;

struct Node {
  enum Kind { VAR, CONST, UNINIT, ADD, SUB, MUL, DIV, NEG };
  Kind kind;
  std::string name;  // VAR
  BigInt value;      // CONST
  std::shared_ptr<const Node> l, r;
};
using NodeP = std::shared_ptr<const Node>;

struct SymGlobals {
  // comparisons executed since the last reset, as text
  std::vector<std::string> comparisons;
  // a shadow value could not be computed (division by a zero shadow)
  bool shadow_trouble = false;
};
static SymGlobals g_sym;

static void print_node(std::ostream &os, const NodeP &n, bool &has_uninit) {
  switch (n->kind) {
    case Node::VAR: os << "(v " << n->name << ")"; return;
    case Node::CONST: os << "(c " << n->value.str() << ")"; return;
    case Node::UNINIT: has_uninit = true; os << "(u)"; return;
    case Node::NEG:
      os << "(neg ";
      print_node(os, n->l, has_uninit);
      os << ")";
      return;
    default: break;
  }
  const char *op = n->kind == Node::ADD   ? "add"
                   : n->kind == Node::SUB ? "sub"
                   : n->kind == Node::MUL ? "mul"
                                          : "div";
  os << "(" << op << " ";
  print_node(os, n->l, has_uninit);
  os << " ";
  print_node(os, n->r, has_uninit);
  os << ")";
}

class Sym {
  NodeP _n;
  Rat _shadow;  // ONLY used to answer comparisons

  Sym(NodeP n, Rat s) : _n(std::move(n)), _shadow(std::move(s)) {}

  static NodeP mk(Node::Kind k, NodeP l, NodeP r = nullptr) {
    auto p = std::make_shared<Node>();
    p->kind = k;
    p->l = std::move(l);
    p->r = std::move(r);
    return p;
  }
  static Sym bin(Node::Kind k, const Sym &a, const Sym &b) {
    Rat s;
    switch (k) {
      case Node::ADD: s = a._shadow + b._shadow; break;
      case Node::SUB: s = a._shadow - b._shadow; break;
      case Node::MUL: s = a._shadow * b._shadow; break;
      default:
        if (b._shadow == 0) {
          g_sym.shadow_trouble = true;
          s = Rat(BigInt("104729"), BigInt("7919"));
        } else {
          s = a._shadow / b._shadow;
        }
    }
    return Sym(mk(k, a._n, b._n), std::move(s));
  }
  static bool cmp(const char *op, const Sym &a, const Sym &b, bool answer) {
    g_sym.comparisons.push_back(a.str() + " " + op + " " + b.str());
    return answer;
  }

 public:
  // default construction: the scalar has NO documented value
  Sym() : _shadow(Rat(BigInt("982451653"), BigInt("1000003"))) {
    auto p = std::make_shared<Node>();
    p->kind = Node::UNINIT;
    _n = std::move(p);
  }
  Sym(const Sym &) = default;
  Sym(Sym &&) = default;
  Sym &operator=(const Sym &) = default;
  Sym &operator=(Sym &&) = default;

  // static_cast<T>(i) for a built-in integer i
  template <typename I, std::enable_if_t<std::is_integral_v<I>, bool> = true>
  explicit Sym(I i) {
    auto p = std::make_shared<Node>();
    p->kind = Node::CONST;
    if constexpr (std::is_unsigned_v<I>) {
      p->value = BigInt(static_cast<unsigned long long>(i));
    } else {
      p->value = BigInt(static_cast<long long>(i));
    }
    _shadow = Rat(p->value);
    _n = std::move(p);
  }
  // no floating point, ever
  template <typename D, std::enable_if_t<std::is_floating_point_v<D>, bool> = true>
  Sym(D) = delete;

  // a named variable; the shadow value is used for comparisons only
  static Sym var(const std::string &name, const Rat &shadow) {
    auto p = std::make_shared<Node>();
    p->kind = Node::VAR;
    p->name = name;
    return Sym(std::move(p), shadow);
  }

  std::string str(bool *has_uninit = nullptr) const {
    std::ostringstream os;
    bool u = false;
    print_node(os, _n, u);
    if (has_uninit && u) *has_uninit = true;
    return os.str();
  }

  friend Sym operator+(const Sym &a, const Sym &b) { return bin(Node::ADD, a, b); }
  friend Sym operator-(const Sym &a, const Sym &b) { return bin(Node::SUB, a, b); }
  friend Sym operator*(const Sym &a, const Sym &b) { return bin(Node::MUL, a, b); }
  friend Sym operator/(const Sym &a, const Sym &b) { return bin(Node::DIV, a, b); }
  Sym operator-() const { return Sym(mk(Node::NEG, _n), -_shadow); }
  Sym &operator+=(const Sym &o) { return *this = bin(Node::ADD, *this, o); }
  Sym &operator-=(const Sym &o) { return *this = bin(Node::SUB, *this, o); }
  Sym &operator*=(const Sym &o) { return *this = bin(Node::MUL, *this, o); }
  Sym &operator/=(const Sym &o) { return *this = bin(Node::DIV, *this, o); }

  friend bool operator==(const Sym &a, const Sym &b) { return cmp("==", a, b, a._shadow == b._shadow); }
  friend bool operator!=(const Sym &a, const Sym &b) { return cmp("!=", a, b, a._shadow != b._shadow); }
  friend bool operator<(const Sym &a, const Sym &b) { return cmp("<", a, b, a._shadow < b._shadow); }
  friend bool operator<=(const Sym &a, const Sym &b) { return cmp("<=", a, b, a._shadow <= b._shadow); }
  friend bool operator>(const Sym &a, const Sym &b) { return cmp(">", a, b, a._shadow > b._shadow); }
  friend bool operator>=(const Sym &a, const Sym &b) { return cmp(">=", a, b, a._shadow >= b._shadow); }
};

#endif  // VERIF_SYMKERN_SYM_H

// instantiate_arch.cpp — C19: explicit instantiation of every core class template with the
// archetype scalar (all non-template members are instantiated, used or not).  Compile = check.
#include "harness.h"

using namespace bspline;
using namespace bspline::operators;
using namespace bspline::integration;

template class bspline::support::Grid<Arch>;
template class bspline::support::Support<Arch>;
template class bspline::Spline<Arch, 0>;
template class bspline::Spline<Arch, 1>;
template class bspline::Spline<Arch, 2>;
template class bspline::Spline<Arch, 3>;
template class bspline::Spline<Arch, 6>;
template class bspline::BSplineGenerator<Arch>;
template class bspline::operators::SplineOperator<Arch, 0>;
template class bspline::operators::SplineOperator<Arch, 2>;
template class bspline::operators::ScalarMultiplication<Arch, Derivative<1>>;
template class bspline::operators::ScalarMultiplication<int, Position<2>>;
template class bspline::operators::ScalarMultiplication<ScalarReciprocal<int>, IdentityOperator>;
template class bspline::operators::OperatorProduct<Derivative<1>, Position<1>>;
template class bspline::operators::OperatorSum<Derivative<2>, Position<2>, AdditionOperation::ADDITION>;
template class bspline::operators::OperatorSum<Derivative<2>, SplineOperator<Arch, 1>, AdditionOperation::SUBTRACTION>;
template class bspline::integration::BilinearForm<IdentityOperator, IdentityOperator>;
template class bspline::integration::BilinearForm<Derivative<1>, Position<2>>;
template class bspline::integration::LinearForm<Position<1>>;
template struct bspline::interpolation::Boundary<Arch>;

// the same with the second archetype
template class bspline::support::Grid<WrapD>;
template class bspline::support::Support<WrapD>;
template class bspline::Spline<WrapD, 3>;
template class bspline::BSplineGenerator<WrapD>;
template class bspline::operators::SplineOperator<WrapD, 2>;

// member and function templates: one use each
static void use() {
  using S = Arch;
  support::Grid<S> g{S(0), S(1), S(2), S(3)};
  std::vector<S> v{S(0), S(1), S(2)};
  support::Grid<S> g2(v.begin(), v.end());
  auto sup = support::Support<S>::createWholeGrid(g);
  Spline<S, 1> a(sup, {{S(1), S(2)}, {S(0), S(1)}, {S(2), S(2)}});
  Spline<S, 2> b(g);
  b = a;
  b += a;
  b -= a;
  auto c = a * b + a - b;
  (void)a.checkOverlap(b);
  (void)linearCombination(std::vector<S>{S(1)}, std::vector<Spline<S, 1>>{a});
  auto basis = generateBSplines<2>(std::vector<S>{S(0), S(0), S(1), S(2), S(3), S(3)});
  auto r = interpolation::interpolate<S, 2, vh::RecSolver>(sup, std::vector<S>{S(0), S(1), S(0), S(2)});
  // forms over operators without a default constructor are built from values
  const BilinearForm bf{Dx<1>{}, S(3) * (SplineOperator{a} * Dx<1>{})};
  const LinearForm lf{SplineOperator{a} + X<1>{} / 2};
  S acc = bf(a, b) + lf(a);
  (void)acc; (void)c; (void)basis; (void)r;
}
int main() { use(); return 0; }

(* driver.ml — runs the extracted model (Model.qstep, scalar = Qc) on a case
   file and prints one canonical line per operation.  Zarith is used only to
   convert between decimal text and the extracted binary numbers; all model
   arithmetic is the extracted code. *)
module BZ = Z
open Model

(* ---------- conversions ---------- *)
let rec pos_of_z (x : BZ.t) : positive =
  if BZ.equal x BZ.one then XH
  else if BZ.is_even x then XO (pos_of_z (BZ.shift_right x 1))
  else XI (pos_of_z (BZ.shift_right x 1))

let rec z_of_pos (p : positive) : BZ.t =
  match p with
  | XH -> BZ.one
  | XO q -> BZ.shift_left (z_of_pos q) 1
  | XI q -> BZ.succ (BZ.shift_left (z_of_pos q) 1)

let mz_of_z (x : BZ.t) : Model.z =
  let s = BZ.sign x in
  if s = 0 then Z0 else if s > 0 then Zpos (pos_of_z x) else Zneg (pos_of_z (BZ.neg x))

let z_of_mz (x : Model.z) : BZ.t =
  match x with Z0 -> BZ.zero | Zpos p -> z_of_pos p | Zneg p -> BZ.neg (z_of_pos p)

let mn_of_z (x : BZ.t) : Model.n = if BZ.sign x = 0 then N0 else Npos (pos_of_z x)
let z_of_mn (x : Model.n) : BZ.t = match x with N0 -> BZ.zero | Npos p -> z_of_pos p

let rec nat_of_int (i : int) : nat = if i <= 0 then O else S (nat_of_int (i - 1))
let rec int_of_nat (n : nat) : int = match n with O -> 0 | S m -> 1 + int_of_nat m

let qc_of_string (s : string) : qc =
  match String.index_opt s '/' with
  | None -> Model.mk_qc (mz_of_z (BZ.of_string s)) XH
  | Some i ->
      let a = BZ.of_string (String.sub s 0 i) in
      let b = BZ.of_string (String.sub s (i + 1) (String.length s - i - 1)) in
      Model.mk_qc (mz_of_z a) (pos_of_z b)

let string_of_qc (x : qc) : string =
  let a = z_of_mz (Model.qc_num x) and b = z_of_pos (Model.qc_den x) in
  if BZ.equal b BZ.one then BZ.to_string a else BZ.to_string a ^ "/" ^ BZ.to_string b

(* ---------- token stream ---------- *)
exception Parse of string

type stream = { mutable toks : string list }

let next st =
  match st.toks with
  | [] -> raise (Parse "unexpected end of line")
  | t :: r -> st.toks <- r; t

let p_int st = int_of_string (next st)
let p_nat st = nat_of_int (p_int st)
let p_n st = mn_of_z (BZ.of_string (next st))
let p_list st (p : stream -> 'a) : 'a list =
  let k = p_int st in
  let rec go i = if i = 0 then [] else let x = p st in x :: go (i - 1) in
  go k
let rec p_times k st p = if k = 0 then [] else let x = p st in x :: p_times (k - 1) st p

let p_scalar p_f st =
  match next st with
  | "F" -> ScF (p_f st)
  | "I" | "U" | "Z" | "L" | "H" -> ScI (mz_of_z (BZ.of_string (next st)))
  | t -> raise (Parse ("scalar kind " ^ t))

let rec p_expr p_f st =
  match next st with
  | "Id" -> PId
  | "Pos" -> PPos (p_nat st)
  | "Der" -> PDer (p_nat st)
  | "Spl" -> PSpl (p_nat st)
  | "Mul" -> let a = p_expr p_f st in let b = p_expr p_f st in PMul (a, b)
  | "Add" -> let a = p_expr p_f st in let b = p_expr p_f st in PAdd (a, b)
  | "Sub" -> let a = p_expr p_f st in let b = p_expr p_f st in PSub (a, b)
  | "SMulL" -> let s = p_scalar p_f st in let a = p_expr p_f st in PSMulL (s, a)
  | "SMulR" -> let a = p_expr p_f st in let s = p_scalar p_f st in PSMulR (a, s)
  | "DivS" -> let a = p_expr p_f st in let s = p_scalar p_f st in PDivS (a, s)
  | "AddS" -> let a = p_expr p_f st in let s = p_scalar p_f st in PAddS (a, s)
  | "SAdd" -> let s = p_scalar p_f st in let a = p_expr p_f st in PSAdd (s, a)
  | "SubS" -> let a = p_expr p_f st in let s = p_scalar p_f st in PSubS (a, s)
  | "SSub" -> let s = p_scalar p_f st in let a = p_expr p_f st in PSSub (s, a)
  | "Neg" -> PNeg (p_expr p_f st)
  | t -> raise (Parse ("expression head " ^ t))

let p_boundary p_f st =
  let nd = (match next st with "FIRST" -> FIRST | "LAST" -> LAST | t -> raise (Parse ("node " ^ t))) in
  let d = p_nat st in
  let v = p_f st in
  { bnode = nd; bderiv = d; bvalue = v }

let p_op p_f st =
  match next st with
  | "GridNew" -> let d = p_nat st in let l = p_list st p_f in GridNew (d, l)
  | "GridCopy" -> let d = p_nat st in let a = p_nat st in GridCopy (d, a)
  | "GridAt" -> let a = p_nat st in let i = p_n st in GridAt (a, i)
  | "GridSub" -> let a = p_nat st in let i = p_n st in GridSub (a, i)
  | "GridFind" -> let a = p_nat st in let x = p_f st in GridFind (a, x)
  | "GridEq" -> let a = p_nat st in let b = p_nat st in GridEq (a, b)
  | "GridSize" -> GridSize (p_nat st)
  | "GridFront" -> GridFront (p_nat st)
  | "GridBack" -> GridBack (p_nat st)
  | "SupNew" -> let d = p_nat st in let g = p_nat st in let i = p_n st in let j = p_n st in SupNew (d, g, i, j)
  | "SupEmpty" -> let d = p_nat st in let g = p_nat st in SupEmpty (d, g)
  | "SupWhole" -> let d = p_nat st in let g = p_nat st in SupWhole (d, g)
  | "SupCopy" -> let d = p_nat st in let a = p_nat st in SupCopy (d, a)
  | "SupMove" -> let d = p_nat st in let a = p_nat st in SupMove (d, a)
  | "SupMoveAssign" -> let d = p_nat st in let a = p_nat st in SupMoveAssign (d, a)
  | "SupUnion" -> let d = p_nat st in let a = p_nat st in let b = p_nat st in SupUnion (d, a, b)
  | "SupInter" -> let d = p_nat st in let a = p_nat st in let b = p_nat st in SupInter (d, a, b)
  | "SupRel" -> let a = p_nat st in let i = p_n st in SupRel (a, i)
  | "SupIvl" -> let a = p_nat st in let i = p_n st in SupIvl (a, i)
  | "SupAbs" -> let a = p_nat st in let i = p_n st in SupAbs (a, i)
  | "SupAt" -> let a = p_nat st in let i = p_n st in SupAt (a, i)
  | "SupSub" -> let a = p_nat st in let i = p_n st in SupSub (a, i)
  | "SupFront" -> SupFront (p_nat st)
  | "SupBack" -> SupBack (p_nat st)
  | "SupIter" -> SupIter (p_nat st)
  | "SupEq" -> let a = p_nat st in let b = p_nat st in SupEq (a, b)
  | "SupSameGrid" -> let a = p_nat st in let b = p_nat st in SupSameGrid (a, b)
  | "SupIsEmpty" -> SupIsEmpty (p_nat st)
  | "SupContains" -> SupContains (p_nat st)
  | "SupGrid" -> let d = p_nat st in let a = p_nat st in SupGrid (d, a)
  | "SplNew" ->
      let d = p_nat st in let ord = p_int st in let sup = p_nat st in
      let m = p_int st in
      let cs = p_times m st (fun st -> p_times (ord + 1) st p_f) in
      SplNew (d, nat_of_int ord, sup, cs)
  | "SplEmpty" -> let d = p_nat st in let ord = p_nat st in let g = p_nat st in SplEmpty (d, ord, g)
  | "SplCopy" -> let d = p_nat st in let a = p_nat st in SplCopy (d, a)
  | "SplMove" -> let d = p_nat st in let a = p_nat st in SplMove (d, a)
  | "SplMoveAssign" -> let d = p_nat st in let a = p_nat st in SplMoveAssign (d, a)
  | "SplAssignUp" -> let d = p_nat st in let a = p_nat st in SplAssignUp (d, a)
  | "SplScale" -> let d = p_nat st in let a = p_nat st in let c = p_f st in SplScale (d, a, c)
  | "SplScaleL" -> let d = p_nat st in let c = p_f st in let a = p_nat st in SplScaleL (d, c, a)
  | "SplDiv" -> let d = p_nat st in let a = p_nat st in let c = p_f st in SplDiv (d, a, c)
  | "SplNeg" -> let d = p_nat st in let a = p_nat st in SplNeg (d, a)
  | "SplIMul" -> let a = p_nat st in let c = p_f st in SplIMul (a, c)
  | "SplIDiv" -> let a = p_nat st in let c = p_f st in SplIDiv (a, c)
  | "SplAdd" -> let d = p_nat st in let a = p_nat st in let b = p_nat st in SplAdd (d, a, b)
  | "SplSub" -> let d = p_nat st in let a = p_nat st in let b = p_nat st in SplSub (d, a, b)
  | "SplMul" -> let d = p_nat st in let a = p_nat st in let b = p_nat st in SplMul (d, a, b)
  | "SplIAdd" -> let a = p_nat st in let b = p_nat st in SplIAdd (a, b)
  | "SplISub" -> let a = p_nat st in let b = p_nat st in SplISub (a, b)
  | "SplLinComb" ->
      let d = p_nat st in let cs = p_list st p_f in let ss = p_list st p_nat in SplLinComb (d, cs, ss)
  | "SplEval" -> let a = p_nat st in let x = p_f st in SplEval (a, x)
  | "SplFront" -> SplFront (p_nat st)
  | "SplBack" -> SplBack (p_nat st)
  | "SplIsZero" -> SplIsZero (p_nat st)
  | "SplOverlap" -> let a = p_nat st in let b = p_nat st in SplOverlap (a, b)
  | "SplEq" -> let a = p_nat st in let b = p_nat st in SplEq (a, b)
  | "SplSupport" -> let d = p_nat st in let a = p_nat st in SplSupport (d, a)
  | "Apply" -> let d = p_nat st in let a = p_nat st in let e = p_expr p_f st in Apply (d, e, a)
  | "Transform" ->
      let g = p_nat st in let k = p_n st in let c = p_list st p_f in let e = p_expr p_f st in
      Transform (e, c, g, k)
  | "Bilin" ->
      let a = p_nat st in let b = p_nat st in let e1 = p_expr p_f st in let e2 = p_expr p_f st in
      Bilin (e1, e2, a, b)
  | "Lin" -> let a = p_nat st in let e = p_expr p_f st in Lin (e, a)
  | "Gen1" -> let d0 = p_nat st in let o = p_nat st in let ks = p_list st p_f in Gen1 (d0, o, ks)
  | "Gen2" ->
      let d0 = p_nat st in let o = p_nat st in let g = p_nat st in let ks = p_list st p_f in
      Gen2 (d0, o, ks, g)
  | "Interp" ->
      let d = p_nat st in let o = p_nat st in let x = p_nat st in
      let y = p_list st p_f in let bs = p_list st (p_boundary p_f) in
      Interp (d, o, x, y, bs)
  | "InterpDefault" ->
      let d = p_nat st in let o = p_nat st in let x = p_nat st in let y = p_list st p_f in
      InterpDefault (d, o, x, y)
  | "Show" -> Show (p_nat st)
  | t -> raise (Parse ("operation " ^ t))

(* ---------- printing ---------- *)
let string_of_tag = function
  | Tgrid -> "GRID" | Tsup -> "SUP" | Tspl -> "SPL" | Tnone -> "NONE" | Tsome -> "SOME"
  | Ttrue -> "true" | Tfalse -> "false" | Tvoid -> "VOID" | Trow -> "ROW" | Tlist -> "LIST"

let string_of_tok sf = function
  | TT t -> string_of_tag t
  | TN n -> BZ.to_string (z_of_mn n)
  | TF x -> sf x

let string_of_err = function
  | DIFFERING_GRIDS -> "DIFFERING_GRIDS" | INCONSISTENT_DATA -> "INCONSISTENT_DATA"
  | MISSING_DATA -> "MISSING_DATA" | INVALID_ACCESS -> "INVALID_ACCESS"
  | UNDETERMINED -> "UNDETERMINED" | BadOptionalAccess -> "BadOptionalAccess"
  | StdOutOfRange -> "StdOutOfRange"

let string_of_ub = function
  | OOBRead -> "OOBRead" | OOBWrite -> "OOBWrite" | DivByZero -> "DivByZero"
  | ErasePastEnd -> "ErasePastEnd" | SignedOverflow -> "SignedOverflow" | IllTyped -> "IllTyped"

let string_of_outcome sf = function
  | Ok o -> String.concat " " ("OK" :: List.map (string_of_tok sf) o)
  | Throw e -> "THROW " ^ string_of_err e
  | UB k -> "UB " ^ string_of_ub k

(* ---------- main loop ---------- *)
let split_ws (s : string) : string list =
  List.filter (fun t -> t <> "") (String.split_on_char ' ' (String.trim s))

let () =
  let args = List.tl (Array.to_list Sys.argv) in
  let pair = List.mem "--pair" args in
  let files = List.filter (fun a -> a <> "--pair") args in
  let ic = (match files with f :: _ -> open_in f | [] -> stdin) in
  let qstate : qc state ref = ref [] in
  let pstate : pq state ref = ref [] in
  let case = ref "" in
  let idx = ref 0 in
  let qf st = qc_of_string (next st) in
  let pf st = Model.mk_pq (qc_of_string (next st)) in
  let string_of_pq (x : pq) = string_of_qc (fst x) ^ "~" ^ string_of_qc (snd x) in
  (try
     while true do
       let line = input_line ic in
       match split_ws line with
       | [] -> ()
       | "#" :: _ -> ()
       | [ "CASE"; id ] -> case := id; idx := 0; qstate := []; pstate := []
       | [ "END" ] -> ()
       | ("XGrid" | "XGen") :: _ as toks ->
           incr idx;
           let kind = List.hd toks in
           let st = { toks = List.tl toks } in
           let p_x st = (match next st with
             | "nan" -> NaN | "inf" -> PInf | "-inf" -> NInf | t -> Fin (qc_of_string t)) in
           let l = p_list st p_x in
           let res = (if kind = "XGrid"
                      then (match Model.xgrid_ctor l with Ok _ -> "OK" | Throw e -> "THROW " ^ string_of_err e | UB k -> "UB " ^ string_of_ub k)
                      else (match Model.xgen_ctor1 l with Ok _ -> "OK" | Throw e -> "THROW " ^ string_of_err e | UB k -> "UB " ^ string_of_ub k)) in
           Printf.printf "%s.%d %s\n" !case !idx res
       | toks ->
           incr idx;
           let st = { toks } in
           if pair then
             (match (try Some (p_op pf st) with Parse m | Failure m -> prerr_endline ("parse error: " ^ m ^ " in: " ^ line); None) with
              | None -> Printf.printf "%s.%d PARSE_ERROR\n" !case !idx
              | Some o ->
                  let (s', r) = Model.pstep !pstate o in
                  pstate := s';
                  Printf.printf "%s.%d %s\n" !case !idx (string_of_outcome string_of_pq r))
           else
             (match (try Some (p_op qf st) with Parse m | Failure m -> prerr_endline ("parse error: " ^ m ^ " in: " ^ line); None) with
              | None -> Printf.printf "%s.%d PARSE_ERROR\n" !case !idx
              | Some o ->
                  let (s', r) = Model.qstep !qstate o in
                  qstate := s';
                  Printf.printf "%s.%d %s\n" !case !idx (string_of_outcome string_of_qc r))
     done
   with End_of_file -> ());
  flush stdout

#!/bin/sh
# setup.sh — builds the framework from files on disk only (offline): the whole Coq
# development (full .vo build), the extracted model and its OCaml driver.
set -e
cd "$(dirname "$0")"
python3 gen/scan_sites.py
python3 gen/ast2coq.py
cd coq
coq_makefile -f _CoqProject -o Makefile
timeout 3000 make -j16
cd ..
python3 - <<'PY'
import sys
sys.path.insert(0, 'gen')
import pipeline
ok, drv, log = pipeline.build_model()
print("model driver:", drv if ok else log[-2000:])
sys.exit(0 if ok else 1)
PY

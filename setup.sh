#!/bin/sh
# setup.sh — builds the framework from files on disk only (offline): the whole Coq
# development (full .vo build), the extracted model and its OCaml driver.
set -e
cd "$(dirname "$0")"
# tables regenerated from /repo's current source; a failure here (a header the translators cannot handle) is reported
# by the checks that own the table, not by the set-up
python3 gen/scan_sites.py || echo "setup: scan_sites.py failed (reported by C09/C18)"
python3 gen/ast2coq.py || echo "setup: ast2coq.py failed (reported by C13)"
python3 gen/symkern.py || echo "setup: symkern.py failed (reported by C02 C03 C04 C06 C07)"
python3 gen/symround.py || echo "setup: symround.py failed (reported by C16)"
python3 gen/symops.py || echo "setup: symops.py failed (reported by C03 C04 C06 C07)"
python3 gen/symroundops.py || echo "setup: symroundops.py failed (reported by C16)"
python3 gen/symops2.py || echo "setup: symops2.py failed (reported by C01 C02 C11 C12 C15)"
cd coq
coq_makefile -f _CoqProject -o Makefile
# -k: a proof about a generated table that no longer goes through must not keep the rest from being built;
# every check re-makes and re-checks its own property files
timeout 3000 make -k -j16 || echo "setup: some Coq files did not compile (reported by the checks that own them)"
cd ..
python3 - <<'PY'
import sys
sys.path.insert(0, 'gen')
import pipeline
ok, drv, log = pipeline.build_model()
print("model driver:", drv if ok else log[-2000:])
sys.exit(0 if ok else 1)
PY

(* Proofs_Outcome.v — generic lemmas about the outcome monad ([bind], [oseq],
   [omapM], [sub], [at_], [value]) and about [nrange]. *)
From Coq Require Import List Arith NArith Lia.
From BSpl Require Import ListAux Outcome Support.
Import ListNotations.

(* ---- bind ---- *)
Lemma bind_ok {A B} (a : A) (f : A -> outcome B) : bind (Ok a) f = f a.
Proof. reflexivity. Qed.

Lemma bind_throw {A B} e (f : A -> outcome B) : bind (Throw e) f = Throw e.
Proof. reflexivity. Qed.

Lemma bind_ub {A B} k (f : A -> outcome B) : bind (UB k) f = UB k.
Proof. reflexivity. Qed.

Lemma bind_ret {A} (m : outcome A) : bind m (fun a => Ok a) = m.
Proof. destruct m; reflexivity. Qed.

Lemma bind_assoc {A B C} (m : outcome A) (f : A -> outcome B) (g : B -> outcome C) :
  bind (bind m f) g = bind m (fun a => bind (f a) g).
Proof. destruct m; reflexivity. Qed.

Lemma bind_ext {A B} (m : outcome A) (f g : A -> outcome B) :
  (forall a, m = Ok a -> f a = g a) -> bind m f = bind m g.
Proof. intros H. destruct m as [a| |]; cbn [bind]; [apply H; reflexivity | reflexivity | reflexivity]. Qed.

Lemma bind_ok_inv {A B} (m : outcome A) (f : A -> outcome B) b :
  bind m f = Ok b -> exists a, m = Ok a /\ f a = Ok b.
Proof. destruct m as [a| |]; cbn [bind]; intros H; [eauto | discriminate | discriminate]. Qed.

Lemma omap_ok {A B} (f : A -> B) a : omap f (Ok a) = Ok (f a).
Proof. reflexivity. Qed.

(* ---- sub / at_ / value ---- *)
Lemma sub_nth_error {A} (l : list A) i a : nth_error l i = Some a -> sub l i = Ok a.
Proof. unfold sub. intros ->. reflexivity. Qed.

Lemma at_nth_error {A} (l : list A) i a : nth_error l i = Some a -> at_ l i = Ok a.
Proof. unfold at_. intros ->. reflexivity. Qed.

Lemma sub_ok_nth {A} (l : list A) i d : (i < length l)%nat -> sub l i = Ok (nth i l d).
Proof. intros H. apply sub_nth_error. apply nth_error_nth'. exact H. Qed.

Lemma at_ok_nth {A} (l : list A) i d : (i < length l)%nat -> at_ l i = Ok (nth i l d).
Proof. intros H. apply at_nth_error. apply nth_error_nth'. exact H. Qed.

Lemma sub_oob {A} (l : list A) i : (length l <= i)%nat -> sub l i = UB OOBRead.
Proof. intros H. unfold sub. apply nth_error_None in H. rewrite H. reflexivity. Qed.

Lemma at_oob {A} (l : list A) i : (length l <= i)%nat -> at_ l i = Throw StdOutOfRange.
Proof. intros H. unfold at_. apply nth_error_None in H. rewrite H. reflexivity. Qed.

Lemma value_some {A} (a : A) : value (Some a) = Ok a.
Proof. reflexivity. Qed.

Lemma value_none {A} : value (@None A) = Throw BadOptionalAccess.
Proof. reflexivity. Qed.

(* ---- oseq / omapM ---- *)
Lemma omapM_nil {A B} (f : A -> outcome B) : omapM f [] = Ok [].
Proof. reflexivity. Qed.

Lemma omapM_cons {A B} (f : A -> outcome B) a l :
  omapM f (a :: l) = bind (f a) (fun b => bind (omapM f l) (fun bs => Ok (b :: bs))).
Proof. reflexivity. Qed.

Lemma omapM_ok {A B} (f : A -> outcome B) (g : A -> B) l :
  (forall a, In a l -> f a = Ok (g a)) -> omapM f l = Ok (map g l).
Proof.
  induction l as [|a l IH]; intros H; [reflexivity|].
  rewrite omapM_cons, (H a (or_introl eq_refl)). cbn [bind].
  rewrite IH by (intros a' Ha'; apply H; right; exact Ha'). reflexivity.
Qed.

Lemma omapM_ext {A B} (f g : A -> outcome B) l :
  (forall a, In a l -> f a = g a) -> omapM f l = omapM g l.
Proof.
  induction l as [|a l IH]; intros H; [reflexivity|].
  rewrite !omapM_cons, (H a (or_introl eq_refl)).
  rewrite IH by (intros a' Ha'; apply H; right; exact Ha'). reflexivity.
Qed.

Lemma omapM_ok_inv {A B} (f : A -> outcome B) l r :
  omapM f l = Ok r ->
  length r = length l /\
  forall i a, nth_error l i = Some a -> exists b, f a = Ok b /\ nth_error r i = Some b.
Proof.
  revert r; induction l as [|a l IH]; intros r H.
  - cbn in H. injection H as <-. split; [reflexivity|]. intros [|i] a Hi; discriminate.
  - rewrite omapM_cons in H.
    apply bind_ok_inv in H as (b & Hb & H).
    apply bind_ok_inv in H as (bs & Hbs & H). injection H as <-.
    destruct (IH bs Hbs) as [Hlen Hnth]. split; [cbn [length]; congruence|].
    intros [|i] a' Hi; cbn [nth_error] in *.
    + injection Hi as <-. eauto.
    + apply Hnth. exact Hi.
Qed.

(* the first failing element decides *)
Lemma omapM_throw_first {A B} (f : A -> outcome B) l1 a l2 e :
  (forall x, In x l1 -> exists b, f x = Ok b) -> f a = Throw e ->
  omapM f (l1 ++ a :: l2) = Throw e.
Proof.
  intros H1 Ha. induction l1 as [|x l1 IH]; cbn [app].
  - rewrite omapM_cons, Ha. reflexivity.
  - rewrite omapM_cons. destruct (H1 x (or_introl eq_refl)) as [b ->]. cbn [bind].
    rewrite IH by (intros y Hy; apply H1; right; exact Hy). reflexivity.
Qed.

Lemma omapM_ub_first {A B} (f : A -> outcome B) l1 a l2 k :
  (forall x, In x l1 -> exists b, f x = Ok b) -> f a = UB k ->
  omapM f (l1 ++ a :: l2) = UB k.
Proof.
  intros H1 Ha. induction l1 as [|x l1 IH]; cbn [app].
  - rewrite omapM_cons, Ha. reflexivity.
  - rewrite omapM_cons. destruct (H1 x (or_introl eq_refl)) as [b ->]. cbn [bind].
    rewrite IH by (intros y Hy; apply H1; right; exact Hy). reflexivity.
Qed.

Lemma omapM_throw_all {A B} (f : A -> outcome B) l e :
  l <> [] -> (forall a, In a l -> f a = Throw e) -> omapM f l = Throw e.
Proof.
  intros Hne H. destruct l as [|a l]; [contradiction|].
  rewrite omapM_cons, (H a (or_introl eq_refl)). reflexivity.
Qed.

Lemma omapM_length {A B} (f : A -> outcome B) l r : omapM f l = Ok r -> length r = length l.
Proof. intros H. apply omapM_ok_inv in H. apply H. Qed.

(* ---- nrange ---- *)
Lemma length_nrange n : length (nrange n) = N.to_nat n.
Proof. unfold nrange. rewrite map_length, seq_length. reflexivity. Qed.

Lemma nlen_nrange n : nlen (nrange n) = n.
Proof. unfold nlen. rewrite length_nrange. apply N2Nat.id. Qed.

Lemma nth_error_nrange n i : (i < N.to_nat n)%nat -> nth_error (nrange n) i = Some (N.of_nat i).
Proof.
  intros H. unfold nrange. rewrite nth_error_map', nth_error_seq by exact H. reflexivity.
Qed.

Lemma In_nrange n i : In i (nrange n) <-> (i < n)%N.
Proof.
  unfold nrange. rewrite in_map_iff. split.
  - intros (k & <- & Hk). apply in_seq in Hk. lia.
  - intros H. exists (N.to_nat i). split; [apply N2Nat.id|]. apply in_seq. lia.
Qed.

Lemma nrange_0 : nrange 0 = [].
Proof. reflexivity. Qed.

Lemma nlen_map {A B} (f : A -> B) l : nlen (map f l) = nlen l.
Proof. unfold nlen. rewrite map_length. reflexivity. Qed.

(* map over nrange, by index *)
Lemma nth_error_map_nrange {B} (g : N -> B) n i :
  (i < N.to_nat n)%nat -> nth_error (map g (nrange n)) i = Some (g (N.of_nat i)).
Proof. intros H. rewrite nth_error_map', nth_error_nrange by exact H. reflexivity. Qed.

Lemma nth_map_nrange {B} (g : N -> B) n i d :
  (i < N.to_nat n)%nat -> nth i (map g (nrange n)) d = g (N.of_nat i).
Proof. intros H. apply nth_error_nth. apply nth_error_map_nrange. exact H. Qed.

Lemma omapM_nrange_ok {B} (f : N -> outcome B) (g : N -> B) n :
  (forall i, (i < n)%N -> f i = Ok (g i)) -> omapM f (nrange n) = Ok (map g (nrange n)).
Proof. intros H. apply omapM_ok. intros i Hi. apply H. apply In_nrange. exact Hi. Qed.

(* Poly.v — model of internal/misc.h and of the coefficient-array arithmetic
   used throughout the library.  A coefficient array std::array<T,n> is a list
   of length n, lowest power first.  No proofs in this file. *)
From Coq Require Import List Arith Bool.
From BSpl Require Import Scalar Outcome.
Import ListNotations.
Local Open Scope F_scope.

Section Poly.
  Context {F : Type} {K : Ops F}.

  (* mathematical evaluation (Horner), the specification side *)
  Fixpoint peval (p : list F) (u : F) : F :=
    match p with [] => f0 | a :: q => a + u * peval q u end.

  (* internal::evaluateInterval: Horner from the highest coefficient down *)
  Definition eval_interval (x : F) (coeffs : list F) (xm : F) : outcome F :=
    let dx := x - xm in
    match rev coeffs with
    | [] => UB OOBRead                       (* coeffs.back() of an empty array *)
    | c :: r => Ok (fold_left (fun res it => dx * res + it) r c)
    end.

  (* internal::make_array *)
  Definition make_array (n : nat) (v : F) : list F := repeat v n.

  (* element-wise sum, the longer operand decides the length *)
  Fixpoint padd (p q : list F) : list F :=
    match p, q with
    | [], _ => q
    | _, [] => p
    | a :: p', b :: q' => (a + b) :: padd p' q'
    end.

  (* internal::add<T,sizea,sizeb>(a, b): the longer array is copied and the
     shorter one added into it *)
  Definition arr_add (a b : list F) : list F :=
    if length a <? length b then padd b a else padd a b.

  (* internal::changearraysize<T,sizein,sizeout> *)
  Definition change_size (n : nat) (p : list F) : list F :=
    p ++ repeat f0 (n - length p).

  Definition pscale (c : F) (p : list F) : list F := map (fun a => a * c) p.
  Definition pscale_l (c : F) (p : list F) : list F := map (fun a => c * a) p.
  Definition pneg (p : list F) : list F := map (fun a => a * fm1) p.

  (* product of coefficient arrays: result length |p|+|q|-1 (the double loop
     `r[i+j] += p[i]*q[j]` over a zero-initialised array) *)
  Fixpoint pmul (p q : list F) : list F :=
    match p with
    | [] => []
    | a :: p' =>
        match p' with
        | [] => pscale_l a q
        | _ => padd (pscale_l a q) (f0 :: pmul p' q)
        end
    end.

  (* prod_{i=lo}^{hi} static_cast<T>(i) *)
  Definition prod_range (lo hi : nat) : F :=
    fold_left (fun r i => r * fofnat i) (seq lo (S hi - lo)) f1.

  (* internal::faculty *)
  Definition faculty (n : nat) : F := prod_range 2 n.

  (* internal::facultyRatio(counter, denominator) *)
  Definition faculty_ratio (c d : nat) : F :=
    if c <? d then f1 / prod_range (c + 1) d else prod_range (d + 1) c.

  (* internal::binomialCoefficient *)
  Definition binomial (n k : nat) : F :=
    if n <? k then f0
    else faculty_ratio n (Nat.max k (n - k)) / faculty (Nat.min k (n - k)).

  (* formal derivative (specification side) *)
  Fixpoint pderiv_from (i : nat) (p : list F) : list F :=
    match p with [] => [] | a :: q => (fofnat i * a) :: pderiv_from (S i) q end.
  Definition pderiv (p : list F) : list F :=
    match p with [] => [] | _ :: q => pderiv_from 1 q end.
  Fixpoint pderivn (n : nat) (p : list F) : list F :=
    match n with O => p | S m => pderivn m (pderiv p) end.

  (* antiderivative with zero constant term, definite integral over [-h, h] *)
  Fixpoint antideriv_from (i : nat) (p : list F) : list F :=
    match p with [] => [] | a :: q => (a / fofnat i) :: antideriv_from (S i) q end.
  Definition antideriv (p : list F) : list F := f0 :: antideriv_from 1 p.
  Definition defint (p : list F) (h : F) : F :=
    peval (antideriv p) h - peval (antideriv p) (- h).
End Poly.

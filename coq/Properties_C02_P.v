(* Properties_C02_P.v — C02_P: evaluation, as compiled, path by path.
   Tie between the C++ source and the model by translation, for operations that BRANCH ON SCALAR
   VALUES: coq/gen/PathGen_*.v are regenerated on every run by gen/symops2.py, which compiles the
   headers of /repo's current tree with the symbolic scalar type of cpp/symkern_sym.h (wrapped in
   cpp/symops2.cpp so that every comparison is recorded with its outcome; the outcome comes from an
   exact rational shadow value), runs the real public operations on objects whose grid points,
   coefficients and arguments are variables, and records, per run, the PATH CONDITION (every
   comparison executed, with its outcome: first those of the construction of the operands, i.e. the
   class invariant g0 < g1 < g2 < g3, then those of the operation) and the result.
   paths_<family>_agree (defined in those generated files) says: for every scalar structure
   satisfying the ordered-field laws and all values of the variables THAT SATISFY THE PATH CONDITION,
   the hand-written model operation - the one Pool.eval_op uses for the same C++ call - applied to
   the same symbolic operands returns exactly what the compiled code returned on that path.  The
   model does not make the comparisons the code makes (std::lower_bound bisects, the model walks the
   grid): the proof decides the model's comparisons from the path condition by an order decision
   procedure (coq/Proofs_PathTac.v).  Every lemma comes with an instance at the exact rationals the
   run used (p_<scenario>_ex in the generated file): no path condition is vacuous.
   The scenario lists are finite (listed per theorem); the unbounded statements about the model are
   in Properties_C02.v.
   Statements only: every theorem is closed by [exact]. *)
From BSpl Require Import Scalar Outcome Support Poly Spline Proofs_PathTac.
From BSpl.gen Require Import PathGen_eval.

(* Spline::operator()(x) for splines of order 1 (windows: whole grid, [g1,g3], one interval, one grid
   point, empty) and order 2 (whole grid, [g1,g3], one interval) on a grid of four symbolic points,
   x in each of the nine position classes (left of the grid, at each grid point, strictly inside each
   interval, right of the grid); the same call on an object with a history (an order-2 spline evaluated
   in its last interval, then assigned an order-1 spline on the shorter window [g0,g2], then evaluated at
   g0, inside the first interval and at the end g2 of the new support); front() and back() on the five windows (INVALID_ACCESS on the empty
   one) - equals spl_eval / spl_front / spl_back.  At an interior grid point of the support the code
   evaluates the piece to the LEFT (lower_bound), at the first point of the support the first piece;
   the model makes the same choice (C02 itself admits either adjacent piece). *)
Theorem C02_P_evaluation_as_compiled : paths_eval_agree.
Proof. exact paths_eval_agree_ok. Qed.
Print Assumptions C02_P_evaluation_as_compiled.

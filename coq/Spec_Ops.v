(* Spec_Ops.v — the mathematical meaning of operator expressions (C04, C05).
   Definitions only.

   On grid interval k a spline denotes the polynomial function
   x |-> peval c (x - m), m = mid g k, where c is the stored coefficient list.
   [dsem e g k c] is the coefficient list, in the same local coordinate
   u = x - m, of the function obtained by applying the differential expression
   spelled by [e] to that function.  It is defined compositionally on the
   SURFACE syntax from specification-level polynomial operations only:
   d^n/dx^n is the n-fold formal derivative [pderivn] (d/dx = d/du), x^n is
   multiplication by the n-th power of the polynomial m + u, a spline factor v
   is multiplication by the polynomial v denotes on interval k (nothing —
   hence zero — outside v's support), scalars act by their value in F
   (division is division in F), products of operators are composition, sums
   are pointwise. *)
From Coq Require Import List NArith ZArith Arith Bool.
From BSpl Require Import Scalar Outcome Support Poly Spline Ops Proofs_Support Spec.
Import ListNotations.

Section SpecOps.
  Context {F : Type} {K : Ops F}.

  (* the value in F of a scalar of the surface syntax *)
  Definition sval (s : scalar F) : F :=
    match s with
    | ScF c => c
    | ScI z => fofZ z
    | ScRecF c => (f1 / c)%F
    | ScRecI z => (f1 / fofZ z)%F
    end.

  Fixpoint ppow (p : list F) (n : nat) : list F :=
    match n with O => [f1] | S m => pmul p (ppow p m) end.

  (* the function x, as a polynomial in u = x - m *)
  Definition xpoly (m : F) : list F := [m; f1].

  Definition psub (p q : list F) : list F := padd p (pscale_l (- f1)%F q).

  Fixpoint dsem (e : expr F) (g : list F) (k : N) (p : list F) : list F :=
    match e with
    | EId => p
    | EPos n => pmul (ppow (xpoly (mid g k)) n) p
    | EDer n => pderivn n p
    | ESpl v => pmul (piece v k) p
    | EMul a b => dsem a g k (dsem b g k p)
    | EAdd a b => padd (dsem a g k p) (dsem b g k p)
    | ESub a b => psub (dsem a g k p) (dsem b g k p)
    | ESMulL s a => pscale_l (sval s) (dsem a g k p)
    | ESMulR a s => pscale_l (sval s) (dsem a g k p)
    | EDivS a s => pscale_l (f1 / sval s)%F (dsem a g k p)
    | EAddS a s => padd (dsem a g k p) (pscale_l (sval s) p)
    | ESAdd s a => padd (pscale_l (sval s) p) (dsem a g k p)
    | ESubS a s => psub (dsem a g k p) (pscale_l (sval s) p)
    | ESSub s a => psub (pscale_l (sval s) p) (dsem a g k p)
    | ENeg a => pscale_l (- f1)%F (dsem a g k p)
    end.

  (* side conditions of an expression: every spline factor is a valid spline on
     grid g; every divisor is non-zero (documented precondition) *)
  Fixpoint factors_ok (e : expr F) (g : list F) : Prop :=
    match e with
    | EId | EPos _ | EDer _ => True
    | ESpl v => SplInv v /\ sgridp v = g
    | EMul a b | EAdd a b | ESub a b => factors_ok a g /\ factors_ok b g
    | ESMulL _ a | ESMulR a _ | EDivS a _ | EAddS a _ | ESAdd _ a | ESubS a _ | ESSub _ a
    | ENeg a => factors_ok a g
    end.

  Definition scalar_wf (s : scalar F) : Prop :=
    match s with ScRecF c => c <> f0 | ScRecI z => z <> 0%Z | _ => True end.

  Fixpoint scalars_ok (e : expr F) : Prop :=
    match e with
    | EId | EPos _ | EDer _ | ESpl _ => True
    | EMul a b | EAdd a b | ESub a b => scalars_ok a /\ scalars_ok b
    | ESMulL s a | ESMulR a s | EAddS a s | ESAdd s a | ESubS a s | ESSub s a =>
        scalar_wf s /\ scalars_ok a
    | EDivS a s => scalar_wf s /\ sval s <> f0 /\ scalars_ok a
    | ENeg a => scalars_ok a
    end.
End SpecOps.

(* Spec_Gen.v — the textbook Cox–de Boor recursion on a knot list (C01).
   Definitions only.  It mentions neither grids nor windows nor midpoints:
   it is the specification the generated splines are compared with. *)
From Coq Require Import List NArith Arith Bool.
From BSpl Require Import Scalar.
Import ListNotations.
Local Open Scope F_scope.

Section SpecGen.
  Context {F : Type} {K : Ops F}.

  Definition knot (ks : list F) (j : nat) : F := nth j ks f0.

  (* B_{i,p}(x); terms with a zero-width denominator are dropped *)
  Fixpoint B (ks : list F) (p i : nat) (x : F) : F :=
    match p with
    | O => if fleb (knot ks i) x && fltb x (knot ks (i + 1)) then f1 else f0
    | S q =>
        (if fltb (knot ks i) (knot ks (i + q + 1))
         then (x - knot ks i) / (knot ks (i + q + 1) - knot ks i) * B ks q i x else f0)
        + (if fltb (knot ks (i + 1)) (knot ks (i + q + 2))
           then (knot ks (i + q + 2) - x) / (knot ks (i + q + 2) - knot ks (i + 1)) * B ks q (i + 1) x
           else f0)
    end.

  Definition nondecreasing (ks : list F) : Prop :=
    forall i a b, nth_error ks i = Some a -> nth_error ks (S i) = Some b -> fleb a b = true.

  Definition two_distinct (ks : list F) : Prop :=
    exists i j a b, nth_error ks i = Some a /\ nth_error ks j = Some b /\ a <> b.

  (* sum_{i < n} f i *)
  Fixpoint nsum (n : nat) (f : nat -> F) : F :=
    match n with O => f0 | S m => nsum m f + f m end.
End SpecGen.

(* Properties_C04_K.v — C04_K: primitive operators, per-interval transforms, as compiled.
   Tie between the C++ source and the model by translation: coq/gen/KernelGen_*.v are regenerated on
   every run by gen/symkern.py, which compiles the headers of /repo's current tree with a symbolic
   scalar type (cpp/symkern.cpp), runs the real templates and records the arithmetic expression each
   one computes (k_<instance>).  kernels_<family>_agree (defined in those generated files) says: for
   every scalar structure satisfying the ordered-field laws and all symbolic arguments, the
   hand-written model function returns the value of the expression the compiled code computes.
   The instance ranges are finite (listed per theorem); the unbounded statements about the model
   are in Properties_C04.v.  Statements only: every theorem is closed by [exact]. *)
From BSpl Require Import Scalar Outcome Support Poly Spline Ops Forms Proofs_KernelTac.
From BSpl.gen Require Import KernelGen_der KernelGen_pos KernelGen_misc KernelGen_big.

(* Derivative<k>::transform<T,n>, k = 0..4, n = 1..7, equals transform (ODer k) *)
Theorem C04_K_derivative_as_compiled : kernels_der_agree.
Proof. exact kernels_der_agree_ok. Qed.
Print Assumptions C04_K_derivative_as_compiled.

(* Position<k>::transform<T,n>, k = 0..4, n = 1..6, on the interval [g0, g1], equals transform (OPos k) *)
Theorem C04_K_position_as_compiled : kernels_pos_agree.
Proof. exact kernels_pos_agree_ok. Qed.
Print Assumptions C04_K_position_as_compiled.

(* internal::faculty<T>(n), n = 0..12 *)
Theorem C04_K_faculty_as_compiled : kernels_faculty_agree.
Proof. exact kernels_faculty_agree_ok. Qed.
Print Assumptions C04_K_faculty_as_compiled.

(* internal::facultyRatio<T>(c, d), c, d = 0..8 *)
Theorem C04_K_faculty_ratio_as_compiled : kernels_facratio_agree.
Proof. exact kernels_facratio_agree_ok. Qed.
Print Assumptions C04_K_faculty_ratio_as_compiled.

(* internal::binomialCoefficient<T>(n, k), n, k = 0..8 *)
Theorem C04_K_binomial_as_compiled : kernels_binom_agree.
Proof. exact kernels_binom_agree_ok. Qed.
Print Assumptions C04_K_binomial_as_compiled.

(* the same three functions at large arguments (results beyond 2^64 and 2^53): faculty 13..30, ratios such as
   25!/5!, 40!/20!, 1/(21!), binomials such as C(30,15), C(40,20) *)
Theorem C04_K_faculty_large_as_compiled : kernels_bigfaculty_agree.
Proof. exact kernels_bigfaculty_agree_ok. Qed.
Print Assumptions C04_K_faculty_large_as_compiled.

Theorem C04_K_faculty_ratio_large_as_compiled : kernels_bigfacratio_agree.
Proof. exact kernels_bigfacratio_agree_ok. Qed.
Print Assumptions C04_K_faculty_ratio_large_as_compiled.

Theorem C04_K_binomial_large_as_compiled : kernels_bigbinom_agree.
Proof. exact kernels_bigbinom_agree_ok. Qed.
Print Assumptions C04_K_binomial_large_as_compiled.

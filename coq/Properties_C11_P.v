(* Properties_C11_P.v — C11_P (serves C13 as well): grid validation, search and comparison, as
   compiled, path by path.  See Properties_C02_P.v for the technique (gen/symops2.py,
   cpp/symops2.cpp, coq/gen/PathGen_grid.v, coq/Proofs_PathTac.v): each statement has the path
   condition of one concolic run of the real C++ operation as its hypotheses and says that the
   model returns what the compiled code returned - an accepted grid, an index, a boolean, or the
   error code of the exception - on every input that takes that path; each comes with an instance at
   the exact rationals the run used.  The unbounded statements about the model are in
   Properties_C11.v / Properties_C13.v.
   Statements only: every theorem is closed by [exact]. *)
From BSpl Require Import Scalar Outcome Support Proofs_PathTac.
From BSpl.gen Require Import PathGen_grid.

(* Grid<T>(points) for 0..4 symbolic points: none / one point (MISSING_DATA, no comparison), strictly
   increasing (accepted, the grid holds the points), the first violation an equal pair or a descent at
   each position (INCONSISTENT_DATA), through the vector, iterator-pair and initializer-list
   constructors - equals grid_ctor;
   Grid::findElement(x) on grids of four and two points for x left of the grid, at each point, between
   two points, right of the grid (the index, or INCONSISTENT_DATA) - equals grid_find (the code bisects
   with std::lower_bound, the model counts the points below x);
   Grid::operator== / != on two separately built grids: equal, differing in the first / a middle / the
   last point, of different length; on the same object and on a copy - equals grid_eqb (the model
   compares elements before it notices a different length: both answer false). *)
Theorem C11_P_grid_as_compiled : paths_grid_agree.
Proof. exact paths_grid_agree_ok. Qed.
Print Assumptions C11_P_grid_as_compiled.

(* Examples.v — model of the solver skeletons of examples/diffusion.cpp and
   examples/spline-potential.cpp: knot set-up, basis generation, the container
   manipulations (front/back/erase/pop_back, indexed access to the eigen
   solver's output), assembly of the linear systems with the library's forms,
   and the construction of the returned splines.  The dense solvers of Eigen
   (colPivHouseholderQr, GeneralizedSelfAdjointEigenSolver) are section
   variables; nothing is assumed about them in this file.  SPLINE_ORDER (10 in
   the shipped code) is the variable ORDER.  No proofs in this file. *)
From Coq Require Import List NArith Arith Bool.
From BSpl Require Import Scalar Outcome Support Poly Spline Ops Forms Generator.
Import ListNotations.

Section Examples.
  Context {F : Type} {K : Ops F}.
  Variable ORDER : nat.

  (* std::vector in the checked-container reading: front()/back()/erase(begin())/pop_back()
     on an empty vector are undefined behaviour *)
  Definition vfront {A} (l : list A) : outcome A :=
    match l with [] => UB OOBRead | a :: _ => Ok a end.
  Definition vback {A} (l : list A) : outcome A :=
    match rev l with [] => UB OOBRead | a :: _ => Ok a end.
  Definition verase_begin {A} (l : list A) : outcome (list A) :=
    match l with [] => UB ErasePastEnd | _ :: r => Ok r end.
  Definition vpop_back {A} (l : list A) : outcome (list A) :=
    match l with [] => UB ErasePastEnd | _ => Ok (removelast l) end.

  (* ---------------- steady-state diffusion ---------------- *)

  (* setUpKnotsVector(support) *)
  Definition diff_knots (s : support F) : outcome (list F) :=
    do a <- sup_front s;
    do b <- sup_back s;
    Ok (repeat a ORDER ++ sup_points s ++ repeat b ORDER).

  (* setUpBasis(support) *)
  Definition diff_basis (s : support F) : outcome (list (spline F)) :=
    do ks <- diff_knots s;
    do gn <- gen_ctor2 ks (sgrid s);
    generate gn ORDER.

  (* BilinearForm{Dx<1>{}, (static_cast<data_t>(-1) / 2) * (SplineOperator{D} * Dx<1>{})} *)
  Definition diff_o1 : opx F := ODer 1.
  Definition diff_o2 (d : spline F) : opx F :=
    elab (ESMulL (ScF (fm1 / f2)%F) (EMul (ESpl d) (EDer 1))).

  (* setUpSymmetricMatrix(b, basis): the entries with j >= i are computed, the others mirrored *)
  Definition sym_matrix (form : spline F -> spline F -> outcome F) (basis : list (spline F))
    : outcome (list (list F)) :=
    omapM (fun i =>
      omapM (fun j =>
        let lo := Nat.min i j in
        let hi := Nat.max i j in
        do bi <- at_ basis lo;
        do bj <- at_ basis hi;
        form bi bj) (seq 0 (length basis))) (seq 0 (length basis)).

  Variable solve : list (list F) -> list F -> list F.

  Record diff_system := mkDiffSys {
    ds_first : spline F; ds_last : spline F; ds_inner : list (spline F);
    ds_mat : list (list F); ds_rhs : list F }.

  (* everything solveDiffusionSteadyState does before calling the solver *)
  Definition diffusion_system (d : spline F) (startv endv : F) : outcome diff_system :=
    do basis <- diff_basis (ssup d);
    do first0 <- vfront basis;
    let first := spl_scale first0 startv in
    do last0 <- vback basis;
    let last := spl_scale last0 endv in
    do b1 <- verase_begin basis;
    do inner <- vpop_back b1;
    let form := bilinear diff_o1 (diff_o2 d) in
    do rhs <- omapM (fun bi =>
                do x <- form bi first;
                do y <- form bi last;
                Ok (- (x + y))%F) inner;
    do mat <- sym_matrix form inner;
    Ok (mkDiffSys first last inner mat rhs).

  (* solveDiffusionSteadyState(diffusionCoeff, startValue, endValue) *)
  Definition diffusion (d : spline F) (startv endv : F) : outcome (spline F) :=
    do sys <- diffusion_system d startv endv;
    let coeffs := solve (ds_mat sys) (ds_rhs sys) in
    do lc <- lin_comb coeffs (ds_inner sys);
    do t <- spl_add lc (ds_first sys);
    spl_add t (ds_last sys).

  (* ---------------- Schroedinger equation with a spline potential ---------------- *)

  (* setUpBasis(grid): the knots are the grid points *)
  Definition pot_basis (g : list F) : outcome (list (spline F)) :=
    do gn <- gen_ctor2 g g;
    generate gn ORDER.

  (* (static_cast<data_t>(-1) / 2) * Dx<2>{} + SplineOperator{v} *)
  Definition hamilton_op (v : spline F) : opx F :=
    elab (EAdd (ESMulL (ScF (fm1 / f2)%F) (EDer 2)) (ESpl v)).

  Definition pot_matrices (v : spline F) : outcome (list (spline F) * list (list F) * list (list F)) :=
    do basis <- pot_basis (sgrid (ssup v));
    do h <- sym_matrix (bilinear OId (hamilton_op v)) basis;
    do s <- sym_matrix (bilinear OId OId) basis;
    Ok (basis, h, s).

  (* GeneralizedSelfAdjointEigenSolver: eigenvalues and eigenvectors, lowest first *)
  Variable eigs : list (list F) -> list (list F) -> list (F * list F).

  (* solveSEWithSplinePotential(v): at most ten eigenpairs (after fix D6: min(10, basis.size())) *)
  Definition potential_solve (v : spline F) : outcome (list (F * spline F)) :=
    do bhs <- pot_matrices v;
    let '(basis, h, s) := bhs in
    let es := eigs h s in
    omapM (fun i =>
      do e <- sub es i;                       (* eigenvalues(i), eigenvectors.col(i): unchecked *)
      do wf <- lin_comb (snd e) basis;
      Ok (fst e, wf)) (seq 0 (Nat.min 10 (length basis))).
End Examples.

(* Properties_C04_R.v — C04_R: analysis bridge for C04 at the real numbers.
   Statements only: every theorem is closed by [exact <lemma>] and followed by
   Print Assumptions.  The statements quantify over every scalar structure
   (F, K : Ops F) that satisfies the ordered-field laws (Laws K), and over all
   grids, windows, orders, coefficient values, expressions etc. named in them.
   The generic theorems use the FORMAL derivative (characterised algebraically).  At the real
   instance ExactOps the formal derivative is the derivative of analysis (Coquelicot is_derive_n):
   applying Derivative<n> yields on every interval the n-th derivative of the denoted function.
   Depends on the standard library's real-number axioms (printed below). *)
From Coq Require Import List NArith ZArith Arith Bool.
From BSpl Require Import Scalar Outcome Support Poly Spline Ops Forms Generator Interp Spec Spec_Ops Spec_Gen Proofs_Support Proofs_Scalar Proofs_Poly Proofs_Binom Proofs_Eval Proofs_Outcome Proofs_Spline Proofs_Forms Proofs_Ops Proofs_Forms2 Proofs_Interp Proofs_Pred Proofs_Gen Instances Instances_Ext Proofs_Valid Solver Pool Quad Proofs_Pool Proofs_Quad Proofs_Rounded Proofs_Threads Proofs_Updates Examples Proofs_Examples Proofs_Analysis Proofs_Smooth Proofs_Laws.
Import ListNotations.


Theorem C04_R_formal_derivative_is_derivative :
    forall (p : list Rdefinitions.RbaseSymbolsImpl.R) (u : Rdefinitions.RbaseSymbolsImpl.R),
           @Derive.is_derive Hierarchy.R_AbsRing Hierarchy.R_NormedModule
             (fun u0 : Hierarchy.AbsRing.sort Hierarchy.R_AbsRing => pevalR p u0) u (pevalR (pderivR p) u).
Proof. exact (@Proofs_Analysis.peval_is_derive). Qed.

Theorem C04_R_nth_derivative :
    forall (p : list Rdefinitions.RbaseSymbolsImpl.R) (n : nat) (u : Rdefinitions.RbaseSymbolsImpl.R),
           Derive.is_derive_n (fun u0 : Rdefinitions.RbaseSymbolsImpl.R => pevalR p u0) n u
             (pevalR (pderivnR n p) u).
Proof. exact (@Proofs_Analysis.peval_is_derive_n). Qed.

Theorem C04_R_den_nth_derivative :
    forall (s : spline Rdefinitions.RbaseSymbolsImpl.R) (k : N) (n : nat)
             (x : Rdefinitions.RbaseSymbolsImpl.R),
           Derive.is_derive_n
             (fun x0 : Rdefinitions.RbaseSymbolsImpl.R => @den Rdefinitions.RbaseSymbolsImpl.R ExactOps s k x0) n
             x
             (pevalR (pderivnR n (@piece Rdefinitions.RbaseSymbolsImpl.R s k))
                (Rdefinitions.Rminus x
                   (@mid Rdefinitions.RbaseSymbolsImpl.R ExactOps
                      (@sgrid Rdefinitions.RbaseSymbolsImpl.R (@ssup Rdefinitions.RbaseSymbolsImpl.R s)) k))).
Proof. exact (@Proofs_Analysis.den_is_derive_n). Qed.

Theorem C04_R_derivative_operator_is_derivative :
    forall (s r : spline Rdefinitions.RbaseSymbolsImpl.R) (n : nat),
           @SplInv Rdefinitions.RbaseSymbolsImpl.R ExactOps s ->
           @apply Rdefinitions.RbaseSymbolsImpl.R ExactOps (@ODer Rdefinitions.RbaseSymbolsImpl.R n) s =
           @Ok (spline Rdefinitions.RbaseSymbolsImpl.R) r ->
           forall (k : N) (x : Rdefinitions.RbaseSymbolsImpl.R),
           @imem Rdefinitions.RbaseSymbolsImpl.R k (@ssup Rdefinitions.RbaseSymbolsImpl.R s) ->
           Derive.is_derive_n
             (fun x0 : Rdefinitions.RbaseSymbolsImpl.R => @den Rdefinitions.RbaseSymbolsImpl.R ExactOps s k x0) n
             x (@den Rdefinitions.RbaseSymbolsImpl.R ExactOps r k x).
Proof. exact (@Proofs_Analysis.derivative_operator_is_derivative). Qed.


Print Assumptions C04_R_formal_derivative_is_derivative.
Print Assumptions C04_R_nth_derivative.
Print Assumptions C04_R_den_nth_derivative.
Print Assumptions C04_R_derivative_operator_is_derivative.

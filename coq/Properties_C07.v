(* Properties_C07.v — C07: linear forms equal the exact integral and agree with the bilinear form.
   Statements only: every theorem is closed by [exact <lemma>] and followed by
   Print Assumptions.  The statements quantify over every scalar structure
   (F, K : Ops F) that satisfies the ordered-field laws (Laws K), and over all
   grids, windows, orders, coefficient values, expressions etc. named in them.
 *)
From Coq Require Import List NArith ZArith Arith Bool.
From BSpl Require Import Scalar Outcome Support Poly Spline Ops Forms Generator Interp Spec Spec_Ops Spec_Gen Proofs_Support Proofs_Scalar Proofs_Poly Proofs_Binom Proofs_Eval Proofs_Outcome Proofs_Spline Proofs_Forms Proofs_Ops Proofs_Forms2 Proofs_Interp Proofs_Pred Proofs_Gen Instances Instances_Ext Proofs_Valid Solver Pool Quad Proofs_Pool Proofs_Quad Proofs_Rounded Proofs_Threads Proofs_Updates Examples Proofs_Examples Proofs_Analysis Proofs_Smooth Proofs_Laws.
Import ListNotations.


Theorem C07_defint_is_integral :
    forall (F : Type) (K : Ops F),
           Laws K ->
           forall (p : list F) (h : F),
           exists P : list F, pderiv P = p /\ defint p h = (peval P h - peval P (- h))%F.
Proof. exact (@Proofs_Forms.defint_is_integral). Qed.

Theorem C07_kernel :
    forall (F : Type) (K : Ops F),
           Laws K -> forall (a : list F) (h : F), a <> [] -> lin_kernel a h = Ok (defint a h).
Proof. exact (@Proofs_Forms.lin_kernel_spec). Qed.

Theorem C07_exact :
    forall (F : Type) (K : Ops F),
           Laws K ->
           forall (e : expr F) (a : spline F),
           SplInv a ->
           factors_ok e (sgridp a) ->
           scalars_ok e ->
           linear (elab e) a =
           Ok
             (fsum (fun k : N => defint (dsem e (sgridp a) k (piece a k)) (halfwidth (sgridp a) k))
                (interval_list (ssup a))).
Proof. exact (@Proofs_Forms2.linear_exact). Qed.

Theorem C07_total :
    forall (F : Type) (K : Ops F),
           Laws K ->
           forall (e : expr F) (a : spline F),
           SplInv a -> factors_ok e (sgridp a) -> scalars_ok e -> exists v : F, linear (elab e) a = Ok v.
Proof. exact (@Proofs_Forms2.linear_total). Qed.

Theorem C07_no_interval :
    forall (F : Type) (K : Ops F) (e : expr F) (a : spline F),
           SplInv a -> nintervals (ssup a) = 0%N -> linear (elab e) a = Ok f0.
Proof. exact (@Proofs_Forms2.linear_no_interval_exact). Qed.

Theorem C07_add :
    forall (F : Type) (K : Ops F),
           Laws K ->
           forall (e : expr F) (a1 a2 r : spline F),
           SplInv a1 ->
           SplInv a2 ->
           sgridp a1 = sgridp a2 ->
           factors_ok e (sgridp a1) ->
           scalars_ok e ->
           spl_add a1 a2 = Ok r ->
           exists v1 v2 v : F,
             linear (elab e) a1 = Ok v1 /\
             linear (elab e) a2 = Ok v2 /\ linear (elab e) r = Ok v /\ v = (v1 + v2)%F.
Proof. exact (@Proofs_Forms2.linear_add). Qed.

Theorem C07_scale :
    forall (F : Type) (K : Ops F),
           Laws K ->
           forall (e : expr F) (a : spline F) (c : F),
           SplInv a ->
           factors_ok e (sgridp a) ->
           scalars_ok e ->
           exists v v' : F,
             linear (elab e) a = Ok v /\ linear (elab e) (spl_scale_l c a) = Ok v' /\ v' = (c * v)%F.
Proof. exact (@Proofs_Forms2.linear_scale). Qed.

Theorem C07_bilinear_is_linear_of_product :
    forall (F : Type) (K : Ops F),
           Laws K ->
           forall (e1 e2 : expr F) (a b : spline F),
           SplInv a ->
           SplInv b ->
           sgridp a = sgridp b ->
           factors_ok e1 (sgridp a) ->
           factors_ok e2 (sgridp a) ->
           scalars_ok e1 ->
           scalars_ok e2 ->
           exists (ra rb p : spline F) (v : F),
             apply (elab e1) a = Ok ra /\
             apply (elab e2) b = Ok rb /\
             spl_mul ra rb = Ok p /\ bilinear (elab e1) (elab e2) a b = Ok v /\ linear OId p = Ok v.
Proof. exact (@Proofs_Forms2.bilinear_is_linear_of_product). Qed.


Print Assumptions C07_defint_is_integral.
Print Assumptions C07_kernel.
Print Assumptions C07_exact.
Print Assumptions C07_total.
Print Assumptions C07_no_interval.
Print Assumptions C07_add.
Print Assumptions C07_scale.
Print Assumptions C07_bilinear_is_linear_of_product.

(* Properties_C03_K.v — C03_K: array helpers of spline arithmetic, as compiled.
   Tie between the C++ source and the model by translation: coq/gen/KernelGen_*.v are regenerated on
   every run by gen/symkern.py, which compiles the headers of /repo's current tree with a symbolic
   scalar type (cpp/symkern.cpp), runs the real templates and records the arithmetic expression each
   one computes (k_<instance>).  kernels_<family>_agree (defined in those generated files) says: for
   every scalar structure satisfying the ordered-field laws and all symbolic arguments, the
   hand-written model function returns the value of the expression the compiled code computes.
   The instance ranges are finite (listed per theorem); the unbounded statements about the model
   are in Properties_C03.v.  Statements only: every theorem is closed by [exact]. *)
From BSpl Require Import Scalar Outcome Support Poly Spline Ops Forms Proofs_KernelTac.
From BSpl.gen Require Import KernelGen_arr.

(* internal::add<T,na,nb>, sizes 1..5, equals arr_add *)
Theorem C03_K_add_as_compiled : kernels_add_agree.
Proof. exact kernels_add_agree_ok. Qed.
Print Assumptions C03_K_add_as_compiled.

(* internal::changearraysize<T,nin,nout>, 1 <= nin <= nout <= 5, equals change_size *)
Theorem C03_K_changearraysize_as_compiled : kernels_chsize_agree.
Proof. exact kernels_chsize_agree_ok. Qed.
Print Assumptions C03_K_changearraysize_as_compiled.


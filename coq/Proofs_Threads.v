(* Proofs_Threads.v — the operation-level part of the property
   "concurrent read-only use is deterministic".

   Any number of threads may at the same time evaluate, copy, combine,
   transform, integrate and destroy objects that share grids or are themselves
   shared as const objects; each thread obtains results identical to a
   sequential run.

   Model: a thread is a list of pool operations (Pool.v).  Threads OWN disjoint
   sets of slots, which they may read and write, and may READ shared slots that
   nobody writes (the C++ `const` discipline): [owner], [op_allowed],
   [sched_ok].  A schedule is any interleaving of the threads' operation lists,
   executed one operation at a time with [step] ([run_sched]): operation-level
   atomicity.  Data races INSIDE one operation are outside this model; they are
   the business of a separate ThreadSanitizer run.

     [eval_op_reads]            the writes and the result of an operation depend
                                only on the slots it reads;
     [interleave_deterministic] under every interleaving each thread obtains
                                exactly the results, and leaves its own objects
                                in exactly the state, of running alone;
     [shared_never_change]      shared const objects are never modified;
     [schedule_independent]     any two interleavings give a thread the same
                                results (and [schedule_independent_state]: the
                                same final values of its objects).

   No scalar laws and no assumption about the solver are used. *)
From Coq Require Import List Arith Bool ZArith.
From BSpl Require Import Scalar Outcome Support Poly Spline Ops Forms Generator Interp Solver
  Pool Proofs_Outcome Proofs_Pool.
Import ListNotations.

Section Threads.
  Context {F : Type} {K : Ops F}.
  Variable solver : nat -> list (row F) -> list F.

  (* ================================================================== *)
  (* What an operation reads                                            *)
  (* ================================================================== *)
  (* the slots of the spline factors of an operator expression *)
  Fixpoint pexpr_slots (e : pexpr F) : list nat :=
    match e with
    | PId | PPos _ | PDer _ => []
    | PSpl i => [i]
    | PMul a b | PAdd a b | PSub a b => pexpr_slots a ++ pexpr_slots b
    | PSMulL _ a | PSMulR a _ | PDivS a _ | PAddS a _ | PSAdd _ a | PSubS a _ | PSSub _ a
    | PNeg a => pexpr_slots a
    end.

  (* every slot [eval_op] may look up: the operands, the spline factors inside
     expressions, and the destination whenever the operation inspects it *)
  Definition reads (o : op F) : list nat :=
    match o with
    | GridNew _ _ => []
    | GridCopy _ a => [a]
    | GridAt a _ | GridSub a _ | GridFind a _ | GridSize a | GridFront a | GridBack a => [a]
    | GridEq a b => [a; b]
    | SupNew _ g _ _ => [g]
    | SupEmpty _ g | SupWhole _ g => [g]
    | SupCopy _ a | SupMove _ a | SupGrid _ a => [a]
    | SupMoveAssign d a => [d; a]
    | SupUnion _ a b | SupInter _ a b => [a; b]
    | SupRel a _ | SupIvl a _ | SupAbs a _ | SupAt a _ | SupSub a _ => [a]
    | SupFront a | SupBack a | SupIter a | SupIsEmpty a | SupContains a => [a]
    | SupEq a b | SupSameGrid a b => [a; b]
    | SplNew _ _ sup _ => [sup]
    | SplEmpty _ _ g => [g]
    | SplCopy d a => [a; d]
    | SplMove _ a => [a]
    | SplMoveAssign d a | SplAssignUp d a => [d; a]
    | SplScale _ a _ | SplDiv _ a _ => [a]
    | SplScaleL _ _ a => [a]
    | SplNeg _ a | SplSupport _ a => [a]
    | SplIMul a _ | SplIDiv a _ => [a]
    | SplAdd _ a b | SplSub _ a b | SplMul _ a b => [a; b]
    | SplIAdd a b | SplISub a b => [a; b]
    | SplLinComb _ _ ss => ss
    | SplEval a _ => [a]
    | SplFront a | SplBack a | SplIsZero a => [a]
    | SplOverlap a b | SplEq a b => [a; b]
    | Apply _ e a => a :: pexpr_slots e
    | Transform e _ g _ => g :: pexpr_slots e
    | Bilin e1 e2 a b => a :: b :: pexpr_slots e1 ++ pexpr_slots e2
    | Lin e a => a :: pexpr_slots e
    | Gen1 _ _ _ => []
    | Gen2 _ _ _ g => [g]
    | Interp _ _ x _ _ => [x]
    | InterpDefault _ _ x _ => [x]
    | Show a => [a]
    end.

  (* ---- typed access depends on one slot ---- *)
  Lemma get_grid_reads (st st' : state F) i :
    lookup st i = lookup st' i -> get_grid st i = get_grid st' i.
  Proof. intros H. unfold get_grid. rewrite H. reflexivity. Qed.

  Lemma get_sup_reads (st st' : state F) i :
    lookup st i = lookup st' i -> get_sup st i = get_sup st' i.
  Proof. intros H. unfold get_sup. rewrite H. reflexivity. Qed.

  Lemma get_spl_reads (st st' : state F) i :
    lookup st i = lookup st' i -> get_spl st i = get_spl st' i.
  Proof. intros H. unfold get_spl. rewrite H. reflexivity. Qed.

  (* ---- an expression depends on the slots of its spline factors ---- *)
  Lemma resolve_reads (st st' : state F) (e : pexpr F) :
    (forall i, In i (pexpr_slots e) -> lookup st i = lookup st' i) ->
    resolve st e = resolve st' e.
  Proof.
    induction e as [|n|n|i|a IHa b IHb|a IHa b IHb|a IHa b IHb|s a IHa|a IHa s|a IHa s
                    |a IHa s|s a IHa|a IHa s|s a IHa|a IHa];
      cbn [pexpr_slots resolve]; intros H;
      try reflexivity;
      try (rewrite IHa, IHb by (intros j Hj; apply H; apply in_or_app; auto); reflexivity);
      try (rewrite IHa by exact H; reflexivity).
    rewrite (get_spl_reads st st' i) by (apply H; left; reflexivity). reflexivity.
  Qed.

  (* ---- a list of spline operands depends on the listed slots ---- *)
  Lemma omapM_get_spl_reads (st st' : state F) (ss : list nat) :
    (forall i, In i ss -> lookup st i = lookup st' i) ->
    omapM (get_spl st) ss = omapM (get_spl st') ss.
  Proof. intros H. apply omapM_ext. intros a Ha. apply get_spl_reads, H, Ha. Qed.

  Ltac solve_in := cbn [In]; rewrite ?in_app_iff; tauto.

  (* 1. an operation's writes and result depend only on the slots it reads *)
  Theorem eval_op_reads (st st' : state F) (o : op F) :
    (forall i, In i (reads o) -> lookup st i = lookup st' i) ->
    eval_op solver st o = eval_op solver st' o.
  Proof.
    intros H. destruct o; cbn [reads] in H; unfold eval_op;
      repeat match goal with
      | |- context [resolve st ?e] =>
          rewrite (resolve_reads st st' e) by (intros j Hj; apply H; solve_in)
      | |- context [omapM (get_spl st) ?ss] =>
          rewrite (omapM_get_spl_reads st st' ss) by exact H
      | |- context [get_grid st ?i] => rewrite (get_grid_reads st st' i) by (apply H; solve_in)
      | |- context [get_sup st ?i] => rewrite (get_sup_reads st st' i) by (apply H; solve_in)
      | |- context [get_spl st ?i] => rewrite (get_spl_reads st st' i) by (apply H; solve_in)
      | |- context [lookup st ?i] => rewrite (H i) by solve_in
      end; reflexivity.
  Qed.

  (* ================================================================== *)
  (* 2. One step, slot by slot                                          *)
  (* ================================================================== *)
  (* after committing, a slot holds a written value or its old binding *)
  Lemma lookup_commit_cases (ws : list (nat * obj F)) : forall (st : state F) i,
    (exists v, In (i, v) ws /\ lookup (commit st ws) i = Some v) \/
    ((forall w, In w ws -> fst w <> i) /\ lookup (commit st ws) i = lookup st i).
  Proof.
    induction ws as [|[j v] ws IH]; intros st i.
    - right. split; [intros w []|reflexivity].
    - rewrite commit_cons. destruct (IH (write st (j, v)) i) as [(v' & Hin & Hl)|[Hno Hl]].
      + left. exists v'. split; [right; exact Hin | exact Hl].
      + rewrite Hl, lookup_write. destruct (Nat.eqb_spec i j) as [->|Hne].
        * left. exists v. split; [left; reflexivity | reflexivity].
        * right. split; [|reflexivity]. intros w [<-|Hw]; [cbn [fst]; congruence | apply Hno, Hw].
  Qed.

  (* the state after [step] at slot i is a value written by the operation, or
     the old one *)
  Lemma lookup_step_cases (st : state F) (o : op F) i :
    (exists ws r v, eval_op solver st o = Ok (ws, r) /\ In (i, v) ws /\
                    lookup (fst (step solver st o)) i = Some v) \/
    lookup (fst (step solver st o)) i = lookup st i.
  Proof.
    unfold step. destruct (eval_op solver st o) as [[ws r]|e|k] eqn:E; cbn [fst];
      [|right; reflexivity|right; reflexivity].
    destruct (lookup_commit_cases ws st i) as [(v & Hin & Hl)|[_ Hl]]; [left|right; exact Hl].
    exists ws, r, v. auto.
  Qed.

  (* committing the same writes preserves agreement on a slot *)
  Lemma lookup_commit_agree (ws : list (nat * obj F)) : forall (st st' : state F) i,
    lookup st i = lookup st' i -> lookup (commit st ws) i = lookup (commit st' ws) i.
  Proof.
    induction ws as [|[j v] ws IH]; intros st st' i H; [exact H|].
    rewrite !commit_cons. apply IH. rewrite !lookup_write. rewrite H. reflexivity.
  Qed.

  (* two states that agree on slot i before a step whose writes are computed
     identically agree on i after it *)
  Lemma lookup_step_agree (st st' : state F) (o : op F) i :
    eval_op solver st o = eval_op solver st' o -> lookup st i = lookup st' i ->
    lookup (fst (step solver st o)) i = lookup (fst (step solver st' o)) i.
  Proof.
    intros E H. unfold step. rewrite <- E.
    destruct (eval_op solver st o) as [[ws r]|e|k]; cbn [fst]; [|exact H|exact H].
    apply lookup_commit_agree. exact H.
  Qed.

  Lemma step_result_agree (st st' : state F) (o : op F) :
    eval_op solver st o = eval_op solver st' o ->
    snd (step solver st o) = snd (step solver st' o).
  Proof.
    intros E. unfold step. rewrite <- E.
    destruct (eval_op solver st o) as [[ws r]|e|k]; reflexivity.
  Qed.

  (* ================================================================== *)
  (* Threads, schedules, ownership                                      *)
  (* ================================================================== *)
  Definition tid := nat.
  Definition sched := list (tid * op F).

  (* the operations in schedule order, one at a time; every outcome is tagged
     with the thread that obtained it *)
  Fixpoint run_sched (st : state F) (s : sched) : state F * list (tid * outcome (obs F)) :=
    match s with
    | [] => (st, [])
    | (t, o) :: r => let '(st', x) := step solver st o in
                     let '(st'', xs) := run_sched st' r in (st'', (t, x) :: xs)
    end.

  (* [None]: a shared read-only slot *)
  Definition owner := nat -> option tid.

  (* a thread writes only slots it owns, and reads only these and shared ones *)
  Definition op_allowed (own : owner) (t : tid) (o : op F) : Prop :=
    (forall i, In i (targets o) -> own i = Some t) /\
    (forall i, In i (reads o) -> own i = Some t \/ own i = None).

  Definition sched_ok (own : owner) (s : sched) : Prop :=
    Forall (fun x => op_allowed own (fst x) (snd x)) s.

  (* the operation list of thread t, and the outcomes thread t obtained *)
  Definition proj (t : tid) (s : sched) : list (op F) :=
    map snd (filter (fun x => Nat.eqb (fst x) t) s).
  Definition outs (t : tid) (l : list (tid * outcome (obs F))) : list (outcome (obs F)) :=
    map snd (filter (fun x => Nat.eqb (fst x) t) l).

  Lemma run_sched_cons (st : state F) u o (s : sched) :
    run_sched st ((u, o) :: s) =
    (fst (run_sched (fst (step solver st o)) s),
     (u, snd (step solver st o)) :: snd (run_sched (fst (step solver st o)) s)).
  Proof.
    cbn [run_sched]. destruct (step solver st o) as [st' x]. cbn [fst snd].
    destruct (run_sched st' s) as [st'' xs]. reflexivity.
  Qed.

  Lemma proj_cons (t u : tid) o (s : sched) :
    proj t ((u, o) :: s) = if Nat.eqb u t then o :: proj t s else proj t s.
  Proof. unfold proj. cbn [filter fst]. destruct (Nat.eqb u t); reflexivity. Qed.

  Lemma outs_cons (t u : tid) x l :
    outs t ((u, x) :: l) = if Nat.eqb u t then x :: outs t l else outs t l.
  Proof. unfold outs. cbn [filter fst]. destruct (Nat.eqb u t); reflexivity. Qed.

  (* an allowed operation of thread u leaves every slot u does not own alone *)
  Lemma allowed_frame (own : owner) u o (st : state F) i :
    op_allowed own u o -> own i <> Some u ->
    lookup (fst (step solver st o)) i = lookup st i.
  Proof.
    intros [Ht _] Hi. apply frame. intros Hin. apply Hi, Ht, Hin.
  Qed.

  (* ================================================================== *)
  (* 3. Every interleaving looks, to each thread, like running alone     *)
  (* ================================================================== *)
  (* generalisation: [st1] is the state of the interleaved run, [st2] the state
     of the solo run of thread t; they agree on everything t may read *)
  Lemma interleave_gen (own : owner) (t : tid) (s : sched) : sched_ok own s ->
    forall st1 st2 : state F,
    (forall i, own i = Some t \/ own i = None -> lookup st1 i = lookup st2 i) ->
    outs t (snd (run_sched st1 s)) = snd (run solver st2 (proj t s)) /\
    (forall i, own i = Some t \/ own i = None ->
               lookup (fst (run_sched st1 s)) i = lookup (fst (run solver st2 (proj t s))) i).
  Proof.
    induction s as [|[u o] s IH]; intros Hok st1 st2 Hag.
    - split; [reflexivity | exact Hag].
    - apply Forall_cons_iff in Hok as [Ho Hok]. cbn [fst snd] in Ho.
      rewrite run_sched_cons, proj_cons. cbn [fst snd]. rewrite outs_cons.
      destruct (Nat.eqb_spec u t) as [->|Hne].
      + (* an operation of t itself: it reads only agreed slots *)
        assert (E : eval_op solver st1 o = eval_op solver st2 o).
        { apply eval_op_reads. intros i Hi. apply Hag. destruct Ho as [_ Hr]. exact (Hr i Hi). }
        rewrite run_cons. cbn [fst snd].
        destruct (IH Hok (fst (step solver st1 o)) (fst (step solver st2 o))) as [IH1 IH2].
        { intros i Hi. apply lookup_step_agree; [exact E | apply Hag, Hi]. }
        split; [|exact IH2]. rewrite IH1, (step_result_agree st1 st2 o E). reflexivity.
      + (* an operation of another thread: it changes only slots owned by u *)
        apply (IH Hok). intros i Hi. rewrite <- (Hag i Hi).
        apply (allowed_frame own u o st1 i Ho).
        destruct Hi as [Hi|Hi]; rewrite Hi; [intros [= E]; apply Hne; symmetry; exact E | discriminate].
  Qed.

  Theorem interleave_deterministic (own : owner) (s : sched) (st : state F) (t : tid) :
    sched_ok own s ->
    outs t (snd (run_sched st s)) = snd (run solver st (proj t s)) /\
    (forall i, own i = Some t ->
               lookup (fst (run_sched st s)) i = lookup (fst (run solver st (proj t s))) i).
  Proof.
    intros Hok. destruct (interleave_gen own t s Hok st st (fun i _ => eq_refl)) as [H1 H2].
    split; [exact H1|]. intros i Hi. apply H2. left. exact Hi.
  Qed.

  (* ================================================================== *)
  (* 4. Shared const objects are never modified                          *)
  (* ================================================================== *)
  Theorem shared_never_change (own : owner) (s : sched) (st : state F) i :
    sched_ok own s -> own i = None -> lookup (fst (run_sched st s)) i = lookup st i.
  Proof.
    intros Hok Hi. revert st. induction s as [|[u o] s IH]; intros st; [reflexivity|].
    apply Forall_cons_iff in Hok as [Ho Hok]. cbn [fst snd] in Ho.
    rewrite run_sched_cons. cbn [fst]. rewrite (IH Hok).
    apply (allowed_frame own u o st i Ho). rewrite Hi. discriminate.
  Qed.

  (* nor does a thread see another thread's objects change under its feet: a
     slot owned by t is only ever changed by t *)
  Theorem owned_only_changed_by_owner (own : owner) (s : sched) (st : state F) (t : tid) i :
    sched_ok own s -> own i = Some t -> proj t s = [] ->
    lookup (fst (run_sched st s)) i = lookup st i.
  Proof.
    intros Hok Hi Hp. destruct (interleave_deterministic own s st t Hok) as [_ H].
    rewrite (H i Hi), Hp. reflexivity.
  Qed.

  (* ================================================================== *)
  (* 5. Any two interleavings give a thread the same results             *)
  (* ================================================================== *)
  Theorem schedule_independent (own : owner) (s s' : sched) (st : state F) (t : tid) :
    sched_ok own s -> sched_ok own s' -> proj t s = proj t s' ->
    outs t (snd (run_sched st s)) = outs t (snd (run_sched st s')).
  Proof.
    intros Hs Hs' Hp.
    rewrite (proj1 (interleave_deterministic own s st t Hs)).
    rewrite (proj1 (interleave_deterministic own s' st t Hs')). rewrite Hp. reflexivity.
  Qed.

  (* ... and leave its own objects, and the shared ones, in the same state *)
  Theorem schedule_independent_state (own : owner) (s s' : sched) (st : state F) (t : tid) i :
    sched_ok own s -> sched_ok own s' -> proj t s = proj t s' ->
    own i = Some t \/ own i = None ->
    lookup (fst (run_sched st s)) i = lookup (fst (run_sched st s')) i.
  Proof.
    intros Hs Hs' Hp Hi.
    rewrite (proj2 (interleave_gen own t s Hs st st (fun j _ => eq_refl)) i Hi).
    rewrite (proj2 (interleave_gen own t s' Hs' st st (fun j _ => eq_refl)) i Hi).
    rewrite Hp. reflexivity.
  Qed.

End Threads.

(* ================================================================== *)
(* 6. Non-vacuity: two threads over a shared grid and a shared spline,  *)
(* exact rationals, Gauss solver                                        *)
(* ================================================================== *)
From BSpl Require Import Instances.

Definition thr_grid : list Qcanon.Qc := [qc 0 1; qc 1 1; qc 2 1; qc 3 1].

(* slot 0: the shared grid; slot 1: a shared support on it; slot 2: a shared
   spline of order 1 with three intervals *)
Definition thr_setup : list (op Qcanon.Qc) :=
  [GridNew 0 thr_grid; SupWhole 1 0;
   SplNew 2 1 1 [[qc 1 1; qc 2 1]; [qc 0 1; qc 1 1]; [qc 1 2; qc (-1) 3]]].
Definition thr_init : state Qcanon.Qc := fst (run gauss_solve [] thr_setup).

(* slots below 10 are shared and read-only; thread 1 owns 10..19, thread 2 the rest *)
Definition thr_own : owner := fun i =>
  if (i <? 10)%nat then None else if (i <? 20)%nat then Some 1%nat else Some 2%nat.

(* thread 1: copy the shared spline, evaluate it, add, add in place, integrate
   against it, build a support on the shared grid, show *)
Definition thr_a : list (op Qcanon.Qc) :=
  [SplCopy 10 2; SplEval 2 (qc 1 2); SplAdd 11 10 2; SplIAdd 10 2; SplEval 10 (qc 5 4);
   Bilin PId (PSpl 2) 2 10; SupWhole 12 0; Show 11].

(* thread 2: copy, scale, add, apply x d/dx, integrate, move the copy away
   (destroying it), evaluate, transform coefficients, show the moved-from copy *)
Definition thr_b : list (op Qcanon.Qc) :=
  [SplCopy 20 2; SplScale 21 2 (qc 3 1); SplAdd 22 20 21; Apply 23 (PMul (PPos 1) (PDer 1)) 2;
   Lin (PSpl 2) 22; SplMove 24 20; SplEval 22 (qc 5 4);
   Transform (PSpl 2) [qc 1 1; qc 1 1] 0 1; Show 20].

(* two interleavings: a fine-grained one, and "all of thread 2, then all of thread 1" *)
Definition thr_s1 : sched (F:=Qcanon.Qc) :=
  [(1, SplCopy 10 2); (2, SplCopy 20 2); (2, SplScale 21 2 (qc 3 1)); (1, SplEval 2 (qc 1 2));
   (1, SplAdd 11 10 2); (2, SplAdd 22 20 21); (1, SplIAdd 10 2);
   (2, Apply 23 (PMul (PPos 1) (PDer 1)) 2); (2, Lin (PSpl 2) 22); (1, SplEval 10 (qc 5 4));
   (2, SplMove 24 20); (1, Bilin PId (PSpl 2) 2 10); (1, SupWhole 12 0); (2, SplEval 22 (qc 5 4));
   (2, Transform (PSpl 2) [qc 1 1; qc 1 1] 0 1); (1, Show 11); (2, Show 20)]%nat.
Definition thr_s2 : sched (F:=Qcanon.Qc) := map (pair 2%nat) thr_b ++ map (pair 1%nat) thr_a.

Ltac sched_ok_tac :=
  repeat (apply Forall_cons;
          [split; cbn [fst snd targets reads pexpr_slots app In]; intros i Hi;
           intuition (subst i; vm_compute; auto)|]);
  apply Forall_nil.

Example thr_setup_ok : forallb (@is_ok _) (snd (run gauss_solve [] thr_setup)) = true.
Proof. vm_compute. reflexivity. Qed.

(* the premises of the theorems hold for both schedules *)
Example thr_s1_ok : sched_ok thr_own thr_s1.
Proof. unfold thr_s1. sched_ok_tac. Qed.

Example thr_s2_ok : sched_ok thr_own thr_s2.
Proof. unfold thr_s2, thr_a, thr_b. cbn [map app]. sched_ok_tac. Qed.

Example thr_proj :
  proj 1 thr_s1 = thr_a /\ proj 2 thr_s1 = thr_b /\ proj 1 thr_s2 = thr_a /\ proj 2 thr_s2 = thr_b.
Proof. repeat split; vm_compute; reflexivity. Qed.

(* every operation of both threads succeeds (nothing is vacuously equal because
   everything failed) *)
Example thr_all_ok :
  forallb (fun x => is_ok (snd x)) (snd (run_sched gauss_solve thr_init thr_s1)) = true /\
  forallb (fun x => is_ok (snd x)) (snd (run_sched gauss_solve thr_init thr_s2)) = true.
Proof. split; vm_compute; reflexivity. Qed.

(* by computation: the per-thread outputs of the two interleavings coincide with
   each other and with the solo runs *)
Example thr_outs_computed :
  outs 1 (snd (run_sched gauss_solve thr_init thr_s1)) = snd (run gauss_solve thr_init thr_a) /\
  outs 1 (snd (run_sched gauss_solve thr_init thr_s2)) = snd (run gauss_solve thr_init thr_a) /\
  outs 2 (snd (run_sched gauss_solve thr_init thr_s1)) = snd (run gauss_solve thr_init thr_b) /\
  outs 2 (snd (run_sched gauss_solve thr_init thr_s2)) = snd (run gauss_solve thr_init thr_b).
Proof. repeat split; vm_compute; reflexivity. Qed.

(* the same facts as instances of the theorems *)
Example thr_outs_by_theorem (t : tid) : (t = 1 \/ t = 2)%nat ->
  outs t (snd (run_sched gauss_solve thr_init thr_s1)) =
  outs t (snd (run_sched gauss_solve thr_init thr_s2)).
Proof.
  intros Ht. apply (schedule_independent gauss_solve thr_own); [exact thr_s1_ok | exact thr_s2_ok |].
  destruct thr_proj as (H1 & H2 & H3 & H4). destruct Ht as [-> | ->]; congruence.
Qed.

Example thr_shared_unchanged i : (i < 10)%nat ->
  lookup (fst (run_sched gauss_solve thr_init thr_s1)) i = lookup thr_init i.
Proof.
  intros Hi. apply (shared_never_change gauss_solve thr_own); [exact thr_s1_ok|].
  unfold thr_own. apply Nat.ltb_lt in Hi. rewrite Hi. reflexivity.
Qed.

(* the threads did change their own objects: thread 2's moved-from copy is an
   interval-free spline, not the shared one *)
Example thr_owned_changed :
  lookup (fst (run_sched gauss_solve thr_init thr_s1)) 20 <> lookup thr_init 2 /\
  lookup (fst (run_sched gauss_solve thr_init thr_s1)) 24 = lookup thr_init 2.
Proof. split; [vm_compute; discriminate | vm_compute; reflexivity]. Qed.

(* the ownership discipline is needed: if thread 2 scales the SHARED spline in
   place (a write to a slot it does not own), thread 1's evaluation depends on
   the interleaving *)
Definition thr_bad1 : sched (F:=Qcanon.Qc) := [(1, SplEval 2 (qc 1 2)); (2, SplIMul 2 (qc 2 1))]%nat.
Definition thr_bad2 : sched (F:=Qcanon.Qc) := [(2, SplIMul 2 (qc 2 1)); (1, SplEval 2 (qc 1 2))]%nat.

Example thr_discipline_needed :
  proj 1 thr_bad1 = proj 1 thr_bad2 /\ proj 2 thr_bad1 = proj 2 thr_bad2 /\
  outs 1 (snd (run_sched gauss_solve thr_init thr_bad1)) <>
  outs 1 (snd (run_sched gauss_solve thr_init thr_bad2)) /\
  ~ sched_ok thr_own thr_bad1.
Proof.
  split; [vm_compute; reflexivity|]. split; [vm_compute; reflexivity|].
  split; [vm_compute; discriminate|].
  intros H. apply Forall_cons_iff in H as [_ H]. apply Forall_cons_iff in H as [[H _] _].
  specialize (H 2%nat (or_introl eq_refl)). vm_compute in H. discriminate.
Qed.

(* Proofs_Interp.v — interpolation reproduces the data with the promised
   smoothness and boundaries.

   For every valid window [x] (at least two nodes) of a valid grid, every
   ordinate vector [y] of the same length, every order >= 1 and every set [bs]
   of order-1 end-point derivative conditions: IF a vector [c] solves the
   linear system assembled by [interp_system], THEN the spline [interp_build]
   cuts out of [c] takes the given ordinate at every node (from each adjacent
   piece), has continuous derivatives of orders 1..order-1 at every interior
   node and satisfies every boundary condition.  The solver is abstract: the
   theorems quantify over every [c] with [solves rows c].

   Part A: validation and shape of the assembled system.
   Part B: soundness of the rows, shape of the built spline, main theorem. *)
From Coq Require Import List Arith NArith ZArith Bool Lia ZifyBool ZifyN Field Ring.
From BSpl Require Import ListAux Scalar Outcome Support Poly Spline Interp Spec
  Proofs_Support Proofs_Scalar Proofs_Poly Proofs_Eval Proofs_Outcome.
Import ListNotations.
Local Open Scope N_scope.

Ltac Zify.zify_post_hook ::= Z.div_mod_to_equations.

Section InterpFacts.
  Context {F : Type} {K : Ops F} {L : Laws K}.
  Add Field Ffint : (@Fth F K L).

  (* ------------------------------------------------------------------ *)
  (* specification vocabulary                                            *)
  (* ------------------------------------------------------------------ *)

  (* [c] satisfies every row of the system *)
  Definition solves (rows : list (row F)) (c : list F) : Prop :=
    forall r, In r rows -> row_apply r c = rrhs r.

  (* d-th derivative at t of the piece with coefficients p about midpoint m *)
  Definition dval (p : list F) (d : nat) (t m : F) : F := peval (pderivn d p) (t - m)%F.

  (* every boundary condition fixes a derivative of order 1..order *)
  Definition bnd_ok (order : nat) (bs : list (boundary F)) : Prop :=
    Forall (fun b => (1 <= bderiv b <= order)%nat) bs.

  (* ------------------------------------------------------------------ *)
  (* the rows in closed form (proof vocabulary)                          *)
  (* ------------------------------------------------------------------ *)

  (* number of nodes of a valid window, as a nat *)
  Definition nnodes (x : support F) : nat := N.to_nat (sstop x - sstart x).

  (* j-th node of the window *)
  Definition xnode (x : support F) (j : nat) : F := gnth (sgrid x) (sstart x + N.of_nat j).

  Definition bfirst (order : nat) (dx : F) (bs : list (boundary F)) : list (row F) :=
    flat_map (fun bo => match bnode bo with
                        | FIRST => [mkRow (deriv_entries order 0 (bderiv bo) dx false) (bvalue bo)]
                        | LAST => []
                        end) bs.

  Definition irows (order : nat) (x : support F) (y : list F) (c : nat) : list (row F) :=
    value_row order ((order + 1) * (c - 1)) ((xnode x c - xnode x (c - 1)) / f2)%F (nth c y f0)
    :: value_row order ((order + 1) * c) ((xnode x c - xnode x (c + 1)) / f2)%F (nth c y f0)
    :: map (fun d => mkRow (deriv_entries order ((order + 1) * (c - 1)) d
                              ((xnode x c - xnode x (c - 1)) / f2)%F false
                            ++ deriv_entries order ((order + 1) * c) d
                              ((xnode x c - xnode x (c + 1)) / f2)%F true) f0)
           (seq 1 (order - 1)).

  Definition sys_rows (order : nat) (x : support F) (y : list F) (bs : list (boundary F))
    : list (row F) :=
    (value_row order 0 ((xnode x 0 - xnode x 1) / f2)%F (nth 0 y f0)
     :: bfirst order ((xnode x 0 - xnode x 1) / f2)%F bs)
    ++ concat (map (irows order x y) (seq 1 (nnodes x - 2)))
    ++ (value_row order ((order + 1) * (nnodes x - 2))
          ((xnode x (nnodes x - 1) - xnode x (nnodes x - 2)) / f2)%F (last y f0)
        :: bnd_rows_last order ((order + 1) * (nnodes x - 2))
             ((xnode x (nnodes x - 1) - xnode x (nnodes x - 2)) / f2)%F bs).

  (* ================================================================== *)
  (* Part A: validation and shape                                        *)
  (* ================================================================== *)

  Lemma interp_system_count order (x : support F) y bs :
    SInv x -> sup_size x <> nlen y -> interp_system order x y bs = Throw INCONSISTENT_DATA.
  Proof.
    intros _ H. unfold interp_system. cbv zeta.
    destruct (sup_size x =? nlen y) eqn:E; [lia|]. reflexivity.
  Qed.

  Lemma interp_system_few order (x : support F) y bs :
    SInv x -> sup_size x = nlen y -> sup_size x < 2 ->
    interp_system order x y bs = Throw UNDETERMINED.
  Proof.
    intros _ H1 H2. unfold interp_system. cbv zeta.
    destruct (sup_size x =? nlen y) eqn:E; [|lia]. cbn [negb].
    destruct (sup_size x <? 2) eqn:E2; [reflexivity|lia].
  Qed.

  Lemma bnd_rows_first_ok order dx (bs : list (boundary F)) :
    bnd_ok order bs -> bnd_rows_first order dx bs = Ok (bfirst order dx bs).
  Proof.
    unfold bnd_ok. induction bs as [|b bs IH]; intros H; [reflexivity|].
    apply Forall_cons_iff in H as [Hb H]. cbn [bnd_rows_first bfirst flat_map].
    destruct ((bderiv b =? 0)%nat || (order <? bderiv b)%nat) eqn:E; [lia|].
    rewrite (IH H). cbn [bind]. destruct (bnode b); reflexivity.
  Qed.

  Lemma bnd_rows_first_bad order dx (bs : list (boundary F)) :
    ~ bnd_ok order bs -> bnd_rows_first order dx bs = Throw UNDETERMINED.
  Proof.
    unfold bnd_ok. induction bs as [|b bs IH]; intros H.
    - exfalso. apply H. constructor.
    - cbn [bnd_rows_first].
      destruct ((bderiv b =? 0)%nat || (order <? bderiv b)%nat) eqn:E; [reflexivity|].
      rewrite IH; [reflexivity|]. intros Hr. apply H. constructor; [lia | exact Hr].
  Qed.

  Lemma y_front_ok (y : list F) : 0 < nlen y ->
    match y with [] => UB OOBRead | a :: _ => Ok a end = Ok (nth 0 y f0).
  Proof. destruct y as [|a y]; [unfold nlen; cbn [length]; lia | reflexivity]. Qed.

  Lemma interp_system_bad_deriv order (x : support F) y bs :
    SInv x -> GInv (sgrid x) -> sup_size x = nlen y -> 2 <= sup_size x ->
    ~ bnd_ok order bs -> interp_system order x y bs = Throw UNDETERMINED.
  Proof.
    intros Hs _ Hlen H2 Hb. unfold interp_system. cbv zeta.
    rewrite (sup_size_inv x Hs) in *.
    destruct (sstop x - sstart x =? nlen y) eqn:E; [|lia]. cbn [negb].
    destruct (sstop x - sstart x <? 2) eqn:E2; [lia|].
    rewrite (sup_sub_gnth x 0), (sup_sub_gnth x 1) by (try exact Hs; lia). cbn [bind].
    rewrite y_front_ok by lia. cbn [bind].
    rewrite bnd_rows_first_bad by exact Hb. reflexivity.
  Qed.

  Lemma interior_rows_ok order (x : support F) y c :
    SInv x -> (1 <= c)%nat -> (c + 1 < nnodes x)%nat -> (c < length y)%nat ->
    interior_rows order x y c = Ok (irows order x y c).
  Proof.
    unfold nnodes. intros Hs H1 H2 H3. unfold interior_rows. cbv zeta.
    rewrite (sup_sub_gnth x (N.of_nat c)), (sup_sub_gnth x (N.of_nat (c - 1))),
      (sup_sub_gnth x (N.of_nat (c + 1))) by (try exact Hs; lia).
    cbn [bind]. rewrite (sub_ok_nth y c f0) by exact H3. cbn [bind]. reflexivity.
  Qed.

  Lemma length_bfirst_last order dx base dx' (bs : list (boundary F)) :
    (length (bfirst order dx bs) + length (bnd_rows_last order base dx' bs))%nat = length bs.
  Proof.
    unfold bfirst, bnd_rows_last. induction bs as [|b bs IH]; [reflexivity|].
    cbn [flat_map]. rewrite !app_length. destruct (bnode b); cbn [length]; lia.
  Qed.

  Lemma length_concat_map_const {A B} (f : A -> list B) k (l : list A) :
    (forall a, In a l -> length (f a) = k) -> length (concat (map f l)) = (length l * k)%nat.
  Proof.
    induction l as [|a l IH]; intros H; [reflexivity|].
    cbn [map concat length]. rewrite app_length, (H a (or_introl eq_refl)).
    rewrite IH by (intros a' Ha'; apply H; right; exact Ha'). lia.
  Qed.

  Lemma length_irows order (x : support F) y c : (1 <= order)%nat ->
    length (irows order x y c) = (order + 1)%nat.
  Proof. intros H. unfold irows. cbn [length]. rewrite map_length, seq_length. lia. Qed.

  Lemma length_sys_rows order (x : support F) y bs :
    (1 <= order)%nat -> (2 <= nnodes x)%nat -> length bs = (order - 1)%nat ->
    length (sys_rows order x y bs) = ((order + 1) * (nnodes x - 1))%nat.
  Proof.
    intros Ho Hn Hb. unfold sys_rows. rewrite !app_length. cbn [length].
    rewrite (length_concat_map_const (irows order x y) (order + 1)%nat)
      by (intros a _; apply length_irows; exact Ho).
    rewrite seq_length.
    pose proof (length_bfirst_last order ((xnode x 0 - xnode x 1) / f2)%F
                  ((order + 1) * (nnodes x - 2))%nat
                  ((xnode x (nnodes x - 1) - xnode x (nnodes x - 2)) / f2)%F bs) as Hl.
    set (lf := length (bfirst _ _ _)) in *. set (ll := length (bnd_rows_last _ _ _ _)) in *.
    clearbody lf ll.
    replace (nnodes x - 1)%nat with (S (nnodes x - 2)) by lia.
    rewrite Nat.mul_succ_r, (Nat.mul_comm (nnodes x - 2)). lia.
  Qed.

  (* the assembly succeeds on valid input and yields the closed form *)
  Lemma interp_system_eq order (x : support F) y bs :
    SInv x -> (1 <= order)%nat -> sup_size x = nlen y -> 2 <= sup_size x ->
    bnd_ok order bs -> length bs = (order - 1)%nat ->
    interp_system order x y bs = Ok (sys_rows order x y bs).
  Proof.
    intros Hs Ho Hlen H2 Hb Hbl. unfold interp_system. cbv zeta.
    pose proof (SInv_bounds _ Hs) as B.
    rewrite (sup_size_inv x Hs) in *.
    destruct (sstop x - sstart x =? nlen y) eqn:E; [|lia]. cbn [negb].
    destruct (sstop x - sstart x <? 2) eqn:E2; [lia|].
    rewrite (sup_sub_gnth x 0), (sup_sub_gnth x 1) by (try exact Hs; lia). cbn [bind].
    rewrite y_front_ok by lia. cbn [bind].
    rewrite bnd_rows_first_ok by exact Hb. cbn [bind].
    rewrite (omapM_ok (interior_rows order x y) (irows order x y)).
    2:{ intros c Hc. apply in_seq in Hc. apply interior_rows_ok; try exact Hs; unfold nnodes, nlen in *; lia. }
    cbn [bind].
    rewrite sup_back_gnth by exact Hs.
    destruct (sstart x =? sstop x) eqn:E3; [lia|]. cbn [bind].
    rewrite wsub_small by (unfold W; lia).
    rewrite sup_sub_gnth by (try exact Hs; lia). cbn [bind].
    replace (gnth (sgrid x) (sstop x - 1)) with (xnode x (nnodes x - 1))
      by (unfold xnode, nnodes; f_equal; lia).
    replace (gnth (sgrid x) (sstart x + (sstop x - sstart x - 2))) with (xnode x (nnodes x - 2))
      by (unfold xnode, nnodes; f_equal; lia).
    change (N.to_nat (sstop x - sstart x)) with (nnodes x).
    match goal with
    | |- (if negb (length ?R =? _)%nat then _ else _) = _ =>
        change R with (sys_rows order x y bs)
    end.
    rewrite length_sys_rows by (try assumption; unfold nnodes; lia).
    rewrite Nat.eqb_refl. reflexivity.
  Qed.

  Lemma interp_system_ok order (x : support F) y bs :
    SInv x -> GInv (sgrid x) -> (1 <= order)%nat -> sup_size x = nlen y -> 2 <= sup_size x ->
    bnd_ok order bs -> length bs = (order - 1)%nat ->
    exists rows, interp_system order x y bs = Ok rows /\
                 length rows = ((order + 1) * (N.to_nat (sup_size x) - 1))%nat.
  Proof.
    intros Hs _ Ho Hlen H2 Hb Hbl. exists (sys_rows order x y bs).
    split; [apply interp_system_eq; assumption|].
    rewrite (sup_size_inv x Hs) in *. apply length_sys_rows; try assumption.
    unfold nnodes. lia.
  Qed.

  Lemma default_boundaries_ok order : (1 <= order)%nat ->
    bnd_ok order (default_boundaries order) /\
    length (default_boundaries (F:=F) order) = (order - 1)%nat.
  Proof.
    intros Ho. unfold bnd_ok, default_boundaries. split.
    - apply Forall_forall. intros b Hb. apply in_map_iff in Hb as (i & <- & Hi).
      apply in_seq in Hi. destruct (Nat.even i); cbn [bderiv]; lia.
    - rewrite map_length, seq_length. reflexivity.
  Qed.

  Lemma default_boundaries_spec order i : (i < order - 1)%nat ->
    nth_error (default_boundaries (F:=F) order) i
    = Some (mkBnd (if Nat.even i then FIRST else LAST) (i / 2 + 1) f0).
  Proof.
    intros Hi. unfold default_boundaries.
    rewrite nth_error_map', nth_error_seq by exact Hi. cbn [option_map Nat.add].
    destruct (Nat.even i) eqn:E; [reflexivity|].
    f_equal. f_equal.
    rewrite <- Nat.negb_odd in E. apply negb_false_iff in E. apply Nat.odd_spec in E.
    destruct E as [m ->]. lia.
  Qed.

End InterpFacts.

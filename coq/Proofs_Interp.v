(* Proofs_Interp.v — interpolation reproduces the data with the promised
   smoothness and boundaries.

   For every valid window [x] (at least two nodes) of a valid grid, every
   ordinate vector [y] of the same length, every order >= 1 and every set [bs]
   of order-1 end-point derivative conditions: IF a vector [c] solves the
   linear system assembled by [interp_system], THEN the spline [interp_build]
   cuts out of [c] takes the given ordinate at every node (from each adjacent
   piece), has continuous derivatives of orders 1..order-1 at every interior
   node and satisfies every boundary condition.  The solver is abstract: the
   theorems quantify over every [c] with [solves rows c].

   Part A: validation and shape of the assembled system.
   Part B: soundness of the rows, shape of the built spline, main theorem. *)
From Coq Require Import List Arith NArith ZArith Bool Lia ZifyBool ZifyN ZifyNat Field Ring.
From BSpl Require Import ListAux Scalar Outcome Support Poly Spline Interp Spec
  Proofs_Support Proofs_Scalar Proofs_Poly Proofs_Eval Proofs_Outcome.
Import ListNotations.
Local Open Scope N_scope.

Ltac Zify.zify_post_hook ::= Z.div_mod_to_equations.

Section InterpFacts.
  Context {F : Type} {K : Ops F} {L : Laws K}.
  Add Field Ffint : (@Fth F K L).

  (* ------------------------------------------------------------------ *)
  (* specification vocabulary                                            *)
  (* ------------------------------------------------------------------ *)

  (* [c] satisfies every row of the system *)
  Definition solves (rows : list (row F)) (c : list F) : Prop :=
    forall r, In r rows -> row_apply r c = rrhs r.

  (* d-th derivative at t of the piece with coefficients p about midpoint m *)
  Definition dval (p : list F) (d : nat) (t m : F) : F := peval (pderivn d p) (t - m)%F.

  (* every boundary condition fixes a derivative of order 1..order *)
  Definition bnd_ok (order : nat) (bs : list (boundary F)) : Prop :=
    Forall (fun b => (1 <= bderiv b <= order)%nat) bs.

  (* ------------------------------------------------------------------ *)
  (* the rows in closed form (proof vocabulary)                          *)
  (* ------------------------------------------------------------------ *)

  (* number of nodes of a valid window, as a nat *)
  Definition nnodes (x : support F) : nat := N.to_nat (sstop x - sstart x).

  (* j-th node of the window *)
  Definition xnode (x : support F) (j : nat) : F := gnth (sgrid x) (sstart x + N.of_nat j).

  Definition bfirst (order : nat) (dx : F) (bs : list (boundary F)) : list (row F) :=
    flat_map (fun bo => match bnode bo with
                        | FIRST => [mkRow (deriv_entries order 0 (bderiv bo) dx false) (bvalue bo)]
                        | LAST => []
                        end) bs.

  Definition irows (order : nat) (x : support F) (y : list F) (c : nat) : list (row F) :=
    value_row order ((order + 1) * (c - 1)) ((xnode x c - xnode x (c - 1)) / f2)%F (nth c y f0)
    :: value_row order ((order + 1) * c) ((xnode x c - xnode x (c + 1)) / f2)%F (nth c y f0)
    :: map (fun d => mkRow (deriv_entries order ((order + 1) * (c - 1)) d
                              ((xnode x c - xnode x (c - 1)) / f2)%F false
                            ++ deriv_entries order ((order + 1) * c) d
                              ((xnode x c - xnode x (c + 1)) / f2)%F true) f0)
           (seq 1 (order - 1)).

  Definition sys_rows (order : nat) (x : support F) (y : list F) (bs : list (boundary F))
    : list (row F) :=
    (value_row order 0 ((xnode x 0 - xnode x 1) / f2)%F (nth 0 y f0)
     :: bfirst order ((xnode x 0 - xnode x 1) / f2)%F bs)
    ++ concat (map (irows order x y) (seq 1 (nnodes x - 2)))
    ++ (value_row order ((order + 1) * (nnodes x - 2))
          ((xnode x (nnodes x - 1) - xnode x (nnodes x - 2)) / f2)%F (last y f0)
        :: bnd_rows_last order ((order + 1) * (nnodes x - 2))
             ((xnode x (nnodes x - 1) - xnode x (nnodes x - 2)) / f2)%F bs).

  (* ================================================================== *)
  (* Part A: validation and shape                                        *)
  (* ================================================================== *)

  Lemma interp_system_count order (x : support F) y bs :
    SInv x -> sup_size x <> nlen y -> interp_system order x y bs = Throw INCONSISTENT_DATA.
  Proof.
    intros _ H. unfold interp_system. cbv zeta.
    destruct (sup_size x =? nlen y) eqn:E; [lia|]. reflexivity.
  Qed.

  Lemma interp_system_few order (x : support F) y bs :
    SInv x -> sup_size x = nlen y -> sup_size x < 2 ->
    interp_system order x y bs = Throw UNDETERMINED.
  Proof.
    intros _ H1 H2. unfold interp_system. cbv zeta.
    destruct (sup_size x =? nlen y) eqn:E; [|lia]. cbn [negb].
    destruct (sup_size x <? 2) eqn:E2; [reflexivity|lia].
  Qed.

  Lemma bnd_rows_first_ok order dx (bs : list (boundary F)) :
    bnd_ok order bs -> bnd_rows_first order dx bs = Ok (bfirst order dx bs).
  Proof.
    unfold bnd_ok. induction bs as [|b bs IH]; intros H; [reflexivity|].
    apply Forall_cons_iff in H as [Hb H]. cbn [bnd_rows_first bfirst flat_map].
    destruct ((bderiv b =? 0)%nat || (order <? bderiv b)%nat) eqn:E; [lia|].
    rewrite (IH H). cbn [bind]. destruct (bnode b); reflexivity.
  Qed.

  Lemma bnd_rows_first_bad order dx (bs : list (boundary F)) :
    ~ bnd_ok order bs -> bnd_rows_first order dx bs = Throw UNDETERMINED.
  Proof.
    unfold bnd_ok. induction bs as [|b bs IH]; intros H.
    - exfalso. apply H. constructor.
    - cbn [bnd_rows_first].
      destruct ((bderiv b =? 0)%nat || (order <? bderiv b)%nat) eqn:E; [reflexivity|].
      rewrite IH; [reflexivity|]. intros Hr. apply H. constructor; [lia | exact Hr].
  Qed.

  Lemma y_front_ok (y : list F) : 0 < nlen y ->
    match y with [] => UB OOBRead | a :: _ => Ok a end = Ok (nth 0 y f0).
  Proof. destruct y as [|a y]; [unfold nlen; cbn [length]; lia | reflexivity]. Qed.

  Lemma interp_system_bad_deriv order (x : support F) y bs :
    SInv x -> GInv (sgrid x) -> sup_size x = nlen y -> 2 <= sup_size x ->
    ~ bnd_ok order bs -> interp_system order x y bs = Throw UNDETERMINED.
  Proof.
    intros Hs _ Hlen H2 Hb. unfold interp_system. cbv zeta.
    rewrite (sup_size_inv x Hs) in *.
    destruct (sstop x - sstart x =? nlen y) eqn:E; [|lia]. cbn [negb].
    destruct (sstop x - sstart x <? 2) eqn:E2; [lia|].
    rewrite (sup_sub_gnth x 0), (sup_sub_gnth x 1) by (try exact Hs; lia). cbn [bind].
    rewrite y_front_ok by lia. cbn [bind].
    rewrite bnd_rows_first_bad by exact Hb. reflexivity.
  Qed.

  Lemma interior_rows_ok order (x : support F) y c :
    SInv x -> (1 <= c)%nat -> (c + 1 < nnodes x)%nat -> (c < length y)%nat ->
    interior_rows order x y c = Ok (irows order x y c).
  Proof.
    unfold nnodes. intros Hs H1 H2 H3. unfold interior_rows. cbv zeta.
    rewrite (sup_sub_gnth x (N.of_nat c)), (sup_sub_gnth x (N.of_nat (c - 1))),
      (sup_sub_gnth x (N.of_nat (c + 1))) by (try exact Hs; lia).
    cbn [bind]. rewrite (sub_ok_nth y c f0) by exact H3. cbn [bind]. reflexivity.
  Qed.

  Lemma length_bfirst_last order dx base dx' (bs : list (boundary F)) :
    (length (bfirst order dx bs) + length (bnd_rows_last order base dx' bs))%nat = length bs.
  Proof.
    unfold bfirst, bnd_rows_last. induction bs as [|b bs IH]; [reflexivity|].
    cbn [flat_map]. rewrite !app_length. destruct (bnode b); cbn [length]; lia.
  Qed.

  Lemma length_concat_map_const {A B} (f : A -> list B) k (l : list A) :
    (forall a, In a l -> length (f a) = k) -> length (concat (map f l)) = (length l * k)%nat.
  Proof.
    induction l as [|a l IH]; intros H; [reflexivity|].
    cbn [map concat length]. rewrite app_length, (H a (or_introl eq_refl)).
    rewrite IH by (intros a' Ha'; apply H; right; exact Ha'). lia.
  Qed.

  Lemma length_irows order (x : support F) y c : (1 <= order)%nat ->
    length (irows order x y c) = (order + 1)%nat.
  Proof. intros H. unfold irows. cbn [length]. rewrite map_length, seq_length. lia. Qed.

  Lemma length_sys_rows order (x : support F) y bs :
    (1 <= order)%nat -> (2 <= nnodes x)%nat -> length bs = (order - 1)%nat ->
    length (sys_rows order x y bs) = ((order + 1) * (nnodes x - 1))%nat.
  Proof.
    intros Ho Hn Hb. unfold sys_rows. rewrite !app_length. cbn [length].
    rewrite (length_concat_map_const (irows order x y) (order + 1)%nat)
      by (intros a _; apply length_irows; exact Ho).
    rewrite seq_length.
    pose proof (length_bfirst_last order ((xnode x 0 - xnode x 1) / f2)%F
                  ((order + 1) * (nnodes x - 2))%nat
                  ((xnode x (nnodes x - 1) - xnode x (nnodes x - 2)) / f2)%F bs) as Hl.
    set (lf := length (bfirst _ _ _)) in *. set (ll := length (bnd_rows_last _ _ _ _)) in *.
    clearbody lf ll.
    replace (nnodes x - 1)%nat with (S (nnodes x - 2)) by lia.
    rewrite Nat.mul_succ_r, (Nat.mul_comm (nnodes x - 2)). lia.
  Qed.

  (* the assembly succeeds on valid input and yields the closed form *)
  Lemma interp_system_eq order (x : support F) y bs :
    SInv x -> (1 <= order)%nat -> sup_size x = nlen y -> 2 <= sup_size x ->
    bnd_ok order bs -> length bs = (order - 1)%nat ->
    interp_system order x y bs = Ok (sys_rows order x y bs).
  Proof.
    intros Hs Ho Hlen H2 Hb Hbl. unfold interp_system. cbv zeta.
    pose proof (SInv_bounds _ Hs) as B.
    rewrite (sup_size_inv x Hs) in *.
    destruct (sstop x - sstart x =? nlen y) eqn:E; [|lia]. cbn [negb].
    destruct (sstop x - sstart x <? 2) eqn:E2; [lia|].
    rewrite (sup_sub_gnth x 0), (sup_sub_gnth x 1) by (try exact Hs; lia). cbn [bind].
    rewrite y_front_ok by lia. cbn [bind].
    rewrite bnd_rows_first_ok by exact Hb. cbn [bind].
    rewrite (omapM_ok (interior_rows order x y) (irows order x y)).
    2:{ intros c Hc. apply in_seq in Hc. apply interior_rows_ok; try exact Hs; unfold nnodes, nlen in *; lia. }
    cbn [bind].
    rewrite sup_back_gnth by exact Hs.
    destruct (sstart x =? sstop x) eqn:E3; [lia|]. cbn [bind].
    rewrite wsub_small by (unfold W; lia).
    rewrite sup_sub_gnth by (try exact Hs; lia). cbn [bind].
    replace (gnth (sgrid x) (sstop x - 1)) with (xnode x (nnodes x - 1))
      by (unfold xnode, nnodes; f_equal; lia).
    replace (gnth (sgrid x) (sstart x + (sstop x - sstart x - 2))) with (xnode x (nnodes x - 2))
      by (unfold xnode, nnodes; f_equal; lia).
    change (N.to_nat (sstop x - sstart x)) with (nnodes x).
    match goal with
    | |- (if negb (length ?R =? _)%nat then _ else _) = _ =>
        change R with (sys_rows order x y bs)
    end.
    rewrite length_sys_rows by (try assumption; unfold nnodes; lia).
    rewrite Nat.eqb_refl. reflexivity.
  Qed.

  Lemma interp_system_ok order (x : support F) y bs :
    SInv x -> GInv (sgrid x) -> (1 <= order)%nat -> sup_size x = nlen y -> 2 <= sup_size x ->
    bnd_ok order bs -> length bs = (order - 1)%nat ->
    exists rows, interp_system order x y bs = Ok rows /\
                 length rows = ((order + 1) * (N.to_nat (sup_size x) - 1))%nat.
  Proof.
    intros Hs _ Ho Hlen H2 Hb Hbl. exists (sys_rows order x y bs).
    split; [apply interp_system_eq; assumption|].
    rewrite (sup_size_inv x Hs) in *. apply length_sys_rows; try assumption.
    unfold nnodes. lia.
  Qed.

  Lemma default_boundaries_ok order : (1 <= order)%nat ->
    bnd_ok order (default_boundaries order) /\
    length (default_boundaries (F:=F) order) = (order - 1)%nat.
  Proof.
    intros Ho. unfold bnd_ok, default_boundaries. split.
    - apply Forall_forall. intros b Hb. apply in_map_iff in Hb as (i & <- & Hi).
      apply in_seq in Hi. destruct (Nat.even i); cbn [bderiv]; lia.
    - rewrite map_length, seq_length. reflexivity.
  Qed.

  Lemma default_boundaries_spec order i : (i < order - 1)%nat ->
    nth_error (default_boundaries (F:=F) order) i
    = Some (mkBnd (if Nat.even i then FIRST else LAST) (i / 2 + 1) f0).
  Proof.
    intros Hi. unfold default_boundaries.
    rewrite nth_error_map', nth_error_seq by exact Hi. cbn [option_map Nat.add].
    destruct (Nat.even i) eqn:E; [reflexivity|].
    f_equal. f_equal.
    rewrite <- Nat.negb_odd in E. apply negb_false_iff in E. apply Nat.odd_spec in E.
    destruct E as [m ->]. lia.
  Qed.

  (* ================================================================== *)
  (* Part B: soundness of the rows                                       *)
  (* ================================================================== *)

  (* the block of order+1 coefficients starting at column [base] *)
  Definition chunk (order base : nat) (c : list F) : list F := firstn (order + 1) (skipn base c).

  Lemma nth_firstn_local {A} (l : list A) n j d : (j < n)%nat -> nth j (firstn n l) d = nth j l d.
  Proof.
    revert n j; induction l as [|a l IH]; intros n j H.
    - rewrite firstn_nil. reflexivity.
    - destruct n as [|n]; [lia|]. destruct j as [|j]; cbn [firstn nth]; [reflexivity|].
      apply IH. lia.
  Qed.

  Lemma nth_skipn_local {A} (l : list A) b j d : nth j (skipn b l) d = nth (b + j) l d.
  Proof.
    revert l; induction b as [|b IH]; intros l; [reflexivity|].
    destruct l as [|a l]; [destruct j; reflexivity|]. cbn [skipn Nat.add nth]. apply IH.
  Qed.

  Lemma skipn_skipn_local {A} (l : list A) a b : skipn a (skipn b l) = skipn (b + a) l.
  Proof.
    revert l; induction b as [|b IH]; intros l; [reflexivity|].
    destruct l as [|e l]; [rewrite !skipn_nil; reflexivity|]. cbn [skipn Nat.add]. apply IH.
  Qed.

  Lemma nth_chunk order base (c : list F) j : (j < order + 1)%nat ->
    nth j (chunk order base c) f0 = nth (base + j) c f0.
  Proof. intros H. unfold chunk. rewrite nth_firstn_local by exact H. apply nth_skipn_local. Qed.

  Lemma length_chunk order base (c : list F) : (base + order + 1 <= length c)%nat ->
    length (chunk order base c) = (order + 1)%nat.
  Proof. intros H. unfold chunk. rewrite firstn_length, skipn_length. lia. Qed.

  (* folding a row over entries given by a map *)
  Lemma fold_entries_map (c : list F) (h : nat -> nat * F) l a :
    fold_left (fun acc '(j, v) => (acc + v * nth j c f0)%F) (map h l) a
    = fold_left (fun acc i => (acc + snd (h i) * nth (fst (h i)) c f0)%F) l a.
  Proof.
    revert a; induction l as [|i l IH]; intros a; [reflexivity|].
    cbn [map fold_left]. rewrite IH. f_equal. destruct (h i); reflexivity.
  Qed.

  (* a sum of terms w * u^j * p_j over consecutive indices is w * p(u) *)
  Lemma fold_seq_peval (p : list F) (t : nat -> F) u s a w n :
    length p = n ->
    (forall j, (j < n)%nat -> t (s + j)%nat = (w * fpow u j * nth j p f0)%F) ->
    fold_left (fun acc i => (acc + t i)%F) (seq s n) a = (a + w * peval p u)%F.
  Proof.
    intros <-. revert s a w; induction p as [|b p IH]; intros s a w H.
    - cbn [length seq fold_left peval]. ring.
    - cbn [length seq fold_left peval].
      rewrite (IH (S s) (a + t s)%F (w * u)%F).
      + pose proof (H 0%nat ltac:(cbn [length]; lia)) as H0.
        rewrite Nat.add_0_r in H0. cbn [fpow nth] in H0. rewrite H0. ring.
      + intros j Hj. pose proof (H (S j) ltac:(cbn [length]; lia)) as Hj'.
        rewrite Nat.add_succ_r in Hj'. cbn [Nat.add]. rewrite Hj'. cbn [fpow nth]. ring.
  Qed.

  (* the value row evaluates the chunk at dx *)
  Lemma row_apply_value_row order base dx y (c : list F) :
    (base + order + 1 <= length c)%nat ->
    row_apply (value_row order base dx y) c = peval (firstn (order + 1) (skipn base c)) dx.
  Proof.
    intros H. fold (chunk order base c). unfold row_apply, value_row. cbn [rentries].
    rewrite fold_entries_map.
    rewrite (fold_seq_peval (chunk order base c) _ dx 0%nat f0 f1 (order + 1)%nat).
    - ring.
    - apply length_chunk. exact H.
    - intros j Hj. cbn [Nat.add fst snd]. rewrite nth_chunk by exact Hj. ring.
  Qed.

  Lemma deriv_entries_false order base d dx :
    deriv_entries order base d dx false
    = map (fun i => ((base + i)%nat, (faculty_ratio i (i - d) * fpow dx (i - d))%F))
          (seq d (order + 1 - d)).
  Proof. reflexivity. Qed.

  Lemma deriv_entries_true order base d dx :
    deriv_entries order base d dx true
    = map (fun i => ((base + i)%nat, (- faculty_ratio i (i - d) * fpow dx (i - d))%F))
          (seq d (order + 1 - d)).
  Proof. reflexivity. Qed.

  (* derivative entries, any accumulator (the form used for the two-block rows) *)
  Lemma fold_deriv_entries order base d dx (c : list F) a :
    (d <= order)%nat -> (base + order + 1 <= length c)%nat ->
    fold_left (fun acc '(j, v) => (acc + v * nth j c f0)%F) (deriv_entries order base d dx false) a
    = (a + peval (pderivn d (chunk order base c)) dx)%F /\
    fold_left (fun acc '(j, v) => (acc + v * nth j c f0)%F) (deriv_entries order base d dx true) a
    = (a - peval (pderivn d (chunk order base c)) dx)%F.
  Proof.
    intros Hd H.
    assert (Hl : length (pderivn d (chunk order base c)) = (order + 1 - d)%nat).
    { rewrite length_pderivn, length_chunk by exact H. reflexivity. }
    assert (Hn : forall j, (j < order + 1 - d)%nat ->
               nth j (pderivn d (chunk order base c)) f0
               = (faculty_ratio (d + j) (d + j - d) * nth (base + (d + j)) c f0)%F).
    { intros j Hj. rewrite nth_pderivn, nth_chunk by lia.
      replace (d + j - d)%nat with j by lia. rewrite (Nat.add_comm j d). reflexivity. }
    split.
    - rewrite deriv_entries_false, fold_entries_map.
      rewrite (fold_seq_peval (pderivn d (chunk order base c)) _ dx d a f1 (order + 1 - d)%nat Hl).
      + ring.
      + intros j Hj. cbn [fst snd]. rewrite (Hn j Hj).
        replace (d + j - d)%nat with j by lia. ring.
    - rewrite deriv_entries_true, fold_entries_map.
      rewrite (fold_seq_peval (pderivn d (chunk order base c)) _ dx d a (- f1)%F (order + 1 - d)%nat Hl).
      + ring.
      + intros j Hj. cbn [fst snd]. rewrite (Hn j Hj).
        replace (d + j - d)%nat with j by lia. ring.
  Qed.

  (* a row made of derivative entries evaluates the d-th derivative of the chunk at dx *)
  Lemma row_apply_deriv_entries order base d dx rhs (c : list F) :
    (1 <= d <= order)%nat -> (base + order + 1 <= length c)%nat ->
    row_apply (mkRow (deriv_entries order base d dx false) rhs) c
    = peval (pderivn d (firstn (order + 1) (skipn base c))) dx /\
    row_apply (mkRow (deriv_entries order base d dx true) rhs) c
    = (- peval (pderivn d (firstn (order + 1) (skipn base c))) dx)%F.
  Proof.
    intros Hd H. fold (chunk order base c). unfold row_apply. cbn [rentries].
    destruct (fold_deriv_entries order base d dx c f0 ltac:(lia) H) as [-> ->].
    split; ring.
  Qed.

  (* the two-block smoothness row *)
  Lemma row_apply_smooth_row order b1 b2 d dx1 dx2 (c : list F) :
    (d <= order)%nat -> (b1 + order + 1 <= length c)%nat -> (b2 + order + 1 <= length c)%nat ->
    row_apply (mkRow (deriv_entries order b1 d dx1 false ++ deriv_entries order b2 d dx2 true) f0) c
    = (peval (pderivn d (chunk order b1 c)) dx1 - peval (pderivn d (chunk order b2 c)) dx2)%F.
  Proof.
    intros Hd H1 H2. unfold row_apply. cbn [rentries]. rewrite fold_left_app.
    destruct (fold_deriv_entries order b1 d dx1 c f0 Hd H1) as [-> _].
    destruct (fold_deriv_entries order b2 d dx2 c
                (f0 + peval (pderivn d (chunk order b1 c)) dx1)%F Hd H2) as [_ ->].
    ring.
  Qed.

  (* ------------------------------------------------------------------ *)
  (* shape of the built spline                                           *)
  (* ------------------------------------------------------------------ *)

  Lemma length_chunks k n (l : list F) : length (chunks k n l) = n.
  Proof. revert l; induction n as [|n IH]; intros l; cbn [chunks length]; auto. Qed.

  Lemma nth_chunks k n (l : list F) j : (j < n)%nat ->
    nth j (chunks k n l) [] = firstn k (skipn (k * j) l).
  Proof.
    revert l j; induction n as [|n IH]; intros l j H; [lia|].
    destruct j as [|j]; cbn [chunks nth].
    - rewrite Nat.mul_0_r. reflexivity.
    - rewrite IH by lia. rewrite skipn_skipn_local, Nat.mul_succ_r, (Nat.add_comm (k * j) k).
      reflexivity.
  Qed.

  Lemma Forall_chunks k n (l : list F) : (k * n <= length l)%nat ->
    Forall (fun c => length c = k) (chunks k n l).
  Proof.
    revert l; induction n as [|n IH]; intros l H; cbn [chunks]; constructor.
    - rewrite Nat.mul_succ_r in H. apply firstn_length_le. lia.
    - apply IH. rewrite Nat.mul_succ_r in H. rewrite skipn_length. lia.
  Qed.

  Lemma chunk_range order j m : (j < m)%nat -> ((order + 1) * j + order + 1 <= (order + 1) * m)%nat.
  Proof.
    intros H. replace ((order + 1) * j + order + 1)%nat with ((order + 1) * S j)%nat
      by (rewrite Nat.mul_succ_r; lia).
    apply Nat.mul_le_mono_l. lia.
  Qed.

  (* chunks of the right number and length give a valid spline *)
  Lemma interp_build_ok order (x : support F) (c : list F) :
    SInv x -> GInv (sgrid x) -> 2 <= sup_size x ->
    length c = ((order + 1) * (N.to_nat (sup_size x) - 1))%nat ->
    interp_build order x c = Ok (mkSpl x order (chunks (order + 1) (nnodes x - 1) c)) /\
    SplInv (mkSpl x order (chunks (order + 1) (nnodes x - 1) c)).
  Proof.
    intros Hs Hg H2 Hc. unfold interp_build.
    rewrite (sup_size_inv x Hs) in *. fold (nnodes x) in *.
    assert (Hn : nlen (chunks (order + 1) (nnodes x - 1) c) = nintervals x).
    { unfold nlen, nintervals. rewrite length_chunks. unfold nnodes.
      destruct (sstop x - sstart x =? 0) eqn:E0; lia. }
    split.
    - unfold spl_ctor, spl_valid. rewrite Hn.
      rewrite num_intervals_spec, contains_intervals_spec, sup_size_inv by exact Hs.
      unfold nintervals.
      destruct (sstop x - sstart x =? 0) eqn:E0; [lia|].
      destruct (1 <? sstop x - sstart x) eqn:E1; [|lia].
      destruct (2 <=? sstop x - sstart x) eqn:E2; [|lia].
      rewrite N.eqb_refl. reflexivity.
    - unfold SplInv. cbn [ssup scoefs sord].
      split; [exact Hs|]. split; [exact Hg|]. split; [exact Hn|].
      apply Forall_chunks. rewrite Hc. apply Nat.le_refl.
  Qed.

  Lemma piece_build order (x : support F) (c : list F) k : imem k x ->
    piece (mkSpl x order (chunks (order + 1) (nnodes x - 1) c)) k
    = chunk order ((order + 1) * N.to_nat (k - sstart x)) c.
  Proof.
    intros [H1 H2]. unfold piece. cbn [ssup scoefs].
    destruct ((sstart x <=? k) && (k + 1 <? sstop x)) eqn:E; [|lia].
    rewrite nth_chunks by (unfold nnodes; lia). reflexivity.
  Qed.

  (* ------------------------------------------------------------------ *)
  (* the equations a solving vector satisfies, by relative node index     *)
  (* ------------------------------------------------------------------ *)

  Lemma last_nth_local {A} (l : list A) d : last l d = nth (length l - 1) l d.
  Proof.
    induction l as [|a l IH]; [reflexivity|].
    destruct l as [|b l]; [reflexivity|].
    change (last (a :: b :: l) d) with (last (b :: l) d). rewrite IH.
    cbn [length]. replace (S (S (length l)) - 1)%nat with (S (S (length l) - 1)) by lia.
    reflexivity.
  Qed.

  Lemma in_sys_first order (x : support F) y bs :
    In (value_row order 0 ((xnode x 0 - xnode x 1) / f2)%F (nth 0 y f0)) (sys_rows order x y bs).
  Proof. unfold sys_rows. apply in_or_app. left. left. reflexivity. Qed.

  Lemma in_sys_bfirst order (x : support F) y bs b : In b bs -> bnode b = FIRST ->
    In (mkRow (deriv_entries order 0 (bderiv b) ((xnode x 0 - xnode x 1) / f2)%F false) (bvalue b))
       (sys_rows order x y bs).
  Proof.
    intros Hb Hn. unfold sys_rows. apply in_or_app. left. right.
    unfold bfirst. apply in_flat_map. exists b. split; [exact Hb|]. rewrite Hn. left. reflexivity.
  Qed.

  Lemma in_sys_interior order (x : support F) y bs c r :
    (1 <= c)%nat -> (c + 1 < nnodes x)%nat -> In r (irows order x y c) ->
    In r (sys_rows order x y bs).
  Proof.
    intros H1 H2 Hr. unfold sys_rows. apply in_or_app. right. apply in_or_app. left.
    apply in_concat. exists (irows order x y c). split; [|exact Hr].
    apply in_map. apply in_seq. lia.
  Qed.

  Lemma in_sys_last order (x : support F) y bs :
    In (value_row order ((order + 1) * (nnodes x - 2))
          ((xnode x (nnodes x - 1) - xnode x (nnodes x - 2)) / f2)%F (last y f0))
       (sys_rows order x y bs).
  Proof. unfold sys_rows. apply in_or_app. right. apply in_or_app. right. left. reflexivity. Qed.

  Lemma in_sys_blast order (x : support F) y bs b : In b bs -> bnode b = LAST ->
    In (mkRow (deriv_entries order ((order + 1) * (nnodes x - 2)) (bderiv b)
                 ((xnode x (nnodes x - 1) - xnode x (nnodes x - 2)) / f2)%F false) (bvalue b))
       (sys_rows order x y bs).
  Proof.
    intros Hb Hn. unfold sys_rows. apply in_or_app. right. apply in_or_app. right. right.
    unfold bnd_rows_last. apply in_flat_map. exists b. split; [exact Hb|]. rewrite Hn. left. reflexivity.
  Qed.

  Lemma sys_rows_sound order (x : support F) y bs (c : list F) :
    (1 <= order)%nat -> (2 <= nnodes x)%nat -> length y = nnodes x ->
    length c = ((order + 1) * (nnodes x - 1))%nat ->
    solves (sys_rows order x y bs) c ->
    (forall j, (j + 1 < nnodes x)%nat ->
       peval (chunk order ((order + 1) * j) c) ((xnode x j - xnode x (j + 1)) / f2)%F = nth j y f0 /\
       peval (chunk order ((order + 1) * j) c) ((xnode x (j + 1) - xnode x j) / f2)%F
       = nth (j + 1) y f0) /\
    (forall j d, (j + 2 < nnodes x)%nat -> (1 <= d < order)%nat ->
       peval (pderivn d (chunk order ((order + 1) * j) c)) ((xnode x (j + 1) - xnode x j) / f2)%F
       = peval (pderivn d (chunk order ((order + 1) * (j + 1)) c))
           ((xnode x (j + 1) - xnode x (j + 1 + 1)) / f2)%F) /\
    (forall b, In b bs -> (1 <= bderiv b <= order)%nat -> bnode b = FIRST ->
       peval (pderivn (bderiv b) (chunk order 0 c)) ((xnode x 0 - xnode x 1) / f2)%F = bvalue b) /\
    (forall b, In b bs -> (1 <= bderiv b <= order)%nat -> bnode b = LAST ->
       peval (pderivn (bderiv b) (chunk order ((order + 1) * (nnodes x - 2)) c))
         ((xnode x (nnodes x - 1) - xnode x (nnodes x - 2)) / f2)%F = bvalue b).
  Proof.
    intros Ho Hn Hy Hc Hsol.
    assert (R : forall j, (j + 1 < nnodes x)%nat -> ((order + 1) * j + order + 1 <= length c)%nat).
    { intros j Hj. rewrite Hc. apply chunk_range. lia. }
    split; [|split; [|split]].
    - intros j Hj. split.
      + (* left end of interval j *)
        destruct j as [|j'].
        * pose proof (Hsol _ (in_sys_first order x y bs)) as E.
          rewrite row_apply_value_row in E by (pose proof (R 0%nat ltac:(lia)); lia).
          cbn [rrhs value_row] in E. rewrite Nat.mul_0_r. exact E.
        * assert (Hin : In (value_row order ((order + 1) * S j')
                              ((xnode x (S j') - xnode x (S j' + 1)) / f2)%F (nth (S j') y f0))
                           (sys_rows order x y bs)).
          { apply (in_sys_interior order x y bs (S j')); [lia | lia |].
            unfold irows. right. left. reflexivity. }
          pose proof (Hsol _ Hin) as E.
          rewrite row_apply_value_row in E by (apply R; lia).
          cbn [rrhs value_row] in E. exact E.
      + (* right end of interval j *)
        destruct (Nat.eq_dec (j + 2) (nnodes x)) as [Hl|Hl].
        * pose proof (Hsol _ (in_sys_last order x y bs)) as E.
          rewrite row_apply_value_row in E by (apply R; lia).
          cbn [rrhs value_row] in E. rewrite last_nth_local, Hy in E.
          replace (nnodes x - 2)%nat with j in E by lia.
          replace (nnodes x - 1)%nat with (j + 1)%nat in E by lia. exact E.
        * assert (Hin : In (value_row order ((order + 1) * (j + 1 - 1))
                              ((xnode x (j + 1) - xnode x (j + 1 - 1)) / f2)%F (nth (j + 1) y f0))
                           (sys_rows order x y bs)).
          { apply (in_sys_interior order x y bs (j + 1)); [lia | lia |].
            unfold irows. left. reflexivity. }
          pose proof (Hsol _ Hin) as E. rewrite Nat.add_sub in E.
          rewrite row_apply_value_row in E by (apply R; lia).
          cbn [rrhs value_row] in E. exact E.
    - intros j d Hj Hd.
      assert (Hin : In (mkRow (deriv_entries order ((order + 1) * (j + 1 - 1)) d
                                 ((xnode x (j + 1) - xnode x (j + 1 - 1)) / f2)%F false
                               ++ deriv_entries order ((order + 1) * (j + 1)) d
                                 ((xnode x (j + 1) - xnode x (j + 1 + 1)) / f2)%F true) f0)
                       (sys_rows order x y bs)).
      { apply (in_sys_interior order x y bs (j + 1)); [lia | lia |].
        unfold irows. right. right. apply in_map_iff. exists d. split; [reflexivity|].
        apply in_seq. lia. }
      pose proof (Hsol _ Hin) as E. rewrite Nat.add_sub in E.
      rewrite row_apply_smooth_row in E by (try apply R; lia).
      cbn [rrhs] in E.
      match goal with |- ?A = ?B => replace A with (A - B + B)%F by ring end.
      rewrite E. ring.
    - intros b Hb Hd Hnode.
      pose proof (Hsol _ (in_sys_bfirst order x y bs b Hb Hnode)) as E.
      destruct (row_apply_deriv_entries order 0 (bderiv b) ((xnode x 0 - xnode x 1) / f2)%F
                  (bvalue b) c Hd ltac:(pose proof (R 0%nat ltac:(lia)); lia)) as [E1 _].
      rewrite E1 in E. cbn [rrhs] in E. exact E.
    - intros b Hb Hd Hnode.
      pose proof (Hsol _ (in_sys_blast order x y bs b Hb Hnode)) as E.
      destruct (row_apply_deriv_entries order ((order + 1) * (nnodes x - 2)) (bderiv b)
                  ((xnode x (nnodes x - 1) - xnode x (nnodes x - 2)) / f2)%F
                  (bvalue b) c Hd ltac:(apply R; lia)) as [E1 _].
      rewrite E1 in E. cbn [rrhs] in E. exact E.
  Qed.

  (* node minus midpoint of an adjacent interval *)
  Lemma half_left (a b : F) : (a - (a + b) / f2 = (a - b) / f2)%F.
  Proof. pose proof (@f2_neq0 F K L) as H. rewrite f2_eq in *. field. exact H. Qed.

  Lemma half_right (a b : F) : (b - (a + b) / f2 = (b - a) / f2)%F.
  Proof. pose proof (@f2_neq0 F K L) as H. rewrite f2_eq in *. field. exact H. Qed.

  (* ------------------------------------------------------------------ *)
  (* main theorem                                                        *)
  (* ------------------------------------------------------------------ *)

  Lemma xnode_gnth (x : support F) k j : sstart x <= k -> j = N.to_nat (k - sstart x) ->
    gnth (sgrid x) k = xnode x j.
  Proof. intros H ->. unfold xnode. f_equal. lia. Qed.

  Theorem interp_spec order (x : support F) y bs rows (c : list F) :
    SInv x -> GInv (sgrid x) -> (1 <= order)%nat -> sup_size x = nlen y -> 2 <= sup_size x ->
    bnd_ok order bs -> length bs = (order - 1)%nat ->
    interp_system order x y bs = Ok rows -> length c = length rows -> solves rows c ->
    exists s, interp_build order x c = Ok s /\ SplInv s /\ ssup s = x /\ sord s = order /\
      (* (i) values, from each adjacent piece *)
      (forall k, imem k x ->
         peval (piece s k) (gnth (sgrid x) k - mid (sgrid x) k)%F
         = nth (N.to_nat (k - sstart x)) y f0 /\
         peval (piece s k) (gnth (sgrid x) (k + 1) - mid (sgrid x) k)%F
         = nth (N.to_nat (k + 1 - sstart x)) y f0) /\
      (* (ii) smoothness at interior nodes *)
      (forall k d, imem k x -> imem (k + 1) x -> (1 <= d < order)%nat ->
         dval (piece s k) d (gnth (sgrid x) (k + 1)) (mid (sgrid x) k)
         = dval (piece s (k + 1)) d (gnth (sgrid x) (k + 1)) (mid (sgrid x) (k + 1))) /\
      (* (iii) boundary conditions *)
      (forall b, In b bs -> bnode b = FIRST ->
         dval (piece s (sstart x)) (bderiv b) (gnth (sgrid x) (sstart x))
           (mid (sgrid x) (sstart x)) = bvalue b) /\
      (forall b, In b bs -> bnode b = LAST ->
         dval (piece s (sstop x - 2)) (bderiv b) (gnth (sgrid x) (sstop x - 1))
           (mid (sgrid x) (sstop x - 2)) = bvalue b).
  Proof.
    intros Hs Hg Ho Hlen H2 Hb Hbl Hsys Hc Hsol.
    rewrite interp_system_eq in Hsys by assumption. injection Hsys as <-.
    pose proof (sup_size_inv x Hs) as Hsz.
    assert (Hn2 : (2 <= nnodes x)%nat) by (unfold nnodes; lia).
    assert (Hy : length y = nnodes x) by (unfold nnodes, nlen in *; lia).
    rewrite length_sys_rows in Hc by assumption.
    destruct (interp_build_ok order x c Hs Hg H2) as [Hbuild Hinv].
    { rewrite Hc, Hsz. reflexivity. }
    destruct (sys_rows_sound order x y bs c Ho Hn2 Hy Hc Hsol) as (V & S & BF & BL).
    exists (mkSpl x order (chunks (order + 1) (nnodes x - 1) c)).
    split; [exact Hbuild|]. split; [exact Hinv|]. split; [reflexivity|]. split; [reflexivity|].
    split; [|split; [|split]].
    - intros k Hk. pose proof Hk as [Hk1 Hk2].
      rewrite (piece_build order x c k Hk).
      set (j := N.to_nat (k - sstart x)).
      destruct (V j ltac:(unfold nnodes, j; lia)) as [V1 V2].
      unfold mid. rewrite half_left, half_right.
      rewrite (xnode_gnth x k j) by (unfold j; lia).
      rewrite (xnode_gnth x (k + 1) (j + 1)) by (unfold j; lia).
      replace (N.to_nat (k + 1 - sstart x)) with (j + 1)%nat by (unfold j; lia).
      split; assumption.
    - intros k d Hk Hk' Hd. pose proof Hk as [Hk1 Hk2]. pose proof Hk' as [Hk3 Hk4].
      unfold dval. rewrite (piece_build order x c k Hk), (piece_build order x c (k + 1) Hk').
      set (j := N.to_nat (k - sstart x)).
      replace (N.to_nat (k + 1 - sstart x)) with (j + 1)%nat by (unfold j; lia).
      unfold mid. rewrite half_left, half_right.
      rewrite (xnode_gnth x k j) by (unfold j; lia).
      rewrite (xnode_gnth x (k + 1) (j + 1)) by (unfold j; lia).
      rewrite (xnode_gnth x (k + 1 + 1) (j + 1 + 1)) by (unfold j; lia).
      apply S; [unfold nnodes, j; lia | exact Hd].
    - intros b Hin Hnode.
      assert (Hd : (1 <= bderiv b <= order)%nat).
      { unfold bnd_ok in Hb. rewrite Forall_forall in Hb. apply Hb. exact Hin. }
      assert (Hk : imem (sstart x) x) by (unfold imem; lia).
      unfold dval. rewrite (piece_build order x c _ Hk).
      replace (N.to_nat (sstart x - sstart x)) with 0%nat by lia. rewrite Nat.mul_0_r.
      unfold mid. rewrite half_left.
      rewrite (xnode_gnth x (sstart x) 0) by lia.
      rewrite (xnode_gnth x (sstart x + 1) 1) by lia.
      apply BF; assumption.
    - intros b Hin Hnode.
      assert (Hd : (1 <= bderiv b <= order)%nat).
      { unfold bnd_ok in Hb. rewrite Forall_forall in Hb. apply Hb. exact Hin. }
      assert (Hk : imem (sstop x - 2) x) by (unfold imem; lia).
      unfold dval. rewrite (piece_build order x c _ Hk).
      replace (N.to_nat (sstop x - 2 - sstart x)) with (nnodes x - 2)%nat by (unfold nnodes; lia).
      unfold mid.
      rewrite (xnode_gnth x (sstop x - 1) (nnodes x - 1)) by (unfold nnodes; lia).
      rewrite (xnode_gnth x (sstop x - 2 + 1) (nnodes x - 1)) by (unfold nnodes; lia).
      rewrite (xnode_gnth x (sstop x - 2) (nnodes x - 2)) by (unfold nnodes; lia).
      rewrite half_right.
      apply BL; assumption.
  Qed.

  (* the same for [interpolate] with any solver whose result solves the system *)
  Corollary interpolate_spec (solver : nat -> list (row F) -> list F) order (x : support F) y bs :
    SInv x -> GInv (sgrid x) -> (1 <= order)%nat -> sup_size x = nlen y -> 2 <= sup_size x ->
    bnd_ok order bs -> length bs = (order - 1)%nat ->
    (forall rows, interp_system order x y bs = Ok rows ->
       length (solver (length rows) rows) = length rows /\
       solves rows (solver (length rows) rows)) ->
    exists s, interpolate solver order x y bs = Ok s /\ SplInv s /\ ssup s = x /\ sord s = order /\
      (forall k, imem k x ->
         peval (piece s k) (gnth (sgrid x) k - mid (sgrid x) k)%F
         = nth (N.to_nat (k - sstart x)) y f0 /\
         peval (piece s k) (gnth (sgrid x) (k + 1) - mid (sgrid x) k)%F
         = nth (N.to_nat (k + 1 - sstart x)) y f0) /\
      (forall k d, imem k x -> imem (k + 1) x -> (1 <= d < order)%nat ->
         dval (piece s k) d (gnth (sgrid x) (k + 1)) (mid (sgrid x) k)
         = dval (piece s (k + 1)) d (gnth (sgrid x) (k + 1)) (mid (sgrid x) (k + 1))) /\
      (forall b, In b bs -> bnode b = FIRST ->
         dval (piece s (sstart x)) (bderiv b) (gnth (sgrid x) (sstart x))
           (mid (sgrid x) (sstart x)) = bvalue b) /\
      (forall b, In b bs -> bnode b = LAST ->
         dval (piece s (sstop x - 2)) (bderiv b) (gnth (sgrid x) (sstop x - 1))
           (mid (sgrid x) (sstop x - 2)) = bvalue b).
  Proof.
    intros Hs Hg Ho Hlen H2 Hb Hbl Hsolver.
    destruct (interp_system_ok order x y bs Hs Hg Ho Hlen H2 Hb Hbl) as (rows & Hsys & _).
    destruct (Hsolver rows Hsys) as [Hl Hsol].
    destruct (interp_spec order x y bs rows _ Hs Hg Ho Hlen H2 Hb Hbl Hsys Hl Hsol)
      as (s & Hbuild & Hrest).
    exists s. split; [|exact Hrest].
    unfold interpolate. rewrite Hsys. cbn [bind]. exact Hbuild.
  Qed.

End InterpFacts.

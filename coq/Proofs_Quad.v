(* Proofs_Quad.v — numerical quadrature (integration/numerical.h) agrees with
   the analytic bilinear form wherever the Gauss–Legendre rule is exact.

   Boost's n-point rule is the section variable [rule]; the two hypotheses
   [rule_ext] and [rule_exact] are its documented contract (the value depends
   only on the values of the integrand; polynomials of degree <= 2n-1 are
   integrated exactly), stated in the midpoint representation of the library.
   They are section hypotheses, i.e. premises of every theorem below. *)
From Coq Require Import List Arith NArith ZArith Bool Lia ZifyBool ZifyN Field Ring.
From BSpl Require Import ListAux Scalar Outcome Support Poly Spline Ops Forms Quad Spec Spec_Ops
  Proofs_Support Proofs_Scalar Proofs_Outcome Proofs_Poly Proofs_Spline Proofs_Ops Proofs_Forms
  Proofs_Forms2.
Import ListNotations.
Local Open Scope F_scope.

Ltac Zify.zify_post_hook ::= Z.div_mod_to_equations.

Section QuadProofs.
  Context {F : Type} {K : Ops F} {L : Laws K}.
  Add Field Ffquad : (@Fth F K L).

  Variable rule : nat -> (F -> F) -> F -> F -> F.

  Hypothesis rule_ext : forall n g h a b,
    (forall x, g x = h x) -> rule n g a b = rule n h a b.

  Hypothesis rule_exact : forall n p a b, (length p <= 2 * n)%nat ->
    rule n (fun x => peval p (x - (a + b) / f2)) a b = defint p ((b - a) / f2).

  (* ================================================================== *)
  (* evaluateInterval as a total function                                *)
  (* ================================================================== *)

  Lemma horner_spec x (c : list F) xm : c <> [] -> horner x c xm = peval c (x - xm).
  Proof. intros Hc. unfold horner. rewrite eval_interval_spec by exact Hc. reflexivity. Qed.

  (* ================================================================== *)
  (* the weight polynomial as an operator expression                     *)
  (* ================================================================== *)

  Lemma weight_expr_from_ok j (w : list F) g :
    factors_ok (weight_expr_from j w) g /\ scalars_ok (weight_expr_from j w).
  Proof.
    revert j; induction w as [|a r IH]; intros j; cbn [weight_expr_from factors_ok scalars_ok scalar_wf].
    - tauto.
    - destruct (IH (S j)) as [H1 H2]. tauto.
  Qed.

  Lemma weight_expr_ok (w : list F) g :
    factors_ok (weight_expr w) g /\ scalars_ok (weight_expr w).
  Proof. apply weight_expr_from_ok. Qed.

  Lemma peval_xpoly (m u : F) : peval (xpoly m) u = u + m.
  Proof. unfold xpoly. cbn [peval]. ring. Qed.

  (* sum_{i} w_i X<j+i> is multiplication by x^j * w(x), x = u + mid *)
  Lemma peval_weight_from (w : list F) g k (c : list F) u : forall j,
    peval (dsem (weight_expr_from j w) g k c) u
    = fpow (u + mid g k) j * peval w (u + mid g k) * peval c u.
  Proof.
    induction w as [|a r IH]; intros j; cbn [weight_expr_from dsem sval].
    - rewrite peval_pscale_l. cbn [peval]. ring.
    - rewrite peval_padd, peval_pscale_l, peval_pmul, peval_ppow, peval_xpoly, IH.
      cbn [peval fpow]. ring.
  Qed.

  Lemma peval_weight (w : list F) g k (c : list F) u : c <> [] ->
    peval (dsem (weight_expr w) g k c) u = peval w (u + mid g k) * peval c u.
  Proof.
    intros _. unfold weight_expr. rewrite peval_weight_from. cbn [fpow]. ring.
  Qed.

  (* ---- degree bookkeeping ---- *)

  Lemma out_ord_weight_from (w : list F) n : forall j,
    out_ord (elab (weight_expr_from j w)) n
    = match w with [] => n | _ :: _ => (n + j + (length w - 1))%nat end.
  Proof.
    clear rule rule_ext rule_exact.
    induction w as [|a r IH]; intros j; cbn [weight_expr_from elab out_ord]; [reflexivity|].
    rewrite IH. destruct r as [|b r]; cbn [length]; lia.
  Qed.

  Lemma out_ord_weight (w : list F) n :
    out_ord (elab (weight_expr w)) n = (n + (length w - 1))%nat.
  Proof.
    clear rule rule_ext rule_exact.
    unfold weight_expr. rewrite out_ord_weight_from. destruct w as [|a r]; cbn [length]; lia.
  Qed.

  Lemma length_ppow_xpoly (m : F) j : length (ppow (xpoly m) j) = S j.
  Proof.
    clear rule rule_ext rule_exact.
    induction j as [|j IH]; cbn [ppow]; [reflexivity|].
    rewrite length_pmul.
    - rewrite IH. unfold xpoly. cbn [length]. lia.
    - unfold xpoly. discriminate.
    - intros E. rewrite E in IH. discriminate.
  Qed.

  Lemma length_dsem_weight_from (w : list F) g k (c : list F) : c <> [] -> forall j,
    length (dsem (weight_expr_from j w) g k c)
    = match w with [] => length c | _ :: _ => (length c + j + (length w - 1))%nat end.
  Proof.
    clear rule rule_ext rule_exact.
    intros Hc. induction w as [|a r IH]; intros j; cbn [weight_expr_from dsem].
    - apply length_pscale_l.
    - rewrite length_padd, length_pscale_l, IH, length_pmul, length_ppow_xpoly.
      + destruct r as [|b r]; cbn [length]; lia.
      + intros E. pose proof (length_ppow_xpoly (mid g k) j) as H. rewrite E in H. discriminate.
      + exact Hc.
  Qed.

  Lemma length_dsem_weight (w : list F) g k (c : list F) : c <> [] ->
    length (dsem (weight_expr w) g k c) = (length c + (length w - 1))%nat.
  Proof.
    clear rule rule_ext rule_exact.
    intros Hc. unfold weight_expr. rewrite length_dsem_weight_from by exact Hc.
    destruct w as [|a r]; cbn [length]; lia.
  Qed.

  (* ================================================================== *)
  (* integrate: failure, empty intersection, the sum over common intervals *)
  (* ================================================================== *)

  Lemma integrate_differing n f (m1 m2 : spline F) :
    sgridp m1 <> sgridp m2 -> integrate rule n f m1 m2 = Throw DIFFERING_GRIDS.
  Proof.
    intros H. unfold integrate, sgridp in *. rewrite calc_inter_differing by exact H. reflexivity.
  Qed.

  Lemma integrate_no_common n f (m1 m2 : spline F) u :
    SplInv m1 -> SplInv m2 -> sgridp m1 = sgridp m2 ->
    calc_inter (ssup m1) (ssup m2) = Ok u -> nintervals u = 0%N ->
    integrate rule n f m1 m2 = Ok f0.
  Proof.
    clear rule_ext rule_exact.
    intros H1 H2 Hg Hu H0.
    destruct (inter_facts m1 m2 u H1 H2 Hg Hu) as (Su & _ & _).
    unfold integrate. rewrite Hu. cbn [bind].
    rewrite num_intervals_nintervals by exact Su. rewrite H0. reflexivity.
  Qed.

  (* Support::at on a point of the window *)
  Lemma sup_at_gnth_local (s : support F) j k :
    SInv s -> k = (sstart s + j)%N -> (k < sstop s)%N -> sup_at s j = Ok (gnth (sgrid s) k).
  Proof.
    clear rule rule_ext rule_exact.
    intros Hs -> Hk. pose proof (SInv_bounds _ Hs) as B.
    rewrite sup_at_spec by (assumption || unfold W; lia).
    rewrite nnth_sup_points by (assumption || lia).
    unfold nnth, gnth, nlen in *.
    rewrite (nth_error_nth' (sgrid s) f0) by lia. reflexivity.
  Qed.

  Lemma integrate_sum n f (m1 m2 : spline F) u :
    SplInv m1 -> SplInv m2 -> sgridp m1 = sgridp m2 ->
    calc_inter (ssup m1) (ssup m2) = Ok u ->
    integrate rule n f m1 m2
    = Ok (fsum (fun k => rule n (fun x => f x * peval (piece m1 k) (x - mid (sgridp m1) k)
                                            * peval (piece m2 k) (x - mid (sgridp m1) k))
                               (gnth (sgridp m1) k) (gnth (sgridp m1) (k + 1)))
               (interval_list u)).
  Proof.
    clear rule_exact.
    intros Ha Hb Hgab Hu.
    destruct (inter_facts m1 m2 u Ha Hb Hgab Hu) as (Hsu & Hgu & Mu).
    pose proof Ha as (Hsa & Hga & Hna & Hca). pose proof Hb as (Hsb & Hgb & Hnb & Hcb).
    unfold sgridp in *.
    unfold integrate. rewrite Hu. cbn [bind].
    unfold fsum, interval_list.
    rewrite num_intervals_nintervals by exact Hsu.
    rewrite fold_left_map_local.
    apply fold_ok_local. intros r i Hi. apply In_nrange_local in Hi.
    apply nintervals_lt in Hi.
    pose proof (SInv_bounds _ Hsu) as Bu. pose proof (SInv_bounds _ Hsa) as Ba.
    pose proof (SInv_bounds _ Hsb) as Bb.
    set (k := (sstart u + i)%N).
    assert (Hk : imem k u) by (unfold imem, k; lia).
    destruct (proj1 (Mu k) Hk) as [Hka Hkb].
    pose proof Hka as [Hka1 Hka2]. pose proof Hkb as [Hkb1 Hkb2].
    assert (HkW : (k < W)%N) by (unfold W; lia).
    cbn [bind].
    rewrite abs_from_rel_spec by (assumption || unfold W; lia).
    destruct (i <? sstop u - sstart u)%N eqn:E; [|lia]. cbn [bind]. fold k.
    rewrite (interval_index_spec (ssup m1) k Hsa HkW).
    destruct ((sstart (ssup m1) <=? k)%N && (k + 1 <? sstop (ssup m1))%N) eqn:Ea; [|lia].
    cbn [value of_option bind].
    rewrite (interval_index_spec (ssup m2) k Hsb HkW).
    destruct ((sstart (ssup m2) <=? k)%N && (k + 1 <? sstop (ssup m2))%N) eqn:Eb; [|lia].
    cbn [value of_option bind].
    rewrite (wadd_small (k - sstart (ssup m1)) 1) by (unfold W; lia).
    rewrite (sup_at_gnth_local (ssup m1) (k - sstart (ssup m1)) k) by (assumption || lia).
    cbn [bind].
    rewrite (sup_at_gnth_local (ssup m1) (k - sstart (ssup m1) + 1) (k + 1)) by (assumption || lia).
    cbn [bind].
    destruct (piece_in m1 k Ha Hka) as [Hn1 Hl1].
    destruct (piece_in m2 k Hb Hkb) as [Hn2 Hl2].
    rewrite (at_nth_error _ _ _ Hn1). cbn [bind].
    rewrite (at_nth_error _ _ _ Hn2). cbn [bind].
    f_equal. f_equal. apply rule_ext. intros x.
    rewrite !horner_spec by (eapply nonnil_of_length; eassumption).
    reflexivity.
  Qed.

  (* ================================================================== *)
  (* main theorem: exactness                                             *)
  (* ================================================================== *)

  Lemma integrate_spec n (w : list F) (m1 m2 : spline F) :
    SplInv m1 -> SplInv m2 -> sgridp m1 = sgridp m2 ->
    (sord m1 + sord m2 + (length w - 1) + 1 <= 2 * n)%nat ->
    exists v, integrate rule n (fun x => peval w x) m1 m2 = Ok v /\
              bilinear OId (elab (weight_expr w)) m1 m2 = Ok v.
  Proof.
    intros Ha Hb Hg Hn.
    pose proof Ha as (Sa & _). pose proof Hb as (Sb & _).
    destruct (calc_inter_spec _ _ Sa Sb Hg) as (u & Eu & _).
    destruct (inter_facts m1 m2 u Ha Hb Hg Eu) as (Su & Gu & Mu).
    destruct (weight_expr_ok w (sgridp m1)) as [Hf Hs].
    eexists. split.
    - apply (integrate_sum n _ m1 m2 u Ha Hb Hg Eu).
    - change (@OId F) with (elab (@EId F)).
      rewrite (bilinear_exact EId (weight_expr w) m1 m2 u Ha Hb Hg I Hf I Hs Eu).
      f_equal. apply fsum_ext. intros k Hk. apply imem_interval_list in Hk.
      apply Mu in Hk as [Hka Hkb].
      destruct (piece_in m1 k Ha Hka) as [_ Hl1].
      destruct (piece_in m2 k Hb Hkb) as [_ Hl2].
      assert (N1 : piece m1 k <> []) by (eapply nonnil_of_length; eassumption).
      assert (N2 : piece m2 k <> []) by (eapply nonnil_of_length; eassumption).
      cbn [dsem].
      set (g := sgridp m1).
      set (p := pmul (piece m1 k) (dsem (weight_expr w) g k (piece m2 k))).
      assert (Lp : (length p <= 2 * n)%nat).
      { unfold p. rewrite length_pmul.
        - rewrite length_dsem_weight by exact N2. lia.
        - exact N1.
        - intros E. pose proof (length_dsem_weight w g k _ N2) as H. rewrite E in H.
          cbn [length] in H. lia. }
      pose proof (rule_exact n p (gnth g k) (gnth g (k + 1)) Lp) as HR.
      fold (mid g k) in HR. fold (halfwidth g k) in HR.
      rewrite <- HR. symmetry. apply rule_ext. intros x.
      unfold p. rewrite peval_pmul, peval_weight by exact N2.
      replace (x - mid g k + mid g k) with x by ring. ring.
  Qed.

End QuadProofs.

(* Proofs_Eval.v — grids, binary search and spline evaluation (C02):
   "evaluation returns the value of the stored piecewise polynomial".

   Part A: Grid::isSteadilyIncreasing / Grid::Grid / std::lower_bound /
   Grid::findElement against the pointwise order predicate [increasing].
   Part B: Spline::operator()(x), front(), back() against the denotation
   [den s k x] = peval (piece s k) (x - mid k) of Spec.v. *)
From Coq Require Import List Arith NArith Bool Lia ZifyBool ZifyN.
From BSpl Require Import ListAux Scalar Outcome Support Poly Spline Spec Proofs_Support Proofs_Scalar.
Import ListNotations.
Local Open Scope N_scope.

(* ====================================================================== *)
(* Part A, facts that need no field laws                                   *)
(* ====================================================================== *)
Section GridNoLaws.
  Context {F : Type} {K : Ops F}.

  Lemma increasing_nil : increasing (@nil F).
  Proof. intros [|i] a b Ha Hb; discriminate. Qed.

  Lemma increasing_single (a : F) : increasing [a].
  Proof. intros [|i] x y Hx Hy; [discriminate | destruct i; discriminate]. Qed.

  Lemma increasing_cons (a b : F) r :
    increasing (a :: b :: r) <-> fltb a b = true /\ increasing (b :: r).
  Proof.
    unfold increasing. split.
    - intros H. split.
      + apply (H 0%nat a b); reflexivity.
      + intros i x y Hx Hy. apply (H (S i) x y); assumption.
    - intros [H1 H2] i x y Hx Hy. destruct i as [|i].
      + cbn [nth_error] in Hx, Hy. injection Hx as <-. injection Hy as <-. exact H1.
      + apply (H2 i x y); assumption.
  Qed.

  Lemma increasing_tail (a : F) l : increasing (a :: l) -> increasing l.
  Proof. intros H i x y Hx Hy. apply (H (S i) x y); assumption. Qed.

  Lemma steadily_cons2 (a b : F) r :
    steadily (a :: b :: r) = if negb (fltb a b) then false else steadily (b :: r).
  Proof. reflexivity. Qed.

  Lemma steadily_increasing (l : list F) : steadily l = true <-> increasing l.
  Proof.
    induction l as [|a l IH].
    - split; intros _; [apply increasing_nil | reflexivity].
    - destruct l as [|b r].
      + split; intros _; [apply increasing_single | reflexivity].
      + rewrite increasing_cons, <- IH, steadily_cons2.
        destruct (fltb a b); cbn [negb]; split.
        * intros H. split; [reflexivity | exact H].
        * intros [_ H]. exact H.
        * intros H. discriminate.
        * intros [H _]. discriminate.
  Qed.

  Lemma grid_ctor_iff (l : list F) :
    (exists g, grid_ctor l = Ok g) <-> (2 <= nlen l /\ increasing l).
  Proof.
    unfold grid_ctor. destruct (nlen l <? 2) eqn:E.
    - split; [intros [g H]; discriminate | intros [H _]; lia].
    - destruct (steadily l) eqn:S; cbn [negb].
      + split; [intros _ | intros _; eauto].
        split; [lia | apply steadily_increasing; exact S].
      + split; [intros [g H]; discriminate|].
        intros [_ H]. apply steadily_increasing in H. congruence.
  Qed.

  Lemma grid_ctor_ok (l g : list F) : grid_ctor l = Ok g -> g = l.
  Proof.
    unfold grid_ctor. destruct (nlen l <? 2); [discriminate|].
    destruct (negb (steadily l)); [discriminate|]. intros [= <-]. reflexivity.
  Qed.

  Lemma grid_ctor_cases (l : list F) :
    grid_ctor l = Ok l \/ grid_ctor l = Throw MISSING_DATA \/ grid_ctor l = Throw INCONSISTENT_DATA.
  Proof.
    unfold grid_ctor. destruct (nlen l <? 2); [auto|].
    destruct (negb (steadily l)); auto.
  Qed.

  Lemma grid_ctor_missing (l : list F) : grid_ctor l = Throw MISSING_DATA <-> nlen l < 2.
  Proof.
    unfold grid_ctor. destruct (nlen l <? 2) eqn:E.
    - split; [intros _; lia | reflexivity].
    - destruct (negb (steadily l)); (split; [discriminate | lia]).
  Qed.

  Lemma grid_ctor_inconsistent (l : list F) :
    grid_ctor l = Throw INCONSISTENT_DATA <-> (2 <= nlen l /\ ~ increasing l).
  Proof.
    unfold grid_ctor. destruct (nlen l <? 2) eqn:E.
    - split; [discriminate | lia].
    - destruct (steadily l) eqn:S; cbn [negb].
      + split; [discriminate|]. intros [_ H]. exfalso. apply H, steadily_increasing, S.
      + split; [intros _ | reflexivity]. split; [lia|].
        intros H. apply steadily_increasing in H. congruence.
  Qed.

  (* a window of an increasing list is increasing *)
  Lemma increasing_window (l : list F) m n : increasing l -> increasing (firstn n (skipn m l)).
  Proof.
    intros Hl i a b Ha Hb.
    assert (S i < n)%nat as Hi.
    { assert (nth_error (firstn n (skipn m l)) (S i) <> None) as H by congruence.
      apply nth_error_Some in H. rewrite firstn_length in H. lia. }
    rewrite nth_error_firstn in Ha, Hb by lia.
    rewrite nth_error_skipn in Ha, Hb.
    replace (m + S i)%nat with (S (m + i)) in Hb by lia.
    exact (Hl _ _ _ Ha Hb).
  Qed.

  Lemma increasing_sup_points (s : support F) :
    SInv s -> increasing (sgrid s) -> increasing (sup_points s).
  Proof. intros _ H. unfold sup_points. apply increasing_window. exact H. Qed.

  Lemma grid_find_cases_nolaws (g : list F) x :
    (exists i, grid_find g x = Ok i) \/ grid_find g x = Throw INCONSISTENT_DATA.
  Proof.
    unfold grid_find. destruct (nth_error g (lower_bound g x)) as [e|]; [|auto].
    destruct (fneb e x); eauto.
  Qed.

  (* --- the accessors of a valid window, by absolute position --- *)
  Lemma nnth_gnth (g : list F) k : k < nlen g -> nnth g k = Some (gnth g k).
  Proof. unfold nnth, gnth, nlen. intros H. apply nth_error_nth'. lia. Qed.

  Lemma grid_sub_gnth (g : list F) k : k < nlen g -> grid_sub g k = Ok (gnth g k).
  Proof. intros H. unfold grid_sub. rewrite nnth_gnth by exact H. reflexivity. Qed.

  Lemma sup_sub_gnth (s : support F) r : SInv s -> r < sstop s - sstart s ->
    sup_sub s r = Ok (gnth (sgrid s) (sstart s + r)).
  Proof.
    intros Hs Hr. pose proof (SInv_bounds _ Hs) as B. unfold sup_sub.
    rewrite wadd_small by (unfold W; lia). apply grid_sub_gnth. lia.
  Qed.

  Lemma sup_front_gnth (s : support F) : SInv s ->
    sup_front s = if sstart s =? sstop s then Throw INVALID_ACCESS
                  else Ok (gnth (sgrid s) (sstart s)).
  Proof.
    intros Hs. pose proof (SInv_bounds _ Hs) as B. unfold sup_front, sup_is_empty.
    destruct (sstart s =? sstop s) eqn:E; [reflexivity|].
    apply grid_sub_gnth. lia.
  Qed.

  Lemma sup_back_gnth (s : support F) : SInv s ->
    sup_back s = if sstart s =? sstop s then Throw INVALID_ACCESS
                 else Ok (gnth (sgrid s) (sstop s - 1)).
  Proof.
    intros Hs. pose proof (SInv_bounds _ Hs) as B. unfold sup_back, sup_is_empty.
    destruct (sstart s =? sstop s) eqn:E; [reflexivity|].
    rewrite wsub_small by (unfold W; lia). apply grid_sub_gnth. lia.
  Qed.

  Lemma nth_sup_points (s : support F) j : SInv s -> N.of_nat j < sstop s - sstart s ->
    nth_error (sup_points s) j = Some (gnth (sgrid s) (sstart s + N.of_nat j)).
  Proof.
    intros Hs Hj. pose proof (nnth_sup_points s (N.of_nat j) Hs Hj) as H.
    unfold nnth at 1 in H. rewrite Nat2N.id in H. rewrite H.
    apply nnth_gnth. apply SInv_bounds in Hs. lia.
  Qed.

  (* --- pieces --- *)
  Lemma piece_outside (s : spline F) k : ~ imem k (ssup s) -> piece s k = [].
  Proof.
    unfold imem, piece. intros H.
    destruct ((sstart (ssup s) <=? k) && (k + 1 <? sstop (ssup s))) eqn:E; [|reflexivity].
    exfalso. apply H. lia.
  Qed.

  Lemma den_outside (s : spline F) k x : ~ imem k (ssup s) -> den s k x = f0.
  Proof. intros H. unfold den. rewrite piece_outside by exact H. reflexivity. Qed.

  Lemma piece_nth (s : spline F) k : SplInv s -> imem k (ssup s) ->
    nth_error (scoefs s) (N.to_nat (k - sstart (ssup s))) = Some (piece s k).
  Proof.
    intros (Hs & Hg & Hn & Hc) [H1 H2]. unfold piece.
    destruct ((sstart (ssup s) <=? k) && (k + 1 <? sstop (ssup s))) eqn:E; [|lia].
    apply nth_error_nth'. unfold nlen, nintervals in Hn.
    destruct (sstop (ssup s) - sstart (ssup s) =? 0) eqn:E0; lia.
  Qed.

  Lemma piece_length (s : spline F) k : SplInv s -> imem k (ssup s) ->
    length (piece s k) = (sord s + 1)%nat.
  Proof.
    intros Hi Hk. pose proof (piece_nth s k Hi Hk) as H.
    destruct Hi as (_ & _ & _ & Hc). rewrite Forall_forall in Hc.
    apply Hc. eapply nth_error_In. exact H.
  Qed.

  Lemma spl_front_spec (s : spline F) : SplInv s ->
    spl_front s = if sstart (ssup s) =? sstop (ssup s) then Throw INVALID_ACCESS
                  else Ok (gnth (sgrid (ssup s)) (sstart (ssup s))).
  Proof. intros (Hs & _). unfold spl_front. apply sup_front_gnth. exact Hs. Qed.

  Lemma spl_back_spec (s : spline F) : SplInv s ->
    spl_back s = if sstart (ssup s) =? sstop (ssup s) then Throw INVALID_ACCESS
                 else Ok (gnth (sgrid (ssup s)) (sstop (ssup s) - 1)).
  Proof. intros (Hs & _). unfold spl_back. apply sup_back_gnth. exact Hs. Qed.

  Lemma find_interval_small (s : spline F) x : SplInv s ->
    sstop (ssup s) - sstart (ssup s) < 2 -> find_interval s x = Ok None.
  Proof.
    intros (Hs & _) H. unfold find_interval. rewrite sup_size_inv by exact Hs.
    destruct (sstop (ssup s) - sstart (ssup s) <? 2) eqn:E; [reflexivity | lia].
  Qed.

  Lemma seval_no_interval (s : spline F) x : SplInv s ->
    sstop (ssup s) - sstart (ssup s) < 2 -> spl_eval s x = Ok f0.
  Proof.
    intros Hi H. unfold spl_eval. rewrite find_interval_small by assumption. reflexivity.
  Qed.
End GridNoLaws.

(* ====================================================================== *)
(* Part A with the order laws, Part B                                      *)
(* ====================================================================== *)
Section Eval.
  Context {F : Type} {K : Ops F} {L : Laws K}.
  Add Field Ffeval : (@Fth F K L).

  (* private copy of Proofs_Poly.eval_interval_spec (that file is being
     written concurrently and needs more imports) *)
  Lemma fold_horner_rev_local (l : list F) acc dx :
    fold_left (fun res it => (dx * res + it)%F) (rev l) acc = peval (l ++ [acc]) dx.
  Proof.
    induction l as [|a l IH].
    - cbn [rev fold_left app peval]. ring.
    - cbn [rev app]. rewrite fold_left_app. cbn [fold_left peval]. rewrite IH. ring.
  Qed.

  Lemma eval_interval_spec_local x (c : list F) xm :
    c <> [] -> eval_interval x c xm = Ok (peval c (x - xm)%F).
  Proof.
    intros Hc. unfold eval_interval.
    destruct (rev c) as [|cl r] eqn:E.
    - exfalso. apply Hc. rewrite <- (rev_involutive c), E. reflexivity.
    - f_equal. assert (c = rev r ++ [cl]) as ->.
      { rewrite <- (rev_involutive c), E. reflexivity. }
      rewrite <- fold_horner_rev_local, rev_involutive. reflexivity.
  Qed.

  (* ---------------- Part A: order facts on increasing lists ------------- *)
  Lemma increasing_lt (g : list F) i j a b : increasing g -> (i < j)%nat ->
    nth_error g i = Some a -> nth_error g j = Some b -> fltb a b = true.
  Proof.
    intros Hg Hij Ha. revert b. induction Hij as [|j Hij IH]; intros b Hb.
    - exact (Hg _ _ _ Ha Hb).
    - destruct (nth_error g j) as [c|] eqn:Ec.
      + apply (flt_trans a c b); [apply IH; reflexivity | exact (Hg _ _ _ Ec Hb)].
      + exfalso. apply nth_error_None in Ec.
        assert (nth_error g (S j) <> None) as H by congruence.
        apply nth_error_Some in H. lia.
  Qed.

  Lemma increasing_inj (g : list F) i j a : increasing g ->
    nth_error g i = Some a -> nth_error g j = Some a -> i = j.
  Proof.
    intros Hg Hi Hj.
    destruct (Nat.lt_trichotomy i j) as [H|[H|H]]; [|exact H|]; exfalso.
    - pose proof (increasing_lt g i j a a Hg H Hi Hj) as E. rewrite flt_irrefl in E. discriminate.
    - pose proof (increasing_lt g j i a a Hg H Hj Hi) as E. rewrite flt_irrefl in E. discriminate.
  Qed.

  Lemma increasing_le (g : list F) i j a b : increasing g -> (i <= j)%nat ->
    nth_error g i = Some a -> nth_error g j = Some b -> fleb a b = true.
  Proof.
    intros Hg Hij Ha Hb. apply fleb_true.
    destruct (Nat.eq_dec i j) as [->|Hne].
    - right. congruence.
    - left. apply (increasing_lt g i j); try assumption. lia.
  Qed.

  (* contract of std::lower_bound on a sorted range *)
  Lemma lower_bound_spec (l : list F) x : increasing l ->
    (forall i a, (i < lower_bound l x)%nat -> nth_error l i = Some a -> fltb a x = true) /\
    (forall i a, (lower_bound l x <= i)%nat -> nth_error l i = Some a -> fltb a x = false) /\
    (lower_bound l x <= length l)%nat.
  Proof.
    induction l as [|a l IH]; intros Hl.
    - cbn [lower_bound length]. split; [intros i a Hi; lia|].
      split; [intros [|i] a _ H; discriminate | lia].
    - destruct (IH (increasing_tail _ _ Hl)) as (H1 & H2 & H3).
      cbn [lower_bound]. destruct (fltb a x) eqn:E.
      + split; [|split].
        * intros [|i] b Hi Hb; cbn [nth_error] in Hb.
          -- injection Hb as <-. exact E.
          -- apply (H1 i); [lia | exact Hb].
        * intros [|i] b Hi Hb; [lia|]. cbn [nth_error] in Hb. apply (H2 i); [lia | exact Hb].
        * cbn [length]. lia.
      + split; [|split].
        * intros i b Hi; lia.
        * intros i b _ Hb.
          assert (fleb a b = true) as Hab.
          { apply (increasing_le (a :: l) 0 i); [exact Hl | lia | reflexivity | exact Hb]. }
          apply fltb_false. apply fltb_false in E. exact (fle_trans _ _ _ E Hab).
        * lia.
  Qed.

  (* the lower bound is determined by a sign change *)
  Lemma lower_bound_at (l : list F) x j a b : increasing l ->
    nth_error l j = Some a -> nth_error l (S j) = Some b ->
    fltb a x = true -> fltb b x = false -> lower_bound l x = S j.
  Proof.
    intros Hl Ha Hb Hax Hbx. destruct (lower_bound_spec l x Hl) as (H1 & H2 & _).
    destruct (Nat.lt_trichotomy (lower_bound l x) (S j)) as [H|[H|H]]; [|exact H|]; exfalso.
    - pose proof (H2 j a ltac:(lia) Ha). congruence.
    - pose proof (H1 (S j) b H Hb). congruence.
  Qed.

  Lemma lower_bound_zero (l : list F) x a :
    nth_error l 0 = Some a -> fltb a x = false -> lower_bound l x = 0%nat.
  Proof.
    destruct l as [|c l]; [discriminate|]. cbn [nth_error lower_bound].
    intros [= ->] ->. reflexivity.
  Qed.

  Lemma grid_find_spec (g : list F) x i : increasing g ->
    (grid_find g x = Ok i <-> nnth g i = Some x).
  Proof.
    intros Hg. destruct (lower_bound_spec g x Hg) as (H1 & H2 & H3).
    unfold grid_find, nnth. split.
    - destruct (nth_error g (lower_bound g x)) as [e|] eqn:Ee; [|discriminate].
      destruct (fneb e x) eqn:En; [discriminate|].
      intros [= <-]. rewrite Nat2N.id. apply fneb_false in En. congruence.
    - intros Hx.
      assert (lower_bound g x = N.to_nat i) as Hk.
      { destruct (Nat.lt_trichotomy (lower_bound g x) (N.to_nat i)) as [H|[H|H]]; [|exact H|]; exfalso.
        - destruct (nth_error g (lower_bound g x)) as [e|] eqn:Ee.
          + pose proof (H2 _ e (le_n _) Ee) as A.
            pose proof (increasing_lt g _ _ e x Hg H Ee Hx) as B. congruence.
          + apply nth_error_None in Ee.
            assert (nth_error g (N.to_nat i) <> None) as Hn by congruence.
            apply nth_error_Some in Hn. lia.
        - pose proof (H1 _ x H Hx) as A. rewrite flt_irrefl in A. discriminate. }
      rewrite Hk, Hx.
      assert (fneb x x = false) as -> by (apply fneb_false; reflexivity).
      rewrite N2Nat.id. reflexivity.
  Qed.

  Lemma grid_find_cases (g : list F) x : increasing g ->
    (exists i, grid_find g x = Ok i) \/ grid_find g x = Throw INCONSISTENT_DATA.
  Proof. intros _. apply grid_find_cases_nolaws. Qed.

  (* grid points of a valid grid, by absolute index *)
  Lemma gnth_lt (g : list F) i j : increasing g -> i < j -> j < nlen g ->
    fltb (gnth g i) (gnth g j) = true.
  Proof.
    intros Hg Hij Hj.
    apply (increasing_lt g (N.to_nat i) (N.to_nat j)); [exact Hg | lia | |].
    - apply (nnth_gnth g i). lia.
    - apply (nnth_gnth g j). lia.
  Qed.

  Lemma gnth_le (g : list F) i j : increasing g -> i <= j -> j < nlen g ->
    fleb (gnth g i) (gnth g j) = true.
  Proof.
    intros Hg Hij Hj. apply fleb_true.
    destruct (N.eq_dec i j) as [->|Hne]; [right; reflexivity|].
    left. apply gnth_lt; [exact Hg | lia | exact Hj].
  Qed.

  (* ---------------- Part B: evaluation ---------------------------------- *)

  Lemma find_interval_outside (s : spline F) x : SplInv s ->
    2 <= sstop (ssup s) - sstart (ssup s) ->
    (fltb x (gnth (sgrid (ssup s)) (sstart (ssup s))) = true \/
     fltb (gnth (sgrid (ssup s)) (sstop (ssup s) - 1)) x = true) ->
    find_interval s x = Ok None.
  Proof.
    intros (Hs & _) Hsz Hx. unfold find_interval. rewrite sup_size_inv by exact Hs.
    destruct (sstop (ssup s) - sstart (ssup s) <? 2) eqn:E; [reflexivity|].
    rewrite sup_back_gnth, sup_front_gnth by exact Hs.
    destruct (sstart (ssup s) =? sstop (ssup s)) eqn:E2; [lia|]. cbn [bind].
    rewrite fgtb_def.
    destruct (fltb (gnth (sgrid (ssup s)) (sstop (ssup s) - 1)) x) eqn:Eb; [reflexivity|].
    destruct Hx as [Hx|Hx]; [|discriminate]. rewrite Hx. reflexivity.
  Qed.

  Lemma seval_outside (s : spline F) x : SplInv s ->
    2 <= sstop (ssup s) - sstart (ssup s) ->
    (fltb x (gnth (sgrid (ssup s)) (sstart (ssup s))) = true \/
     fltb (gnth (sgrid (ssup s)) (sstop (ssup s) - 1)) x = true) ->
    spl_eval s x = Ok f0.
  Proof.
    intros Hi Hsz Hx. unfold spl_eval. rewrite find_interval_outside by assumption. reflexivity.
  Qed.

  Lemma find_interval_inside (s : spline F) x k : SplInv s -> imem k (ssup s) ->
    ((fltb (gnth (sgrid (ssup s)) k) x = true /\ fleb x (gnth (sgrid (ssup s)) (k + 1)) = true) \/
     (k = sstart (ssup s) /\ x = gnth (sgrid (ssup s)) k)) ->
    find_interval s x = Ok (Some (k - sstart (ssup s))).
  Proof.
    intros (Hs & (Hg2 & Hg63 & Hg) & _) [Hk1 Hk2] Hx.
    pose proof (SInv_bounds _ Hs) as B.
    set (g := sgrid (ssup s)) in *. set (a := sstart (ssup s)) in *. set (b := sstop (ssup s)) in *.
    (* front <= x <= back *)
    assert (fleb (gnth g a) x = true /\ fleb x (gnth g (b - 1)) = true) as [Hlo Hhi].
    { destruct Hx as [[Hx1 Hx2]|[-> ->]].
      - split.
        + apply (fle_trans _ (gnth g k)); [apply gnth_le; [exact Hg | lia | lia]|].
          apply fleb_true. left. exact Hx1.
        + apply (fle_trans _ (gnth g (k + 1))); [exact Hx2|]. apply gnth_le; [exact Hg | lia | lia].
      - split; [apply fleb_refl|]. apply gnth_le; [exact Hg | lia | lia]. }
    unfold find_interval. rewrite sup_size_inv by exact Hs. fold a b.
    destruct (b - a <? 2) eqn:E; [lia|].
    rewrite sup_back_gnth, sup_front_gnth by exact Hs. fold a b g.
    destruct (a =? b) eqn:E2; [lia|]. cbn [bind].
    rewrite fgtb_def.
    assert (fltb (gnth g (b - 1)) x = false) as -> by (apply fltb_false; exact Hhi).
    assert (fltb x (gnth g a) = false) as -> by (apply fltb_false; exact Hlo).
    f_equal. f_equal.
    pose proof (increasing_sup_points (ssup s) Hs Hg) as Hinc.
    destruct Hx as [[Hx1 Hx2]|[Hka Hxa]].
    - rewrite (lower_bound_at (sup_points (ssup s)) x (N.to_nat (k - a)) (gnth g k) (gnth g (k + 1))).
      + lia.
      + exact Hinc.
      + rewrite nth_sup_points by (fold a b; try exact Hs; lia). fold a g. f_equal. f_equal. lia.
      + rewrite nth_sup_points by (fold a b; try exact Hs; lia). fold a g. f_equal. f_equal. lia.
      + exact Hx1.
      + apply fltb_false. exact Hx2.
    - rewrite (lower_bound_zero (sup_points (ssup s)) x (gnth g k)).
      + lia.
      + rewrite nth_sup_points by (fold a b; try exact Hs; lia). fold a g. f_equal. f_equal. lia.
      + rewrite Hxa. apply flt_irrefl.
  Qed.

  Lemma seval_inside (s : spline F) x k : SplInv s -> imem k (ssup s) ->
    ((fltb (gnth (sgrid (ssup s)) k) x = true /\ fleb x (gnth (sgrid (ssup s)) (k + 1)) = true) \/
     (k = sstart (ssup s) /\ x = gnth (sgrid (ssup s)) k)) ->
    spl_eval s x = Ok (den s k x).
  Proof.
    intros Hi Hk Hx. unfold spl_eval.
    rewrite (find_interval_inside s x k Hi Hk Hx). cbn [bind].
    pose proof (piece_nth s k Hi Hk) as Hp. pose proof (piece_length s k Hi Hk) as Hl.
    destruct Hi as (Hs & _). destruct Hk as [Hk1 Hk2].
    pose proof (SInv_bounds _ Hs) as B.
    rewrite wadd_small by (unfold W; lia).
    rewrite !sup_sub_gnth by (try exact Hs; lia). cbn [bind].
    replace (sstart (ssup s) + (k - sstart (ssup s) + 1)) with (k + 1) by lia.
    replace (sstart (ssup s) + (k - sstart (ssup s))) with k by lia.
    unfold sub. rewrite Hp. cbn [bind].
    rewrite eval_interval_spec_local.
    - unfold den, mid. do 4 f_equal. ring.
    - intros E. rewrite E in Hl. cbn [length] in Hl. lia.
  Qed.

  (* every x between two grid points lies in some interval between them *)
  Lemma locate (g : list F) x a (n : nat) :
    fleb (gnth g a) x = true -> fleb x (gnth g (a + N.of_nat (S n))) = true ->
    exists k, a <= k /\ k < a + N.of_nat (S n) /\
      ((fltb (gnth g k) x = true /\ fleb x (gnth g (k + 1)) = true) \/ (k = a /\ x = gnth g k)).
  Proof.
    induction n as [|n IH]; intros Hlo Hhi.
    - exists a. split; [lia|]. split; [lia|].
      apply fleb_true in Hlo as [Hlo|Hlo].
      + left. split; [exact Hlo|]. replace (a + 1) with (a + N.of_nat 1) by lia. exact Hhi.
      + right. split; [reflexivity | symmetry; exact Hlo].
    - destruct (fleb x (gnth g (a + N.of_nat (S n)))) eqn:E.
      + destruct (IH Hlo eq_refl) as (k & H1 & H2 & H3). exists k. split; [lia|]. split; [lia | exact H3].
      + apply fleb_false in E. exists (a + N.of_nat (S n)). split; [lia|]. split; [lia|].
        left. split; [exact E|].
        replace (a + N.of_nat (S n) + 1) with (a + N.of_nat (S (S n))) by lia. exact Hhi.
  Qed.

  Lemma seval_cases (s : spline F) x : SplInv s ->
    spl_eval s x = Ok f0 \/
    exists k, imem k (ssup s) /\
      fleb (gnth (sgrid (ssup s)) k) x = true /\ fleb x (gnth (sgrid (ssup s)) (k + 1)) = true /\
      spl_eval s x = Ok (den s k x).
  Proof.
    intros Hi.
    destruct (sstop (ssup s) - sstart (ssup s) <? 2) eqn:Esz.
    { left. apply seval_no_interval; [exact Hi | lia]. }
    destruct (fltb x (gnth (sgrid (ssup s)) (sstart (ssup s)))) eqn:Elo.
    { left. apply seval_outside; [exact Hi | lia | left; exact Elo]. }
    destruct (fltb (gnth (sgrid (ssup s)) (sstop (ssup s) - 1)) x) eqn:Ehi.
    { left. apply seval_outside; [exact Hi | lia | right; exact Ehi]. }
    right. apply fltb_false in Elo. apply fltb_false in Ehi.
    set (a := sstart (ssup s)) in *. set (b := sstop (ssup s)) in *.
    destruct (locate (sgrid (ssup s)) x a (N.to_nat (b - a - 2)) Elo) as (k & H1 & H2 & H3).
    { replace (a + N.of_nat (S (N.to_nat (b - a - 2)))) with (b - 1) by lia. exact Ehi. }
    assert (imem k (ssup s)) as Hk by (unfold imem; fold a b; lia).
    exists k. split; [exact Hk|].
    split; [|split].
    - destruct H3 as [[H3 _]|[_ H3]]; [apply fleb_true; left; exact H3 | rewrite H3; apply fleb_refl].
    - destruct H3 as [[_ H3]|[_ H3]]; [exact H3|].
      rewrite H3. destruct Hi as (Hs & (_ & _ & Hg) & _). pose proof (SInv_bounds _ Hs) as B.
      destruct Hk as [Hk1 Hk2]. apply gnth_le; [exact Hg | lia | lia].
    - apply seval_inside; assumption.
  Qed.

  Lemma seval_total (s : spline F) x : SplInv s -> exists v, spl_eval s x = Ok v.
  Proof.
    intros Hi. destruct (seval_cases s x Hi) as [H|(k & _ & _ & _ & H)]; eauto.
  Qed.
End Eval.

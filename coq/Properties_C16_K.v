(* Properties_C16_K.v — C16_K: rounding-error bounds for the numeric kernels, as compiled.
   coq/gen/KernelGen_*.v (gen/symkern.py) hold, per kernel instance, the arithmetic expression the
   real C++ template computes, in the code's OWN operation order (k_<instance>, generic over the
   scalar structure).  coq/gen/RoundGen_*.v (gen/symround.py, regenerated on every run from the same
   run of cpp/symkern.cpp) reify each of these terms and instantiate the generic forward error bound
   for expression trees of coq/Proofs_RoundTac.v:
       k_<instance> evaluated with ROUNDED operations (RndOps rnd: every + - * / followed by one
       rounding, static_cast<T>(n) exact for |n| <= M)  differs from  k_<instance> evaluated with
       exact real operations (ExactOps)  by at most  gamma u <depth> * mag_<instance>,
   where rnd is ANY rounding function with rnd x = x (1 + d), |d| <= u, gamma u k = (1+u)^k - 1, and
   mag_<instance> is the same expression with every variable and literal replaced by its absolute
   value, subtraction by addition and division by the absolute value of the (constant) divisor:
   the sum of the absolute values of the terms the code involves.  rounding_<family>_bounded is the
   conjunction over a family's instances, rounding_<family>_binary64 the same statements at IEEE
   binary64 round-to-nearest-even (Flocq; no underflow/overflow) in the form of the property:
   |computed - exact| <= 2^20 * 2^-52 * mag.  The exact value k_<instance> (ExactOps) is tied to the
   model, hence to the mathematical object, by Properties_C0{2,3,4,6,7}_K.v.
   Instance ranges are finite (listed per theorem); the statements about the model functions for
   all sizes are in Properties_C16.v.  Statements only: every theorem is closed by [exact].
   These theorems are about real numbers: they depend on the axioms of the standard library's Reals
   and, through Flocq, on classical logic (printed below) - the same as Properties_C16.v. *)
From Coq Require Import List ZArith Reals.
From Flocq Require Import Core.
From BSpl Require Import Scalar Outcome Poly Forms Proofs_Rounded Proofs_RoundTac.
From BSpl.gen Require Import RoundGen_eval RoundGen_arr RoundGen_misc RoundGen_der RoundGen_pos RoundGen_lin RoundGen_bi.
Import ListNotations.
Local Open Scope R_scope.

(* ---- the generic theorem: every expression tree whose divisors are non-zero integer constants and
   ---- whose integer literals / integer-valued sub-results are within M ---- *)
Theorem C16_K_expression_rounding_bound :
  forall u : R, 0 <= u ->
  forall rnd : R -> R, (forall x : R, exists d : R, Rabs d <= u /\ rnd x = x * (1 + d)) ->
  forall M : Z, (forall z : Z, (Z.abs z <= M)%Z -> rnd (IZR z) = IZR z) ->
  forall (env : list R) (e : kexpr),
    kwf M e = true ->
    Rabs (@kdenote R (RndOps rnd) env e - @kdenote R ExactOps env e) <= gamma u (kdepth e) * kmag env e.
Proof. exact kround_bound. Qed.
Print Assumptions C16_K_expression_rounding_bound.

(* the magnitude dominates the exact value *)
Theorem C16_K_exact_value_within_magnitude :
  forall (M : Z) (env : list R) (e : kexpr),
    kwf M e = true -> Rabs (@kdenote R ExactOps env e) <= kmag env e.
Proof. exact kexact_le_mag. Qed.
Print Assumptions C16_K_exact_value_within_magnitude.

(* array-valued kernels: componentwise, with the largest depth *)
Theorem C16_K_expression_rounding_bound_list :
  forall u : R, 0 <= u ->
  forall rnd : R -> R, (forall x : R, exists d : R, Rabs d <= u /\ rnd x = x * (1 + d)) ->
  forall M : Z, (forall z : Z, (Z.abs z <= M)%Z -> rnd (IZR z) = IZR z) ->
  forall (env : list R) (es : list kexpr),
    forallb (kwf M) es = true ->
    klist_bound (gamma u (kdepths es))
      (map (@kdenote R (RndOps rnd) env) es) (map (@kdenote R ExactOps env) es) (map (kmag env) es).
Proof. exact kround_bound_list. Qed.
Print Assumptions C16_K_expression_rounding_bound_list.

(* binary64, in the form of the property: up to 2^20 accumulated rounding factors stay within
   2^20 units of machine epsilon (2^-52) *)
Theorem C16_K_tolerance_is_2p20_eps : tol64 = 1048576 * bpow radix2 (-52).
Proof. exact tol64_bpow. Qed.
Print Assumptions C16_K_tolerance_is_2p20_eps.

Theorem C16_K_gamma_within_tolerance :
  forall d : nat, (Z.of_nat d <= 1048576)%Z -> gamma u64 d <= tol64.
Proof. exact gamma64_tol. Qed.
Print Assumptions C16_K_gamma_within_tolerance.

Theorem C16_K_expression_rounding_bound_binary64 :
  forall (env : list R) (e : kexpr),
    kwf M64 e = true -> (Z.of_nat (kdepth e) <= 1048576)%Z ->
    Rabs (@kdenote R (RndOps rnd64) env e - @kdenote R ExactOps env e) <= tol64 * kmag env e.
Proof. exact kround_bound_binary64_tol. Qed.
Print Assumptions C16_K_expression_rounding_bound_binary64.

(* ---- the kernels, as compiled ---- *)
(* internal::evaluateInterval<T,n>, n = 1..8 (Horner about the midpoint) *)
Theorem C16_K_horner_as_compiled : rounding_eval_bounded.
Proof. exact rounding_eval_bounded_ok. Qed.
Print Assumptions C16_K_horner_as_compiled.
Theorem C16_K_horner_as_compiled_binary64 : rounding_eval_binary64.
Proof. exact rounding_eval_binary64_ok. Qed.
Print Assumptions C16_K_horner_as_compiled_binary64.

(* internal::add<T,na,nb>, na, nb = 1..5 *)
Theorem C16_K_array_add_as_compiled : rounding_add_bounded.
Proof. exact rounding_add_bounded_ok. Qed.
Print Assumptions C16_K_array_add_as_compiled.
Theorem C16_K_array_add_as_compiled_binary64 : rounding_add_binary64.
Proof. exact rounding_add_binary64_ok. Qed.
Print Assumptions C16_K_array_add_as_compiled_binary64.

(* internal::changearraysize<T,nin,nout>, 1 <= nin <= nout <= 5: no operation is performed (depth 0) *)
Theorem C16_K_array_resize_as_compiled : rounding_chsize_bounded.
Proof. exact rounding_chsize_bounded_ok. Qed.
Print Assumptions C16_K_array_resize_as_compiled.
Theorem C16_K_array_resize_as_compiled_binary64 : rounding_chsize_binary64.
Proof. exact rounding_chsize_binary64_ok. Qed.
Print Assumptions C16_K_array_resize_as_compiled_binary64.

(* internal::faculty<T>(n), n = 0..12: integer-valued throughout, computed exactly (depth 0) *)
Theorem C16_K_faculty_as_compiled : rounding_faculty_bounded.
Proof. exact rounding_faculty_bounded_ok. Qed.
Print Assumptions C16_K_faculty_as_compiled.
Theorem C16_K_faculty_as_compiled_binary64 : rounding_faculty_binary64.
Proof. exact rounding_faculty_binary64_ok. Qed.
Print Assumptions C16_K_faculty_as_compiled_binary64.

(* internal::facultyRatio<T>(c, d), c, d = 0..8: one rounding when the ratio is 1 / integer *)
Theorem C16_K_faculty_ratio_as_compiled : rounding_facratio_bounded.
Proof. exact rounding_facratio_bounded_ok. Qed.
Print Assumptions C16_K_faculty_ratio_as_compiled.
Theorem C16_K_faculty_ratio_as_compiled_binary64 : rounding_facratio_binary64.
Proof. exact rounding_facratio_binary64_ok. Qed.
Print Assumptions C16_K_faculty_ratio_as_compiled_binary64.

(* internal::binomialCoefficient<T>(n, k), n, k = 0..8: exact integer quotients (depth 0) *)
Theorem C16_K_binomial_as_compiled : rounding_binom_bounded.
Proof. exact rounding_binom_bounded_ok. Qed.
Print Assumptions C16_K_binomial_as_compiled.
Theorem C16_K_binomial_as_compiled_binary64 : rounding_binom_binary64.
Proof. exact rounding_binom_binary64_ok. Qed.
Print Assumptions C16_K_binomial_as_compiled_binary64.

(* Derivative<k>::transform<T,n>, k = 0..4, n = 1..7 *)
Theorem C16_K_derivative_as_compiled : rounding_der_bounded.
Proof. exact rounding_der_bounded_ok. Qed.
Print Assumptions C16_K_derivative_as_compiled.
Theorem C16_K_derivative_as_compiled_binary64 : rounding_der_binary64.
Proof. exact rounding_der_binary64_ok. Qed.
Print Assumptions C16_K_derivative_as_compiled_binary64.

(* Position<k>::transform<T,n>, k = 0..4, n = 1..6 *)
Theorem C16_K_position_as_compiled : rounding_pos_bounded.
Proof. exact rounding_pos_bounded_ok. Qed.
Print Assumptions C16_K_position_as_compiled.
Theorem C16_K_position_as_compiled_binary64 : rounding_pos_binary64.
Proof. exact rounding_pos_binary64_ok. Qed.
Print Assumptions C16_K_position_as_compiled_binary64.

(* LinearForm::evaluateInterval<T,n>, n = 1..8 *)
Theorem C16_K_linear_kernel_as_compiled : rounding_lin_bounded.
Proof. exact rounding_lin_bounded_ok. Qed.
Print Assumptions C16_K_linear_kernel_as_compiled.
Theorem C16_K_linear_kernel_as_compiled_binary64 : rounding_lin_binary64.
Proof. exact rounding_lin_binary64_ok. Qed.
Print Assumptions C16_K_linear_kernel_as_compiled_binary64.

(* BilinearForm::evaluateInterval<T,na,nb>, na, nb = 1..7 *)
Theorem C16_K_bilinear_kernel_as_compiled : rounding_bi_bounded.
Proof. exact rounding_bi_bounded_ok. Qed.
Print Assumptions C16_K_bilinear_kernel_as_compiled.
Theorem C16_K_bilinear_kernel_as_compiled_binary64 : rounding_bi_binary64.
Proof. exact rounding_bi_binary64_ok. Qed.
Print Assumptions C16_K_bilinear_kernel_as_compiled_binary64.

(* ---- the terms the code involves are the terms of the exact result: mag_<instance> EQUALS the
   ---- magnitude of the model-side theorems of Properties_C16.v (C16_linear_kernel: 2 |h| eh_abs 0
   ---- (evens a) (h h); C16_bilinear_kernel: bi_abs a b h), instance by instance; hence the code-order
   ---- bounds relative to those magnitudes.  A kernel in which other terms take part (odd powers that
   ---- cancel only at the end, seeded/C16c) fails r_<instance>_terms. ---- *)
Theorem C16_K_linear_kernel_terms_are_the_exact_terms : rounding_lin_terms_are_the_exact_terms.
Proof. exact rounding_lin_terms_are_the_exact_terms_ok. Qed.
Print Assumptions C16_K_linear_kernel_terms_are_the_exact_terms.
Theorem C16_K_linear_kernel_as_compiled_exact_terms : rounding_lin_bounded_exact_terms.
Proof. exact rounding_lin_bounded_exact_terms_ok. Qed.
Print Assumptions C16_K_linear_kernel_as_compiled_exact_terms.
Theorem C16_K_linear_kernel_as_compiled_binary64_exact_terms : rounding_lin_binary64_exact_terms.
Proof. exact rounding_lin_binary64_exact_terms_ok. Qed.
Print Assumptions C16_K_linear_kernel_as_compiled_binary64_exact_terms.

Theorem C16_K_bilinear_kernel_terms_are_the_exact_terms : rounding_bi_terms_are_the_exact_terms.
Proof. exact rounding_bi_terms_are_the_exact_terms_ok. Qed.
Print Assumptions C16_K_bilinear_kernel_terms_are_the_exact_terms.
Theorem C16_K_bilinear_kernel_as_compiled_exact_terms : rounding_bi_bounded_exact_terms.
Proof. exact rounding_bi_bounded_exact_terms_ok. Qed.
Print Assumptions C16_K_bilinear_kernel_as_compiled_exact_terms.
Theorem C16_K_bilinear_kernel_as_compiled_binary64_exact_terms : rounding_bi_binary64_exact_terms.
Proof. exact rounding_bi_binary64_exact_terms_ok. Qed.
Print Assumptions C16_K_bilinear_kernel_as_compiled_binary64_exact_terms.

(* Horner: mag_eval_n x c.. xm = pabs [c..] (|x| + |xm|).  The model-side theorem (C16_horner) is
   relative to pabs c (x - xm), which is BELOW this magnitude (second theorem): the generic
   code-order bound charges the rounding of x - xm to |x| + |xm|, so for eval it is the weaker
   statement when x and xm nearly cancel, and no combined corollary is claimed. *)
Theorem C16_K_horner_terms_are_the_exact_terms_at_abs_sum : rounding_eval_terms_are_the_exact_terms_at_abs_sum.
Proof. exact rounding_eval_terms_are_the_exact_terms_at_abs_sum_ok. Qed.
Print Assumptions C16_K_horner_terms_are_the_exact_terms_at_abs_sum.
Theorem C16_K_horner_model_magnitude_below_code_magnitude :
  forall (c : list R) (x xm : R), pabs c (x - xm) <= pabs c (Rabs x + Rabs xm).
Proof. exact pabs_le_code. Qed.
Print Assumptions C16_K_horner_model_magnitude_below_code_magnitude.

(* ---- non-vacuity: the binary64 bound at concrete dyadic arguments (generated with the kernels, so
   ---- that the evaluated magnitude follows the code) ---- *)
Theorem C16_K_linear_kernel_example : rounding_lin_example.
Proof. exact rounding_lin_example_ok. Qed.
Print Assumptions C16_K_linear_kernel_example.
Theorem C16_K_bilinear_kernel_example : rounding_bi_example.
Proof. exact rounding_bi_example_ok. Qed.
Print Assumptions C16_K_bilinear_kernel_example.

(* Outcome.v — every C++ partiality made explicit.

   [Throw] mirrors `throw BSplineException(code)`, `.value()` on an empty
   optional and `vector::at`; [UB] mirrors every unchecked access whose index
   is out of range, division by a zero user scalar, and container misuse. *)
From Coq Require Import List.
Import ListNotations.

Inductive err :=
| DIFFERING_GRIDS | INCONSISTENT_DATA | MISSING_DATA | INVALID_ACCESS | UNDETERMINED
| BadOptionalAccess | StdOutOfRange.

Inductive ub := OOBRead | OOBWrite | DivByZero | ErasePastEnd | SignedOverflow | IllTyped.

Inductive outcome (A : Type) :=
| Ok (a : A) | Throw (e : err) | UB (k : ub).
Arguments Ok {A} a.
Arguments Throw {A} e.
Arguments UB {A} k.

Definition bind {A B} (m : outcome A) (f : A -> outcome B) : outcome B :=
  match m with Ok a => f a | Throw e => Throw e | UB k => UB k end.

Declare Scope outcome_scope.
Delimit Scope outcome_scope with outcome.
Notation "'do' x <- m ; f" := (bind m (fun x => f))
  (at level 200, x pattern, m at level 100, f at level 200, right associativity) : outcome_scope.
Open Scope outcome_scope.

Definition omap {A B} (f : A -> B) (m : outcome A) : outcome B :=
  do a <- m; Ok (f a).

(* Sequence a list of outcomes, left to right (the first failure wins, as a
   C++ loop would stop at the first throw). *)
Fixpoint oseq {A} (l : list (outcome A)) : outcome (list A) :=
  match l with
  | [] => Ok []
  | m :: r => do a <- m; do rs <- oseq r; Ok (a :: rs)
  end.

Definition omapM {A B} (f : A -> outcome B) (l : list A) : outcome (list B) :=
  oseq (map f l).

Definition of_option {A} (e : err) (o : option A) : outcome A :=
  match o with Some a => Ok a | None => Throw e end.

(* `optional::value()` *)
Definition value {A} (o : option A) : outcome A := of_option BadOptionalAccess o.

(* unchecked `v[i]` *)
Definition sub {A} (l : list A) (i : nat) : outcome A :=
  match nth_error l i with Some a => Ok a | None => UB OOBRead end.

(* checked `v.at(i)` *)
Definition at_ {A} (l : list A) (i : nat) : outcome A :=
  match nth_error l i with Some a => Ok a | None => Throw StdOutOfRange end.

Definition is_ok {A} (m : outcome A) : bool :=
  match m with Ok _ => true | _ => false end.

Definition is_lib_throw {A} (m : outcome A) : bool :=
  match m with
  | Throw (DIFFERING_GRIDS | INCONSISTENT_DATA | MISSING_DATA | INVALID_ACCESS | UNDETERMINED) => true
  | _ => false end.

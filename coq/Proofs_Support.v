(* Proofs_Support.v — lemmas about Grid.v / Support.v (C13, parts of C02, C09, C10, C11). *)
From Coq Require Import List NArith ZArith Bool Lia ZifyBool ZifyN.
From BSpl Require Import ListAux Scalar Outcome Support.
Import ListNotations.
Local Open Scope N_scope.

Ltac Zify.zify_post_hook ::= Z.div_mod_to_equations.

Lemma W_eq : W = 2 ^ 64. Proof. reflexivity. Qed.

Lemma wadd_small a b : a + b < W -> wadd a b = a + b.
Proof. unfold wadd, W. intros H. lia. Qed.

Lemma wsub_small a b : b <= a -> a < W -> wsub a b = a - b.
Proof. unfold wsub, W. intros H1 H2. lia. Qed.

Lemma wadd_lt a b : wadd a b < W.
Proof. unfold wadd, W. lia. Qed.

Lemma wsub_lt a b : wsub a b < W.
Proof. unfold wsub, W. lia. Qed.

Lemma wadd_one i : i < W -> wadd i 1 = if i =? W - 1 then 0 else i + 1.
Proof. unfold wadd, W. intros H. destruct (i =? _) eqn:E; lia. Qed.

Lemma nlen_nnth {A} (l : list A) i : i < nlen l -> exists x, nnth l i = Some x.
Proof.
  unfold nlen, nnth. intros H.
  destruct (nth_error l (N.to_nat i)) eqn:E; eauto.
  apply nth_error_None in E. lia.
Qed.

Lemma nnth_none {A} (l : list A) i : nlen l <= i -> nnth l i = None.
Proof. unfold nlen, nnth. intros H. apply nth_error_None. lia. Qed.

Lemma nnth_some_lt {A} (l : list A) i x : nnth l i = Some x -> i < nlen l.
Proof.
  unfold nlen, nnth. intros H.
  assert (nth_error l (N.to_nat i) <> None) as H' by congruence.
  apply nth_error_Some in H'. lia.
Qed.

Section GridFacts.
  Context {F : Type} {K : Ops F} {L : Laws K}.

  Lemma list_eqb_eq (a b : list F) : list_eqb a b = true <-> a = b.
  Proof.
    revert b; induction a as [|x a IH]; intros [|y b]; simpl; split; intros H;
      try reflexivity; try discriminate.
    - apply andb_true_iff in H as [H1 H2]. apply feqb_true in H1. apply IH in H2. congruence.
    - injection H as -> ->. apply andb_true_iff. split; [apply feqb_true; reflexivity | apply IH; reflexivity].
  Qed.

  Lemma grid_eqb_eq (g h : list F) : grid_eqb g h = true <-> g = h.
  Proof. apply list_eqb_eq. Qed.

  Lemma grid_eqb_refl (g : list F) : grid_eqb g g = true.
  Proof. apply grid_eqb_eq; reflexivity. Qed.
End GridFacts.

Section SupportFacts.
  Context {F : Type} {K : Ops F}.
  Implicit Types s t u : support F.

  (* The class invariant of Support, plus the bound any real grid satisfies
     (a std::vector's size fits ptrdiff_t). *)
  Definition SInv s : Prop :=
    nlen (sgrid s) < 2 ^ 63 /\
    ((sstart s = 0 /\ sstop s = 0) \/ (sstart s < sstop s /\ sstop s <= nlen (sgrid s))).

  Definition mem (i : N) s : Prop := sstart s <= i /\ i < sstop s.
  Definition wempty s : Prop := sstart s = sstop s.

  Lemma sup_valid_iff s : sup_valid s = true <->
    ((sstart s = 0 /\ sstop s = 0) \/ (sstart s < sstop s /\ sstop s <= nlen (sgrid s))).
  Proof. unfold sup_valid, grid_size. lia. Qed.

  Lemma sup_ctor_ok (g : list F) a b :
    ((a = 0 /\ b = 0) \/ (a < b /\ b <= nlen g)) -> sup_ctor g a b = Ok (mkSup g a b).
  Proof.
    intros H. unfold sup_ctor.
    destruct (sup_valid (mkSup g a b)) eqn:E; [reflexivity|].
    exfalso. apply not_true_iff_false in E. apply E. apply sup_valid_iff. exact H.
  Qed.

  Lemma sup_ctor_throw (g : list F) a b :
    ~ ((a = 0 /\ b = 0) \/ (a < b /\ b <= nlen g)) -> sup_ctor g a b = Throw INCONSISTENT_DATA.
  Proof.
    intros H. unfold sup_ctor.
    destruct (sup_valid (mkSup g a b)) eqn:E; [|reflexivity].
    exfalso. apply H. apply sup_valid_iff in E. exact E.
  Qed.

  Lemma SInv_bounds s : SInv s -> sstart s <= sstop s /\ sstop s <= nlen (sgrid s) /\ sstop s < 2 ^ 63.
  Proof. unfold SInv. lia. Qed.

  Lemma sup_size_inv s : SInv s -> sup_size s = sstop s - sstart s.
  Proof. intros H. apply SInv_bounds in H. unfold sup_size. apply wsub_small; unfold W; lia. Qed.

  Lemma sup_is_empty_iff s : sup_is_empty s = true <-> wempty s.
  Proof. unfold sup_is_empty, wempty. lia. Qed.

  Lemma wempty_inv s : SInv s -> wempty s <-> (sstart s = 0 /\ sstop s = 0).
  Proof. unfold SInv, wempty. lia. Qed.

  Lemma wempty_no_mem s : SInv s -> wempty s <-> (forall i, ~ mem i s).
  Proof.
    unfold SInv, wempty, mem. intros H. split.
    - intros E i. lia.
    - intros Hn. destruct (N.eq_dec (sstart s) (sstop s)) as [|Hne]; [assumption|].
      exfalso. apply (Hn (sstart s)). lia.
  Qed.

  (* Two valid windows on the same grid with the same members are the same record. *)
  Lemma mem_ext s t : SInv s -> SInv t -> sgrid s = sgrid t ->
    (forall i, mem i s <-> mem i t) -> s = t.
  Proof.
    destruct s as [g a b], t as [g' a' b']. unfold SInv, mem. simpl.
    intros Hs Ht -> Hm.
    assert (a = a' /\ b = b') as [-> ->]; [|reflexivity].
    destruct Hs as [_ [[-> ->]|[Hs1 Hs2]]], Ht as [_ [[-> ->]|[Ht1 Ht2]]].
    - split; reflexivity.
    - exfalso. specialize (Hm a'). lia.
    - exfalso. specialize (Hm a). lia.
    - pose proof (Hm a) as Ha. pose proof (Hm a') as Ha'.
      assert (b - 1 < b) as Hb by lia. assert (b' - 1 < b') as Hb' by lia.
      pose proof (Hm (b - 1)) as Hb1. pose proof (Hm (b' - 1)) as Hb1'. lia.
  Qed.
End SupportFacts.

Section Algebra.
  Context {F : Type} {K : Ops F} {L : Laws K}.
  Implicit Types s t u : support F.

  Lemma has_same_grid_iff s t : has_same_grid s t = true <-> sgrid s = sgrid t.
  Proof. apply grid_eqb_eq. Qed.

  Lemma has_same_grid_false s t : has_same_grid s t = false <-> sgrid s <> sgrid t.
  Proof.
    rewrite <- has_same_grid_iff. destruct (has_same_grid s t); split; congruence.
  Qed.

  (* ---- intersection ---- *)
  Lemma calc_inter_differing s t : sgrid s <> sgrid t -> calc_inter s t = Throw DIFFERING_GRIDS.
  Proof. intros H. unfold calc_inter. apply has_same_grid_false in H. rewrite H. reflexivity. Qed.

  Lemma calc_inter_spec s t : SInv s -> SInv t -> sgrid s = sgrid t ->
    exists u, calc_inter s t = Ok u /\ SInv u /\ sgrid u = sgrid s /\
              (forall i, mem i u <-> mem i s /\ mem i t).
  Proof.
    intros Hs Ht Hg. unfold calc_inter.
    assert (has_same_grid s t = true) as -> by (apply has_same_grid_iff; exact Hg). cbn [negb].
    pose proof (SInv_bounds _ Hs) as Bs. pose proof (SInv_bounds _ Ht) as Bt.
    destruct (N.max_spec (sstart s) (sstart t)) as [[Hm1 Hm2]|[Hm1 Hm2]];
    destruct (N.min_spec (sstop s) (sstop t)) as [[Hn1 Hn2]|[Hn1 Hn2]];
    rewrite Hm2, Hn2;
    match goal with |- context [?b <=? ?a] => destruct (b <=? a) eqn:E end;
    unfold create_empty;
    (rewrite sup_ctor_ok; [eexists; split; [reflexivity|] | unfold SInv in *; lia]);
    unfold SInv, mem in *; cbn [sgrid sstart sstop]; rewrite <- ?Hg in *;
    (split; [lia | split; [reflexivity | intros i; lia]]).
  Qed.

  (* ---- union ---- *)
  Lemma calc_union_differing s t : sgrid s <> sgrid t -> calc_union s t = Throw DIFFERING_GRIDS.
  Proof. intros H. unfold calc_union. apply has_same_grid_false in H. rewrite H. reflexivity. Qed.

  (* hull membership: between the smallest start and the largest stop of the
     non-empty operands *)
  Definition hull_mem (i : N) s t : Prop :=
    (mem i s \/ mem i t) \/
    (~ wempty s /\ ~ wempty t /\
     N.min (sstart s) (sstart t) <= i /\ i < N.max (sstop s) (sstop t)).

  Lemma calc_union_spec s t : SInv s -> SInv t -> sgrid s = sgrid t ->
    exists u, calc_union s t = Ok u /\ SInv u /\ sgrid u = sgrid s /\
              (forall i, mem i u <-> hull_mem i s t).
  Proof.
    intros Hs Ht Hg. unfold calc_union.
    assert (has_same_grid s t = true) as -> by (apply has_same_grid_iff; exact Hg). cbn [negb].
    pose proof (SInv_bounds _ Hs) as Bs. pose proof (SInv_bounds _ Ht) as Bt.
    assert (sstop t <= nlen (sgrid s)) as Bt' by (rewrite Hg; lia).
    destruct (sup_is_empty s) eqn:Es; destruct (sup_is_empty t) eqn:Et; cbn [andb negb].
    - apply sup_is_empty_iff in Es. apply sup_is_empty_iff in Et.
      unfold create_empty. rewrite sup_ctor_ok by lia. eexists; split; [reflexivity|].
      unfold SInv, hull_mem, mem, wempty in *; cbn [sgrid sstart sstop].
      split; [lia | split; [reflexivity | intros i; lia]].
    - apply sup_is_empty_iff in Es. apply not_true_iff_false in Et. rewrite sup_is_empty_iff in Et.
      eexists; split; [reflexivity|].
      split; [exact Ht | split; [symmetry; exact Hg | ]].
      unfold SInv, hull_mem, mem, wempty in *. intros i; lia.
    - apply sup_is_empty_iff in Et. apply not_true_iff_false in Es. rewrite sup_is_empty_iff in Es.
      eexists; split; [reflexivity|].
      split; [exact Hs | split; [reflexivity | ]].
      unfold SInv, hull_mem, mem, wempty in *. intros i; lia.
    - apply not_true_iff_false in Es. rewrite sup_is_empty_iff in Es.
      apply not_true_iff_false in Et. rewrite sup_is_empty_iff in Et.
      destruct (N.min_spec (sstart s) (sstart t)) as [[Hm1 Hm2]|[Hm1 Hm2]];
      destruct (N.max_spec (sstop s) (sstop t)) as [[Hn1 Hn2]|[Hn1 Hn2]];
      unfold hull_mem; rewrite Hm2, Hn2;
      (rewrite sup_ctor_ok; [eexists; split; [reflexivity|] | unfold SInv, wempty in *; lia]);
      unfold SInv, mem, wempty in *; cbn [sgrid sstart sstop]; rewrite <- ?Hg in *;
      (split; [lia | split; [reflexivity | intros i; lia]]).
  Qed.
End Algebra.

Section Laws13.
  Context {F : Type} {K : Ops F} {L : Laws K}.
  Implicit Types s t u v w x y : support F.

  Lemma calc_union_comm s t : SInv s -> SInv t -> sgrid s = sgrid t ->
    calc_union s t = calc_union t s.
  Proof.
    intros Hs Ht Hg.
    destruct (calc_union_spec s t Hs Ht Hg) as (u & -> & Iu & Gu & Mu).
    destruct (calc_union_spec t s Ht Hs (eq_sym Hg)) as (u' & -> & Iu' & Gu' & Mu').
    f_equal. apply mem_ext; try assumption; [congruence|].
    intros i. rewrite Mu, Mu'. unfold hull_mem. rewrite (N.min_comm (sstart t)), (N.max_comm (sstop t)). tauto.
  Qed.

  Lemma calc_inter_comm s t : SInv s -> SInv t -> sgrid s = sgrid t ->
    calc_inter s t = calc_inter t s.
  Proof.
    intros Hs Ht Hg.
    destruct (calc_inter_spec s t Hs Ht Hg) as (u & -> & Iu & Gu & Mu).
    destruct (calc_inter_spec t s Ht Hs (eq_sym Hg)) as (u' & -> & Iu' & Gu' & Mu').
    f_equal. apply mem_ext; try assumption; [congruence|].
    intros i. rewrite Mu, Mu'. tauto.
  Qed.

  Lemma calc_inter_idem s : SInv s -> calc_inter s s = Ok s.
  Proof.
    intros Hs. destruct (calc_inter_spec s s Hs Hs eq_refl) as (u & -> & Iu & Gu & Mu).
    f_equal. apply mem_ext; try assumption. intros i. rewrite Mu. tauto.
  Qed.

  Lemma calc_union_idem s : SInv s -> calc_union s s = Ok s.
  Proof.
    intros Hs. destruct (calc_union_spec s s Hs Hs eq_refl) as (u & -> & Iu & Gu & Mu).
    f_equal. apply mem_ext; try assumption. intros i. rewrite Mu.
    unfold hull_mem, mem. rewrite N.min_id, N.max_id. tauto.
  Qed.

  Lemma calc_inter_assoc s t u : SInv s -> SInv t -> SInv u ->
    sgrid s = sgrid t -> sgrid t = sgrid u ->
    (do a <- calc_inter s t; calc_inter a u) = (do b <- calc_inter t u; calc_inter s b).
  Proof.
    intros Hs Ht Hu G1 G2.
    destruct (calc_inter_spec s t Hs Ht G1) as (a & -> & Ia & Ga & Ma).
    destruct (calc_inter_spec t u Ht Hu G2) as (b & -> & Ib & Gb & Mb).
    cbn [bind].
    destruct (calc_inter_spec a u Ia Hu ltac:(congruence)) as (x & -> & Ix & Gx & Mx).
    destruct (calc_inter_spec s b Hs Ib ltac:(congruence)) as (y & -> & Iy & Gy & My).
    f_equal. apply mem_ext; try assumption; [congruence|].
    intros i. rewrite Mx, My, Ma, Mb. tauto.
  Qed.

  (* Characterisation of the hull used for associativity: a valid window w on
     the grid contains the hull iff it contains both operands. *)
  Lemma hull_least s t w : SInv s -> SInv t -> SInv w ->
    (forall i, hull_mem i s t -> mem i w) <->
    ((forall i, mem i s -> mem i w) /\ (forall i, mem i t -> mem i w)).
  Proof.
    intros Hs Ht Hw. unfold hull_mem. split.
    - intros H. split; intros i Hi; apply H; tauto.
    - intros [H1 H2] i [[Hi|Hi]|(Es & Et & Hlo & Hhi)]; [auto|auto|].
      unfold SInv, wempty, mem in *.
      assert (sstart s < sstop s) as Ls by lia.
      assert (sstart t < sstop t) as Lt by lia.
      pose proof (H1 (sstart s)) as A1. pose proof (H1 (sstop s - 1)) as A2.
      pose proof (H2 (sstart t)) as A3. pose proof (H2 (sstop t - 1)) as A4.
      lia.
  Qed.

  Lemma calc_union_assoc s t u : SInv s -> SInv t -> SInv u ->
    sgrid s = sgrid t -> sgrid t = sgrid u ->
    (do a <- calc_union s t; calc_union a u) = (do b <- calc_union t u; calc_union s b).
  Proof.
    intros Hs Ht Hu G1 G2.
    destruct (calc_union_spec s t Hs Ht G1) as (a & -> & Ia & Ga & Ma).
    destruct (calc_union_spec t u Ht Hu G2) as (b & -> & Ib & Gb & Mb).
    cbn [bind].
    destruct (calc_union_spec a u Ia Hu ltac:(congruence)) as (x & -> & Ix & Gx & Mx).
    destruct (calc_union_spec s b Hs Ib ltac:(congruence)) as (y & -> & Iy & Gy & My).
    f_equal.
    (* both x and y are the least valid window containing s, t and u *)
    assert (Hx : forall w, SInv w -> (forall i, mem i x -> mem i w) <->
              ((forall i, mem i s -> mem i w) /\ (forall i, mem i t -> mem i w) /\ (forall i, mem i u -> mem i w))).
    { intros w Hw. split.
      - intros H.
        assert (forall i, hull_mem i a u -> mem i w) as H1 by (intros i Hi; apply H, Mx, Hi).
        apply (hull_least a u w Ia Hu Hw) in H1 as [H1 H2].
        assert (forall i, hull_mem i s t -> mem i w) as H3 by (intros i Hi; apply H1, Ma, Hi).
        apply (hull_least s t w Hs Ht Hw) in H3 as [H3 H4]. auto.
      - intros (H1 & H2 & H3) i Hi. apply Mx in Hi. revert i Hi.
        apply (hull_least a u w Ia Hu Hw). split; [|exact H3].
        intros i Hi. apply Ma in Hi. revert i Hi. apply (hull_least s t w Hs Ht Hw). auto. }
    assert (Hy : forall w, SInv w -> (forall i, mem i y -> mem i w) <->
              ((forall i, mem i s -> mem i w) /\ (forall i, mem i t -> mem i w) /\ (forall i, mem i u -> mem i w))).
    { intros w Hw. split.
      - intros H.
        assert (forall i, hull_mem i s b -> mem i w) as H1 by (intros i Hi; apply H, My, Hi).
        apply (hull_least s b w Hs Ib Hw) in H1 as [H1 H2].
        assert (forall i, hull_mem i t u -> mem i w) as H3 by (intros i Hi; apply H2, Mb, Hi).
        apply (hull_least t u w Ht Hu Hw) in H3 as [H3 H4]. auto.
      - intros (H1 & H2 & H3) i Hi. apply My in Hi. revert i Hi.
        apply (hull_least s b w Hs Ib Hw). split; [exact H1|].
        intros i Hi. apply Mb in Hi. revert i Hi. apply (hull_least t u w Ht Hu Hw). auto. }
    apply mem_ext; try assumption; [congruence|].
    intros i. split; intros Hi.
    - revert i Hi. apply (Hx y Iy). apply (Hy y Iy). auto.
    - revert i Hi. apply (Hy x Ix). apply (Hx x Ix). auto.
  Qed.

  (* ---- equality ---- *)
  Lemma sup_eqb_spec s t : sup_eqb s t = true <->
    sgrid s = sgrid t /\ ((sstart s = sstart t /\ sstop s = sstop t) \/ (wempty s /\ wempty t)).
  Proof.
    unfold sup_eqb. rewrite andb_true_iff, has_same_grid_iff.
    unfold sup_is_empty, wempty. split; intros [H1 H2]; (split; [exact H1|lia]).
  Qed.

  Lemma sup_eqb_mem s t : SInv s -> SInv t ->
    sup_eqb s t = true <-> (sgrid s = sgrid t /\ forall i, mem i s <-> mem i t).
  Proof.
    intros Hs Ht. rewrite sup_eqb_spec. unfold SInv, wempty, mem in *. split.
    - intros [G H]. split; [exact G|]. intros i. lia.
    - intros [G H]. split; [exact G|].
      pose proof (H (sstart s)) as A1. pose proof (H (sstop s - 1)) as A2.
      pose proof (H (sstart t)) as A3. pose proof (H (sstop t - 1)) as A4. lia.
  Qed.
End Laws13.

(* ---- index conversions and the view, for every index value i < 2^64 ---- *)
Section Conversions.
  Context {F : Type} {K : Ops F}.
  Implicit Types s t : support F.

  Lemma rel_from_abs_spec s i : SInv s -> i < W ->
    rel_from_abs s i = if (sstart s <=? i) && (i <? sstop s) then Some (i - sstart s) else None.
  Proof.
    intros Hs Hi. unfold rel_from_abs.
    destruct ((sstart s <=? i) && (i <? sstop s)) eqn:E; [|reflexivity].
    rewrite wsub_small; [reflexivity| lia | assumption].
  Qed.

  Lemma rel_from_abs_some s i : SInv s -> i < W ->
    mem i s <-> exists r, rel_from_abs s i = Some r.
  Proof.
    intros Hs Hi. rewrite rel_from_abs_spec by assumption. unfold mem.
    destruct ((sstart s <=? i) && (i <? sstop s)) eqn:E; split; intros H.
    - eauto. - lia. - lia. - destruct H; discriminate.
  Qed.

  Lemma rel_from_abs_none s i : SInv s -> i < W -> ~ mem i s <-> rel_from_abs s i = None.
  Proof.
    intros Hs Hi. rewrite rel_from_abs_spec by assumption. unfold mem.
    destruct ((sstart s <=? i) && (i <? sstop s)) eqn:E; split; intros H; try lia; try reflexivity; discriminate.
  Qed.

  Lemma interval_index_spec s i : SInv s -> i < W ->
    interval_index s i = if (sstart s <=? i) && (i + 1 <? sstop s) then Some (i - sstart s) else None.
  Proof.
    intros Hs Hi. apply SInv_bounds in Hs. unfold interval_index.
    rewrite wadd_one by assumption. unfold W in *.
    destruct (i =? _) eqn:E1;
    destruct ((sstart s <=? i) && (i <? sstop s)) eqn:E2; cbn [andb];
    destruct ((sstart s <=? i) && (i + 1 <? sstop s)) eqn:E3; try lia; try reflexivity.
    - destruct (i + 1 <? sstop s) eqn:E4; try lia.
      rewrite wsub_small; [reflexivity | lia | unfold W; lia].
    - destruct (i + 1 <? sstop s) eqn:E4; try lia. reflexivity.
  Qed.

  Lemma abs_from_rel_spec s r : SInv s -> r < W ->
    abs_from_rel s r = if r <? sstop s - sstart s then Ok (sstart s + r) else Throw UNDETERMINED.
  Proof.
    intros Hs Hr. unfold abs_from_rel. rewrite sup_size_inv by assumption.
    apply SInv_bounds in Hs.
    destruct (sstop s - sstart s <=? r) eqn:E1; destruct (r <? sstop s - sstart s) eqn:E2; try lia; try reflexivity.
    rewrite wadd_small by (unfold W; lia). f_equal. lia.
  Qed.

  Lemma rel_abs_inverse s i r : SInv s -> i < W ->
    rel_from_abs s i = Some r -> abs_from_rel s r = Ok i.
  Proof.
    intros Hs Hi. rewrite rel_from_abs_spec by assumption.
    destruct ((sstart s <=? i) && (i <? sstop s)) eqn:E; [|discriminate].
    intros [= <-]. rewrite abs_from_rel_spec; [|assumption|lia].
    destruct (i - sstart s <? sstop s - sstart s) eqn:E2; [f_equal; lia | lia].
  Qed.

  Lemma abs_rel_inverse s i r : SInv s -> r < W ->
    abs_from_rel s r = Ok i -> rel_from_abs s i = Some r /\ i < W.
  Proof.
    intros Hs Hr. rewrite abs_from_rel_spec by assumption.
    destruct (r <? sstop s - sstart s) eqn:E; [|discriminate].
    intros [= <-]. pose proof (SInv_bounds _ Hs) as B.
    assert (sstart s + r < W) as Hi by (unfold W; lia). split; [|assumption].
    rewrite rel_from_abs_spec by assumption.
    destruct ((sstart s <=? sstart s + r) && (sstart s + r <? sstop s)) eqn:E2; [f_equal; lia | lia].
  Qed.

  Lemma num_intervals_spec s : SInv s ->
    num_intervals s = if sstop s - sstart s =? 0 then 0 else sstop s - sstart s - 1.
  Proof.
    intros Hs. unfold num_intervals. rewrite sup_size_inv by assumption.
    apply SInv_bounds in Hs.
    destruct (sstop s - sstart s =? 0) eqn:E; [reflexivity|].
    apply wsub_small; unfold W; lia.
  Qed.

  Lemma length_sup_points s : SInv s -> nlen (sup_points s) = sstop s - sstart s.
  Proof.
    intros Hs. apply SInv_bounds in Hs. unfold sup_points, nlen in *.
    rewrite firstn_length, skipn_length. lia.
  Qed.

  Lemma nnth_sup_points s r : SInv s -> r < sstop s - sstart s ->
    nnth (sup_points s) r = nnth (sgrid s) (sstart s + r).
  Proof.
    intros Hs Hr. apply SInv_bounds in Hs. unfold sup_points, nnth.
    rewrite nth_error_firstn by lia.
    rewrite nth_error_skipn. f_equal. lia.
  Qed.

  Lemma sup_at_spec s r : SInv s -> r < W ->
    sup_at s r = match nnth (sup_points s) r with Some x => Ok x | None => Throw INVALID_ACCESS end.
  Proof.
    intros Hs Hr. unfold sup_at. rewrite sup_size_inv by assumption.
    pose proof (SInv_bounds _ Hs) as B.
    destruct (sstop s - sstart s <=? r) eqn:E.
    - rewrite nnth_none; [reflexivity|]. rewrite length_sup_points by assumption. lia.
    - rewrite nnth_sup_points by (assumption || lia).
      rewrite wadd_small by (unfold W; lia).
      unfold grid_at, grid_size, grid_sub.
      destruct (nlen (sgrid s) <=? sstart s + r) eqn:E2; [lia|].
      destruct (nlen_nnth (sgrid s) (sstart s + r) ltac:(lia)) as [x ->]. reflexivity.
  Qed.

  Lemma sup_sub_spec s r : SInv s -> r < sstop s - sstart s ->
    exists x, sup_sub s r = Ok x /\ nnth (sup_points s) r = Some x.
  Proof.
    intros Hs Hr. pose proof (SInv_bounds _ Hs) as B. unfold sup_sub, grid_sub.
    rewrite wadd_small by (unfold W; lia).
    rewrite nnth_sup_points by assumption.
    destruct (nlen_nnth (sgrid s) (sstart s + r) ltac:(lia)) as [x ->]. eauto.
  Qed.

  Lemma sup_front_spec s : SInv s ->
    sup_front s = match sup_points s with [] => Throw INVALID_ACCESS | x :: _ => Ok x end.
  Proof.
    intros Hs. pose proof (SInv_bounds _ Hs) as B. unfold sup_front, sup_is_empty.
    destruct (sstart s =? sstop s) eqn:E.
    - assert (nlen (sup_points s) = 0) as H0 by (rewrite length_sup_points by assumption; lia).
      destruct (sup_points s); [reflexivity | unfold nlen in H0; simpl in H0; lia].
    - pose proof (nnth_sup_points s 0 Hs ltac:(lia)) as H. rewrite N.add_0_r in H.
      unfold grid_sub. rewrite <- H.
      assert (nlen (sup_points s) <> 0) as H0 by (rewrite length_sup_points by assumption; lia).
      destruct (sup_points s); [unfold nlen in H0; simpl in H0; lia | reflexivity].
  Qed.

  Lemma nnth_last {A} (l : list A) d : l <> [] -> nnth l (nlen l - 1) = Some (last l d).
  Proof.
    intros H. destruct (exists_last H) as (l' & a & ->).
    rewrite last_last. unfold nnth, nlen. rewrite app_length. simpl.
    replace (N.to_nat (N.of_nat (length l' + 1) - 1)) with (length l') by lia.
    rewrite nth_error_app2 by lia. rewrite Nat.sub_diag. reflexivity.
  Qed.

  Lemma sup_back_spec s : SInv s ->
    sup_back s = match sup_points s with [] => Throw INVALID_ACCESS | _ => Ok (last (sup_points s) f0) end.
  Proof.
    intros Hs. pose proof (SInv_bounds _ Hs) as B. unfold sup_back, sup_is_empty.
    destruct (sstart s =? sstop s) eqn:E.
    - assert (nlen (sup_points s) = 0) as H0 by (rewrite length_sup_points by assumption; lia).
      destruct (sup_points s); [reflexivity | unfold nlen in H0; simpl in H0; lia].
    - assert (nlen (sup_points s) <> 0) as H0 by (rewrite length_sup_points by assumption; lia).
      assert (sup_points s <> []) as Hne by (intros E0; rewrite E0 in H0; apply H0; reflexivity).
      pose proof (nnth_last (sup_points s) f0 Hne) as HL.
      rewrite length_sup_points in HL by assumption.
      rewrite nnth_sup_points in HL by (assumption || lia).
      rewrite wsub_small by (unfold W; lia).
      replace (sstart s + (sstop s - sstart s - 1)) with (sstop s - 1) in HL by lia.
      unfold grid_sub. rewrite HL.
      destruct (sup_points s); [congruence | reflexivity].
  Qed.

  Lemma contains_intervals_spec s : SInv s -> contains_intervals s = (1 <? sstop s - sstart s).
  Proof. intros Hs. unfold contains_intervals. rewrite sup_size_inv by assumption. reflexivity. Qed.
End Conversions.

(* Proofs_SupportGen.v — the Gallina definitions that gen/ast2coq.py regenerates from the clang AST
   of /repo/include/bspline/support/Support.h (and of Grid<T>::at in Grid.h, Spline<T,order>::checkValidity
   in Spline.h) on every run (gen/SupportGen.v, module G) coincide with the hand-written model of
   Support.v / Spline.v.

   If Support.h is edited so that the meaning of one of the translated member functions changes
   (say `index < _endIndex` becomes `index <= _endIndex`), the regenerated definition changes and
   the corresponding lemma below no longer compiles.

   The proofs do not depend on the shape of the generated text: one tactic [gen_agree] unfolds both
   sides, splits on the condition of every `if`, and closes each case by [reflexivity] or by [lia]
   on the `mod 2^64` arithmetic, using the class invariant [SInv] and the bound [i < W] when they
   are in the context.  Harmless rewrites of the C++ (reordered conjuncts, `a > b` for `b < a`,
   `?:` for `if`/`else`, extra `const` locals, early returns) keep them compiling. *)
From Coq Require Import List NArith ZArith Bool Lia ZifyBool ZifyN.
From BSpl Require Import Scalar Outcome Support Spline Proofs_Support.
From BSpl.gen Require Import SupportGen.
Local Open Scope N_scope.

Ltac Zify.zify_post_hook ::= Z.div_mod_to_equations.

(* ---- what a generated [G.gres] means in the model: s is *this, t the other operand ---- *)
Section Interp.
  Context {F : Type} {K : Ops F}.

  Definition gres_interp (s t : support F) (r : G.gres) : outcome (support F) :=
    match r with
    | G.GThrow e => Throw e
    | G.GEmpty => create_empty (sgrid s)
    | G.GThis => Ok s
    | G.GOther => Ok t
    | G.GCtor a b => sup_ctor (sgrid s) a b
    end.
End Interp.

(* ---- the generic tactic ---- *)

(* both sides down to comparisons, wadd/wsub, constructors and `if` *)
Ltac gen_unfold :=
  cbv beta zeta delta
    [G.size G.empty G.containsIntervals G.relativeFromAbsolute G.intervalIndexFromAbsolute
     G.absoluteFromRelative G.numberOfIntervals G.valid G.checkValidity
     G.at_guard G.at_throw G.at_index
     G.eq G.createEmpty G.calcUnion G.calcIntersection G.grid_at_guard G.grid_at_throw
     G.spline_valid G.spline_checkValidity gres_interp
     sup_size sup_is_empty contains_intervals rel_from_abs interval_index abs_from_rel
     num_intervals sup_valid sup_at grid_size grid_at sup_eqb calc_union calc_inter spl_valid].

(* the invariant, if present, as plain arithmetic over the atoms sstart s, sstop s, nlen (sgrid s) *)
Ltac gen_hyps :=
  repeat match goal with
  | H : SInv _ |- _ => unfold SInv in H
  end.

(* one case split per `if` (on its whole condition, not on every comparison inside it), innermost
   first: a condition that itself contains an `if` is left for later, so that no `if` ever ends up
   in a hypothesis, where [lia] would have to treat it as an opaque term *)
Ltac gen_has_if c := match c with context [if _ then _ else _] => idtac end.
Ltac gen_cases :=
  repeat match goal with
  | |- context [if ?c then _ else _] =>
      tryif gen_has_if c then fail else (let E := fresh "Ecase" in destruct c eqn:E)
  end.

Ltac gen_arith := unfold wadd, wsub, W in *; lia.

Ltac gen_close :=
  first
    [ reflexivity
    | gen_arith
    | exfalso; gen_arith
    | f_equal; first [ reflexivity | gen_arith ]
    | f_equal; f_equal; first [ reflexivity | gen_arith ] ].

(* hasSameGrid(s) is not integer logic: both of its values are considered ([lia] does not reason
   about an uninterpreted boolean) *)
Ltac gen_abstract :=
  repeat match goal with
  | |- context [has_same_grid ?a ?b] =>
      let sg := fresh "same_grid" in
      generalize (has_same_grid a b); intros sg; destruct sg; cbn [negb andb orb]
  end.

(* [cbv beta iota] after the case splits: [gres_interp] applied to a constructor *)
Ltac gen_agree := intros; gen_unfold; gen_hyps; gen_abstract; gen_cases; cbv beta iota; gen_close.

Section SupportGen.
  Context {F : Type} {K : Ops F}.
  Implicit Types s : support F.

  (* the three integers the generated functions take from the object *)
  Notation gs s := (grid_size (sgrid s)).

  Lemma gen_size_eq s : G.size (gs s) (sstart s) (sstop s) = sup_size s.
  Proof. gen_agree. Qed.

  Lemma gen_empty_eq s : G.empty (gs s) (sstart s) (sstop s) = sup_is_empty s.
  Proof. gen_agree. Qed.

  Lemma gen_containsIntervals_eq s :
    G.containsIntervals (gs s) (sstart s) (sstop s) = contains_intervals s.
  Proof. gen_agree. Qed.

  Lemma gen_relativeFromAbsolute_eq s i :
    G.relativeFromAbsolute (gs s) (sstart s) (sstop s) i = rel_from_abs s i.
  Proof. gen_agree. Qed.

  Lemma gen_intervalIndexFromAbsolute_eq s i :
    G.intervalIndexFromAbsolute (gs s) (sstart s) (sstop s) i = interval_index s i.
  Proof. gen_agree. Qed.

  Lemma gen_absoluteFromRelative_eq s i :
    G.absoluteFromRelative (gs s) (sstart s) (sstop s) i = abs_from_rel s i.
  Proof. gen_agree. Qed.

  Lemma gen_numberOfIntervals_eq s :
    G.numberOfIntervals (gs s) (sstart s) (sstop s) = num_intervals s.
  Proof. gen_agree. Qed.

  (* checkValidity returns normally iff the model's predicate holds *)
  Lemma gen_valid_eq s : G.valid (gs s) (sstart s) (sstop s) = sup_valid s.
  Proof. gen_agree. Qed.

  (* at() throws iff index >= size(), exactly the test of the model's [sup_at] *)
  Lemma gen_at_guard_eq s i :
    G.at_guard (gs s) (sstart s) (sstop s) i = (sup_size s <=? i).
  Proof. gen_agree. Qed.

  (* ---- beyond the guard: error codes and the forwarded index ---- *)

  (* checkValidity with its error code: what the constructor [sup_ctor] does after storing the fields *)
  Lemma gen_checkValidity_eq s :
    G.checkValidity (gs s) (sstart s) (sstop s)
    = if sup_valid s then Ok tt else Throw INCONSISTENT_DATA.
  Proof. gen_agree. Qed.

  Lemma gen_sup_ctor_eq (g : list F) a b :
    sup_ctor g a b = (do _ <- G.checkValidity (grid_size g) a b; Ok (mkSup g a b)).
  Proof.
    unfold sup_ctor.
    pose proof (gen_checkValidity_eq (mkSup g a b)) as H. cbn [sgrid sstart sstop] in H.
    rewrite H. destruct (sup_valid (mkSup g a b)); reflexivity.
  Qed.

  (* the whole of at(): guard, code thrown, index handed to Grid::at *)
  Lemma gen_at_eq s i :
    sup_at s i =
    if G.at_guard (gs s) (sstart s) (sstop s) i
    then Throw (G.at_throw (gs s) (sstart s) (sstop s))
    else grid_at (sgrid s) (G.at_index (gs s) (sstart s) (sstop s) i).
  Proof. gen_agree. Qed.

  (* ---- operator==, calcUnion, calcIntersection: the index logic; hasSameGrid(s) is the parameter
          same_grid, instantiated with the model's [has_same_grid s t] ---- *)
  Implicit Types t : support F.

  Lemma gen_eq_eq s t :
    G.eq (gs s) (sstart s) (sstop s) (sstart t) (sstop t) (has_same_grid s t) = sup_eqb s t.
  Proof. gen_agree. Qed.

  (* createEmpty(grid) is Support{grid, 0, 0} *)
  Lemma gen_createEmpty_eq s t : gres_interp s t G.createEmpty = create_empty (sgrid s).
  Proof. gen_agree. Qed.

  Lemma gen_calcUnion_eq s t :
    gres_interp s t (G.calcUnion (gs s) (sstart s) (sstop s) (sstart t) (sstop t) (has_same_grid s t))
    = calc_union s t.
  Proof. gen_agree. Qed.

  Lemma gen_calcIntersection_eq s t :
    gres_interp s t (G.calcIntersection (gs s) (sstart s) (sstop s) (sstart t) (sstop t) (has_same_grid s t))
    = calc_inter s t.
  Proof. gen_agree. Qed.

  (* ---- Grid::at ---- *)
  Lemma gen_grid_at_guard_eq (g : list F) i : G.grid_at_guard (grid_size g) i = (grid_size g <=? i).
  Proof. gen_agree. Qed.

  Lemma gen_grid_at_eq (g : list F) i :
    grid_at g i = if G.grid_at_guard (grid_size g) i then Throw G.grid_at_throw else grid_sub g i.
  Proof. gen_agree. Qed.

  (* ---- Spline::checkValidity(support, coefficients); ncoefs = coefficients.size() ---- *)
  Lemma gen_spline_valid_eq s n :
    G.spline_valid (gs s) (sstart s) (sstop s) n = spl_valid s n.
  Proof. gen_agree. Qed.

  Lemma gen_spline_checkValidity_eq s n :
    G.spline_checkValidity (gs s) (sstart s) (sstop s) n
    = if spl_valid s n then Ok tt else Throw INCONSISTENT_DATA.
  Proof. gen_agree. Qed.

  Lemma gen_spl_ctor_eq ord s (coefs : list (list F)) :
    spl_ctor ord s coefs
    = (do _ <- G.spline_checkValidity (gs s) (sstart s) (sstop s) (nlen coefs); Ok (mkSpl s ord coefs)).
  Proof.
    unfold spl_ctor. rewrite gen_spline_checkValidity_eq.
    destruct (spl_valid s (nlen coefs)); reflexivity.
  Qed.

  (* ---- summary ---- *)
  Theorem support_gen_agrees s : SInv s ->
    G.size (gs s) (sstart s) (sstop s) = sup_size s /\
    G.empty (gs s) (sstart s) (sstop s) = sup_is_empty s /\
    G.containsIntervals (gs s) (sstart s) (sstop s) = contains_intervals s /\
    (forall i, i < W -> G.relativeFromAbsolute (gs s) (sstart s) (sstop s) i = rel_from_abs s i) /\
    (forall i, i < W -> G.intervalIndexFromAbsolute (gs s) (sstart s) (sstop s) i = interval_index s i) /\
    (forall i, i < W -> G.absoluteFromRelative (gs s) (sstart s) (sstop s) i = abs_from_rel s i) /\
    G.numberOfIntervals (gs s) (sstart s) (sstop s) = num_intervals s /\
    G.valid (gs s) (sstart s) (sstop s) = sup_valid s /\
    (forall i, i < W -> G.at_guard (gs s) (sstart s) (sstop s) i = (sup_size s <=? i)).
  Proof.
    (* [; assumption] is vacuous today (the lemmas are unconditional); it keeps this script valid
       should one of them ever need [SInv s] or [i < W] as a premise *)
    intros Hs.
    split; [apply gen_size_eq; assumption|].
    split; [apply gen_empty_eq; assumption|].
    split; [apply gen_containsIntervals_eq; assumption|].
    split; [intros i Hi; apply gen_relativeFromAbsolute_eq; assumption|].
    split; [intros i Hi; apply gen_intervalIndexFromAbsolute_eq; assumption|].
    split; [intros i Hi; apply gen_absoluteFromRelative_eq; assumption|].
    split; [apply gen_numberOfIntervals_eq; assumption|].
    split; [apply gen_valid_eq; assumption|].
    intros i Hi; apply gen_at_guard_eq; assumption.
  Qed.
End SupportGen.

Print Assumptions gen_size_eq.
Print Assumptions gen_empty_eq.
Print Assumptions gen_containsIntervals_eq.
Print Assumptions gen_relativeFromAbsolute_eq.
Print Assumptions gen_intervalIndexFromAbsolute_eq.
Print Assumptions gen_absoluteFromRelative_eq.
Print Assumptions gen_numberOfIntervals_eq.
Print Assumptions gen_valid_eq.
Print Assumptions gen_at_guard_eq.
Print Assumptions gen_checkValidity_eq.
Print Assumptions gen_sup_ctor_eq.
Print Assumptions gen_at_eq.
Print Assumptions support_gen_agrees.
Print Assumptions gen_eq_eq.
Print Assumptions gen_createEmpty_eq.
Print Assumptions gen_calcUnion_eq.
Print Assumptions gen_calcIntersection_eq.
Print Assumptions gen_grid_at_guard_eq.
Print Assumptions gen_grid_at_eq.
Print Assumptions gen_spline_valid_eq.
Print Assumptions gen_spline_checkValidity_eq.
Print Assumptions gen_spl_ctor_eq.

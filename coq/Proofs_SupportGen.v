(* Proofs_SupportGen.v — the Gallina definitions that gen/ast2coq.py regenerates from the clang AST
   of /repo/include/bspline/support/Support.h (and of Grid<T>::at in Grid.h, Spline<T,order>::checkValidity
   in Spline.h) on every run (gen/SupportGen.v, module G) coincide with the hand-written model of
   Support.v / Spline.v.

   If Support.h is edited so that the meaning of one of the translated member functions changes
   (say `index < _endIndex` becomes `index <= _endIndex`), the regenerated definition changes and
   the corresponding lemma below no longer compiles.

   The tie is semantic, not textual: one tactic [gen_agree] decides the agreement for this fragment
   (comparisons, N.min/N.max, boolean connectives, `if`, the outcome monad, arithmetic mod 2^64).
   It unfolds both sides, replaces every support by its constructor form (so that `*this` and
   `Support(_grid, _startIndex, _endIndex)` are the same term), splits ONCE on every distinct
   comparison atom / N.min / N.max (the fact goes to the context as a proposition, branches with
   contradictory facts are dropped at once) and closes each leaf by [reflexivity], by [f_equal] +
   [lia] on the indices, or by [lia] on contradictory facts.  It uses the class invariant [SInv]
   and the bound [i < W] when they are in the context.  Re-implementations with the same behaviour
   (reordered conjuncts, `a > b` for `b < a`, `?:` for `if`/`else`, extra `const` locals, early
   returns, an explicit empty / nested / overlapping case analysis instead of std::min/std::max)
   keep the lemmas compiling.

   calcUnion / calcIntersection are stated for operands satisfying the class invariant (every
   reachable Support does: Proofs_Pool / Proofs_Updates): a re-implementation may return `*this`
   where the model re-validates the same window, or call the validating constructor on indices
   that are in range only because both operands are valid.  All other lemmas are unconditional. *)
From Coq Require Import List NArith ZArith Bool Lia ZifyBool ZifyN.
From BSpl Require Import Scalar Outcome Support Spline Proofs_Support.
From BSpl.gen Require Import SupportGen.
Local Open Scope N_scope.

Ltac Zify.zify_post_hook ::= Z.div_mod_to_equations.

(* ---- what a generated [G.gres] means in the model: s is *this, t the other operand ---- *)
Section Interp.
  Context {F : Type} {K : Ops F}.

  Definition gres_interp (s t : support F) (r : G.gres) : outcome (support F) :=
    match r with
    | G.GThrow e => Throw e
    | G.GEmpty => create_empty (sgrid s)
    | G.GThis => Ok s
    | G.GOther => Ok t
    | G.GCtor a b => sup_ctor (sgrid s) a b
    end.
End Interp.

(* ---- the generic tactic ---- *)

(* the invariant, if present, as plain arithmetic over sstart s, sstop s, nlen (sgrid s) *)
Ltac gen_hyps := unfold SInv in *.

(* every support in the context becomes a constructor application: `*this` and
   `mkSup (sgrid s) (sstart s) (sstop s)` are then the same term *)
Ltac gen_records :=
  repeat match goal with
  | s : support _ |- _ =>
      let g := fresh "g" in let a := fresh "a" in let b := fresh "b" in destruct s as [g a b]
  end;
  cbn [sgrid sstart sstop] in *.

(* both sides down to comparisons, N.min/N.max, wadd/wsub, constructors and `if`: the generated
   definitions, the model functions, the constructor [sup_ctor], the outcome monad's [bind], the
   record projections and the boolean connectives (andb x y is `if x then y else false`, ...) *)
Ltac gen_unfold :=
  cbv beta iota zeta delta
    [G.size G.empty G.containsIntervals G.relativeFromAbsolute G.intervalIndexFromAbsolute
     G.absoluteFromRelative G.numberOfIntervals G.valid G.checkValidity
     G.at_guard G.at_throw G.at_index
     G.eq G.createEmpty G.calcUnion G.calcIntersection G.grid_at_guard G.grid_at_throw
     G.spline_valid G.spline_checkValidity gres_interp
     sup_size sup_is_empty contains_intervals rel_from_abs interval_index abs_from_rel
     num_intervals sup_valid sup_ctor create_empty sup_at grid_size grid_at sup_eqb calc_union calc_inter
     spl_valid spl_ctor bind sgrid sstart sstop negb andb orb].

(* hasSameGrid(s) is not integer logic: an arbitrary boolean *)
Ltac gen_abstract :=
  repeat match goal with
  | |- context [has_same_grid ?a ?b] =>
      let sg := fresh "same_grid" in generalize (has_same_grid a b); intros sg
  end.

Ltac gen_simpl := cbv beta iota.

Ltac gen_arith := unfold wadd, wsub, W in *; lia.

(* a term without `if`, N.min, N.max inside: an operand over which [lia] can reason *)
Ltac gen_plain t :=
  lazymatch t with
  | context [if _ then _ else _] => fail
  | context [N.min _ _] => fail
  | context [N.max _ _] => fail
  | _ => idtac
  end.
Ltac gen_no_if t :=
  lazymatch t with context [if _ then _ else _] => fail | _ => idtac end.

(* ONE case split: on a boolean variable tested by an `if`, else on one comparison atom with plain
   operands (all its occurrences are replaced at once by [true]/[false], the fact goes to the
   context as a proposition), else on one N.min/N.max with plain operands (replaced everywhere by
   the operand it equals), else - a condition that is none of these - on the condition itself *)
Ltac gen_split :=
  match goal with
  | |- context [if ?c then _ else _] => is_var c; destruct c
  | |- context [N.eqb ?x ?y] => gen_plain x; gen_plain y; destruct (N.eqb_spec x y)
  | |- context [N.leb ?x ?y] => gen_plain x; gen_plain y; destruct (N.leb_spec x y)
  | |- context [N.ltb ?x ?y] => gen_plain x; gen_plain y; destruct (N.ltb_spec x y)
  | |- context [N.min ?x ?y] =>
      gen_plain x; gen_plain y;
      let Hc := fresh "Hmin" in let He := fresh "Emin" in
      destruct (N.min_spec x y) as [[Hc He]|[Hc He]]; rewrite He in *; clear He
  | |- context [N.max ?x ?y] =>
      gen_plain x; gen_plain y;
      let Hc := fresh "Hmax" in let He := fresh "Emax" in
      destruct (N.max_spec x y) as [[Hc He]|[Hc He]]; rewrite He in *; clear He
  | |- context [if ?c then _ else _] =>
      gen_no_if c;
      lazymatch c with
      | N.eqb _ _ => fail | N.leb _ _ => fail | N.ltb _ _ => fail
      | _ => let E := fresh "Ecase" in destruct c eqn:E
      end
  end.

(* a branch whose facts are contradictory is dropped at once *)
Ltac gen_prune := try (exfalso; lia).

Ltac gen_cases := repeat (gen_split; gen_simpl; try reflexivity; gen_prune).

(* a leaf: no `if` is left.  Equal constructors are peeled off, index equations go to [lia]
   (mod-2^64 arithmetic through Z.div_mod_to_equations); different constructors need
   contradictory facts *)
Ltac gen_leaf :=
  first
    [ reflexivity
    | lazymatch goal with
      | |- @eq N _ _ => gen_arith
      | |- Ok _ = Ok _ => f_equal; gen_leaf
      | |- Some _ = Some _ => f_equal; gen_leaf
      | |- mkSup _ _ _ = mkSup _ _ _ => f_equal; gen_leaf
      | |- grid_sub _ _ = grid_sub _ _ => f_equal; gen_leaf
      end
    | exfalso; gen_arith ].

Ltac gen_agree :=
  timeout 100
    (intros; gen_hyps; gen_records; gen_unfold; gen_abstract;
     first [ reflexivity | gen_cases; gen_leaf ]).

Section SupportGen.
  Context {F : Type} {K : Ops F}.
  Implicit Types s : support F.

  (* the three integers the generated functions take from the object *)
  Notation gs s := (grid_size (sgrid s)).

  Lemma gen_size_eq s : G.size (gs s) (sstart s) (sstop s) = sup_size s.
  Proof. gen_agree. Qed.

  Lemma gen_empty_eq s : G.empty (gs s) (sstart s) (sstop s) = sup_is_empty s.
  Proof. gen_agree. Qed.

  Lemma gen_containsIntervals_eq s :
    G.containsIntervals (gs s) (sstart s) (sstop s) = contains_intervals s.
  Proof. gen_agree. Qed.

  Lemma gen_relativeFromAbsolute_eq s i :
    G.relativeFromAbsolute (gs s) (sstart s) (sstop s) i = rel_from_abs s i.
  Proof. gen_agree. Qed.

  Lemma gen_intervalIndexFromAbsolute_eq s i :
    G.intervalIndexFromAbsolute (gs s) (sstart s) (sstop s) i = interval_index s i.
  Proof. gen_agree. Qed.

  Lemma gen_absoluteFromRelative_eq s i :
    G.absoluteFromRelative (gs s) (sstart s) (sstop s) i = abs_from_rel s i.
  Proof. gen_agree. Qed.

  Lemma gen_numberOfIntervals_eq s :
    G.numberOfIntervals (gs s) (sstart s) (sstop s) = num_intervals s.
  Proof. gen_agree. Qed.

  (* checkValidity returns normally iff the model's predicate holds *)
  Lemma gen_valid_eq s : G.valid (gs s) (sstart s) (sstop s) = sup_valid s.
  Proof. gen_agree. Qed.

  (* at() throws iff index >= size(), exactly the test of the model's [sup_at] *)
  Lemma gen_at_guard_eq s i :
    G.at_guard (gs s) (sstart s) (sstop s) i = (sup_size s <=? i).
  Proof. gen_agree. Qed.

  (* ---- beyond the guard: error codes and the forwarded index ---- *)

  (* checkValidity with its error code: what the constructor [sup_ctor] does after storing the fields *)
  Lemma gen_checkValidity_eq s :
    G.checkValidity (gs s) (sstart s) (sstop s)
    = if sup_valid s then Ok tt else Throw INCONSISTENT_DATA.
  Proof. gen_agree. Qed.

  Lemma gen_sup_ctor_eq (g : list F) a b :
    sup_ctor g a b = (do _ <- G.checkValidity (grid_size g) a b; Ok (mkSup g a b)).
  Proof.
    unfold sup_ctor.
    pose proof (gen_checkValidity_eq (mkSup g a b)) as H. cbn [sgrid sstart sstop] in H.
    rewrite H. destruct (sup_valid (mkSup g a b)); reflexivity.
  Qed.

  (* the whole of at(): guard, code thrown, index handed to Grid::at *)
  Lemma gen_at_eq s i :
    sup_at s i =
    if G.at_guard (gs s) (sstart s) (sstop s) i
    then Throw (G.at_throw (gs s) (sstart s) (sstop s))
    else grid_at (sgrid s) (G.at_index (gs s) (sstart s) (sstop s) i).
  Proof. gen_agree. Qed.

  (* ---- operator==, calcUnion, calcIntersection: the index logic; hasSameGrid(s) is the parameter
          same_grid, instantiated with the model's [has_same_grid s t] ---- *)
  Implicit Types t : support F.

  Lemma gen_eq_eq s t :
    G.eq (gs s) (sstart s) (sstop s) (sstart t) (sstop t) (has_same_grid s t) = sup_eqb s t.
  Proof. gen_agree. Qed.

  (* createEmpty(grid) is Support{grid, 0, 0} *)
  Lemma gen_createEmpty_eq s t : gres_interp s t G.createEmpty = create_empty (sgrid s).
  Proof. gen_agree. Qed.

  Lemma gen_calcUnion_eq s t : SInv s -> SInv t ->
    gres_interp s t (G.calcUnion (gs s) (sstart s) (sstop s) (sstart t) (sstop t) (has_same_grid s t))
    = calc_union s t.
  Proof. gen_agree. Qed.

  Lemma gen_calcIntersection_eq s t : SInv s -> SInv t ->
    gres_interp s t (G.calcIntersection (gs s) (sstart s) (sstop s) (sstart t) (sstop t) (has_same_grid s t))
    = calc_inter s t.
  Proof. gen_agree. Qed.

  (* ---- Grid::at ---- *)
  Lemma gen_grid_at_guard_eq (g : list F) i : G.grid_at_guard (grid_size g) i = (grid_size g <=? i).
  Proof. gen_agree. Qed.

  Lemma gen_grid_at_eq (g : list F) i :
    grid_at g i = if G.grid_at_guard (grid_size g) i then Throw G.grid_at_throw else grid_sub g i.
  Proof. gen_agree. Qed.

  (* ---- Spline::checkValidity(support, coefficients); ncoefs = coefficients.size() ---- *)
  Lemma gen_spline_valid_eq s n :
    G.spline_valid (gs s) (sstart s) (sstop s) n = spl_valid s n.
  Proof. gen_agree. Qed.

  Lemma gen_spline_checkValidity_eq s n :
    G.spline_checkValidity (gs s) (sstart s) (sstop s) n
    = if spl_valid s n then Ok tt else Throw INCONSISTENT_DATA.
  Proof. gen_agree. Qed.

  Lemma gen_spl_ctor_eq ord s (coefs : list (list F)) :
    spl_ctor ord s coefs
    = (do _ <- G.spline_checkValidity (gs s) (sstart s) (sstop s) (nlen coefs); Ok (mkSpl s ord coefs)).
  Proof.
    unfold spl_ctor. rewrite gen_spline_checkValidity_eq.
    destruct (spl_valid s (nlen coefs)); reflexivity.
  Qed.

  (* ---- summary ---- *)
  Theorem support_gen_agrees s : SInv s ->
    G.size (gs s) (sstart s) (sstop s) = sup_size s /\
    G.empty (gs s) (sstart s) (sstop s) = sup_is_empty s /\
    G.containsIntervals (gs s) (sstart s) (sstop s) = contains_intervals s /\
    (forall i, i < W -> G.relativeFromAbsolute (gs s) (sstart s) (sstop s) i = rel_from_abs s i) /\
    (forall i, i < W -> G.intervalIndexFromAbsolute (gs s) (sstart s) (sstop s) i = interval_index s i) /\
    (forall i, i < W -> G.absoluteFromRelative (gs s) (sstart s) (sstop s) i = abs_from_rel s i) /\
    G.numberOfIntervals (gs s) (sstart s) (sstop s) = num_intervals s /\
    G.valid (gs s) (sstart s) (sstop s) = sup_valid s /\
    (forall i, i < W -> G.at_guard (gs s) (sstart s) (sstop s) i = (sup_size s <=? i)).
  Proof.
    (* [; assumption] is vacuous today (the lemmas are unconditional); it keeps this script valid
       should one of them ever need [SInv s] or [i < W] as a premise *)
    intros Hs.
    split; [apply gen_size_eq; assumption|].
    split; [apply gen_empty_eq; assumption|].
    split; [apply gen_containsIntervals_eq; assumption|].
    split; [intros i Hi; apply gen_relativeFromAbsolute_eq; assumption|].
    split; [intros i Hi; apply gen_intervalIndexFromAbsolute_eq; assumption|].
    split; [intros i Hi; apply gen_absoluteFromRelative_eq; assumption|].
    split; [apply gen_numberOfIntervals_eq; assumption|].
    split; [apply gen_valid_eq; assumption|].
    intros i Hi; apply gen_at_guard_eq; assumption.
  Qed.
End SupportGen.

Print Assumptions gen_size_eq.
Print Assumptions gen_empty_eq.
Print Assumptions gen_containsIntervals_eq.
Print Assumptions gen_relativeFromAbsolute_eq.
Print Assumptions gen_intervalIndexFromAbsolute_eq.
Print Assumptions gen_absoluteFromRelative_eq.
Print Assumptions gen_numberOfIntervals_eq.
Print Assumptions gen_valid_eq.
Print Assumptions gen_at_guard_eq.
Print Assumptions gen_checkValidity_eq.
Print Assumptions gen_sup_ctor_eq.
Print Assumptions gen_at_eq.
Print Assumptions support_gen_agrees.
Print Assumptions gen_eq_eq.
Print Assumptions gen_createEmpty_eq.
Print Assumptions gen_calcUnion_eq.
Print Assumptions gen_calcIntersection_eq.
Print Assumptions gen_grid_at_guard_eq.
Print Assumptions gen_grid_at_eq.
Print Assumptions gen_spline_valid_eq.
Print Assumptions gen_spline_checkValidity_eq.
Print Assumptions gen_spl_ctor_eq.

(* Properties_C07_O.v — C07_O: linear forms, as compiled.
   Tie between the C++ source and the model by translation, at the level of whole public operations:
   coq/gen/OpsGen_*.v are regenerated on every run by gen/symops.py, which compiles the headers of
   /repo's current tree with a symbolic scalar type (cpp/symkern_sym.h), runs the real public
   operations (cpp/symops.cpp) on splines whose grid points g0 < g1 < g2 < g3 and coefficients are
   variables and whose windows and orders are concrete, and records the object each one returns
   (o_<scenario>: order, window and every coefficient as an expression, or a scalar).
   ops_<family>_agree (defined in those generated files) says: for every scalar structure satisfying
   the ordered-field laws and all values of the variables, the hand-written model operation - the one
   Pool.eval_op uses for the same C++ call - applied to the same symbolic operands returns exactly
   the object the compiled code returns.  The only premise that occurs is the documented
   precondition of a division by a scalar (divisor <> 0).  The scenario lists are finite (listed per
   theorem); the unbounded statements about the model are in Properties_C07.v.
   Statements only: every theorem is closed by [exact]. *)
From BSpl Require Import Scalar Outcome Support Poly Spline Ops Forms Proofs_KernelTac Proofs_OpsTac.
From BSpl.gen Require Import OpsGen_lin.

(* LinearForm{O}.evaluate(a) for O one of Id, X<1>, X<2>, Dx<1>, SplineOperator{v}, c*X<1>, spline orders 1
   and 2, on the whole grid and on [g1,g3]; operator() for order 2; one scenario with v on a distinct but
   equal Grid object - equals linear (elab e) a *)
Theorem C07_O_linear_form_as_compiled : ops_lin_agree.
Proof. exact ops_lin_agree_ok. Qed.
Print Assumptions C07_O_linear_form_as_compiled.

(* Generator.v — model of BSplineGenerator.h: both constructors, the order-0
   splines, the Cox–de Boor recursion step written with the operator algebra,
   and generateBSplines<order>.  No proofs in this file. *)
From Coq Require Import List NArith Arith Bool.
From BSpl Require Import Scalar Outcome Support Poly Spline Ops.
Import ListNotations.

Section Generator.
  Context {F : Type} {K : Ops F}.

  (* std::unique + erase: drop consecutive duplicates *)
  Fixpoint unique (l : list F) : list F :=
    match l with
    | a :: ((b :: _) as r) => if feqb a b then unique r else a :: unique r
    | _ => l
    end.

  Record generator := mkGen { ggrid : list F; gknots : list F }.

  (* BSplineGenerator(knots) *)
  Definition gen_ctor1 (knots : list F) : outcome generator :=
    do g <- grid_ctor (unique knots); Ok (mkGen g knots).

  (* BSplineGenerator(knots, grid) *)
  Definition gen_ctor2 (knots : list F) (g : list F) : outcome generator :=
    do g2 <- grid_ctor (unique knots);
    if negb (grid_eqb g g2) then Throw INCONSISTENT_DATA else Ok (mkGen g knots).

  (* generateZerothOrderSplines *)
  Definition gen0 (gn : generator) : outcome (list (spline F)) :=
    let ks := gknots gn in
    omapM (fun i =>
      do xi <- at_ ks i;
      do xip1 <- at_ ks (i + 1);
      if fgtb xi xip1 then Throw UNDETERMINED
      else if feqb xi xip1 then spl_empty 0 (ggrid gn)
      else
        do gi <- grid_find (ggrid gn) xi;
        do s <- sup_ctor (ggrid gn) gi (wadd gi 2);
        spl_ctor 0 s [[f1]]) (seq 0 (length ks - 1)).

  (* the two operator expressions of applyRecursionRelation, as the overloads
     build them *)
  Definition rec_op1 (prefac xi : F) : opx F :=
    elab (ESMulL (ScF prefac) (ESubS (EPos 1) (ScF xi))).
  Definition rec_op2 (prefac xipk : F) : opx F :=
    elab (ESMulL (ScF prefac) (ESSub (ScF xipk) (EPos 1))).

  (* applyRecursionRelation<k>(i, splinei, splineip1), k = order + 1 *)
  Definition apply_rec (gn : generator) (k i : nat) (si sip1 : spline F) : outcome (spline F) :=
    let ks := gknots gn in
    do ret0 <- spl_empty (k - 1) (ggrid gn);
    do xi <- at_ ks i;
    do xipkm1 <- at_ ks (i + k - 1);
    do ret1 <- (if fgtb xipkm1 xi
                then apply (rec_op1 (f1 / (xipkm1 - xi))%F xi) si
                else Ok ret0);
    do xip1 <- at_ ks (i + 1);
    do xipk <- at_ ks (i + k);
    if fgtb xipk xip1
    then do t <- apply (rec_op2 (f1 / (xipk - xip1))%F xipk) sip1; spl_iadd ret1 t
    else Ok ret1.

  (* generateBSplines<order>() *)
  Fixpoint generate (gn : generator) (order : nat) : outcome (list (spline F)) :=
    if (length (gknots gn) <? order + 1)%nat then Throw UNDETERMINED
    else match order with
    | O => gen0 gn
    | S o' =>
        do lower <- generate gn o';
        omapM (fun i =>
          do a <- at_ lower i;
          do b <- at_ lower (i + 1);
          apply_rec gn (order + 1) i a b) (seq 0 (length (gknots gn) - (order + 1)))
    end.

  (* free function generateBSplines<order>(knots) *)
  Definition generate_bsplines (order : nat) (knots : list F) : outcome (list (spline F)) :=
    do gn <- gen_ctor1 knots; generate gn order.
End Generator.

(* Ops.v — model of operators/*.h: the operator classes ([opx]), the overload
   set that builds them ([expr], [elab]), outputOrder, transform and
   transformSpline ([apply]).  No proofs in this file. *)
From Coq Require Import List NArith ZArith Arith Bool.
From BSpl Require Import Scalar Outcome Support Poly Spline.
Import ListNotations.

Section Ops.
  Context {F : Type} {K : Ops F}.

  (* The scalar held by a ScalarMultiplication<S,O>, with its own type S:
     the spline's scalar type T or a built-in integer; `operator/(O, s)` stores
     the reciprocal wrapper whose conversion to T is 1/T(s) (after fix D3). *)
  Inductive scalar := ScF (c : F) | ScI (z : Z) | ScRecF (c : F) | ScRecI (z : Z).

  (* static_cast<T>(_s) *)
  Definition cast (s : scalar) : F :=
    match s with
    | ScF c => c
    | ScI z => fofZ z
    | ScRecF c => (f1 / c)%F
    | ScRecI z => (f1 / fofZ z)%F
    end.

  Inductive opx :=
  | OId                                  (* IdentityOperator *)
  | OPos (n : nat)                       (* Position<n> *)
  | ODer (n : nat)                       (* Derivative<n> *)
  | OSpl (v : spline F)                  (* SplineOperator<T,order> *)
  | OProd (a b : opx)                    (* OperatorProduct<O1,O2> *)
  | OSum (a b : opx)                     (* OperatorSum<O1,O2,ADDITION> *)
  | ODiff (a b : opx)                    (* OperatorSum<O1,O2,SUBTRACTION> *)
  | OScal (s : scalar) (o : opx).        (* ScalarMultiplication<S,O> *)

  (* surface syntax = the overload set of CompoundOperators.h / ScalarOperators.h *)
  Inductive expr :=
  | EId | EPos (n : nat) | EDer (n : nat) | ESpl (v : spline F)
  | EMul (a b : expr)                    (* O1 * O2 *)
  | EAdd (a b : expr)                    (* O1 + O2 *)
  | ESub (a b : expr)                    (* O1 - O2 *)
  | ESMulL (s : scalar) (a : expr)       (* s * O *)
  | ESMulR (a : expr) (s : scalar)       (* O * s *)
  | EDivS (a : expr) (s : scalar)        (* O / s *)
  | EAddS (a : expr) (s : scalar)        (* O + s *)
  | ESAdd (s : scalar) (a : expr)        (* s + O *)
  | ESubS (a : expr) (s : scalar)        (* O - s *)
  | ESSub (s : scalar) (a : expr)        (* s - O *)
  | ENeg (a : expr).                     (* -O *)

  Definition recip (s : scalar) : scalar :=
    match s with
    | ScF c => ScRecF c | ScI z => ScRecI z
    | ScRecF c => ScRecF (f1 / c)%F | ScRecI z => ScRecF (f1 / fofZ z)%F
    end.

  Fixpoint elab (e : expr) : opx :=
    match e with
    | EId => OId | EPos n => OPos n | EDer n => ODer n | ESpl v => OSpl v
    | EMul a b => OProd (elab a) (elab b)
    | EAdd a b => OSum (elab a) (elab b)
    | ESub a b => ODiff (elab a) (elab b)
    | ESMulL s a => OScal s (elab a)
    | ESMulR a s => OScal s (elab a)
    | EDivS a s => OScal (recip s) (elab a)
    | EAddS a s => OSum (elab a) (OScal s OId)
    | ESAdd s a => OSum (OScal s OId) (elab a)
    | ESubS a s => ODiff (elab a) (OScal s OId)
    | ESSub s a => ODiff (OScal s OId) (elab a)
    | ENeg a => OScal (ScI (-1)) (elab a)
    end.

  (* O::outputOrder(inputOrder) *)
  Fixpoint out_ord (o : opx) (n : nat) : nat :=
    match o with
    | OId => n
    | OPos k => n + k
    | ODer k => Nat.max k n - k
    | OSpl v => n + sord v
    | OProd a b => out_ord a (out_ord b n)
    | OSum a b | ODiff a b => Nat.max (out_ord a n) (out_ord b n)
    | OScal _ o => out_ord o n
    end.

  (* Position<n>::expandPower: coefficients of (u + xm)^n, lowest power first *)
  Definition expand_power (n : nat) (xm : F) : list F :=
    rev (map (fun i => (binomial n i * fpow xm i)%F) (seq 0 (n + 1))).

  (* Derivative<n>::transform *)
  Definition der_transform (n : nat) (input : list F) : outcome (list F) :=
    let ord := (length input - 1)%nat in
    if (ord <? n)%nat then Ok [f0]
    else omapM (fun i => do c <- sub input (i + n); Ok (faculty_ratio (i + n) i * c)%F)
               (seq 0 (Nat.max n ord - n + 1)).

  (* O::transform(input, grid, intervalIndex) *)
  Fixpoint transform (o : opx) (input : list F) (g : list F) (k : N) : outcome (list F) :=
    match o with
    | OId => Ok input
    | ODer n => der_transform n input
    | OPos n =>
        do lo <- grid_sub g k;
        do hi <- grid_sub g (wadd k 1);
        let xm := ((lo + hi) / f2)%F in
        Ok (pmul input (expand_power n xm))
    | OSpl v =>
        if negb (grid_eqb (sgrid (ssup v)) g) then Throw DIFFERING_GRIDS
        else match interval_index (ssup v) k with           (* after fix D1 *)
             | None => Ok (make_array (length input + sord v) f0)
             | Some j => do cs <- coefs_at v j; Ok (pmul input cs)
             end
    | OProd a b => do t <- transform b input g k; transform a t g k
    | OSum a b =>
        do ta <- transform a input g k;
        do tb <- transform b input g k;
        Ok (arr_add ta tb)
    | ODiff a b =>
        do ta <- transform a input g k;
        do tb <- transform b input g k;
        Ok (arr_add ta (pneg tb))
    | OScal s o' =>
        do t <- transform o' input g k;
        Ok (pscale (cast s) t)
    end.

  (* transformSpline / operator*(O, Spline) *)
  Definition apply (o : opx) (s : spline F) : outcome (spline F) :=
    do cs <- omapM (fun '(i, c) =>
               do ai <- abs_from_rel (ssup s) i;
               transform o c (sgrid (ssup s)) ai)
             (combine (nrange (nlen (scoefs s))) (scoefs s));
    spl_ctor (out_ord o (sord s)) (ssup s) cs.
End Ops.

Arguments scalar F : clear implicits.
Arguments opx F : clear implicits.
Arguments expr F : clear implicits.

(* Extract.v — extraction of the executable model at the exact rational
   instance Qc for the correspondence check.  Only ExtrOcamlBasic's
   directives are used; numbers stay the extracted inductive datatypes. *)
From Coq Require Import List NArith ZArith QArith Qcanon.
From Coq Require Extraction.
From Coq Require Import ExtrOcamlBasic.
From BSpl Require Import Scalar Outcome Support Poly Spline Ops Forms Generator Interp Solver Pool Instances Instances_Ext Instances_Pair.

Definition qstep : state Qc -> op Qc -> state Qc * outcome (obs Qc) :=
  @step Qc QcOps (@gauss_solve Qc QcOps).
Definition mk_qc (n : Z) (d : positive) : Qc := qc n d.
Definition qc_num (x : Qc) : Z := Qnum (this x).
Definition qc_den (x : Qc) : positive := Qden (this x).

(* validation entry points at the IEEE comparison structure (NaN, +-inf) *)
Definition xgrid_ctor (l : list ext) : outcome (list ext) := @grid_ctor ext ExtOps l.
Definition xgen_ctor1 (l : list ext) : outcome (@generator ext) := @gen_ctor1 ext ExtOps l.

(* the pair world: exact value and magnitude, for the rounding-level validation of C16 *)
Definition pstep : state pq -> op pq -> state pq * outcome (obs pq) :=
  @step pq PairOps (@gauss_solve pq PairOps).

Extraction "model.ml" qstep mk_qc qc_num qc_den xgrid_ctor xgen_ctor1 pstep mk_pq.

(* Properties_C06_K.v — C06_K: bilinear-form kernel, as compiled.
   Tie between the C++ source and the model by translation: coq/gen/KernelGen_*.v are regenerated on
   every run by gen/symkern.py, which compiles the headers of /repo's current tree with a symbolic
   scalar type (cpp/symkern.cpp), runs the real templates and records the arithmetic expression each
   one computes (k_<instance>).  kernels_<family>_agree (defined in those generated files) says: for
   every scalar structure satisfying the ordered-field laws and all symbolic arguments, the
   hand-written model function returns the value of the expression the compiled code computes.
   The instance ranges are finite (listed per theorem); the unbounded statements about the model
   are in Properties_C06.v.  Statements only: every theorem is closed by [exact]. *)
From BSpl Require Import Scalar Outcome Support Poly Spline Ops Forms Proofs_KernelTac.
From BSpl.gen Require Import KernelGen_bi.

(* BilinearForm::evaluateInterval<T,na,nb>, na, nb = 1..7, equals bi_kernel (the model integrates the product polynomial; the code runs a parity-stepped double loop) *)
Theorem C06_K_bilinear_kernel_as_compiled : kernels_bi_agree.
Proof. exact kernels_bi_agree_ok. Qed.
Print Assumptions C06_K_bilinear_kernel_as_compiled.


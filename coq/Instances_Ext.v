(* Instances_Ext.v — the IEEE comparison structure: rationals extended by
   +inf, -inf and NaN, with the six comparisons defined separately (NaN makes
   every comparison false except !=).  It is NOT an ordered field — no [Laws]
   instance exists — and is used for the validation theorems of C11, whose
   proofs need no property of < at all. *)
From Coq Require Import List ZArith QArith Qcanon Bool.
From BSpl Require Import Scalar Instances.
Import ListNotations.

Inductive ext := Fin (q : Qc) | PInf | NInf | NaN.

Definition ext_ltb (a b : ext) : bool :=
  match a, b with
  | NaN, _ | _, NaN => false
  | Fin x, Fin y => Qc_ltb x y
  | NInf, NInf => false
  | NInf, _ => true
  | _, NInf => false
  | PInf, _ => false
  | Fin _, PInf => true
  end.

Definition ext_eqb (a b : ext) : bool :=
  match a, b with
  | Fin x, Fin y => Qc_eqb x y
  | PInf, PInf | NInf, NInf => true
  | _, _ => false
  end.

Definition ext_sign (a : ext) : comparison :=
  match a with Fin x => (x ?= 0)%Qc | PInf => Gt | NInf => Lt | NaN => Eq end.

Definition ext_opp (a : ext) : ext :=
  match a with Fin x => Fin (- x)%Qc | PInf => NInf | NInf => PInf | NaN => NaN end.

Definition ext_add (a b : ext) : ext :=
  match a, b with
  | NaN, _ | _, NaN => NaN
  | Fin x, Fin y => Fin (x + y)%Qc
  | PInf, NInf | NInf, PInf => NaN
  | PInf, _ | _, PInf => PInf
  | NInf, _ | _, NInf => NInf
  end.

Definition ext_mul (a b : ext) : ext :=
  match a, b with
  | NaN, _ | _, NaN => NaN
  | Fin x, Fin y => Fin (x * y)%Qc
  | _, _ => match ext_sign a, ext_sign b with
            | Eq, _ | _, Eq => NaN
            | Gt, Gt | Lt, Lt => PInf
            | _, _ => NInf
            end
  end.

Definition ext_inv (a : ext) : ext :=
  match a with
  | Fin x => if Qc_eqb x 0%Qc then PInf else Fin (/ x)%Qc
  | PInf | NInf => Fin 0%Qc
  | NaN => NaN
  end.

Global Instance ExtOps : Ops ext := {|
  f0 := Fin 0%Qc; f1 := Fin 1%Qc;
  fadd := ext_add; fmul := ext_mul; fsub := fun a b => ext_add a (ext_opp b); fopp := ext_opp;
  fdiv := fun a b => ext_mul a (ext_inv b);
  feqb := ext_eqb; fneb := fun a b => negb (ext_eqb a b);
  fltb := ext_ltb; fleb := fun a b => ext_ltb a b || ext_eqb a b;
  fgtb := fun a b => ext_ltb b a; fgeb := fun a b => ext_ltb b a || ext_eqb b a |}.

Lemma ext_ltb_nan_l a : ext_ltb NaN a = false. Proof. reflexivity. Qed.
Lemma ext_ltb_nan_r a : ext_ltb a NaN = false. Proof. destruct a; reflexivity. Qed.

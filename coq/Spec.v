(* Spec.v — the specification vocabulary shared by the property theorems:
   class invariants and the function a spline denotes.  Definitions only.

   Notation of DESIGN.md section 7: for a grid g, interval k is [g_k, g_{k+1}],
   mid k its midpoint; [piece s k] is the coefficient list stored for absolute
   interval k ([] if k is not an interval of the support) and
   [den s k x] = peval (piece s k) (x - mid k) is the function the spline
   denotes on interval k, as a polynomial function of all x. *)
From Coq Require Import List NArith Arith Bool.
From BSpl Require Import Scalar Outcome Support Poly Spline Proofs_Support.
Import ListNotations.
Local Open Scope N_scope.

Section Spec.
  Context {F : Type} {K : Ops F}.

  (* strictly increasing, pointwise form *)
  Definition increasing (l : list F) : Prop :=
    forall i a b, nth_error l i = Some a -> nth_error l (S i) = Some b -> fltb a b = true.

  (* class invariant of Grid (plus the size bound of any real vector) *)
  Definition GInv (g : list F) : Prop :=
    2 <= nlen g /\ nlen g < 2 ^ 63 /\ increasing g.

  (* number of intervals of a valid window, without wrap-around *)
  Definition nintervals (s : support F) : N :=
    if sstop s - sstart s =? 0 then 0 else sstop s - sstart s - 1.

  (* class invariant of Spline: valid support on a valid grid, one coefficient
     array of length order+1 per interval *)
  Definition SplInv (s : spline F) : Prop :=
    SInv (ssup s) /\ GInv (sgrid (ssup s)) /\
    nlen (scoefs s) = nintervals (ssup s) /\
    Forall (fun c => length c = (sord s + 1)%nat) (scoefs s).

  (* k is an interval of the support *)
  Definition imem (k : N) (s : support F) : Prop := sstart s <= k /\ k + 1 < sstop s.

  Definition gnth (g : list F) (k : N) : F := nth (N.to_nat k) g f0.
  Definition mid (g : list F) (k : N) : F := ((gnth g k + gnth g (k + 1)) / f2)%F.
  Definition halfwidth (g : list F) (k : N) : F := ((gnth g (k + 1) - gnth g k) / f2)%F.

  Definition piece (s : spline F) (k : N) : list F :=
    if (sstart (ssup s) <=? k) && (k + 1 <? sstop (ssup s))
    then nth (N.to_nat (k - sstart (ssup s))) (scoefs s) []
    else [].

  Definition den (s : spline F) (k : N) (x : F) : F :=
    peval (piece s k) (x - mid (sgrid (ssup s)) k)%F.

  Definition sgridp (s : spline F) : list F := sgrid (ssup s).

  (* the absolute indices of the intervals of a window, in increasing order *)
  Definition interval_list (s : support F) : list N :=
    map (fun i => sstart s + i) (nrange (nintervals s)).

  (* left-to-right sum, as the accumulation loops of the library run *)
  Definition fsum (f : N -> F) (l : list N) : F :=
    fold_left (fun acc k => (acc + f k)%F) l f0.

  (* sum_i c_i * f_i, right fold *)
  Fixpoint lincomb_val (cs : list F) (fs : list F) : F :=
    match cs, fs with
    | c :: cs', v :: fs' => (c * v + lincomb_val cs' fs')%F
    | _, _ => f0
    end.
End Spec.

(* Properties_C01_P.v — C01_P: the B-spline generator, as compiled, path by path.  See
   Properties_C02_P.v for the technique (gen/symops2.py, cpp/symops2.cpp, coq/gen/PathGen_gen.v,
   coq/Proofs_PathTac.v): each statement has the path condition of one concolic run of
   generateBSplines<p>(knots) on a symbolic knot vector as its hypotheses - the comparisons of
   std::unique, of Grid's monotonicity check, of generateZerothOrderSplines (knot against next knot,
   findElement's bisection) and of the guards xi+k-1 > xi, xi+k > xi+1 of the recursion - and says that
   the model's generate_bsplines returns the list of splines the compiled code returned (grid, windows
   and every coefficient, as field identities; a division by a knot difference is treated as a
   multiplication by the atom 1/(difference)), or throws the same error code, on every knot vector that
   takes that path; each comes with an instance at the exact rationals the run used.
   A repeated knot is stated with two variables and the hypothesis that they compared equal; the proof
   replaces one by the other (std::unique keeps the first knot of a run of equal ones, the model's
   [unique] the last: the grids are equal, not identical, without that step).
   The unbounded statements about the model are in Properties_C01.v.
   Statements only: every theorem is closed by [exact]. *)
From BSpl Require Import Scalar Outcome Support Poly Spline Ops Generator Proofs_PathTac.
From BSpl.gen Require Import PathGen_gen.

(* p = 0: three simple knots, a repeated inner knot, a descending pair (INCONSISTENT_DATA from the grid);
   p = 1: three and four simple knots, a repeated first / inner / last knot, a single knot (MISSING_DATA);
   p = 2: four simple knots, a repeated first knot, five knots with a repeated inner knot, a triple first
   knot, four equal knots (MISSING_DATA), a descending pair (INCONSISTENT_DATA) *)
Theorem C01_P_generator_as_compiled : paths_gen_agree.
Proof. exact paths_gen_agree_ok. Qed.
Print Assumptions C01_P_generator_as_compiled.

(* Proofs_Poly.v — facts about the list-polynomial model of Poly.v:
   ring-level operations against Horner evaluation [peval], the formal
   derivative [pderiv]/[pderivn] (linearity, Leibniz, D X = 1), Derivative<n>::transform,
   the antiderivative and the definite integral over [-h,h]. *)
From Coq Require Import List Arith Bool Lia Field Ring.
From BSpl Require Import ListAux Scalar Outcome Support Poly Spline Ops Proofs_Scalar.
Import ListNotations.
Local Open Scope F_scope.

Section PolyFacts.
  Context {F : Type} {K : Ops F} {L : Laws K}.
  Add Field Ffpoly : (@Fth F K L).

  (* ------------------------------------------------------------------ *)
  (* Group 1: ring level                                                 *)
  (* ------------------------------------------------------------------ *)

  Lemma peval_nil (u : F) : peval [] u = f0.
  Proof. reflexivity. Qed.

  Lemma peval_cons (a : F) p u : peval (a :: p) u = a + u * peval p u.
  Proof. reflexivity. Qed.

  Lemma length_padd (p q : list F) : length (padd p q) = Nat.max (length p) (length q).
  Proof.
    revert q; induction p as [|a p IH]; intros [|b q]; cbn [padd length Nat.max]; auto.
  Qed.

  Lemma peval_padd (p q : list F) u : peval (padd p q) u = peval p u + peval q u.
  Proof.
    revert q; induction p as [|a p IH]; intros [|b q]; cbn [padd peval]; try rewrite IH; ring.
  Qed.

  Lemma nth_padd (p q : list F) i : nth i (padd p q) f0 = nth i p f0 + nth i q f0.
  Proof.
    revert q i; induction p as [|a p IH]; intros [|b q] [|i]; cbn [padd nth]; try ring.
    apply IH.
  Qed.

  Lemma length_arr_add (a b : list F) : length (arr_add a b) = Nat.max (length a) (length b).
  Proof.
    unfold arr_add. destruct (length a <? length b)%nat; rewrite length_padd; lia.
  Qed.

  Lemma peval_arr_add (a b : list F) u : peval (arr_add a b) u = peval a u + peval b u.
  Proof.
    unfold arr_add. destruct (length a <? length b)%nat; rewrite peval_padd; ring.
  Qed.

  Lemma nth_arr_add (a b : list F) i : nth i (arr_add a b) f0 = nth i a f0 + nth i b f0.
  Proof.
    unfold arr_add. destruct (length a <? length b)%nat; rewrite nth_padd; ring.
  Qed.

  Lemma length_change_size n (p : list F) : (length p <= n)%nat -> length (change_size n p) = n.
  Proof.
    intros H. unfold change_size. rewrite app_length, repeat_length. lia.
  Qed.

  Lemma peval_app (p q : list F) u : peval (p ++ q) u = peval p u + fpow u (length p) * peval q u.
  Proof.
    induction p as [|a p IH]; cbn [app peval length fpow]; try rewrite IH; ring.
  Qed.

  Lemma peval_repeat0 n (u : F) : peval (repeat f0 n) u = f0.
  Proof.
    induction n as [|n IH]; cbn [repeat peval]; try rewrite IH; ring.
  Qed.

  Lemma peval_make_array0 n (u : F) : peval (make_array n f0) u = f0.
  Proof. unfold make_array. apply peval_repeat0. Qed.

  Lemma nth_repeat0 n i : nth i (repeat (@f0 F K) n) f0 = f0.
  Proof.
    revert i; induction n as [|n IH]; intros [|i]; cbn [repeat nth]; auto.
  Qed.

  Lemma peval_change_size n (p : list F) u : peval (change_size n p) u = peval p u.
  Proof.
    unfold change_size. rewrite peval_app, peval_repeat0. ring.
  Qed.

  Lemma nth_change_size n (p : list F) i : nth i (change_size n p) f0 = nth i p f0.
  Proof.
    unfold change_size. destruct (Nat.lt_ge_cases i (length p)) as [H|H].
    - apply app_nth1. exact H.
    - rewrite app_nth2 by exact H. rewrite nth_repeat0. symmetry. apply nth_overflow. exact H.
  Qed.

  Lemma length_pscale c (p : list F) : length (pscale c p) = length p.
  Proof. unfold pscale. apply map_length. Qed.

  Lemma length_pscale_l c (p : list F) : length (pscale_l c p) = length p.
  Proof. unfold pscale_l. apply map_length. Qed.

  Lemma length_pneg (p : list F) : length (pneg p) = length p.
  Proof. unfold pneg. apply map_length. Qed.

  Lemma peval_pscale c (p : list F) u : peval (pscale c p) u = peval p u * c.
  Proof.
    unfold pscale. induction p as [|a p IH]; cbn [map peval]; try rewrite IH; ring.
  Qed.

  Lemma peval_pscale_l c (p : list F) u : peval (pscale_l c p) u = c * peval p u.
  Proof.
    unfold pscale_l. induction p as [|a p IH]; cbn [map peval]; try rewrite IH; ring.
  Qed.

  Lemma pneg_pscale (p : list F) : pneg p = pscale fm1 p.
  Proof. reflexivity. Qed.

  Lemma peval_pneg (p : list F) u : peval (pneg p) u = - peval p u.
  Proof.
    rewrite pneg_pscale, peval_pscale, fm1_eq. ring.
  Qed.

  Lemma nth_pscale c (p : list F) i : nth i (pscale c p) f0 = nth i p f0 * c.
  Proof.
    unfold pscale. revert i; induction p as [|a p IH]; intros [|i]; cbn [map nth]; try ring.
    apply IH.
  Qed.

  Lemma nth_pscale_l c (p : list F) i : nth i (pscale_l c p) f0 = c * nth i p f0.
  Proof.
    unfold pscale_l. revert i; induction p as [|a p IH]; intros [|i]; cbn [map nth]; try ring.
    apply IH.
  Qed.

  Lemma nth_pneg (p : list F) i : nth i (pneg p) f0 = - nth i p f0.
  Proof.
    rewrite pneg_pscale, nth_pscale, fm1_eq. ring.
  Qed.

  Lemma pmul_nil (q : list F) : pmul [] q = [].
  Proof. reflexivity. Qed.

  Lemma pmul_single (a : F) q : pmul [a] q = pscale_l a q.
  Proof. reflexivity. Qed.

  Lemma pmul_cons2 (a b : F) p q :
    pmul (a :: b :: p) q = padd (pscale_l a q) (f0 :: pmul (b :: p) q).
  Proof. reflexivity. Qed.

  Lemma length_pmul (p q : list F) :
    p <> [] -> q <> [] -> length (pmul p q) = (length p + length q - 1)%nat.
  Proof.
    intros Hp Hq. induction p as [|a p IH]; [contradiction|].
    destruct p as [|b p].
    - rewrite pmul_single, length_pscale_l. cbn [length]. lia.
    - rewrite pmul_cons2, length_padd, length_pscale_l.
      cbn [length] in *. rewrite IH by discriminate.
      destruct q as [|c q]; [contradiction|]. cbn [length]. lia.
  Qed.

  Lemma peval_pmul (p q : list F) u : peval (pmul p q) u = peval p u * peval q u.
  Proof.
    induction p as [|a p IH].
    - rewrite pmul_nil, !peval_nil. ring.
    - destruct p as [|b p].
      + rewrite pmul_single, peval_pscale_l, peval_cons, peval_nil. ring.
      + rewrite pmul_cons2, peval_padd, peval_pscale_l, peval_cons, IH.
        rewrite (peval_cons a). ring.
  Qed.

  Lemma fold_horner_rev (l : list F) acc dx :
    fold_left (fun res it => dx * res + it) (rev l) acc = peval (l ++ [acc]) dx.
  Proof.
    induction l as [|a l IH].
    - cbn [rev fold_left app peval]. ring.
    - cbn [rev app]. rewrite fold_left_app. cbn [fold_left]. rewrite IH, peval_cons. ring.
  Qed.

  Lemma eval_interval_spec x (c : list F) xm :
    c <> [] -> eval_interval x c xm = Ok (peval c (x - xm)).
  Proof.
    intros Hc. unfold eval_interval.
    destruct (rev c) as [|cl r] eqn:E.
    - exfalso. apply Hc. rewrite <- (rev_involutive c), E. reflexivity.
    - f_equal. assert (c = rev r ++ [cl]) as ->.
      { rewrite <- (rev_involutive c), E. reflexivity. }
      rewrite <- fold_horner_rev, rev_involutive. reflexivity.
  Qed.

  Lemma peval_all0 (p : list F) u : (forall i, nth i p f0 = f0) -> peval p u = f0.
  Proof.
    induction p as [|a p IH]; intros H; [reflexivity|].
    rewrite peval_cons, IH.
    - pose proof (H 0%nat) as H0. cbn [nth] in H0. rewrite H0. ring.
    - intros i. exact (H (S i)).
  Qed.

  Lemma peval_ext_nth (p q : list F) :
    (forall i, nth i p f0 = nth i q f0) -> forall u, peval p u = peval q u.
  Proof.
    revert q; induction p as [|a p IH]; intros q H u.
    - symmetry. rewrite peval_nil. apply peval_all0. intros i. rewrite <- H. destruct i; reflexivity.
    - destruct q as [|b q].
      + rewrite peval_nil. apply peval_all0. intros i. rewrite H. destruct i; reflexivity.
      + rewrite !peval_cons. pose proof (H 0%nat) as H0. cbn [nth] in H0. rewrite H0.
        rewrite (IH q); [reflexivity|]. intros i. exact (H (S i)).
  Qed.

  Lemma padd_nil_r (p : list F) : padd p [] = p.
  Proof. destruct p; reflexivity. Qed.

  Lemma pscale_l_padd c (p q : list F) :
    pscale_l c (padd p q) = padd (pscale_l c p) (pscale_l c q).
  Proof.
    unfold pscale_l. revert q; induction p as [|a p IH]; intros [|b q]; cbn [padd map]; try reflexivity.
    rewrite IH. f_equal. ring.
  Qed.

  (* ------------------------------------------------------------------ *)
  (* Group 2: formal derivative                                          *)
  (* ------------------------------------------------------------------ *)

  Lemma length_pderiv_from i (p : list F) : length (pderiv_from i p) = length p.
  Proof.
    revert i; induction p as [|a p IH]; intros i; cbn [pderiv_from length]; auto.
  Qed.

  Lemma nth_pderiv_from i (p : list F) k :
    nth k (pderiv_from i p) f0 = fofnat (i + k) * nth k p f0.
  Proof.
    revert i k; induction p as [|a p IH]; intros i [|k]; cbn [pderiv_from nth]; try ring.
    - rewrite Nat.add_0_r. reflexivity.
    - rewrite IH. rewrite Nat.add_succ_r. reflexivity.
  Qed.

  Lemma length_pderiv (p : list F) : length (pderiv p) = (length p - 1)%nat.
  Proof.
    destruct p as [|a p]; cbn [pderiv length]; [reflexivity|].
    rewrite length_pderiv_from. lia.
  Qed.

  Lemma nth_pderiv (p : list F) i : nth i (pderiv p) f0 = fofnat (S i) * nth (S i) p f0.
  Proof.
    destruct p as [|a p]; cbn [pderiv].
    - destruct i; cbn [nth]; ring.
    - rewrite nth_pderiv_from. reflexivity.
  Qed.

  Lemma peval_pderiv_padd (p q : list F) u :
    peval (pderiv (padd p q)) u = peval (pderiv p) u + peval (pderiv q) u.
  Proof.
    rewrite <- peval_padd. apply peval_ext_nth. intros i.
    rewrite nth_padd, !nth_pderiv, nth_padd. ring.
  Qed.

  Lemma peval_pderiv_pscale_l c (p : list F) u :
    peval (pderiv (pscale_l c p)) u = c * peval (pderiv p) u.
  Proof.
    rewrite <- peval_pscale_l. apply peval_ext_nth. intros i.
    rewrite nth_pscale_l, !nth_pderiv, nth_pscale_l. ring.
  Qed.

  Lemma peval_pderiv_from_S i (p : list F) u :
    peval (pderiv_from (S i) p) u = peval (pderiv_from i p) u + peval p u.
  Proof.
    revert i; induction p as [|a p IH]; intros i; cbn [pderiv_from peval].
    - ring.
    - rewrite (IH (S i)), fofnat_S. ring.
  Qed.

  Lemma peval_pderiv_from_0 (p : list F) u :
    peval (pderiv_from 0 p) u = u * peval (pderiv p) u.
  Proof.
    destruct p as [|a p]; cbn [pderiv_from pderiv peval]; [ring|].
    rewrite fofnat_0. ring.
  Qed.

  (* D (a + X p) = p + X D p *)
  Lemma peval_pderiv_cons (a : F) p u :
    peval (pderiv (a :: p)) u = peval p u + u * peval (pderiv p) u.
  Proof.
    cbn [pderiv]. rewrite peval_pderiv_from_S, peval_pderiv_from_0. ring.
  Qed.

  Lemma peval_pderiv_pmul (p q : list F) u :
    peval (pderiv (pmul p q)) u
    = peval (pderiv p) u * peval q u + peval p u * peval (pderiv q) u.
  Proof.
    induction p as [|a p IH].
    - rewrite pmul_nil. cbn [pderiv peval]. ring.
    - destruct p as [|b p].
      + rewrite pmul_single, peval_pderiv_pscale_l. cbn [pderiv pderiv_from peval]. ring.
      + rewrite pmul_cons2, peval_pderiv_padd, peval_pderiv_pscale_l.
        rewrite (peval_pderiv_cons f0), IH, peval_pmul.
        rewrite (peval_pderiv_cons a), (peval_cons a). ring.
  Qed.

  Lemma pderiv_const (a : F) : pderiv [a] = [].
  Proof. reflexivity. Qed.

  Lemma peval_pderiv_X (u : F) : peval (pderiv [f0; f1]) u = f1.
  Proof.
    cbn [pderiv pderiv_from peval]. rewrite fofnat_1. ring.
  Qed.

  Lemma length_pderivn n (p : list F) : length (pderivn n p) = (length p - n)%nat.
  Proof.
    revert p; induction n as [|n IH]; intros p; cbn [pderivn].
    - lia.
    - rewrite IH, length_pderiv. lia.
  Qed.

  Lemma prod_range_empty lo hi : (hi < lo)%nat -> prod_range lo hi = f1 :> F.
  Proof.
    intros H. unfold prod_range. replace (S hi - lo)%nat with 0%nat by lia. reflexivity.
  Qed.

  Lemma prod_range_S lo hi :
    (lo <= S hi)%nat -> prod_range lo (S hi) = prod_range lo hi * fofnat (S hi) :> F.
  Proof.
    intros H. unfold prod_range.
    replace (S (S hi) - lo)%nat with (S (S hi - lo)) by lia.
    rewrite seq_S, fold_left_app. cbn [fold_left].
    replace (lo + (S hi - lo))%nat with (S hi) by lia. reflexivity.
  Qed.

  Lemma faculty_ratio_ge c d : (d <= c)%nat -> faculty_ratio c d = prod_range (d + 1) c :> F.
  Proof.
    intros H. unfold faculty_ratio. destruct (Nat.ltb_spec c d) as [H'|H']; [lia|reflexivity].
  Qed.

  Lemma faculty_ratio_same i : faculty_ratio i i = f1 :> F.
  Proof. rewrite faculty_ratio_ge by lia. apply prod_range_empty. lia. Qed.

  Lemma faculty_ratio_S i n :
    faculty_ratio (i + S n) i = faculty_ratio (i + n) i * fofnat (S (i + n)) :> F.
  Proof.
    rewrite !faculty_ratio_ge by lia.
    replace (i + S n)%nat with (S (i + n)) by lia. apply prod_range_S. lia.
  Qed.

  Lemma nth_pderivn n (p : list F) i :
    nth i (pderivn n p) f0 = faculty_ratio (i + n) i * nth (i + n) p f0.
  Proof.
    revert p; induction n as [|n IH]; intros p; cbn [pderivn].
    - rewrite Nat.add_0_r, faculty_ratio_same. ring.
    - rewrite IH, nth_pderiv, faculty_ratio_S, Nat.add_succ_r. ring.
  Qed.

  Lemma oseq_map_seq_ok {A} (f : nat -> outcome A) (l : list A) s :
    (forall i a, nth_error l i = Some a -> f (s + i)%nat = Ok a) ->
    omapM f (seq s (length l)) = Ok l.
  Proof.
    unfold omapM. revert s; induction l as [|a l IH]; intros s H; cbn [length seq map oseq].
    - reflexivity.
    - pose proof (H 0%nat a eq_refl) as H0. rewrite Nat.add_0_r in H0. rewrite H0.
      cbn [bind]. rewrite IH; [reflexivity|].
      intros i b Hb. rewrite Nat.add_succ_l, <- Nat.add_succ_r. apply H. exact Hb.
  Qed.

  Lemma omapM_ok_ext {A B} (f g : A -> outcome B) (l : list A) :
    (forall a, In a l -> f a = g a) -> omapM f l = omapM g l.
  Proof.
    intros H. unfold omapM. f_equal. apply map_ext_in. exact H.
  Qed.

  Lemma sub_ok {A} (l : list A) i d : (i < length l)%nat -> sub l i = Ok (nth i l d).
  Proof.
    intros H. unfold sub. rewrite (nth_error_nth' l d H). reflexivity.
  Qed.

  Lemma der_transform_spec n (input : list F) :
    input <> [] ->
    der_transform n input
    = Ok (if (length input - 1 <? n)%nat then [f0] else pderivn n input).
  Proof.
    intros Hne. unfold der_transform.
    destruct (Nat.ltb_spec (length input - 1) n) as [H|H]; [reflexivity|].
    assert (0 < length input)%nat as Hlen.
    { destruct input; [contradiction|cbn [length]; lia]. }
    replace (Nat.max n (length input - 1) - n + 1)%nat with (length (pderivn n input))
      by (rewrite length_pderivn; lia).
    apply oseq_map_seq_ok. intros i a Ha. cbn [Nat.add].
    assert (i < length (pderivn n input))%nat as Hi.
    { apply nth_error_Some. congruence. }
    rewrite length_pderivn in Hi.
    rewrite (sub_ok input (i + n) f0) by lia. cbn [bind].
    f_equal. rewrite <- nth_pderivn.
    apply (nth_error_nth _ _ f0) in Ha. exact Ha.
  Qed.

  (* ------------------------------------------------------------------ *)
  (* Group 3: antiderivative and definite integral over [-h, h]          *)
  (* ------------------------------------------------------------------ *)

  Lemma length_antideriv_from i (p : list F) : length (antideriv_from i p) = length p.
  Proof.
    revert i; induction p as [|a p IH]; intros i; cbn [antideriv_from length]; auto.
  Qed.

  Lemma length_antideriv (p : list F) : length (antideriv p) = S (length p).
  Proof. unfold antideriv. cbn [length]. rewrite length_antideriv_from. reflexivity. Qed.

  Lemma pderiv_from_antideriv_from i (p : list F) :
    pderiv_from (S i) (antideriv_from (S i) p) = p.
  Proof.
    revert i; induction p as [|a p IH]; intros i; cbn [antideriv_from pderiv_from]; [reflexivity|].
    rewrite IH. f_equal. field. apply fofnat_S_neq0.
  Qed.

  Lemma pderiv_antideriv (p : list F) : pderiv (antideriv p) = p.
  Proof. unfold antideriv. cbn [pderiv]. apply pderiv_from_antideriv_from. Qed.

  Lemma antideriv_from_padd i (p q : list F) :
    antideriv_from (S i) (padd p q)
    = padd (antideriv_from (S i) p) (antideriv_from (S i) q).
  Proof.
    revert i q; induction p as [|a p IH]; intros i [|b q]; cbn [padd antideriv_from]; try reflexivity.
    rewrite IH. f_equal. field. apply fofnat_S_neq0.
  Qed.

  Lemma antideriv_from_pscale_l i c (p : list F) :
    antideriv_from (S i) (pscale_l c p) = pscale_l c (antideriv_from (S i) p).
  Proof.
    unfold pscale_l. revert i; induction p as [|a p IH]; intros i; cbn [map antideriv_from]; [reflexivity|].
    rewrite IH. f_equal. field. apply fofnat_S_neq0.
  Qed.

  Lemma nth_antideriv_from i (p : list F) k :
    nth k (antideriv_from (S i) p) f0 = nth k p f0 / fofnat (S i + k).
  Proof.
    revert i k; induction p as [|a p IH]; intros i [|k]; cbn [antideriv_from nth].
    - field. apply fofnat_S_neq0.
    - field. apply (fofnat_S_neq0 (i + S k)).
    - rewrite Nat.add_0_r. reflexivity.
    - rewrite IH. replace (S i + S k)%nat with (S (S i) + k)%nat by lia. reflexivity.
  Qed.

  Lemma nth_antideriv_0 (p : list F) : nth 0 (antideriv p) f0 = f0.
  Proof. reflexivity. Qed.

  Lemma nth_antideriv_S (p : list F) k :
    nth (S k) (antideriv p) f0 = nth k p f0 / fofnat (S k).
  Proof. unfold antideriv. cbn [nth]. apply nth_antideriv_from. Qed.

  Lemma peval_antideriv_padd (p q : list F) u :
    peval (antideriv (padd p q)) u = peval (antideriv p) u + peval (antideriv q) u.
  Proof.
    unfold antideriv. rewrite !peval_cons, antideriv_from_padd, peval_padd. ring.
  Qed.

  Lemma peval_antideriv_pscale_l c (p : list F) u :
    peval (antideriv (pscale_l c p)) u = c * peval (antideriv p) u.
  Proof.
    unfold antideriv. rewrite !peval_cons, antideriv_from_pscale_l, peval_pscale_l. ring.
  Qed.

  Lemma peval_antideriv_ext_nth (p q : list F) :
    (forall i, nth i p f0 = nth i q f0) ->
    forall u, peval (antideriv p) u = peval (antideriv q) u.
  Proof.
    intros H. apply peval_ext_nth. intros [|k]; [reflexivity|].
    rewrite !nth_antideriv_S, H. reflexivity.
  Qed.

  Lemma defint_padd (p q : list F) h : defint (padd p q) h = defint p h + defint q h.
  Proof. unfold defint. rewrite !peval_antideriv_padd. ring. Qed.

  Lemma defint_pscale_l c (p : list F) h : defint (pscale_l c p) h = c * defint p h.
  Proof. unfold defint. rewrite !peval_antideriv_pscale_l. ring. Qed.

  Lemma defint_ext_nth (p q : list F) h :
    (forall i, nth i p f0 = nth i q f0) -> defint p h = defint q h.
  Proof.
    intros H. unfold defint.
    rewrite (peval_antideriv_ext_nth p q H h), (peval_antideriv_ext_nth p q H (- h)). reflexivity.
  Qed.

  Lemma defint_nil (h : F) : defint [] h = f0.
  Proof. unfold defint, antideriv. cbn [antideriv_from peval]. ring. Qed.

End PolyFacts.

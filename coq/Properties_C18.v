(* Properties_C18.v — C18: concurrent read-only use is race-free and deterministic.
   Statements only: every theorem is closed by [exact <lemma>] and followed by
   Print Assumptions.  The statements quantify over every scalar structure
   (F, K : Ops F) that satisfies the ordered-field laws (Laws K), and over all
   grids, windows, orders, coefficient values, expressions etc. named in them.
   PARTIAL: the operation-level theorem.  Threads own disjoint sets of slots and may read shared
   slots that nobody writes (the C++ const discipline, op_allowed).  Under EVERY interleaving of
   whole operations each thread obtains exactly the results, and leaves its own objects in exactly
   the state, of running its operation list alone; shared objects never change.  The step from
   operation-level atomicity to real interleavings is data-race freedom of the shared locations:
   the inventory of such locations is regenerated from the headers on every run and must be fully
   classified (C18_shared_inventory_safe).  Races inside one operation cannot be exhibited by the
   model; ThreadSanitizer runs look for them. *)
From Coq Require Import List NArith ZArith Arith Bool.
From BSpl Require Import Scalar Outcome Support Poly Spline Ops Forms Generator Interp Spec Spec_Ops Spec_Gen Proofs_Support Proofs_Scalar Proofs_Poly Proofs_Binom Proofs_Eval Proofs_Outcome Proofs_Spline Proofs_Forms Proofs_Ops Proofs_Forms2 Proofs_Interp Proofs_Pred Proofs_Gen Instances Instances_Ext Proofs_Valid Solver Pool Quad Proofs_Pool Proofs_Quad Proofs_Rounded Proofs_Threads Proofs_Updates Examples Proofs_Examples Proofs_Analysis Proofs_Smooth Proofs_Laws Proofs_Shared.
Import ListNotations.


Theorem C18_interleave_deterministic :
    forall (F : Type) (K : Ops F) (solver : nat -> list (row F) -> list F) (own : owner) 
             (s : sched) (st : state F) (t : tid),
           sched_ok own s ->
           outs t (snd (run_sched solver st s)) = snd (run solver st (proj t s)) /\
           (forall i : nat,
            own i = Some t -> lookup (fst (run_sched solver st s)) i = lookup (fst (run solver st (proj t s))) i).
Proof. exact (@Proofs_Threads.interleave_deterministic). Qed.

Theorem C18_schedule_independent :
    forall (F : Type) (K : Ops F) (solver : nat -> list (row F) -> list F) (own : owner) 
             (s s' : sched) (st : state F) (t : tid),
           sched_ok own s ->
           sched_ok own s' ->
           proj t s = proj t s' -> outs t (snd (run_sched solver st s)) = outs t (snd (run_sched solver st s')).
Proof. exact (@Proofs_Threads.schedule_independent). Qed.

Theorem C18_schedule_independent_state :
    forall (F : Type) (K : Ops F) (solver : nat -> list (row F) -> list F) (own : owner) 
             (s s' : sched) (st : state F) (t : tid) (i : nat),
           sched_ok own s ->
           sched_ok own s' ->
           proj t s = proj t s' ->
           own i = Some t \/ own i = None ->
           lookup (fst (run_sched solver st s)) i = lookup (fst (run_sched solver st s')) i.
Proof. exact (@Proofs_Threads.schedule_independent_state). Qed.

Theorem C18_shared_never_change :
    forall (F : Type) (K : Ops F) (solver : nat -> list (row F) -> list F) (own : owner) 
             (s : sched) (st : state F) (i : nat),
           sched_ok own s -> own i = None -> lookup (fst (run_sched solver st s)) i = lookup st i.
Proof. exact (@Proofs_Threads.shared_never_change). Qed.

Theorem C18_result_depends_on_reads_only :
    forall (F : Type) (K : Ops F) (solver : nat -> list (row F) -> list F) (st st' : state F) (o : op F),
           (forall i : nat, In i (reads o) -> lookup st i = lookup st' i) ->
           eval_op solver st o = eval_op solver st' o.
Proof. exact (@Proofs_Threads.eval_op_reads). Qed.

Theorem C18_only_owner_changes_owned :
    forall (F : Type) (K : Ops F) (solver : nat -> list (row F) -> list F) (own : owner) 
             (s : sched) (st : state F) (t : tid) (i : nat),
           sched_ok own s ->
           own i = Some t -> proj t s = [] -> lookup (fst (run_sched solver st s)) i = lookup st i.
Proof. exact (@Proofs_Threads.owned_only_changed_by_owner). Qed.

Theorem C18_discipline_needed :
    proj 1 thr_bad1 = proj 1 thr_bad2 /\
           proj 2 thr_bad1 = proj 2 thr_bad2 /\
           outs 1 (snd (run_sched gauss_solve thr_init thr_bad1)) <>
           outs 1 (snd (run_sched gauss_solve thr_init thr_bad2)) /\ ~ sched_ok thr_own thr_bad1.
Proof. exact (@Proofs_Threads.thr_discipline_needed). Qed.

Theorem C18_shared_inventory_safe :
    forallb shared_covered Shared.shared_sites = true.
Proof. exact (@Proofs_Shared.shared_inventory_safe). Qed.


Print Assumptions C18_interleave_deterministic.
Print Assumptions C18_schedule_independent.
Print Assumptions C18_schedule_independent_state.
Print Assumptions C18_shared_never_change.
Print Assumptions C18_result_depends_on_reads_only.
Print Assumptions C18_only_owner_changes_owned.
Print Assumptions C18_discipline_needed.
Print Assumptions C18_shared_inventory_safe.

(* Properties_C02.v — C02: evaluation returns the value of the stored piecewise polynomial.
   Statements only: every theorem is closed by [exact <lemma>] and followed by
   Print Assumptions.  The statements quantify over every scalar structure
   (F, K : Ops F) that satisfies the ordered-field laws (Laws K), and over all
   grids, windows, orders, coefficient values, expressions etc. named in them.
   den s k x = peval (piece s k) (x - mid k) is the polynomial stored for grid interval k.
   Zero outside the closed support; inside, the value of the piece whose interval contains x
   (left piece at an interior grid point, first piece at the first point); both ends inside;
   front/back are the end points and throw INVALID_ACCESS for the empty support; never UB. *)
From Coq Require Import List NArith ZArith Arith Bool.
From BSpl Require Import Scalar Outcome Support Poly Spline Ops Forms Generator Interp Spec Spec_Ops Spec_Gen Proofs_Support Proofs_Scalar Proofs_Poly Proofs_Binom Proofs_Eval Proofs_Outcome Proofs_Spline Proofs_Forms Proofs_Ops Proofs_Forms2 Proofs_Interp Proofs_Pred Proofs_Gen Instances Instances_Ext Proofs_Valid Solver Pool Quad Proofs_Pool Proofs_Quad Proofs_Rounded Proofs_Threads Proofs_Updates Examples Proofs_Examples Proofs_Analysis Proofs_Smooth Proofs_Laws.
Import ListNotations.


Theorem C02_no_interval :
    forall (F : Type) (K : Ops F) (s : spline F) (x : F),
           SplInv s -> (sstop (ssup s) - sstart (ssup s) < 2)%N -> spl_eval s x = Ok f0.
Proof. exact (@Proofs_Eval.seval_no_interval). Qed.

Theorem C02_outside :
    forall (F : Type) (K : Ops F),
           Laws K ->
           forall (s : spline F) (x : F),
           SplInv s ->
           (2 <= sstop (ssup s) - sstart (ssup s))%N ->
           fltb x (gnth (sgrid (ssup s)) (sstart (ssup s))) = true \/
           fltb (gnth (sgrid (ssup s)) (sstop (ssup s) - 1)) x = true -> spl_eval s x = Ok f0.
Proof. exact (@Proofs_Eval.seval_outside). Qed.

Theorem C02_inside :
    forall (F : Type) (K : Ops F),
           Laws K ->
           forall (s : spline F) (x : F) (k : N),
           SplInv s ->
           imem k (ssup s) ->
           fltb (gnth (sgrid (ssup s)) k) x = true /\ fleb x (gnth (sgrid (ssup s)) (k + 1)) = true \/
           k = sstart (ssup s) /\ x = gnth (sgrid (ssup s)) k -> spl_eval s x = Ok (den s k x).
Proof. exact (@Proofs_Eval.seval_inside). Qed.

Theorem C02_zero_or_adjacent_piece :
    forall (F : Type) (K : Ops F),
           Laws K ->
           forall (s : spline F) (x : F),
           SplInv s ->
           spl_eval s x = Ok f0 \/
           (exists k : N,
              imem k (ssup s) /\
              fleb (gnth (sgrid (ssup s)) k) x = true /\
              fleb x (gnth (sgrid (ssup s)) (k + 1)) = true /\ spl_eval s x = Ok (den s k x)).
Proof. exact (@Proofs_Eval.seval_cases). Qed.

Theorem C02_total :
    forall (F : Type) (K : Ops F),
           Laws K -> forall (s : spline F) (x : F), SplInv s -> exists v : F, spl_eval s x = Ok v.
Proof. exact (@Proofs_Eval.seval_total). Qed.

Theorem C02_front :
    forall (F : Type) (K : Ops F) (s : spline F),
           SplInv s ->
           spl_front s =
           (if (sstart (ssup s) =? sstop (ssup s))%N
            then Throw INVALID_ACCESS
            else Ok (gnth (sgrid (ssup s)) (sstart (ssup s)))).
Proof. exact (@Proofs_Eval.spl_front_spec). Qed.

Theorem C02_back :
    forall (F : Type) (K : Ops F) (s : spline F),
           SplInv s ->
           spl_back s =
           (if (sstart (ssup s) =? sstop (ssup s))%N
            then Throw INVALID_ACCESS
            else Ok (gnth (sgrid (ssup s)) (sstop (ssup s) - 1))).
Proof. exact (@Proofs_Eval.spl_back_spec). Qed.

Theorem C02_den_outside :
    forall (F : Type) (K : Ops F) (s : spline F) (k : N) (x : F), ~ imem k (ssup s) -> den s k x = f0.
Proof. exact (@Proofs_Eval.den_outside). Qed.

Theorem C02_lower_bound_contract :
    forall (F : Type) (K : Ops F),
           Laws K ->
           forall (l : list F) (x : F),
           increasing l ->
           (forall (i : nat) (a : F), i < lower_bound l x -> nth_error l i = Some a -> fltb a x = true) /\
           (forall (i : nat) (a : F), lower_bound l x <= i -> nth_error l i = Some a -> fltb a x = false) /\
           lower_bound l x <= length l.
Proof. exact (@Proofs_Eval.lower_bound_spec). Qed.


Print Assumptions C02_no_interval.
Print Assumptions C02_outside.
Print Assumptions C02_inside.
Print Assumptions C02_zero_or_adjacent_piece.
Print Assumptions C02_total.
Print Assumptions C02_front.
Print Assumptions C02_back.
Print Assumptions C02_den_outside.
Print Assumptions C02_lower_bound_contract.

(* Proofs_Pred.v — "predicates tell the truth":
   Spline::isZero is true exactly when the spline evaluates to zero everywhere;
   for splines on one grid Spline::checkOverlap is true exactly when the two
   supports share an interval (equivalently, when the product has an interval);
   Spline::operator== holds exactly between equal windows of equal grids with
   identical coefficients, and is an equivalence relation compatible with
   evaluation. *)
From Coq Require Import List Arith NArith ZArith Bool Lia ZifyBool ZifyN Field Ring.
From BSpl Require Import ListAux Scalar Outcome Support Poly Spline Spec
  Proofs_Support Proofs_Scalar Proofs_Outcome Proofs_Poly Proofs_Eval Proofs_Binom Proofs_Spline.
Import ListNotations.
Local Open Scope N_scope.

Ltac Zify.zify_post_hook ::= Z.div_mod_to_equations.

Section PredFacts.
  Context {F : Type} {K : Ops F} {L : Laws K}.
  Add Field Ffpred : (@Fth F K L).
  Implicit Types (s a b : spline F) (u : support F).

  (* ------------------------------------------------------------------ *)
  (* isZero                                                              *)
  (* ------------------------------------------------------------------ *)

  Lemma zero_coef_test (c : F) : negb (fneb c f0) = true <-> c = f0.
  Proof. rewrite negb_true_iff. apply fneb_false. Qed.

  Lemma forallb_zero (p : list F) :
    forallb (fun c => negb (fneb c f0)) p = true <-> Forall (fun c => c = f0) p.
  Proof.
    rewrite forallb_forall, Forall_forall.
    split; intros H x Hx; apply zero_coef_test; apply H; exact Hx.
  Qed.

  Lemma forallb_zero2 (cs : list (list F)) :
    forallb (fun p => forallb (fun c => negb (fneb c f0)) p) cs = true <->
    Forall (Forall (fun c => c = f0)) cs.
  Proof.
    rewrite forallb_forall, Forall_forall.
    split; intros H x Hx; apply forallb_zero; apply H; exact Hx.
  Qed.

  Lemma contains_intervals_nintervals u : SInv u ->
    contains_intervals u = negb (nintervals u =? 0).
  Proof.
    intros Hu. rewrite contains_intervals_spec by exact Hu.
    apply SInv_bounds in Hu. unfold nintervals.
    destruct (sstop u - sstart u =? 0) eqn:E; lia.
  Qed.

  Lemma nintervals_zero_iff u : SInv u -> nintervals u = 0 <-> sstop u - sstart u < 2.
  Proof.
    intros Hu. apply SInv_bounds in Hu. unfold nintervals.
    destruct (sstop u - sstart u =? 0) eqn:E; lia.
  Qed.

  Lemma is_zero_coeffs s : SplInv s ->
    (is_zero s = true <->
     (nintervals (ssup s) = 0%N \/ Forall (Forall (fun c => c = f0)) (scoefs s))).
  Proof.
    intros (Hs & _). unfold is_zero.
    rewrite contains_intervals_nintervals by exact Hs. rewrite negb_involutive.
    destruct (nintervals (ssup s) =? 0) eqn:E.
    - split; [intros _; left; lia | reflexivity].
    - rewrite forallb_zero2. split; [intros H; right; exact H|].
      intros [H|H]; [lia | exact H].
  Qed.

  Lemma NoDup_map_inj {A B} (f : A -> B) (l : list A) :
    (forall x y, f x = f y -> x = y) -> NoDup l -> NoDup (map f l).
  Proof.
    intros Hinj Hnd. induction Hnd as [|x l Hnotin Hnd IH]; cbn [map]; constructor.
    - intros Hin. apply in_map_iff in Hin as (y & Hy & Hin).
      apply Hinj in Hy. subst y. contradiction.
    - exact IH.
  Qed.

  (* the coefficient array stored for interval k, when k is an interval *)
  Lemma piece_In s k : SplInv s -> imem k (ssup s) -> In (piece s k) (scoefs s).
  Proof. intros Hi Hk. eapply nth_error_In. apply piece_nth; assumption. Qed.

  (* every stored coefficient array is the piece of some interval *)
  Lemma In_piece s (p : list F) : SplInv s -> In p (scoefs s) ->
    exists k, imem k (ssup s) /\ piece s k = p.
  Proof.
    intros Hi Hp. apply In_nth_error in Hp as [i Hp].
    assert (i < length (scoefs s))%nat as Hlt.
    { apply nth_error_Some. congruence. }
    pose proof Hi as (Hs & _ & Hn & _). unfold nlen in Hn.
    assert (N.of_nat i < nintervals (ssup s)) as Hi' by lia.
    pose proof (nintervals_imem _ _ Hi') as Hk.
    exists (sstart (ssup s) + N.of_nat i). split; [exact Hk|].
    pose proof (piece_nth s _ Hi Hk) as E.
    replace (N.to_nat (sstart (ssup s) + N.of_nat i - sstart (ssup s))) with i in E by lia.
    congruence.
  Qed.

  (* a stored polynomial that evaluates to zero throughout its interval is the
     zero coefficient array: it has order+1 coefficients and at least order+1
     distinct roots strictly inside the interval *)
  Lemma piece_vanishes s k : SplInv s -> imem k (ssup s) ->
    (forall x, spl_eval s x = Ok f0) -> Forall (fun c => c = f0) (piece s k).
  Proof.
    intros Hi Hk Hz.
    pose proof Hi as (Hs & (Hg2 & Hg63 & Hg) & _).
    pose proof (SInv_bounds _ Hs) as B. pose proof Hk as [Hk1 Hk2].
    set (g := sgrid (ssup s)) in *.
    assert (fltb (gnth g k) (gnth g (k + 1)) = true) as Hlt.
    { apply gnth_lt; [exact Hg | lia | lia]. }
    destruct (distinct_points _ _ (sord s + 1) Hlt) as (xs & Hlen & Hnd & Hin).
    apply (roots_bound (piece s k) (map (fun x => (x - mid g k)%F) xs)).
    - apply NoDup_map_inj; [|exact Hnd]. intros x y E.
      replace x with (x - mid g k + mid g k)%F by ring. rewrite E. ring.
    - rewrite map_length, Hlen, Proofs_Eval.piece_length by assumption. lia.
    - intros y Hy. apply in_map_iff in Hy as (x & <- & Hx).
      destruct (Hin x Hx) as [H1 H2].
      assert (fleb x (gnth g (k + 1)) = true) as H2' by (apply fleb_true; left; exact H2).
      pose proof (seval_inside s x k Hi Hk (or_introl (conj H1 H2'))) as E.
      rewrite Hz in E. injection E as E. unfold den in E. fold g in E. symmetry. exact E.
  Qed.

  Lemma is_zero_spec s : SplInv s ->
    (is_zero s = true <-> forall x, spl_eval s x = Ok f0).
  Proof.
    intros Hi. rewrite is_zero_coeffs by exact Hi. pose proof Hi as (Hs & _). split.
    - intros [H0|Hall] x.
      + apply seval_no_interval; [exact Hi|]. apply nintervals_zero_iff; assumption.
      + destruct (seval_cases s x Hi) as [E|(k & Hk & _ & _ & E)]; [exact E|].
        rewrite E. f_equal. unfold den. apply peval_zero.
        rewrite Forall_forall in Hall. apply Hall. apply piece_In; assumption.
    - intros Hz. right. apply Forall_forall. intros p Hp.
      destruct (In_piece s p Hi Hp) as (k & Hk & <-).
      apply piece_vanishes; assumption.
  Qed.

  (* ------------------------------------------------------------------ *)
  (* checkOverlap                                                        *)
  (* ------------------------------------------------------------------ *)

  (* on a strictly increasing grid, comparing point values is comparing indices *)
  Lemma gnth_lt_iff (g : list F) i j : increasing g -> i < nlen g -> j < nlen g ->
    (fltb (gnth g i) (gnth g j) = true <-> i < j).
  Proof.
    intros Hg Hi Hj. split; [|intros H; apply gnth_lt; assumption].
    intros H. destruct (N.lt_trichotomy i j) as [Hlt|[->|Hgt]]; [exact Hlt| |]; exfalso.
    - rewrite flt_irrefl in H. discriminate.
    - pose proof (gnth_lt g j i Hg Hgt Hi) as H'. apply flt_asym in H'. congruence.
  Qed.

  Lemma gnth_le_iff (g : list F) i j : increasing g -> i < nlen g -> j < nlen g ->
    (fleb (gnth g i) (gnth g j) = true <-> i <= j).
  Proof.
    intros Hg Hi Hj. split; [|intros H; apply gnth_le; assumption].
    intros H. destruct (N.le_gt_cases i j) as [Hle|Hgt]; [exact Hle|]. exfalso.
    pose proof (gnth_lt g j i Hg Hgt Hi) as H'. apply fleb_false in H'. congruence.
  Qed.

  (* checkOverlap in closed form: both operands have an interval, and each
     one's first point lies strictly before the other's last point *)
  Lemma check_overlap_closed a b : SplInv a -> SplInv b ->
    check_overlap a b =
    Ok ((1 <? sstop (ssup a) - sstart (ssup a)) && (1 <? sstop (ssup b) - sstart (ssup b)) &&
        negb (fleb (gnth (sgridp b) (sstop (ssup b) - 1)) (gnth (sgridp a) (sstart (ssup a)))) &&
        negb (fgeb (gnth (sgridp b) (sstart (ssup b))) (gnth (sgridp a) (sstop (ssup a) - 1)))).
  Proof.
    intros (Sa & _) (Sb & _). unfold check_overlap, sgridp.
    rewrite !contains_intervals_spec by assumption.
    destruct (1 <? sstop (ssup a) - sstart (ssup a)) eqn:Ea; cbn [negb orb andb]; [|reflexivity].
    destruct (1 <? sstop (ssup b) - sstart (ssup b)) eqn:Eb; cbn [negb orb andb]; [|reflexivity].
    rewrite !sup_back_gnth, !sup_front_gnth by assumption.
    destruct (sstart (ssup a) =? sstop (ssup a)) eqn:Ea'; [lia|].
    destruct (sstart (ssup b) =? sstop (ssup b)) eqn:Eb'; [lia|].
    cbn [bind].
    destruct (fleb (gnth (sgrid (ssup b)) (sstop (ssup b) - 1))
                   (gnth (sgrid (ssup a)) (sstart (ssup a)))); cbn [negb andb]; reflexivity.
  Qed.

  Lemma check_overlap_total a b : SplInv a -> SplInv b -> exists r, check_overlap a b = Ok r.
  Proof. intros Ha Hb. rewrite check_overlap_closed by assumption. eauto. Qed.

  Lemma check_overlap_spec a b : SplInv a -> SplInv b -> sgridp a = sgridp b ->
    (check_overlap a b = Ok true <-> exists k, imem k (ssup a) /\ imem k (ssup b)).
  Proof.
    intros Ha Hb Hg. rewrite check_overlap_closed by assumption.
    destruct Ha as (Sa & (_ & _ & Ia) & _). destruct Hb as (Sb & _).
    pose proof (SInv_bounds _ Sa) as Ba. pose proof (SInv_bounds _ Sb) as Bb.
    rewrite <- Hg. unfold sgridp in *. rewrite <- Hg in Bb.
    set (g := sgrid (ssup a)) in *.
    set (sa := sstart (ssup a)) in *. set (ea := sstop (ssup a)) in *.
    set (sb := sstart (ssup b)) in *. set (eb := sstop (ssup b)) in *.
    split.
    - intros [= H]. apply andb_true_iff in H as [H H4]. apply andb_true_iff in H as [H H3].
      apply andb_true_iff in H as [H1 H2].
      apply negb_true_iff, fleb_false in H3.
      apply negb_true_iff in H4. rewrite fgeb_def in H4. apply fleb_false in H4.
      apply gnth_lt_iff in H3; [|exact Ia|lia|lia].
      apply gnth_lt_iff in H4; [|exact Ia|lia|lia].
      exists (N.max sa sb). unfold imem. fold sa ea sb eb.
      destruct (N.max_spec sa sb) as [[Hm ->]|[Hm ->]]; lia.
    - intros (k & [Hk1 Hk2] & [Hk3 Hk4]). fold sa ea sb eb in Hk1, Hk2, Hk3, Hk4.
      f_equal. rewrite !andb_true_iff. split; [split; [split|]|].
      + lia.
      + lia.
      + apply negb_true_iff, fleb_false. apply gnth_lt_iff; [exact Ia|lia|lia|lia].
      + apply negb_true_iff. rewrite fgeb_def. apply fleb_false.
        apply gnth_lt_iff; [exact Ia|lia|lia|lia].
  Qed.

  (* a valid window has an interval iff its interval count is non-zero *)
  Lemma nintervals_nonzero_iff u : SInv u -> (nintervals u <> 0 <-> exists k, imem k u).
  Proof.
    intros Hu. split.
    - intros H. exists (sstart u + 0). apply nintervals_imem. lia.
    - intros (k & Hk) E. pose proof (imem_lt _ _ Hu Hk) as [Hlt _]. lia.
  Qed.

  Lemma check_overlap_product a b : SplInv a -> SplInv b -> sgridp a = sgridp b ->
    (check_overlap a b = Ok true <->
     exists u, calc_inter (ssup a) (ssup b) = Ok u /\ nintervals u <> 0%N).
  Proof.
    intros Ha Hb Hg. rewrite check_overlap_spec by assumption.
    pose proof Ha as (Sa & _). pose proof Hb as (Sb & _).
    destruct (calc_inter_spec _ _ Sa Sb Hg) as (u & Eu & Su & Gu & Mu).
    assert (Hsub : forall k, imem k u <-> imem k (ssup a) /\ imem k (ssup b)).
    { intros k. rewrite !imem_mem, !Mu. tauto. }
    split.
    - intros (k & Hk). exists u. split; [exact Eu|].
      apply nintervals_nonzero_iff; [exact Su|]. exists k. apply Hsub. exact Hk.
    - intros (u' & Eu' & Hn). rewrite Eu in Eu'. injection Eu' as <-.
      apply nintervals_nonzero_iff in Hn as (k & Hk); [|exact Su].
      exists k. apply Hsub. exact Hk.
  Qed.

  (* checkOverlap is true exactly when the product has at least one interval *)
  Lemma check_overlap_mul a b : SplInv a -> SplInv b -> sgridp a = sgridp b ->
    (check_overlap a b = Ok true <->
     exists r, spl_mul a b = Ok r /\ nintervals (ssup r) <> 0%N).
  Proof.
    intros Ha Hb Hg. rewrite check_overlap_product by assumption.
    destruct (spl_mul_spec a b Ha Hb Hg) as (u & r & Eu & Er & _ & Hr & _).
    split.
    - intros (u' & Eu' & Hn). rewrite Eu in Eu'. injection Eu' as <-.
      exists r. split; [exact Er|]. rewrite Hr. exact Hn.
    - intros (r' & Er' & Hn). rewrite Er in Er'. injection Er' as <-.
      exists u. split; [exact Eu|]. rewrite <- Hr. exact Hn.
  Qed.

  (* the overlap test is symmetric on a common grid *)
  Lemma check_overlap_sym a b : SplInv a -> SplInv b -> sgridp a = sgridp b ->
    check_overlap a b = check_overlap b a.
  Proof.
    intros Ha Hb Hg.
    destruct (check_overlap_total a b Ha Hb) as [r Er].
    destruct (check_overlap_total b a Hb Ha) as [r' Er'].
    rewrite Er, Er'. f_equal.
    pose proof (check_overlap_spec a b Ha Hb Hg) as H1.
    pose proof (check_overlap_spec b a Hb Ha (eq_sym Hg)) as H2.
    rewrite Er in H1. rewrite Er' in H2.
    destruct r, r'; try reflexivity; exfalso.
    - assert (@Ok bool false = Ok true) as X; [|discriminate].
      apply H2. destruct (proj1 H1 eq_refl) as (k & Hk1 & Hk2). exists k. tauto.
    - assert (@Ok bool false = Ok true) as X; [|discriminate].
      apply H1. destruct (proj1 H2 eq_refl) as (k & Hk1 & Hk2). exists k. tauto.
  Qed.

  (* ------------------------------------------------------------------ *)
  (* operator==                                                          *)
  (* ------------------------------------------------------------------ *)

  Lemma coefs_eqb_eq (a b : list (list F)) : coefs_eqb a b = true <-> a = b.
  Proof.
    revert b; induction a as [|x a IH]; intros [|y b]; cbn [coefs_eqb]; split; intros H;
      try reflexivity; try discriminate.
    - apply andb_true_iff in H as [H1 H2]. apply list_eqb_eq in H1. apply IH in H2. congruence.
    - injection H as -> ->. apply andb_true_iff.
      split; [apply list_eqb_eq; reflexivity | apply IH; reflexivity].
  Qed.

  Lemma spl_eqb_spec a b : spl_eqb a b = true <->
    (sgridp a = sgridp b /\
     ((sstart (ssup a) = sstart (ssup b) /\ sstop (ssup a) = sstop (ssup b)) \/
      (wempty (ssup a) /\ wempty (ssup b))) /\
     scoefs a = scoefs b).
  Proof.
    unfold spl_eqb, sgridp. rewrite andb_true_iff, sup_eqb_spec, coefs_eqb_eq. tauto.
  Qed.

  Lemma spl_eqb_refl a : spl_eqb a a = true.
  Proof. apply spl_eqb_spec. split; [reflexivity|]. split; [left; split; reflexivity | reflexivity]. Qed.

  Lemma spl_eqb_sym_imp a b : spl_eqb a b = true -> spl_eqb b a = true.
  Proof.
    rewrite !spl_eqb_spec. intros (H1 & H2 & H3).
    split; [symmetry; exact H1|]. split; [|symmetry; exact H3].
    destruct H2 as [[H2 H2']|[H2 H2']]; [left; split; symmetry; assumption | right; split; assumption].
  Qed.

  Lemma spl_eqb_sym a b : spl_eqb a b = spl_eqb b a.
  Proof.
    destruct (spl_eqb a b) eqn:E1; destruct (spl_eqb b a) eqn:E2; try reflexivity.
    - apply spl_eqb_sym_imp in E1. congruence.
    - apply spl_eqb_sym_imp in E2. congruence.
  Qed.

  Lemma spl_eqb_trans a b c0 :
    spl_eqb a b = true -> spl_eqb b c0 = true -> spl_eqb a c0 = true.
  Proof.
    rewrite !spl_eqb_spec. intros (G1 & W1 & C1) (G2 & W2 & C2).
    split; [congruence|]. split; [|congruence].
    unfold wempty in *. lia.
  Qed.

  (* an object equals its copy (copy construction yields the same value; the
     order is a template parameter and takes no part in the comparison) *)
  Lemma spl_eqb_copy a b : ssup a = ssup b -> scoefs a = scoefs b -> spl_eqb a b = true.
  Proof.
    intros H1 H2. apply spl_eqb_spec. unfold sgridp. rewrite H1, H2.
    split; [reflexivity|]. split; [left; split; reflexivity | reflexivity].
  Qed.

  (* evaluation looks only at the support and the coefficients *)
  Lemma spl_eval_ext a b : ssup a = ssup b -> scoefs a = scoefs b ->
    forall x, spl_eval a x = spl_eval b x.
  Proof.
    destruct a as [ua oa ca], b as [ub ob cb]. cbn [ssup scoefs]. intros -> -> x. reflexivity.
  Qed.

  (* equal splines evaluate equally (the order hypothesis of the request is not needed) *)
  Lemma spl_eqb_eval_strong a b : SplInv a -> SplInv b ->
    spl_eqb a b = true -> forall x, spl_eval a x = spl_eval b x.
  Proof.
    intros Ha Hb E x. apply spl_eqb_spec in E as (G & [[W1 W2]|[W1 W2]] & C).
    - apply spl_eval_ext; [|exact C].
      unfold sgridp in G. destruct (ssup a) as [ga sa ea], (ssup b) as [gb sb eb].
      cbn [sgrid sstart sstop] in *. congruence.
    - unfold wempty in *.
      rewrite !seval_no_interval; [reflexivity | exact Hb | lia | exact Ha | lia].
  Qed.

  Lemma spl_eqb_eval a b : SplInv a -> SplInv b -> sord a = sord b ->
    spl_eqb a b = true -> forall x, spl_eval a x = spl_eval b x.
  Proof. intros Ha Hb _. apply spl_eqb_eval_strong; assumption. Qed.

  (* equal splines agree on the other predicates as well *)
  Lemma spl_eqb_is_zero a b : SplInv a -> SplInv b ->
    spl_eqb a b = true -> is_zero a = is_zero b.
  Proof.
    intros Ha Hb E. pose proof (spl_eqb_eval_strong a b Ha Hb E) as Hev.
    pose proof (is_zero_spec a Ha) as Za. pose proof (is_zero_spec b Hb) as Zb.
    destruct (is_zero a) eqn:Ea; destruct (is_zero b) eqn:Eb; try reflexivity.
    - symmetry. apply Zb. intros x. rewrite <- Hev. apply Za. reflexivity.
    - apply Za. intros x. rewrite Hev. apply Zb. reflexivity.
  Qed.

End PredFacts.

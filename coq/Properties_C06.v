(* Properties_C06.v — C06: bilinear forms equal the exact integral of the two transformed splines.
   Statements only: every theorem is closed by [exact <lemma>] and followed by
   Print Assumptions.  The statements quantify over every scalar structure
   (F, K : Ops F) that satisfies the ordered-field laws (Laws K), and over all
   grids, windows, orders, coefficient values, expressions etc. named in them.
   defint p h is the antiderivative difference over [-h, h] (C06_defint_is_integral). *)
From Coq Require Import List NArith ZArith Arith Bool.
From BSpl Require Import Scalar Outcome Support Poly Spline Ops Forms Generator Interp Spec Spec_Ops Spec_Gen Proofs_Support Proofs_Scalar Proofs_Poly Proofs_Binom Proofs_Eval Proofs_Outcome Proofs_Spline Proofs_Forms Proofs_Ops Proofs_Forms2 Proofs_Interp Proofs_Pred Proofs_Gen Instances Instances_Ext Proofs_Valid Solver Pool Quad Proofs_Pool Proofs_Quad Proofs_Rounded Proofs_Threads Proofs_Updates Examples Proofs_Examples Proofs_Analysis Proofs_Smooth Proofs_Laws.
Import ListNotations.


Theorem C06_defint_is_integral :
    forall (F : Type) (K : Ops F),
           Laws K ->
           forall (p : list F) (h : F),
           exists P : list F, pderiv P = p /\ defint p h = (peval P h - peval P (- h))%F.
Proof. exact (@Proofs_Forms.defint_is_integral). Qed.

Theorem C06_kernel :
    forall (F : Type) (K : Ops F),
           Laws K ->
           forall (a b : list F) (h : F), a <> [] -> b <> [] -> bi_kernel a b h = Ok (defint (pmul a b) h).
Proof. exact (@Proofs_Forms.bi_kernel_spec). Qed.

Theorem C06_exact :
    forall (F : Type) (K : Ops F),
           Laws K ->
           forall (e1 e2 : expr F) (a b : spline F) (u : support F),
           SplInv a ->
           SplInv b ->
           sgridp a = sgridp b ->
           factors_ok e1 (sgridp a) ->
           factors_ok e2 (sgridp a) ->
           scalars_ok e1 ->
           scalars_ok e2 ->
           calc_inter (ssup a) (ssup b) = Ok u ->
           bilinear (elab e1) (elab e2) a b =
           Ok
             (fsum
                (fun k : N =>
                 defint (pmul (dsem e1 (sgridp a) k (piece a k)) (dsem e2 (sgridp a) k (piece b k)))
                   (halfwidth (sgridp a) k)) (interval_list u)).
Proof. exact (@Proofs_Forms2.bilinear_exact). Qed.

Theorem C06_total :
    forall (F : Type) (K : Ops F),
           Laws K ->
           forall (e1 e2 : expr F) (a b : spline F),
           SplInv a ->
           SplInv b ->
           sgridp a = sgridp b ->
           factors_ok e1 (sgridp a) ->
           factors_ok e2 (sgridp a) ->
           scalars_ok e1 -> scalars_ok e2 -> exists v : F, bilinear (elab e1) (elab e2) a b = Ok v.
Proof. exact (@Proofs_Forms2.bilinear_total). Qed.

Theorem C06_no_common_interval :
    forall (F : Type) (K : Ops F),
           Laws K ->
           forall (e1 e2 : expr F) (a b : spline F) (u : support F),
           SplInv a ->
           SplInv b ->
           sgridp a = sgridp b ->
           calc_inter (ssup a) (ssup b) = Ok u -> nintervals u = 0%N -> bilinear (elab e1) (elab e2) a b = Ok f0.
Proof. exact (@Proofs_Forms2.bilinear_no_common_exact). Qed.

Theorem C06_swap :
    forall (F : Type) (K : Ops F),
           Laws K ->
           forall (e1 e2 : expr F) (a b : spline F),
           SplInv a ->
           SplInv b ->
           sgridp a = sgridp b ->
           factors_ok e1 (sgridp a) ->
           factors_ok e2 (sgridp a) ->
           scalars_ok e1 -> scalars_ok e2 -> bilinear (elab e1) (elab e2) a b = bilinear (elab e2) (elab e1) b a.
Proof. exact (@Proofs_Forms2.bilinear_swap). Qed.

Theorem C06_scalar_product :
    forall (F : Type) (K : Ops F),
           Laws K ->
           forall (a b : spline F) (u : support F),
           SplInv a ->
           SplInv b ->
           sgridp a = sgridp b ->
           calc_inter (ssup a) (ssup b) = Ok u ->
           bilinear OId OId a b =
           Ok
             (fsum (fun k : N => defint (pmul (piece a k) (piece b k)) (halfwidth (sgridp a) k))
                (interval_list u)).
Proof. exact (@Proofs_Forms2.scalar_product). Qed.

Theorem C06_add_l :
    forall (F : Type) (K : Ops F),
           Laws K ->
           forall (e1 e2 : expr F) (a1 a2 b r : spline F),
           SplInv a1 ->
           SplInv a2 ->
           SplInv b ->
           sgridp a1 = sgridp a2 ->
           sgridp a1 = sgridp b ->
           factors_ok e1 (sgridp a1) ->
           factors_ok e2 (sgridp a1) ->
           scalars_ok e1 ->
           scalars_ok e2 ->
           spl_add a1 a2 = Ok r ->
           exists v1 v2 v : F,
             bilinear (elab e1) (elab e2) a1 b = Ok v1 /\
             bilinear (elab e1) (elab e2) a2 b = Ok v2 /\
             bilinear (elab e1) (elab e2) r b = Ok v /\ v = (v1 + v2)%F.
Proof. exact (@Proofs_Forms2.bilinear_add_l). Qed.

Theorem C06_scale_l :
    forall (F : Type) (K : Ops F),
           Laws K ->
           forall (e1 e2 : expr F) (a b : spline F) (c : F),
           SplInv a ->
           SplInv b ->
           sgridp a = sgridp b ->
           factors_ok e1 (sgridp a) ->
           factors_ok e2 (sgridp a) ->
           scalars_ok e1 ->
           scalars_ok e2 ->
           exists v v' : F,
             bilinear (elab e1) (elab e2) a b = Ok v /\
             bilinear (elab e1) (elab e2) (spl_scale_l c a) b = Ok v' /\ v' = (c * v)%F.
Proof. exact (@Proofs_Forms2.bilinear_scale_l). Qed.

Theorem C06_add_r :
    forall (F : Type) (K : Ops F),
           Laws K ->
           forall (e1 e2 : expr F) (a b1 b2 r : spline F),
           SplInv a ->
           SplInv b1 ->
           SplInv b2 ->
           sgridp a = sgridp b1 ->
           sgridp a = sgridp b2 ->
           factors_ok e1 (sgridp a) ->
           factors_ok e2 (sgridp a) ->
           scalars_ok e1 ->
           scalars_ok e2 ->
           spl_add b1 b2 = Ok r ->
           exists v1 v2 v : F,
             bilinear (elab e1) (elab e2) a b1 = Ok v1 /\
             bilinear (elab e1) (elab e2) a b2 = Ok v2 /\
             bilinear (elab e1) (elab e2) a r = Ok v /\ v = (v1 + v2)%F.
Proof. exact (@Proofs_Forms2.bilinear_add_r). Qed.

Theorem C06_scale_r :
    forall (F : Type) (K : Ops F),
           Laws K ->
           forall (e1 e2 : expr F) (a b : spline F) (c : F),
           SplInv a ->
           SplInv b ->
           sgridp a = sgridp b ->
           factors_ok e1 (sgridp a) ->
           factors_ok e2 (sgridp a) ->
           scalars_ok e1 ->
           scalars_ok e2 ->
           exists v v' : F,
             bilinear (elab e1) (elab e2) a b = Ok v /\
             bilinear (elab e1) (elab e2) a (spl_scale_l c b) = Ok v' /\ v' = (c * v)%F.
Proof. exact (@Proofs_Forms2.bilinear_scale_r). Qed.

Theorem C06_differing :
    forall (F : Type) (K : Ops F),
           Laws K ->
           forall (o1 o2 : opx F) (a b : spline F),
           sgridp a <> sgridp b -> bilinear o1 o2 a b = Throw DIFFERING_GRIDS.
Proof. exact (@Proofs_Forms.bilinear_differing). Qed.


Print Assumptions C06_defint_is_integral.
Print Assumptions C06_kernel.
Print Assumptions C06_exact.
Print Assumptions C06_total.
Print Assumptions C06_no_common_interval.
Print Assumptions C06_swap.
Print Assumptions C06_scalar_product.
Print Assumptions C06_add_l.
Print Assumptions C06_scale_l.
Print Assumptions C06_add_r.
Print Assumptions C06_scale_r.
Print Assumptions C06_differing.

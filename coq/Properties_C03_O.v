(* Properties_C03_O.v — C03_O: spline arithmetic, as compiled.
   Tie between the C++ source and the model by translation, at the level of whole public operations:
   coq/gen/OpsGen_*.v are regenerated on every run by gen/symops.py, which compiles the headers of
   /repo's current tree with a symbolic scalar type (cpp/symkern_sym.h), runs the real public
   operations (cpp/symops.cpp) on splines whose grid points g0 < g1 < g2 < g3 and coefficients are
   variables and whose windows and orders are concrete, and records the object each one returns
   (o_<scenario>: order, window and every coefficient as an expression, or a scalar).
   ops_<family>_agree (defined in those generated files) says: for every scalar structure satisfying
   the ordered-field laws and all values of the variables, the hand-written model operation - the one
   Pool.eval_op uses for the same C++ call - applied to the same symbolic operands returns exactly
   the object the compiled code returns.  The only premise that occurs is the documented
   precondition of a division by a scalar (divisor <> 0).  The scenario lists are finite (listed per
   theorem); the unbounded statements about the model are in Properties_C03.v.
   Statements only: every theorem is closed by [exact]. *)
From BSpl Require Import Scalar Outcome Support Poly Spline Ops Forms Proofs_KernelTac Proofs_OpsTac.
From BSpl.gen Require Import OpsGen_arith.

(* Spline + - * Spline for the order pairs (1,1) [identical, nested either way, staggered, touching in one
   grid point, disjoint, one operand empty or a single point], (1,2), (0,2); += -= for (1,1), (2,1) and with
   the same object on both sides; c * a, a * c, a / c, -a, a *= c, a /= c for orders 1 and 2; assignment
   from a lower order; operands on two distinct but equal Grid objects; linearCombination of three order-1
   splines (both overloads) - equal spl_add, spl_sub, spl_mul, spl_iadd, spl_isub, spl_scale_l, spl_scale,
   spl_div, spl_neg, spl_assign_up, lin_comb *)
Theorem C03_O_spline_arithmetic_as_compiled : ops_arith_agree.
Proof. exact ops_arith_agree_ok. Qed.
Print Assumptions C03_O_spline_arithmetic_as_compiled.

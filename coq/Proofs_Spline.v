(* Proofs_Spline.v — spline arithmetic is pointwise arithmetic of the denoted
   functions: for splines on one grid (any orders, any relative position of
   the supports) the results of + - * scalar* scalar/ unary- , of the in-place
   forms, of cross-order assignment and of linearCombination denote on every
   grid interval the corresponding combination of the operands' functions, and
   zero wherever the result is not supported. *)
From Coq Require Import List Arith NArith ZArith Bool Lia ZifyBool ZifyN Field Ring.
From BSpl Require Import ListAux Scalar Outcome Support Poly Spline Spec
  Proofs_Support Proofs_Scalar Proofs_Outcome Proofs_Poly.
Import ListNotations.
Local Open Scope N_scope.

Ltac Zify.zify_post_hook ::= Z.div_mod_to_equations.

Section SplineFacts.
  Context {F : Type} {K : Ops F} {L : Laws K}.
  Add Field Ffspl : (@Fth F K L).
  Implicit Types (s a b r : spline F) (u : support F).

  (* ------------------------------------------------------------------ *)
  (* interval membership, boolean form                                   *)
  (* ------------------------------------------------------------------ *)
  Definition inb (u : support F) (k : N) : bool := (sstart u <=? k) && (k + 1 <? sstop u).

  Lemma inb_imem u k : inb u k = true <-> imem k u.
  Proof. unfold inb, imem. lia. Qed.

  Lemma inb_false u k : inb u k = false <-> ~ imem k u.
  Proof. unfold inb, imem. lia. Qed.

  Lemma imem_mem u k : imem k u <-> mem k u /\ mem (k + 1) u.
  Proof. unfold imem, mem. lia. Qed.

  Lemma piece_eq s k :
    piece s k = if inb (ssup s) k then nth (N.to_nat (k - sstart (ssup s))) (scoefs s) [] else [].
  Proof. reflexivity. Qed.

  Lemma piece_out s k : ~ imem k (ssup s) -> piece s k = [].
  Proof. intros H. rewrite piece_eq. apply inb_false in H. rewrite H. reflexivity. Qed.

  Lemma den_out s k x : ~ imem k (ssup s) -> den s k x = f0.
  Proof. intros H. unfold den. rewrite piece_out by exact H. reflexivity. Qed.

  Lemma imem_lt u k : SInv u -> imem k u -> k - sstart u < nintervals u /\ k + 1 < 2 ^ 63.
  Proof.
    intros Hu Hk. apply SInv_bounds in Hu. unfold imem, nintervals in *.
    destruct (sstop u - sstart u =? 0) eqn:E; lia.
  Qed.

  Lemma nintervals_le u : SInv u -> nintervals u <= sstop u - sstart u /\ nintervals u < 2 ^ 63.
  Proof.
    intros Hu. apply SInv_bounds in Hu. unfold nintervals.
    destruct (sstop u - sstart u =? 0) eqn:E; lia.
  Qed.

  Lemma nintervals_imem u i : i < nintervals u -> imem (sstart u + i) u.
  Proof.
    unfold imem, nintervals. destruct (sstop u - sstart u =? 0) eqn:E; lia.
  Qed.

  (* a stored coefficient array of a valid spline *)
  Lemma piece_in s k : SplInv s -> imem k (ssup s) ->
    nth_error (scoefs s) (N.to_nat (k - sstart (ssup s))) = Some (piece s k) /\
    length (piece s k) = (sord s + 1)%nat.
  Proof.
    intros (Hs & _ & Hn & Hl) Hk.
    pose proof (imem_lt _ _ Hs Hk) as [Hlt _].
    rewrite piece_eq. apply inb_imem in Hk. rewrite Hk.
    assert (N.to_nat (k - sstart (ssup s)) < length (scoefs s))%nat as Hi by (unfold nlen in Hn; lia).
    pose proof (nth_error_nth' (scoefs s) [] Hi) as E. split; [exact E|].
    rewrite Forall_forall in Hl. apply Hl. eapply nth_error_In. exact E.
  Qed.

  Lemma coefs_at_in s k : SplInv s -> imem k (ssup s) ->
    coefs_at s (k - sstart (ssup s)) = Ok (piece s k).
  Proof. intros Hs Hk. unfold coefs_at. apply sub_nth_error. apply piece_in; assumption. Qed.

  Lemma interval_index_in u k : SInv u -> imem k u -> interval_index u k = Some (k - sstart u).
  Proof.
    intros Hu Hk. pose proof (imem_lt _ _ Hu Hk) as [_ Hb].
    rewrite interval_index_spec; [|assumption|unfold W; lia].
    apply inb_imem in Hk. unfold inb in Hk. rewrite Hk. reflexivity.
  Qed.

  Lemma interval_index_out u k : SInv u -> k < W -> ~ imem k u -> interval_index u k = None.
  Proof.
    intros Hu Hk Hn. rewrite interval_index_spec by assumption.
    apply inb_false in Hn. unfold inb in Hn. rewrite Hn. reflexivity.
  Qed.

  Lemma abs_from_rel_in u i : SInv u -> i < nintervals u -> abs_from_rel u i = Ok (sstart u + i).
  Proof.
    intros Hu Hi. pose proof (nintervals_le _ Hu) as [H1 H2].
    rewrite abs_from_rel_spec; [|assumption|unfold W; lia].
    destruct (i <? sstop u - sstart u) eqn:E; [reflexivity|lia].
  Qed.

  (* ------------------------------------------------------------------ *)
  (* constructor                                                         *)
  (* ------------------------------------------------------------------ *)
  Lemma spl_valid_iff u n : SInv u -> spl_valid u n = true <-> n = nintervals u.
  Proof.
    intros Hu. unfold spl_valid.
    rewrite num_intervals_spec, contains_intervals_spec, sup_size_inv by assumption.
    unfold nintervals. apply SInv_bounds in Hu.
    destruct (sstop u - sstart u =? 0) eqn:E; lia.
  Qed.

  Lemma num_intervals_nintervals u : SInv u -> num_intervals u = nintervals u.
  Proof. intros Hu. rewrite num_intervals_spec by assumption. reflexivity. Qed.

  Lemma spl_ctor_ok ord u (cs : list (list F)) :
    SInv u -> nlen cs = nintervals u -> spl_ctor ord u cs = Ok (mkSpl u ord cs).
  Proof.
    intros Hu Hn. unfold spl_ctor.
    destruct (spl_valid u (nlen cs)) eqn:E; [reflexivity|].
    exfalso. apply not_true_iff_false in E. apply E. apply spl_valid_iff; assumption.
  Qed.

  Lemma spl_ctor_throw ord u (cs : list (list F)) :
    SInv u -> nlen cs <> nintervals u -> spl_ctor ord u cs = Throw INCONSISTENT_DATA.
  Proof.
    intros Hu Hn. unfold spl_ctor.
    destruct (spl_valid u (nlen cs)) eqn:E; [|reflexivity].
    exfalso. apply Hn. apply spl_valid_iff; assumption.
  Qed.

  Lemma GInv_SInv_empty (g : list F) : GInv g -> SInv (mkSup g 0 0).
  Proof. intros (_ & H & _). unfold SInv. cbn [sgrid sstart sstop]. lia. Qed.

  Lemma spl_empty_ok ord (g : list F) :
    GInv g -> spl_empty ord g = Ok (mkSpl (mkSup g 0 0) ord []).
  Proof.
    intros Hg. unfold spl_empty, create_empty. rewrite sup_ctor_ok by lia. cbn [bind].
    apply spl_ctor_ok; [apply GInv_SInv_empty; exact Hg | reflexivity].
  Qed.

  Lemma spl_empty_inv ord (g : list F) : GInv g -> SplInv (mkSpl (mkSup g 0 0) ord []).
  Proof.
    intros Hg. unfold SplInv. cbn [ssup scoefs sord sgrid].
    split; [apply GInv_SInv_empty; exact Hg|]. split; [exact Hg|]. split; [reflexivity|constructor].
  Qed.

  (* ------------------------------------------------------------------ *)
  (* scalar forms                                                        *)
  (* ------------------------------------------------------------------ *)
  Lemma nth_map_nil {A B} (f : list A -> list B) (l : list (list A)) i :
    f [] = [] -> nth i (map f l) [] = f (nth i l []).
  Proof. intros H. rewrite <- H at 1. apply map_nth. Qed.

  Lemma spl_scale_sup s c : ssup (spl_scale s c) = ssup s. Proof. reflexivity. Qed.
  Lemma spl_scale_ord s c : sord (spl_scale s c) = sord s. Proof. reflexivity. Qed.
  Lemma spl_scale_l_sup s c : ssup (spl_scale_l c s) = ssup s. Proof. reflexivity. Qed.
  Lemma spl_scale_l_ord s c : sord (spl_scale_l c s) = sord s. Proof. reflexivity. Qed.
  Lemma spl_neg_sup s : ssup (spl_neg s) = ssup s. Proof. reflexivity. Qed.
  Lemma spl_neg_ord s : sord (spl_neg s) = sord s. Proof. reflexivity. Qed.

  Lemma piece_scale s c k : piece (spl_scale s c) k = pscale c (piece s k).
  Proof.
    rewrite !piece_eq. cbn [spl_scale ssup scoefs].
    destruct (inb (ssup s) k); [|reflexivity].
    apply (nth_map_nil (pscale c)). reflexivity.
  Qed.

  Lemma spl_scale_inv s c : SplInv s -> SplInv (spl_scale s c).
  Proof.
    intros (H1 & H2 & H3 & H4). unfold SplInv. cbn [spl_scale ssup sord scoefs].
    split; [exact H1|]. split; [exact H2|]. split; [rewrite nlen_map; exact H3|].
    apply Forall_map. eapply Forall_impl; [|exact H4].
    intros p Hp. cbv beta in *. rewrite length_pscale. exact Hp.
  Qed.

  Lemma spl_scale_den s c k x : den (spl_scale s c) k x = (den s k x * c)%F.
  Proof. unfold den. rewrite piece_scale, peval_pscale. reflexivity. Qed.

  Lemma spl_scale_l_inv s c : SplInv s -> SplInv (spl_scale_l c s).
  Proof. apply spl_scale_inv. Qed.

  Lemma spl_scale_l_den s c k x : den (spl_scale_l c s) k x = (c * den s k x)%F.
  Proof. unfold spl_scale_l. rewrite spl_scale_den. ring. Qed.

  Lemma spl_neg_inv s : SplInv s -> SplInv (spl_neg s).
  Proof. apply spl_scale_inv. Qed.

  Lemma spl_neg_den s k x : den (spl_neg s) k x = (- den s k x)%F.
  Proof. unfold spl_neg. rewrite spl_scale_den, fm1_eq. ring. Qed.

  Lemma spl_div_zero s : spl_div s f0 = UB DivByZero.
  Proof. unfold spl_div. rewrite feqb_refl. reflexivity. Qed.

  Lemma spl_div_spec s d : SplInv s -> d <> f0 ->
    exists r, spl_div s d = Ok r /\ SplInv r /\ ssup r = ssup s /\ sord r = sord s /\
              forall k x, den r k x = (den s k x / d)%F.
  Proof.
    intros Hs Hd. unfold spl_div.
    apply feqb_false in Hd as Hd'. rewrite Hd'.
    eexists. split; [reflexivity|]. split; [apply spl_scale_inv; exact Hs|].
    split; [reflexivity|]. split; [reflexivity|].
    intros k x. rewrite spl_scale_den. field. exact Hd.
  Qed.

  (* ------------------------------------------------------------------ *)
  (* cross-order assignment                                              *)
  (* ------------------------------------------------------------------ *)
  Lemma spl_assign_up_spec ord a : SplInv a -> (sord a <= ord)%nat ->
    exists r, spl_assign_up ord a = Ok r /\ SplInv r /\ sord r = ord /\ ssup r = ssup a /\
              forall k x, den r k x = den a k x.
  Proof.
    intros Ha Ho. pose proof Ha as (H1 & H2 & H3 & H4).
    unfold spl_assign_up, set_data.
    rewrite spl_ctor_ok; [|exact H1|rewrite nlen_map; exact H3].
    eexists. split; [reflexivity|].
    split.
    { unfold SplInv. cbn [ssup sord scoefs].
      split; [exact H1|]. split; [exact H2|]. split; [rewrite nlen_map; exact H3|].
      apply Forall_map. eapply Forall_impl; [|exact H4].
      intros p Hp. cbv beta in *. apply length_change_size. lia. }
    split; [reflexivity|]. split; [reflexivity|].
    intros k x. unfold den. cbn [ssup].
    rewrite (piece_eq (mkSpl _ _ _)). cbn [ssup scoefs].
    destruct (inb (ssup a) k) eqn:E.
    - apply inb_imem in E. destruct (piece_in a k Ha E) as [Hn _].
      pose proof (map_nth_error (change_size (ord + 1)) _ _ Hn) as Hm.
      rewrite (nth_error_nth _ _ _ Hm). apply peval_change_size.
    - rewrite piece_out by (apply inb_false; exact E). reflexivity.
  Qed.

  (* ------------------------------------------------------------------ *)
  (* a spline tabulated over the intervals of a window                   *)
  (* ------------------------------------------------------------------ *)
  Definition tab (u : support F) (ord : nat) (h : N -> list F) : spline F :=
    mkSpl u ord (map (fun i => h (sstart u + i)) (nrange (nintervals u))).

  Lemma piece_tab u ord h k : piece (tab u ord h) k = if inb u k then h k else [].
  Proof.
    rewrite piece_eq. cbn [tab ssup scoefs].
    destruct (inb u k) eqn:E; [|reflexivity].
    assert (imem k u) as Hk by (apply inb_imem; exact E).
    assert (k - sstart u < nintervals u) as Hlt.
    { unfold imem, nintervals in *. destruct (sstop u - sstart u =? 0) eqn:E0; lia. }
    rewrite nth_map_nrange by lia. f_equal. unfold imem in Hk. lia.
  Qed.

  Lemma tab_inv u ord h : SInv u -> GInv (sgrid u) ->
    (forall k, imem k u -> length (h k) = (ord + 1)%nat) -> SplInv (tab u ord h).
  Proof.
    intros Hu Hg Hl. unfold SplInv. cbn [tab ssup sord scoefs].
    split; [exact Hu|]. split; [exact Hg|].
    split; [rewrite nlen_map, nlen_nrange; reflexivity|].
    apply Forall_map. apply Forall_forall. intros i Hi. apply In_nrange in Hi.
    apply Hl. apply nintervals_imem. exact Hi.
  Qed.

  (* the common shape of operator+ and operator*: one checked pass over the
     intervals of the result window *)
  Lemma omapM_tab u ord (f : N -> outcome (list F)) (h : N -> list F) :
    SInv u ->
    (forall k, imem k u -> f (k - sstart u) = Ok (h k)) ->
    (do cs <- omapM f (nrange (num_intervals u)); spl_ctor ord u cs) = Ok (tab u ord h).
  Proof.
    intros Hu Hf. rewrite num_intervals_nintervals by exact Hu.
    rewrite (omapM_nrange_ok f (fun i => h (sstart u + i))).
    - cbn [bind]. apply spl_ctor_ok; [exact Hu|]. rewrite nlen_map, nlen_nrange. reflexivity.
    - intros i Hi. rewrite <- (Hf (sstart u + i)) by (apply nintervals_imem; exact Hi).
      f_equal. lia.
  Qed.

  (* ------------------------------------------------------------------ *)
  (* operator+                                                           *)
  (* ------------------------------------------------------------------ *)
  Definition add_piece (a b : spline F) (k : N) : list F :=
    let ord := Nat.max (sord a) (sord b) in
    match inb (ssup a) k, inb (ssup b) k with
    | true, false => change_size (ord + 1) (piece a k)
    | false, true => change_size (ord + 1) (piece b k)
    | true, true => arr_add (piece b k) (piece a k)
    | false, false => make_array (ord + 1) f0
    end.

  Lemma peval_add_piece a b k v :
    peval (add_piece a b k) v = (peval (piece a k) v + peval (piece b k) v)%F.
  Proof.
    unfold add_piece.
    destruct (inb (ssup a) k) eqn:Ea; destruct (inb (ssup b) k) eqn:Eb.
    - rewrite peval_arr_add. ring.
    - rewrite peval_change_size, (piece_out b) by (apply inb_false; exact Eb). cbn [peval]. ring.
    - rewrite peval_change_size, (piece_out a) by (apply inb_false; exact Ea). cbn [peval]. ring.
    - rewrite peval_make_array0, (piece_out a), (piece_out b) by (apply inb_false; assumption).
      cbn [peval]. ring.
  Qed.

  Lemma length_add_piece a b k : SplInv a -> SplInv b ->
    length (add_piece a b k) = (Nat.max (sord a) (sord b) + 1)%nat.
  Proof.
    intros Ha Hb. unfold add_piece.
    destruct (inb (ssup a) k) eqn:Ea; destruct (inb (ssup b) k) eqn:Eb;
      try (apply inb_imem in Ea; destruct (piece_in a k Ha Ea) as [_ La]);
      try (apply inb_imem in Eb; destruct (piece_in b k Hb Eb) as [_ Lb]).
    - rewrite length_arr_add. lia.
    - apply length_change_size. lia.
    - apply length_change_size. lia.
    - unfold make_array. apply repeat_length.
  Qed.

  Lemma spl_add_spec a b : SplInv a -> SplInv b -> sgridp a = sgridp b ->
    exists u r, calc_union (ssup a) (ssup b) = Ok u /\ spl_add a b = Ok r /\ SplInv r /\
                ssup r = u /\ sord r = Nat.max (sord a) (sord b) /\
                forall k x, den r k x = (den a k x + den b k x)%F.
  Proof.
    intros Ha Hb Hg. pose proof Ha as (Sa & Ga & _). pose proof Hb as (Sb & Gb & _).
    unfold sgridp in Hg.
    destruct (calc_union_spec _ _ Sa Sb Hg) as (u & Eu & Su & Gu & Mu).
    exists u, (tab u (Nat.max (sord a) (sord b)) (add_piece a b)).
    split; [exact Eu|].
    assert (Hsub : forall k, imem k (ssup a) \/ imem k (ssup b) -> imem k u).
    { intros k Hk. apply imem_mem. rewrite !Mu. unfold hull_mem. rewrite !imem_mem in Hk. tauto. }
    split.
    { unfold spl_add. rewrite Eu. cbn [bind]. apply omapM_tab; [exact Su|].
      intros k Hk. pose proof (imem_lt _ _ Su Hk) as [Hlt Hb63].
      assert (k < W) as HkW by (unfold W; lia).
      rewrite abs_from_rel_in by assumption. cbn [bind].
      replace (sstart u + (k - sstart u)) with k by (unfold imem in Hk; lia).
      unfold add_piece.
      destruct (inb (ssup a) k) eqn:Ea; destruct (inb (ssup b) k) eqn:Eb.
      - apply inb_imem in Ea. apply inb_imem in Eb.
        rewrite !interval_index_in, !coefs_at_in by assumption. reflexivity.
      - apply inb_imem in Ea. apply inb_false in Eb.
        rewrite (interval_index_in (ssup a)), (interval_index_out (ssup b)), coefs_at_in by assumption.
        reflexivity.
      - apply inb_false in Ea. apply inb_imem in Eb.
        rewrite (interval_index_in (ssup b)), (interval_index_out (ssup a)), coefs_at_in by assumption.
        reflexivity.
      - apply inb_false in Ea. apply inb_false in Eb.
        rewrite !interval_index_out by assumption. reflexivity. }
    split.
    { apply tab_inv; [exact Su | rewrite Gu; exact Ga |].
      intros k _. apply length_add_piece; assumption. }
    split; [reflexivity|]. split; [reflexivity|].
    intros k x. unfold den. cbn [tab ssup]. rewrite Gu, <- Hg.
    rewrite piece_tab. destruct (inb u k) eqn:E.
    - apply peval_add_piece.
    - apply inb_false in E.
      rewrite (piece_out a), (piece_out b) by (intros H; apply E, Hsub; tauto).
      cbn [peval]. ring.
  Qed.

  Lemma spl_add_differing a b : sgridp a <> sgridp b -> spl_add a b = Throw DIFFERING_GRIDS.
  Proof. intros H. unfold spl_add. rewrite calc_union_differing by exact H. reflexivity. Qed.

  (* ------------------------------------------------------------------ *)
  (* operator*                                                           *)
  (* ------------------------------------------------------------------ *)
  Lemma spl_mul_spec a b : SplInv a -> SplInv b -> sgridp a = sgridp b ->
    exists u r, calc_inter (ssup a) (ssup b) = Ok u /\ spl_mul a b = Ok r /\ SplInv r /\
                ssup r = u /\ sord r = (sord a + sord b)%nat /\
                forall k x, den r k x = (den a k x * den b k x)%F.
  Proof.
    intros Ha Hb Hg. pose proof Ha as (Sa & Ga & _). pose proof Hb as (Sb & Gb & _).
    unfold sgridp in Hg.
    destruct (calc_inter_spec _ _ Sa Sb Hg) as (u & Eu & Su & Gu & Mu).
    exists u, (tab u (sord a + sord b) (fun k => pmul (piece a k) (piece b k))).
    split; [exact Eu|].
    assert (Hsub : forall k, imem k u <-> imem k (ssup a) /\ imem k (ssup b)).
    { intros k. rewrite !imem_mem, !Mu. tauto. }
    split.
    { unfold spl_mul. rewrite Eu. cbn [bind].
      destruct (num_intervals u =? 0) eqn:E0.
      - apply N.eqb_eq in E0. rewrite num_intervals_nintervals in E0 by exact Su.
        unfold tab. rewrite E0. cbn [nrange N.to_nat seq map].
        apply spl_ctor_ok; [exact Su|]. rewrite E0. reflexivity.
      - apply omapM_tab; [exact Su|].
        intros k Hk. pose proof (imem_lt _ _ Su Hk) as [Hlt Hb63].
        rewrite abs_from_rel_in by assumption. cbn [bind].
        replace (sstart u + (k - sstart u)) with k by (unfold imem in Hk; lia).
        apply Hsub in Hk as [Hka Hkb].
        rewrite !interval_index_in by assumption. cbn [value of_option bind].
        rewrite !coefs_at_in by assumption. reflexivity. }
    split.
    { apply tab_inv; [exact Su | rewrite Gu; exact Ga |].
      intros k Hk. apply Hsub in Hk as [Hka Hkb].
      destruct (piece_in a k Ha Hka) as [_ La]. destruct (piece_in b k Hb Hkb) as [_ Lb].
      rewrite length_pmul; [lia | |]; intros E; rewrite E in *; cbn [length] in *; lia. }
    split; [reflexivity|]. split; [reflexivity|].
    intros k x. unfold den. cbn [tab ssup]. rewrite Gu, <- Hg.
    rewrite piece_tab. destruct (inb u k) eqn:E.
    - apply peval_pmul.
    - apply inb_false in E. rewrite Hsub in E. cbn [peval].
      destruct (inb (ssup a) k) eqn:Ea.
      + apply inb_imem in Ea. rewrite (piece_out b) by tauto. cbn [peval]. ring.
      + apply inb_false in Ea. rewrite (piece_out a) by exact Ea. cbn [peval]. ring.
  Qed.

  Lemma spl_mul_differing a b : sgridp a <> sgridp b -> spl_mul a b = Throw DIFFERING_GRIDS.
  Proof. intros H. unfold spl_mul. rewrite calc_inter_differing by exact H. reflexivity. Qed.

  (* ------------------------------------------------------------------ *)
  (* operator-, in-place forms                                           *)
  (* ------------------------------------------------------------------ *)
  Lemma spl_sub_spec a b : SplInv a -> SplInv b -> sgridp a = sgridp b ->
    exists u r, calc_union (ssup a) (ssup b) = Ok u /\ spl_sub a b = Ok r /\ SplInv r /\
                ssup r = u /\ sord r = Nat.max (sord a) (sord b) /\
                forall k x, den r k x = (den a k x - den b k x)%F.
  Proof.
    intros Ha Hb Hg. unfold spl_sub.
    destruct (spl_add_spec a (spl_scale_l fm1 b) Ha (spl_scale_l_inv b fm1 Hb) Hg)
      as (u & r & Eu & Er & Ir & Sr & Or & Dr).
    exists u, r. split; [exact Eu|]. split; [exact Er|]. split; [exact Ir|].
    split; [exact Sr|]. split; [exact Or|].
    intros k x. rewrite Dr, spl_scale_l_den, fm1_eq. ring.
  Qed.

  Lemma spl_sub_differing a b : sgridp a <> sgridp b -> spl_sub a b = Throw DIFFERING_GRIDS.
  Proof. intros H. unfold spl_sub. apply spl_add_differing. exact H. Qed.

  Lemma spl_iadd_eq a b : (sord b <= sord a)%nat -> spl_iadd a b = spl_add a b.
  Proof.
    intros H. unfold spl_iadd.
    destruct (sord a <? sord b)%nat eqn:E; [|reflexivity]. apply Nat.ltb_lt in E. lia.
  Qed.

  Lemma spl_isub_eq a b : (sord b <= sord a)%nat -> spl_isub a b = spl_sub a b.
  Proof.
    intros H. unfold spl_isub.
    destruct (sord a <? sord b)%nat eqn:E; [apply Nat.ltb_lt in E; lia|].
    rewrite spl_iadd_eq by exact H. reflexivity.
  Qed.

  Lemma spl_iadd_illtyped a b : (sord a < sord b)%nat -> spl_iadd a b = UB IllTyped.
  Proof. intros H. unfold spl_iadd. apply Nat.ltb_lt in H. rewrite H. reflexivity. Qed.

  Lemma spl_isub_illtyped a b : (sord a < sord b)%nat -> spl_isub a b = UB IllTyped.
  Proof. intros H. unfold spl_isub. apply Nat.ltb_lt in H. rewrite H. reflexivity. Qed.

  Lemma spl_iadd_differing a b : (sord b <= sord a)%nat -> sgridp a <> sgridp b ->
    spl_iadd a b = Throw DIFFERING_GRIDS.
  Proof. intros Ho H. rewrite spl_iadd_eq by exact Ho. apply spl_add_differing. exact H. Qed.

  Lemma spl_isub_differing a b : (sord b <= sord a)%nat -> sgridp a <> sgridp b ->
    spl_isub a b = Throw DIFFERING_GRIDS.
  Proof. intros Ho H. rewrite spl_isub_eq by exact Ho. apply spl_sub_differing. exact H. Qed.

  (* the in-place forms, stated directly *)
  Lemma spl_iadd_spec a b : SplInv a -> SplInv b -> sgridp a = sgridp b -> (sord b <= sord a)%nat ->
    exists u r, calc_union (ssup a) (ssup b) = Ok u /\ spl_iadd a b = Ok r /\ SplInv r /\
                ssup r = u /\ sord r = sord a /\
                forall k x, den r k x = (den a k x + den b k x)%F.
  Proof.
    intros Ha Hb Hg Ho. rewrite spl_iadd_eq by exact Ho.
    destruct (spl_add_spec a b Ha Hb Hg) as (u & r & H1 & H2 & H3 & H4 & H5 & H6).
    exists u, r. repeat (split; [assumption|]). split; [lia | exact H6].
  Qed.

  Lemma spl_isub_spec a b : SplInv a -> SplInv b -> sgridp a = sgridp b -> (sord b <= sord a)%nat ->
    exists u r, calc_union (ssup a) (ssup b) = Ok u /\ spl_isub a b = Ok r /\ SplInv r /\
                ssup r = u /\ sord r = sord a /\
                forall k x, den r k x = (den a k x - den b k x)%F.
  Proof.
    intros Ha Hb Hg Ho. rewrite spl_isub_eq by exact Ho.
    destruct (spl_sub_spec a b Ha Hb Hg) as (u & r & H1 & H2 & H3 & H4 & H5 & H6).
    exists u, r. repeat (split; [assumption|]). split; [lia | exact H6].
  Qed.

  (* ------------------------------------------------------------------ *)
  (* linearCombination                                                   *)
  (* ------------------------------------------------------------------ *)
  Lemma lin_comb_count (cs : list F) (ss : list (spline F)) :
    length cs <> length ss -> lin_comb cs ss = Throw INCONSISTENT_DATA.
  Proof.
    intros H. unfold lin_comb. destruct (length cs =? length ss)%nat eqn:E; [|reflexivity].
    apply Nat.eqb_eq in E. contradiction.
  Qed.

  Lemma lin_comb_empty : lin_comb (@nil F) (@nil (spline F)) = Throw MISSING_DATA.
  Proof. reflexivity. Qed.

  Lemma lin_comb_differing (cs : list F) s0 (rest : list (spline F)) :
    length cs = length (s0 :: rest) ->
    (exists s, In s (s0 :: rest) /\ sgridp s <> sgridp s0) ->
    lin_comb cs (s0 :: rest) = Throw DIFFERING_GRIDS.
  Proof.
    intros Hlen (s & Hin & Hg). unfold lin_comb.
    apply Nat.eqb_eq in Hlen. rewrite Hlen. cbn [negb].
    destruct (forallb (fun s1 => has_same_grid (ssup s1) (ssup s0)) (s0 :: rest)) eqn:E; [|reflexivity].
    exfalso. rewrite forallb_forall in E. apply Hg. unfold sgridp.
    apply has_same_grid_iff. apply E. exact Hin.
  Qed.

  (* -- the hull loop -- *)
  Definition hull_step (acc : option N * option N) (s : spline F) : option N * option N :=
    if sup_is_empty (ssup s) then acc
    else
      let si := sstart (ssup s) in
      let ei := sstop (ssup s) in
      (match fst acc with None => Some si | Some v => if si <? v then Some si else Some v end,
       match snd acc with None => Some ei | Some v => if v <? ei then Some ei else Some v end).

  Lemma lc_hull_fold (ss : list (spline F)) : lc_hull ss = fold_left hull_step ss (None, None).
  Proof. reflexivity. Qed.

  Definition hull_ok (n : N) (acc : option N * option N) : Prop :=
    match acc with
    | (None, None) => True
    | (Some lo, Some hi) => lo < hi /\ hi <= n
    | _ => False
    end.

  Definition hull_covers (acc : option N * option N) (u : support F) : Prop :=
    wempty u \/
    match acc with (Some lo, Some hi) => lo <= sstart u /\ sstop u <= hi | _ => False end.

  Lemma hull_step_spec n acc s :
    SInv (ssup s) -> nlen (sgrid (ssup s)) = n -> hull_ok n acc ->
    hull_ok n (hull_step acc s) /\ hull_covers (hull_step acc s) (ssup s) /\
    (forall u, hull_covers acc u -> hull_covers (hull_step acc s) u).
  Proof.
    intros Hs Hn Hacc. unfold hull_step.
    destruct (sup_is_empty (ssup s)) eqn:Ee.
    - apply sup_is_empty_iff in Ee. split; [exact Hacc|]. split; [left; exact Ee|]. auto.
    - apply not_true_iff_false in Ee. rewrite sup_is_empty_iff in Ee.
      unfold SInv, wempty in *. unfold hull_ok, hull_covers in *.
      destruct acc as [[lo|] [hi|]]; cbn [fst snd] in *; try contradiction.
      + destruct (sstart (ssup s) <? lo) eqn:E1; destruct (hi <? sstop (ssup s)) eqn:E2;
          (split; [lia|]); (split; [right; lia|]); intros u Hu;
          (destruct Hu as [Hu|Hu]; [left; exact Hu | right; lia]).
      + split; [lia|]. split; [right; lia|]. intros u [Hu|[]]. left; exact Hu.
  Qed.

  Lemma hull_fold_spec n (ss : list (spline F)) : forall acc,
    Forall (fun s => SInv (ssup s) /\ nlen (sgrid (ssup s)) = n) ss -> hull_ok n acc ->
    hull_ok n (fold_left hull_step ss acc) /\
    (forall u, hull_covers acc u -> hull_covers (fold_left hull_step ss acc) u) /\
    Forall (fun s => hull_covers (fold_left hull_step ss acc) (ssup s)) ss.
  Proof.
    induction ss as [|s ss IH]; intros acc Hss Hacc; cbn [fold_left].
    - split; [exact Hacc|]. split; [auto|constructor].
    - apply Forall_cons_iff in Hss as [[Hs Hn] Hss'].
      destruct (hull_step_spec n acc s Hs Hn Hacc) as (H1 & H2 & H3).
      destruct (IH (hull_step acc s) Hss' H1) as (I1 & I2 & I3).
      split; [exact I1|]. split; [intros u Hu; apply I2, H3, Hu|].
      constructor; [apply I2, H2 | exact I3].
  Qed.

  Lemma hull_covers_imem acc u k : hull_covers acc u -> imem k u ->
    match acc with (Some lo, Some hi) => lo <= k /\ k + 1 < hi | _ => False end.
  Proof.
    unfold hull_covers, wempty, imem. intros [H|H] Hk; [lia|].
    destruct acc as [[lo|] [hi|]]; try contradiction. lia.
  Qed.

  (* -- one accumulation pass -- *)
  Lemma nth_error_combine {A B} (l1 : list A) (l2 : list B) i x y :
    nth_error l1 i = Some x -> nth_error l2 i = Some y -> nth_error (combine l1 l2) i = Some (x, y).
  Proof.
    revert l2 i; induction l1 as [|a l1 IH]; intros [|b l2] [|i] H1 H2; cbn in *; try discriminate.
    - congruence.
    - apply IH; assumption.
  Qed.

  Definition lc_step (ns : support F) (c : F) (s : spline F) (acc : list (list F)) : list (list F) :=
    map (fun '(i, cur) => padd cur (pscale_l c (piece s (sstart ns + i))))
        (combine (nrange (nlen acc)) acc).

  Lemma lc_add_spline_ok ns acc c s : SInv ns -> SplInv s -> nlen acc = nintervals ns ->
    lc_add_spline ns acc c s = Ok (lc_step ns c s acc).
  Proof.
    intros Hns Hs Hacc. unfold lc_add_spline, lc_step. apply omapM_ok.
    intros [i cur] Hin. apply in_combine_l in Hin. apply In_nrange in Hin. rewrite Hacc in Hin.
    rewrite abs_from_rel_in by assumption. cbn [bind].
    pose proof (nintervals_imem _ _ Hin) as Hk.
    pose proof (imem_lt _ _ Hns Hk) as [_ Hb]. destruct Hs as (Ss & Hs').
    destruct (inb (ssup s) (sstart ns + i)) eqn:E.
    - apply inb_imem in E. rewrite interval_index_in by assumption.
      destruct (piece_in s _ (conj Ss Hs') E) as [Hp _].
      rewrite (at_nth_error _ _ _ Hp). reflexivity.
    - apply inb_false in E. rewrite interval_index_out; [|assumption|unfold W; lia|assumption].
      rewrite piece_out by exact E. cbn [pscale_l map]. rewrite padd_nil_r. reflexivity.
  Qed.

  Lemma length_lc_step ns c s acc : length (lc_step ns c s acc) = length acc.
  Proof.
    unfold lc_step. rewrite map_length, combine_length, length_nrange. unfold nlen. lia.
  Qed.

  Lemma nth_lc_step ns c s acc i : (i < length acc)%nat ->
    nth i (lc_step ns c s acc) [] =
    padd (nth i acc []) (pscale_l c (piece s (sstart ns + N.of_nat i))).
  Proof.
    intros Hi. apply nth_error_nth. unfold lc_step.
    rewrite nth_error_map'.
    rewrite (nth_error_combine _ _ i (N.of_nat i) (nth i acc [])).
    - reflexivity.
    - apply nth_error_nrange. unfold nlen. lia.
    - apply nth_error_nth'. exact Hi.
  Qed.

  Lemma piece_length s k : SplInv s -> length (piece s k) = (sord s + 1)%nat \/ piece s k = [].
  Proof.
    intros Hs. destruct (inb (ssup s) k) eqn:E.
    - left. apply inb_imem in E. apply piece_in; assumption.
    - right. apply piece_out. apply inb_false. exact E.
  Qed.

  Lemma Forall_lc_step ns c s acc ord : SplInv s -> sord s = ord ->
    Forall (fun p => length p = (ord + 1)%nat) acc ->
    Forall (fun p => length p = (ord + 1)%nat) (lc_step ns c s acc).
  Proof.
    intros Hs Ho Hacc. unfold lc_step. apply Forall_map. apply Forall_forall.
    intros [i cur] Hin. apply in_combine_r in Hin.
    rewrite Forall_forall in Hacc. specialize (Hacc cur Hin). cbv beta in *.
    rewrite length_padd, length_pscale_l, Hacc.
    destruct (piece_length s (sstart ns + i) Hs) as [H|H]; rewrite H; [lia | cbn [length]; lia].
  Qed.

  Lemma lc_accumulate_spec ns ord : SInv ns -> forall (cs : list F) (ss : list (spline F)) acc,
    length cs = length ss ->
    Forall (fun s => SplInv s /\ sord s = ord) ss ->
    nlen acc = nintervals ns ->
    Forall (fun p => length p = (ord + 1)%nat) acc ->
    exists acc', lc_accumulate ns acc cs ss = Ok acc' /\ nlen acc' = nintervals ns /\
      Forall (fun p => length p = (ord + 1)%nat) acc' /\
      forall i v, i < nintervals ns ->
        peval (nth (N.to_nat i) acc' []) v =
        (peval (nth (N.to_nat i) acc []) v +
         lincomb_val cs (map (fun s => peval (piece s (sstart ns + i)) v) ss))%F.
  Proof.
    intros Hns. induction cs as [|c cs IH]; intros ss acc Hlen Hss Hn Hl.
    - destruct ss as [|s ss]; [|discriminate]. cbn [lc_accumulate].
      exists acc. split; [reflexivity|]. split; [exact Hn|]. split; [exact Hl|].
      intros i v _. cbn [map lincomb_val]. ring.
    - destruct ss as [|s ss]; [discriminate|]. cbn [lc_accumulate].
      apply Forall_cons_iff in Hss as [[Hs Ho] Hss'].
      rewrite lc_add_spline_ok by assumption. cbn [bind].
      destruct (IH ss (lc_step ns c s acc)) as (acc' & E & N' & L' & P').
      + cbn [length] in Hlen. lia.
      + exact Hss'.
      + unfold nlen in *. rewrite length_lc_step. exact Hn.
      + apply Forall_lc_step; assumption.
      + exists acc'. split; [exact E|]. split; [exact N'|]. split; [exact L'|].
        intros i v Hi. rewrite (P' i v Hi).
        rewrite nth_lc_step by (unfold nlen in Hn; lia).
        rewrite peval_padd, peval_pscale_l, N2Nat.id. cbn [map lincomb_val]. ring.
  Qed.

  Lemma lincomb_val_zero (cs fs : list F) : (forall v, In v fs -> v = f0) -> lincomb_val cs fs = f0.
  Proof.
    revert fs; induction cs as [|c cs IH]; intros [|v fs] H; cbn [lincomb_val]; try reflexivity.
    rewrite (H v (or_introl eq_refl)), IH by (intros w Hw; apply H; right; exact Hw). ring.
  Qed.

  Lemma peval_nth_zero m n i v : peval (nth i (repeat (make_array m (@f0 F K)) n) []) v = f0.
  Proof.
    revert i; induction n as [|n IH]; intros [|i]; cbn [repeat nth]; try reflexivity.
    - apply peval_make_array0.
    - apply IH.
  Qed.

  (* the window computed by linearCombination, the invariant of the result and
     what it denotes *)
  Lemma lin_comb_spec_strong (cs : list F) s0 (rest : list (spline F)) :
    length cs = length (s0 :: rest) ->
    Forall SplInv (s0 :: rest) ->
    (forall s, In s (s0 :: rest) -> sgridp s = sgridp s0 /\ sord s = sord s0) ->
    exists r, lin_comb cs (s0 :: rest) = Ok r /\ SplInv r /\ sord r = sord s0 /\
              sgridp r = sgridp s0 /\
              (forall s k, In s (s0 :: rest) -> imem k (ssup s) -> imem k (ssup r)) /\
              forall k x, den r k x = lincomb_val cs (map (fun s => den s k x) (s0 :: rest)).
  Proof.
    intros Hlen Hinv Hsame. set (ss := s0 :: rest) in *.
    assert (Hin0 : In s0 ss) by (left; reflexivity).
    rewrite Forall_forall in Hinv.
    pose proof (Hinv s0 Hin0) as (S0 & G0 & _).
    unfold lin_comb. apply Nat.eqb_eq in Hlen as Hlen'. rewrite Hlen'. cbn [negb].
    subst ss. cbv iota. set (ss := s0 :: rest) in *.
    assert (forallb (fun s => has_same_grid (ssup s) (ssup s0)) ss = true) as ->.
    { apply forallb_forall. intros s Hs. apply has_same_grid_iff. apply (Hsame s Hs). }
    cbn [negb].
    (* the hull *)
    set (n := nlen (sgrid (ssup s0))).
    assert (Hall : Forall (fun s => SInv (ssup s) /\ nlen (sgrid (ssup s)) = n) ss).
    { apply Forall_forall. intros s Hs. split; [apply (Hinv s Hs)|].
      destruct (Hsame s Hs) as [Hg _]. unfold sgridp in Hg. unfold n. rewrite Hg. reflexivity. }
    destruct (hull_fold_spec n ss (None, None) Hall I) as (Hok & _ & Hcov).
    rewrite <- lc_hull_fold in Hok, Hcov.
    destruct (lc_hull ss) as [os oe] eqn:EH.
    set (st := match os with Some v => v | None => 0 end).
    set (en := match oe with Some v => v | None => 0 end).
    assert (Hse : (st = 0 /\ en = 0) \/ (st < en /\ en <= n)).
    { unfold hull_ok in Hok. destruct os as [lo|], oe as [hi|]; try contradiction; cbn in st, en; [right|left]; lia. }
    rewrite sup_ctor_ok by exact Hse. cbn [bind].
    set (ns := mkSup (sgrid (ssup s0)) st en).
    assert (Hns : SInv ns).
    { unfold SInv in *. cbn [ns sgrid sstart sstop]. split; [apply S0 | exact Hse]. }
    assert (Hsub : forall s k, In s ss -> imem k (ssup s) -> imem k ns).
    { intros s k Hs Hk. rewrite Forall_forall in Hcov.
      pose proof (hull_covers_imem _ _ k (Hcov s Hs) Hk) as H.
      destruct os as [lo|], oe as [hi|]; try contradiction.
      unfold imem. cbn [ns sstart sstop st en]. exact H. }
    (* the accumulation *)
    rewrite num_intervals_nintervals by exact Hns.
    destruct (lc_accumulate_spec ns (sord s0) Hns cs ss
                (repeat (make_array (sord s0 + 1) f0) (N.to_nat (nintervals ns))))
      as (acc' & E & N' & L' & P').
    - exact Hlen.
    - apply Forall_forall. intros s Hs. split; [apply (Hinv s Hs) | apply (Hsame s Hs)].
    - unfold nlen. rewrite repeat_length. apply N2Nat.id.
    - apply Forall_forall. intros p Hp. apply repeat_spec in Hp. subst p.
      unfold make_array. apply repeat_length.
    - rewrite E. cbn [bind]. rewrite spl_ctor_ok by assumption.
      eexists. split; [reflexivity|].
      split.
      { unfold SplInv. cbn [ssup sord scoefs]. split; [exact Hns|]. split; [exact G0|]. split; assumption. }
      split; [reflexivity|]. split; [reflexivity|]. split; [exact Hsub|].
      intros k x. unfold den at 1. cbn [ssup]. rewrite piece_eq. cbn [ssup scoefs].
      change (sgrid ns) with (sgrid (ssup s0)).
      destruct (inb ns k) eqn:Ek.
      + apply inb_imem in Ek. pose proof (imem_lt _ _ Hns Ek) as [Hlt _].
        rewrite (P' _ _ Hlt), peval_nth_zero.
        replace (sstart ns + (k - sstart ns)) with k by (unfold imem in Ek; lia).
        match goal with |- (_ + ?a = ?b)%F => assert (a = b) as ->; [|ring] end.
        f_equal. apply map_ext_in. intros s Hs. unfold den.
        destruct (Hsame s Hs) as [Hg _]. unfold sgridp in Hg. rewrite Hg. reflexivity.
      + apply inb_false in Ek. cbn [peval]. symmetry. apply lincomb_val_zero.
        intros v Hv. apply in_map_iff in Hv as (s & <- & Hs).
        apply den_out. intros Hk. apply Ek. apply (Hsub s k Hs Hk).
  Qed.

  Lemma lin_comb_spec (cs : list F) s0 (rest : list (spline F)) :
    length cs = length (s0 :: rest) ->
    Forall SplInv (s0 :: rest) ->
    (forall s, In s (s0 :: rest) -> sgridp s = sgridp s0 /\ sord s = sord s0) ->
    exists r, lin_comb cs (s0 :: rest) = Ok r /\ SplInv r /\ sord r = sord s0 /\
              forall k x, den r k x = lincomb_val cs (map (fun s => den s k x) (s0 :: rest)).
  Proof.
    intros H1 H2 H3.
    destruct (lin_comb_spec_strong cs s0 rest H1 H2 H3) as (r & A & B & C & _ & _ & D).
    exists r. auto.
  Qed.

End SplineFacts.

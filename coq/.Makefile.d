ListAux.vo ListAux.glob ListAux.v.beautified ListAux.required_vo: ListAux.v 
ListAux.vio: ListAux.v 
ListAux.vos ListAux.vok ListAux.required_vos: ListAux.v 
Scalar.vo Scalar.glob Scalar.v.beautified Scalar.required_vo: Scalar.v 
Scalar.vio: Scalar.v 
Scalar.vos Scalar.vok Scalar.required_vos: Scalar.v 
Outcome.vo Outcome.glob Outcome.v.beautified Outcome.required_vo: Outcome.v 
Outcome.vio: Outcome.v 
Outcome.vos Outcome.vok Outcome.required_vos: Outcome.v 
Support.vo Support.glob Support.v.beautified Support.required_vo: Support.v Scalar.vo Outcome.vo
Support.vio: Support.v Scalar.vio Outcome.vio
Support.vos Support.vok Support.required_vos: Support.v Scalar.vos Outcome.vos
Poly.vo Poly.glob Poly.v.beautified Poly.required_vo: Poly.v Scalar.vo Outcome.vo
Poly.vio: Poly.v Scalar.vio Outcome.vio
Poly.vos Poly.vok Poly.required_vos: Poly.v Scalar.vos Outcome.vos
Spline.vo Spline.glob Spline.v.beautified Spline.required_vo: Spline.v Scalar.vo Outcome.vo Support.vo Poly.vo
Spline.vio: Spline.v Scalar.vio Outcome.vio Support.vio Poly.vio
Spline.vos Spline.vok Spline.required_vos: Spline.v Scalar.vos Outcome.vos Support.vos Poly.vos
Ops.vo Ops.glob Ops.v.beautified Ops.required_vo: Ops.v Scalar.vo Outcome.vo Support.vo Poly.vo Spline.vo
Ops.vio: Ops.v Scalar.vio Outcome.vio Support.vio Poly.vio Spline.vio
Ops.vos Ops.vok Ops.required_vos: Ops.v Scalar.vos Outcome.vos Support.vos Poly.vos Spline.vos
Forms.vo Forms.glob Forms.v.beautified Forms.required_vo: Forms.v Scalar.vo Outcome.vo Support.vo Poly.vo Spline.vo Ops.vo
Forms.vio: Forms.v Scalar.vio Outcome.vio Support.vio Poly.vio Spline.vio Ops.vio
Forms.vos Forms.vok Forms.required_vos: Forms.v Scalar.vos Outcome.vos Support.vos Poly.vos Spline.vos Ops.vos
Generator.vo Generator.glob Generator.v.beautified Generator.required_vo: Generator.v Scalar.vo Outcome.vo Support.vo Poly.vo Spline.vo Ops.vo
Generator.vio: Generator.v Scalar.vio Outcome.vio Support.vio Poly.vio Spline.vio Ops.vio
Generator.vos Generator.vok Generator.required_vos: Generator.v Scalar.vos Outcome.vos Support.vos Poly.vos Spline.vos Ops.vos
Interp.vo Interp.glob Interp.v.beautified Interp.required_vo: Interp.v Scalar.vo Outcome.vo Support.vo Poly.vo Spline.vo
Interp.vio: Interp.v Scalar.vio Outcome.vio Support.vio Poly.vio Spline.vio
Interp.vos Interp.vok Interp.required_vos: Interp.v Scalar.vos Outcome.vos Support.vos Poly.vos Spline.vos
Pool.vo Pool.glob Pool.v.beautified Pool.required_vo: Pool.v Scalar.vo Outcome.vo Support.vo Poly.vo Spline.vo Ops.vo Forms.vo Generator.vo Interp.vo
Pool.vio: Pool.v Scalar.vio Outcome.vio Support.vio Poly.vio Spline.vio Ops.vio Forms.vio Generator.vio Interp.vio
Pool.vos Pool.vok Pool.required_vos: Pool.v Scalar.vos Outcome.vos Support.vos Poly.vos Spline.vos Ops.vos Forms.vos Generator.vos Interp.vos
Proofs_Support.vo Proofs_Support.glob Proofs_Support.v.beautified Proofs_Support.required_vo: Proofs_Support.v ListAux.vo Scalar.vo Outcome.vo Support.vo
Proofs_Support.vio: Proofs_Support.v ListAux.vio Scalar.vio Outcome.vio Support.vio
Proofs_Support.vos Proofs_Support.vok Proofs_Support.required_vos: Proofs_Support.v ListAux.vos Scalar.vos Outcome.vos Support.vos
Instances.vo Instances.glob Instances.v.beautified Instances.required_vo: Instances.v Scalar.vo
Instances.vio: Instances.v Scalar.vio
Instances.vos Instances.vok Instances.required_vos: Instances.v Scalar.vos
Properties_C13.vo Properties_C13.glob Properties_C13.v.beautified Properties_C13.required_vo: Properties_C13.v Scalar.vo Outcome.vo Support.vo Proofs_Support.vo Instances.vo
Properties_C13.vio: Properties_C13.v Scalar.vio Outcome.vio Support.vio Proofs_Support.vio Instances.vio
Properties_C13.vos Properties_C13.vok Properties_C13.required_vos: Properties_C13.v Scalar.vos Outcome.vos Support.vos Proofs_Support.vos Instances.vos

(* Properties_C11.v — C11: malformed input is rejected at the boundary with the library's exception.
   Statements only: every theorem is closed by [exact <lemma>] and followed by
   Print Assumptions.  The statements quantify over every scalar structure
   (F, K : Ops F) that satisfies the ordered-field laws (Laws K), and over all
   grids, windows, orders, coefficient values, expressions etc. named in them.
   One characterisation per validating entry point: accepted iff valid, and every refusal is
   Throw <library code> (never BadOptionalAccess, StdOutOfRange or UB).  The grid theorems need
   no order law, so they hold for the IEEE comparison structure ext (NaN, +-inf) as well. *)
From Coq Require Import List NArith ZArith Arith Bool.
From BSpl Require Import Scalar Outcome Support Poly Spline Ops Forms Generator Interp Spec Spec_Ops Spec_Gen Proofs_Support Proofs_Scalar Proofs_Poly Proofs_Binom Proofs_Eval Proofs_Outcome Proofs_Spline Proofs_Forms Proofs_Ops Proofs_Forms2 Proofs_Interp Proofs_Pred Proofs_Gen Instances Instances_Ext Proofs_Valid Solver Pool Quad Proofs_Pool Proofs_Quad Proofs_Rounded Proofs_Threads Proofs_Updates Examples Proofs_Examples Proofs_Analysis Proofs_Smooth Proofs_Laws.
Import ListNotations.


Theorem C11_grid_iff :
    forall (F : Type) (K : Ops F) (l : list F),
           (exists g : grid, grid_ctor l = Ok g) <-> (2 <= nlen l)%N /\ increasing l.
Proof. exact (@Proofs_Eval.grid_ctor_iff). Qed.

Theorem C11_grid_outcomes :
    forall (F : Type) (K : Ops F) (l : list F),
           grid_ctor l = Ok l \/ grid_ctor l = Throw MISSING_DATA \/ grid_ctor l = Throw INCONSISTENT_DATA.
Proof. exact (@Proofs_Eval.grid_ctor_cases). Qed.

Theorem C11_grid_too_short :
    forall (F : Type) (K : Ops F) (l : list F), grid_ctor l = Throw MISSING_DATA <-> (nlen l < 2)%N.
Proof. exact (@Proofs_Eval.grid_ctor_missing). Qed.

Theorem C11_grid_not_increasing :
    forall (F : Type) (K : Ops F) (l : list F),
           grid_ctor l = Throw INCONSISTENT_DATA <-> (2 <= nlen l)%N /\ ~ increasing l.
Proof. exact (@Proofs_Eval.grid_ctor_inconsistent). Qed.

Theorem C11_grid_nan :
    forall l : list ext,
           In NaN l -> grid_ctor l = Throw MISSING_DATA \/ grid_ctor l = Throw INCONSISTENT_DATA.
Proof. exact (@Proofs_Valid.grid_ctor_nan). Qed.

Theorem C11_grid_nan_inconsistent :
    forall l : list ext, 2 <= length l -> In NaN l -> grid_ctor l = Throw INCONSISTENT_DATA.
Proof. exact (@Proofs_Valid.grid_ctor_nan_long). Qed.

Theorem C11_support_accepted :
    forall (F : Type) (g : list F) (a b : N),
           a = 0%N /\ b = 0%N \/ (a < b <= nlen g)%N ->
           sup_ctor g a b = Ok {| sgrid := g; sstart := a; sstop := b |}.
Proof. exact (@Proofs_Support.sup_ctor_ok). Qed.

Theorem C11_support_refused :
    forall (F : Type) (g : list F) (a b : N),
           ~ (a = 0%N /\ b = 0%N \/ (a < b <= nlen g)%N) -> sup_ctor g a b = Throw INCONSISTENT_DATA.
Proof. exact (@Proofs_Support.sup_ctor_throw). Qed.

Theorem C11_spline_accepted :
    forall (F : Type) (ord : nat) (u : support F) (cs : list (list F)),
           SInv u -> nlen cs = nintervals u -> spl_ctor ord u cs = Ok {| ssup := u; sord := ord; scoefs := cs |}.
Proof. exact (@Proofs_Spline.spl_ctor_ok). Qed.

Theorem C11_spline_refused :
    forall (F : Type) (ord : nat) (u : support F) (cs : list (list F)),
           SInv u -> nlen cs <> nintervals u -> spl_ctor ord u cs = Throw INCONSISTENT_DATA.
Proof. exact (@Proofs_Spline.spl_ctor_throw). Qed.

Theorem C11_generator_iff :
    forall (F : Type) (K : Ops F),
           Laws K ->
           forall ks : list F,
           (nlen ks < 2 ^ 63)%N ->
           (exists gn : generator, gen_ctor1 ks = Ok gn) <-> nondecreasing ks /\ two_distinct ks.
Proof. exact (@Proofs_Gen.gen_ctor1_iff). Qed.

Theorem C11_generator_constant :
    forall (F : Type) (K : Ops F),
           Laws K -> forall ks : list F, ~ two_distinct ks -> gen_ctor1 ks = Throw MISSING_DATA.
Proof. exact (@Proofs_Gen.gen_ctor1_constant). Qed.

Theorem C11_generator_descent :
    forall (F : Type) (K : Ops F),
           Laws K ->
           forall ks : list F, two_distinct ks -> ~ nondecreasing ks -> gen_ctor1 ks = Throw INCONSISTENT_DATA.
Proof. exact (@Proofs_Gen.gen_ctor1_descent). Qed.

Theorem C11_generator_grid_mismatch :
    forall (F : Type) (K : Ops F),
           Laws K ->
           forall ks g : list F,
           nondecreasing ks ->
           two_distinct ks -> (nlen ks < 2 ^ 63)%N -> g <> unique ks -> gen_ctor2 ks g = Throw INCONSISTENT_DATA.
Proof. exact (@Proofs_Gen.gen_ctor2_mismatch). Qed.

Theorem C11_generator_grid_match :
    forall (F : Type) (K : Ops F),
           Laws K ->
           forall ks g : list F,
           nondecreasing ks ->
           two_distinct ks ->
           (nlen ks < 2 ^ 63)%N -> g = unique ks -> gen_ctor2 ks g = Ok {| ggrid := unique ks; gknots := ks |}.
Proof. exact (@Proofs_Gen.gen_ctor2_ok). Qed.

Theorem C11_generate_too_few :
    forall (F : Type) (K : Ops F),
           Laws K ->
           forall (ks : list F) (p : nat),
           nondecreasing ks ->
           two_distinct ks ->
           (nlen ks < 2 ^ 63)%N -> length ks < p + 1 -> generate_bsplines p ks = Throw UNDETERMINED.
Proof. exact (@Proofs_Gen.gen_too_few). Qed.

Theorem C11_generate_valid :
    forall (F : Type) (K : Ops F),
           Laws K ->
           forall (ks : list F) (p : nat),
           nondecreasing ks ->
           two_distinct ks ->
           (nlen ks < 2 ^ 63)%N ->
           p + 1 <= length ks ->
           exists l : list (spline F),
             generate_bsplines p ks = Ok l /\
             length l = length ks - p - 1 /\
             Forall SplInv l /\ Forall (fun s : spline F => sgridp s = unique ks /\ sord s = p) l.
Proof. exact (@Proofs_Gen.gen_count). Qed.

Theorem C11_lincomb_count :
    forall (F : Type) (K : Ops F) (cs : list F) (ss : list (spline F)),
           length cs <> length ss -> lin_comb cs ss = Throw INCONSISTENT_DATA.
Proof. exact (@Proofs_Spline.lin_comb_count). Qed.

Theorem C11_lincomb_empty :
    forall (F : Type) (K : Ops F), lin_comb [] [] = Throw MISSING_DATA.
Proof. exact (@Proofs_Spline.lin_comb_empty). Qed.

Theorem C11_lincomb_differing :
    forall (F : Type) (K : Ops F),
           Laws K ->
           forall (cs : list F) (s0 : spline F) (rest : list (spline F)),
           length cs = length (s0 :: rest) ->
           (exists s : spline F, In s (s0 :: rest) /\ sgridp s <> sgridp s0) ->
           lin_comb cs (s0 :: rest) = Throw DIFFERING_GRIDS.
Proof. exact (@Proofs_Spline.lin_comb_differing). Qed.

Theorem C11_lincomb_valid :
    forall (F : Type) (K : Ops F),
           Laws K ->
           forall (cs : list F) (s0 : spline F) (rest : list (spline F)),
           length cs = length (s0 :: rest) ->
           Forall SplInv (s0 :: rest) ->
           (forall s : spline F, In s (s0 :: rest) -> sgridp s = sgridp s0 /\ sord s = sord s0) ->
           exists r : spline F,
             lin_comb cs (s0 :: rest) = Ok r /\
             SplInv r /\
             sord r = sord s0 /\
             (forall (k : N) (x : F),
              den r k x = lincomb_val cs (map (fun s : spline F => den s k x) (s0 :: rest))).
Proof. exact (@Proofs_Spline.lin_comb_spec). Qed.

Theorem C11_interp_count :
    forall (F : Type) (K : Ops F) (order : nat) (x : support F) (y : list F) (bs : list (boundary F)),
           SInv x -> sup_size x <> nlen y -> interp_system order x y bs = Throw INCONSISTENT_DATA.
Proof. exact (@Proofs_Interp.interp_system_count). Qed.

Theorem C11_interp_few :
    forall (F : Type) (K : Ops F) (order : nat) (x : support F) (y : list F) (bs : list (boundary F)),
           SInv x -> sup_size x = nlen y -> (sup_size x < 2)%N -> interp_system order x y bs = Throw UNDETERMINED.
Proof. exact (@Proofs_Interp.interp_system_few). Qed.

Theorem C11_interp_bad_derivative :
    forall (F : Type) (K : Ops F) (order : nat) (x : support F) (y : list F) (bs : list (boundary F)),
           SInv x ->
           GInv (sgrid x) ->
           sup_size x = nlen y ->
           (2 <= sup_size x)%N -> ~ bnd_ok order bs -> interp_system order x y bs = Throw UNDETERMINED.
Proof. exact (@Proofs_Interp.interp_system_bad_deriv). Qed.

Theorem C11_interp_valid :
    forall (F : Type) (K : Ops F) (order : nat) (x : support F) (y : list F) (bs : list (boundary F)),
           SInv x ->
           GInv (sgrid x) ->
           1 <= order ->
           sup_size x = nlen y ->
           (2 <= sup_size x)%N ->
           bnd_ok order bs ->
           length bs = order - 1 ->
           exists rows : list (row F),
             interp_system order x y bs = Ok rows /\ length rows = (order + 1) * (N.to_nat (sup_size x) - 1).
Proof. exact (@Proofs_Interp.interp_system_ok). Qed.


Print Assumptions C11_grid_iff.
Print Assumptions C11_grid_outcomes.
Print Assumptions C11_grid_too_short.
Print Assumptions C11_grid_not_increasing.
Print Assumptions C11_grid_nan.
Print Assumptions C11_grid_nan_inconsistent.
Print Assumptions C11_support_accepted.
Print Assumptions C11_support_refused.
Print Assumptions C11_spline_accepted.
Print Assumptions C11_spline_refused.
Print Assumptions C11_generator_iff.
Print Assumptions C11_generator_constant.
Print Assumptions C11_generator_descent.
Print Assumptions C11_generator_grid_mismatch.
Print Assumptions C11_generator_grid_match.
Print Assumptions C11_generate_too_few.
Print Assumptions C11_generate_valid.
Print Assumptions C11_lincomb_count.
Print Assumptions C11_lincomb_empty.
Print Assumptions C11_lincomb_differing.
Print Assumptions C11_lincomb_valid.
Print Assumptions C11_interp_count.
Print Assumptions C11_interp_few.
Print Assumptions C11_interp_bad_derivative.
Print Assumptions C11_interp_valid.

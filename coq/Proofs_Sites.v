(* Proofs_Sites.v — the syntactic tie of C09 and C18: the tables regenerated from /repo's headers on
   every run (coq/gen/Sites.v, coq/gen/Shared.v, written by gen/scan_sites.py) must be covered by the
   hand-maintained tables below.  A new unchecked access, a changed index expression, a new static /
   mutable / const_cast / shared_ptr or pointer member makes the vm_compute obligation fail.
   Each entry names where the access lives in the model and which theorems prove it in range
   (C09), respectively why the construct cannot be raced on (C18). *)
From Coq Require Import List String Bool.
From BSpl.gen Require Import Sites Shared.
Import ListNotations.
Local Open Scope string_scope.

Definition pair_eqb (a b : string * string) : bool := String.eqb (fst a) (fst b) && String.eqb (snd a) (snd b).

(* (file, access expression, where it is modelled and proved in range) *)
Definition site_table : list (string * string * string) :=
  [
    ("bspline/Spline.h", "(_support[*intervalIndex + 1]", "Spline.v (find_interval/spl_eval: sup_sub, sub; spl_mul/spl_add: coefs_at after interval_index; spl_assign_up, lin_comb: fixed-size arrays of length order+1) - in range by Proofs_Eval.seval_total, Proofs_Spline.spl_add_spec/spl_mul_spec/lin_comb_spec, Proofs_Pool.no_ub");
    ("bspline/Spline.h", ").back()", "Spline.v (find_interval/spl_eval: sup_sub, sub; spl_mul/spl_add: coefs_at after interval_index; spl_assign_up, lin_comb: fixed-size arrays of length order+1) - in range by Proofs_Eval.seval_total, Proofs_Spline.spl_add_spec/spl_mul_spec/lin_comb_spec, Proofs_Pool.no_ub");
    ("bspline/Spline.h", ").front()", "Spline.v (find_interval/spl_eval: sup_sub, sub; spl_mul/spl_add: coefs_at after interval_index; spl_assign_up, lin_comb: fixed-size arrays of length order+1) - in range by Proofs_Eval.seval_total, Proofs_Spline.spl_add_spec/spl_mul_spec/lin_comb_spec, Proofs_Pool.no_ub");
    ("bspline/Spline.h", "_coefficients[*intervalIndex]", "Spline.v (find_interval/spl_eval: sup_sub, sub; spl_mul/spl_add: coefs_at after interval_index; spl_assign_up, lin_comb: fixed-size arrays of length order+1) - in range by Proofs_Eval.seval_total, Proofs_Spline.spl_add_spec/spl_mul_spec/lin_comb_spec, Proofs_Pool.no_ub");
    ("bspline/Spline.h", "_coefficients[*thisRelIndex]", "Spline.v (find_interval/spl_eval: sup_sub, sub; spl_mul/spl_add: coefs_at after interval_index; spl_assign_up, lin_comb: fixed-size arrays of length order+1) - in range by Proofs_Eval.seval_total, Proofs_Spline.spl_add_spec/spl_mul_spec/lin_comb_spec, Proofs_Pool.no_ub");
    ("bspline/Spline.h", "_coefficients[thisRelIndex]", "Spline.v (find_interval/spl_eval: sup_sub, sub; spl_mul/spl_add: coefs_at after interval_index; spl_assign_up, lin_comb: fixed-size arrays of length order+1) - in range by Proofs_Eval.seval_total, Proofs_Spline.spl_add_spec/spl_mul_spec/lin_comb_spec, Proofs_Pool.no_ub");
    ("bspline/Spline.h", "_support.back()", "Spline.v (find_interval/spl_eval: sup_sub, sub; spl_mul/spl_add: coefs_at after interval_index; spl_assign_up, lin_comb: fixed-size arrays of length order+1) - in range by Proofs_Eval.seval_total, Proofs_Spline.spl_add_spec/spl_mul_spec/lin_comb_spec, Proofs_Pool.no_ub");
    ("bspline/Spline.h", "_support.front()", "Spline.v (find_interval/spl_eval: sup_sub, sub; spl_mul/spl_add: coefs_at after interval_index; spl_assign_up, lin_comb: fixed-size arrays of length order+1) - in range by Proofs_Eval.seval_total, Proofs_Spline.spl_add_spec/spl_mul_spec/lin_comb_spec, Proofs_Pool.no_ub");
    ("bspline/Spline.h", "_support[*intervalIndex]", "Spline.v (find_interval/spl_eval: sup_sub, sub; spl_mul/spl_add: coefs_at after interval_index; spl_assign_up, lin_comb: fixed-size arrays of length order+1) - in range by Proofs_Eval.seval_total, Proofs_Spline.spl_add_spec/spl_mul_spec/lin_comb_spec, Proofs_Pool.no_ub");
    ("bspline/Spline.h", "a.getCoefficients()[*aRelIndex]", "Spline.v (find_interval/spl_eval: sup_sub, sub; spl_mul/spl_add: coefs_at after interval_index; spl_assign_up, lin_comb: fixed-size arrays of length order+1) - in range by Proofs_Eval.seval_total, Proofs_Spline.spl_add_spec/spl_mul_spec/lin_comb_spec, Proofs_Pool.no_ub");
    ("bspline/Spline.h", "a.getCoefficients()[aRelIndex]", "Spline.v (find_interval/spl_eval: sup_sub, sub; spl_mul/spl_add: coefs_at after interval_index; spl_assign_up, lin_comb: fixed-size arrays of length order+1) - in range by Proofs_Eval.seval_total, Proofs_Spline.spl_add_spec/spl_mul_spec/lin_comb_spec, Proofs_Pool.no_ub");
    ("bspline/Spline.h", "a.getCoefficients()[i]", "Spline.v (find_interval/spl_eval: sup_sub, sub; spl_mul/spl_add: coefs_at after interval_index; spl_assign_up, lin_comb: fixed-size arrays of length order+1) - in range by Proofs_Eval.seval_total, Proofs_Spline.spl_add_spec/spl_mul_spec/lin_comb_spec, Proofs_Pool.no_ub");
    ("bspline/Spline.h", "acoeffs[k]", "Spline.v (find_interval/spl_eval: sup_sub, sub; spl_mul/spl_add: coefs_at after interval_index; spl_assign_up, lin_comb: fixed-size arrays of length order+1) - in range by Proofs_Eval.seval_total, Proofs_Spline.spl_add_spec/spl_mul_spec/lin_comb_spec, Proofs_Pool.no_ub");
    ("bspline/Spline.h", "coeffsi[j + k]", "Spline.v (find_interval/spl_eval: sup_sub, sub; spl_mul/spl_add: coefs_at after interval_index; spl_assign_up, lin_comb: fixed-size arrays of length order+1) - in range by Proofs_Eval.seval_total, Proofs_Spline.spl_add_spec/spl_mul_spec/lin_comb_spec, Proofs_Pool.no_ub");
    ("bspline/Spline.h", "coeffsi[j]", "Spline.v (find_interval/spl_eval: sup_sub, sub; spl_mul/spl_add: coefs_at after interval_index; spl_assign_up, lin_comb: fixed-size arrays of length order+1) - in range by Proofs_Eval.seval_total, Proofs_Spline.spl_add_spec/spl_mul_spec/lin_comb_spec, Proofs_Pool.no_ub");
    ("bspline/Spline.h", "ncoefficients[i]", "Spline.v (find_interval/spl_eval: sup_sub, sub; spl_mul/spl_add: coefs_at after interval_index; spl_assign_up, lin_comb: fixed-size arrays of length order+1) - in range by Proofs_Eval.seval_total, Proofs_Spline.spl_add_spec/spl_mul_spec/lin_comb_spec, Proofs_Pool.no_ub");
    ("bspline/Spline.h", "ncoeffsi[j]", "Spline.v (find_interval/spl_eval: sup_sub, sub; spl_mul/spl_add: coefs_at after interval_index; spl_assign_up, lin_comb: fixed-size arrays of length order+1) - in range by Proofs_Eval.seval_total, Proofs_Spline.spl_add_spec/spl_mul_spec/lin_comb_spec, Proofs_Pool.no_ub");
    ("bspline/Spline.h", "newCoefficients[i]", "Spline.v (find_interval/spl_eval: sup_sub, sub; spl_mul/spl_add: coefs_at after interval_index; spl_assign_up, lin_comb: fixed-size arrays of length order+1) - in range by Proofs_Eval.seval_total, Proofs_Spline.spl_add_spec/spl_mul_spec/lin_comb_spec, Proofs_Pool.no_ub");
    ("bspline/Spline.h", "newCoeffs[k]", "Spline.v (find_interval/spl_eval: sup_sub, sub; spl_mul/spl_add: coefs_at after interval_index; spl_assign_up, lin_comb: fixed-size arrays of length order+1) - in range by Proofs_Eval.seval_total, Proofs_Spline.spl_add_spec/spl_mul_spec/lin_comb_spec, Proofs_Pool.no_ub");
    ("bspline/Spline.h", "splineCoeffs[k]", "Spline.v (find_interval/spl_eval: sup_sub, sub; spl_mul/spl_add: coefs_at after interval_index; spl_assign_up, lin_comb: fixed-size arrays of length order+1) - in range by Proofs_Eval.seval_total, Proofs_Spline.spl_add_spec/spl_mul_spec/lin_comb_spec, Proofs_Pool.no_ub");
    ("bspline/Spline.h", "thiscoeffs[j]", "Spline.v (find_interval/spl_eval: sup_sub, sub; spl_mul/spl_add: coefs_at after interval_index; spl_assign_up, lin_comb: fixed-size arrays of length order+1) - in range by Proofs_Eval.seval_total, Proofs_Spline.spl_add_spec/spl_mul_spec/lin_comb_spec, Proofs_Pool.no_ub");
    ("bspline/integration/BilinearForm.h", "(a.getSupport()[aIndex + 1]", "Forms.v (bilinear: sup_sub, coefs_at; bi_kernel: even-power array of size (sa+sb)/2) - Proofs_Forms.bilinear_spec, bi_kernel_spec, Proofs_Pool.bilinear_safe");
    ("bspline/integration/BilinearForm.h", "_o1.transform(a.getCoefficients()[aIndex]", "Forms.v (bilinear: sup_sub, coefs_at; bi_kernel: even-power array of size (sa+sb)/2) - Proofs_Forms.bilinear_spec, bi_kernel_spec, Proofs_Pool.bilinear_safe");
    ("bspline/integration/BilinearForm.h", "_o2.transform(b.getCoefficients()[bIndex]", "Forms.v (bilinear: sup_sub, coefs_at; bi_kernel: even-power array of size (sa+sb)/2) - Proofs_Forms.bilinear_spec, bi_kernel_spec, Proofs_Pool.bilinear_safe");
    ("bspline/integration/BilinearForm.h", "a.getSupport()[aIndex]", "Forms.v (bilinear: sup_sub, coefs_at; bi_kernel: even-power array of size (sa+sb)/2) - Proofs_Forms.bilinear_spec, bi_kernel_spec, Proofs_Pool.bilinear_safe");
    ("bspline/integration/BilinearForm.h", "a[i]", "Forms.v (bilinear: sup_sub, coefs_at; bi_kernel: even-power array of size (sa+sb)/2) - Proofs_Forms.bilinear_spec, bi_kernel_spec, Proofs_Pool.bilinear_safe");
    ("bspline/integration/BilinearForm.h", "b[j]", "Forms.v (bilinear: sup_sub, coefs_at; bi_kernel: even-power array of size (sa+sb)/2) - Proofs_Forms.bilinear_spec, bi_kernel_spec, Proofs_Pool.bilinear_safe");
    ("bspline/integration/BilinearForm.h", "coefficients[(i + j) / 2]", "Forms.v (bilinear: sup_sub, coefs_at; bi_kernel: even-power array of size (sa+sb)/2) - Proofs_Forms.bilinear_spec, bi_kernel_spec, Proofs_Pool.bilinear_safe");
    ("bspline/integration/BilinearForm.h", "coefficients[endIndex]", "Forms.v (bilinear: sup_sub, coefs_at; bi_kernel: even-power array of size (sa+sb)/2) - Proofs_Forms.bilinear_spec, bi_kernel_spec, Proofs_Pool.bilinear_safe");
    ("bspline/integration/BilinearForm.h", "coefficients[i]", "Forms.v (bilinear: sup_sub, coefs_at; bi_kernel: even-power array of size (sa+sb)/2) - Proofs_Forms.bilinear_spec, bi_kernel_spec, Proofs_Pool.bilinear_safe");
    ("bspline/integration/LinearForm.h", "(a.getSupport()[i + 1]", "Forms.v (linear: sup_sub, coefs_at; lin_kernel) - Proofs_Forms.linear_spec, lin_kernel_spec, Proofs_Pool.linear_safe");
    ("bspline/integration/LinearForm.h", "a.getSupport()[i]", "Forms.v (linear: sup_sub, coefs_at; lin_kernel) - Proofs_Forms.linear_spec, lin_kernel_spec, Proofs_Pool.linear_safe");
    ("bspline/integration/LinearForm.h", "a[i]", "Forms.v (linear: sup_sub, coefs_at; lin_kernel) - Proofs_Forms.linear_spec, lin_kernel_spec, Proofs_Pool.linear_safe");
    ("bspline/integration/LinearForm.h", "evaluateInterval(_o.transform(a.getCoefficients()[i]", "Forms.v (linear: sup_sub, coefs_at; lin_kernel) - Proofs_Forms.linear_spec, lin_kernel_spec, Proofs_Pool.linear_safe");
    ("bspline/internal/misc.h", "b[i]", "Poly.v (arr_add, change_size, eval_interval on fixed-size arrays, loops bounded by the static sizes) - Proofs_Poly.length_arr_add, length_change_size, eval_interval_spec");
    ("bspline/internal/misc.h", "coeffs.back()", "Poly.v (arr_add, change_size, eval_interval on fixed-size arrays, loops bounded by the static sizes) - Proofs_Poly.length_arr_add, length_change_size, eval_interval_spec");
    ("bspline/internal/misc.h", "in[i]", "Poly.v (arr_add, change_size, eval_interval on fixed-size arrays, loops bounded by the static sizes) - Proofs_Poly.length_arr_add, length_change_size, eval_interval_spec");
    ("bspline/internal/misc.h", "rbegin() + 1", "Poly.v (arr_add, change_size, eval_interval on fixed-size arrays, loops bounded by the static sizes) - Proofs_Poly.length_arr_add, length_change_size, eval_interval_spec");
    ("bspline/internal/misc.h", "rend()", "Poly.v (arr_add, change_size, eval_interval on fixed-size arrays, loops bounded by the static sizes) - Proofs_Poly.length_arr_add, length_change_size, eval_interval_spec");
    ("bspline/internal/misc.h", "ret[i]", "Poly.v (arr_add, change_size, eval_interval on fixed-size arrays, loops bounded by the static sizes) - Proofs_Poly.length_arr_add, length_change_size, eval_interval_spec");
    ("bspline/interpolation/interpolation.h", "(x[0]", "Interp.v (interp_system: sup_sub at 0,1,c-1,c,c+1,n-2 guarded by size >= 2 and the loop bounds; y[c], y.front/back guarded by size equality) - Proofs_Interp.interp_system_ok, interp_build_ok, Proofs_Pool.interp_system_okP");
    ("bspline/interpolation/interpolation.h", "(x[c]", "Interp.v (interp_system: sup_sub at 0,1,c-1,c,c+1,n-2 guarded by size >= 2 and the loop bounds; y[c], y.front/back guarded by size equality) - Proofs_Interp.interp_system_ok, interp_build_ok, Proofs_Pool.interp_system_okP");
    ("bspline/interpolation/interpolation.h", "coeffs[i]", "Interp.v (interp_system: sup_sub at 0,1,c-1,c,c+1,n-2 guarded by size >= 2 and the loop bounds; y[c], y.front/back guarded by size equality) - Proofs_Interp.interp_system_ok, interp_build_ok, Proofs_Pool.interp_system_okP");
    ("bspline/interpolation/interpolation.h", "coeffsi[j]", "Interp.v (interp_system: sup_sub at 0,1,c-1,c,c+1,n-2 guarded by size >= 2 and the loop bounds; y[c], y.front/back guarded by size equality) - Proofs_Interp.interp_system_ok, interp_build_ok, Proofs_Pool.interp_system_okP");
    ("bspline/interpolation/interpolation.h", "ret[i]", "Interp.v (interp_system: sup_sub at 0,1,c-1,c,c+1,n-2 guarded by size >= 2 and the loop bounds; y[c], y.front/back guarded by size equality) - Proofs_Interp.interp_system_ok, interp_build_ok, Proofs_Pool.interp_system_okP");
    ("bspline/interpolation/interpolation.h", "x.back()", "Interp.v (interp_system: sup_sub at 0,1,c-1,c,c+1,n-2 guarded by size >= 2 and the loop bounds; y[c], y.front/back guarded by size equality) - Proofs_Interp.interp_system_ok, interp_build_ok, Proofs_Pool.interp_system_okP");
    ("bspline/interpolation/interpolation.h", "x[1]", "Interp.v (interp_system: sup_sub at 0,1,c-1,c,c+1,n-2 guarded by size >= 2 and the loop bounds; y[c], y.front/back guarded by size equality) - Proofs_Interp.interp_system_ok, interp_build_ok, Proofs_Pool.interp_system_okP");
    ("bspline/interpolation/interpolation.h", "x[c + 1]", "Interp.v (interp_system: sup_sub at 0,1,c-1,c,c+1,n-2 guarded by size >= 2 and the loop bounds; y[c], y.front/back guarded by size equality) - Proofs_Interp.interp_system_ok, interp_build_ok, Proofs_Pool.interp_system_okP");
    ("bspline/interpolation/interpolation.h", "x[c - 1]", "Interp.v (interp_system: sup_sub at 0,1,c-1,c,c+1,n-2 guarded by size >= 2 and the loop bounds; y[c], y.front/back guarded by size equality) - Proofs_Interp.interp_system_ok, interp_build_ok, Proofs_Pool.interp_system_okP");
    ("bspline/interpolation/interpolation.h", "x[x.size() - 2]", "Interp.v (interp_system: sup_sub at 0,1,c-1,c,c+1,n-2 guarded by size >= 2 and the loop bounds; y[c], y.front/back guarded by size equality) - Proofs_Interp.interp_system_ok, interp_build_ok, Proofs_Pool.interp_system_okP");
    ("bspline/interpolation/interpolation.h", "y.back()", "Interp.v (interp_system: sup_sub at 0,1,c-1,c,c+1,n-2 guarded by size >= 2 and the loop bounds; y[c], y.front/back guarded by size equality) - Proofs_Interp.interp_system_ok, interp_build_ok, Proofs_Pool.interp_system_okP");
    ("bspline/interpolation/interpolation.h", "y.front()", "Interp.v (interp_system: sup_sub at 0,1,c-1,c,c+1,n-2 guarded by size >= 2 and the loop bounds; y[c], y.front/back guarded by size equality) - Proofs_Interp.interp_system_ok, interp_build_ok, Proofs_Pool.interp_system_okP");
    ("bspline/interpolation/interpolation.h", "y[c]", "Interp.v (interp_system: sup_sub at 0,1,c-1,c,c+1,n-2 guarded by size >= 2 and the loop bounds; y[c], y.front/back guarded by size equality) - Proofs_Interp.interp_system_ok, interp_build_ok, Proofs_Pool.interp_system_okP");
    ("bspline/operators/CompoundOperators.h", "a[i]", "Ops.v (OSum/ODiff: arr_add on fixed-size arrays) - Proofs_Poly.length_arr_add");
    ("bspline/operators/CompoundOperators.h", "b[i]", "Ops.v (OSum/ODiff: arr_add on fixed-size arrays) - Proofs_Poly.length_arr_add");
    ("bspline/operators/Derivative.h", "input[i + n]", "Ops.v (der_transform: sub input (i+n), i < size-n) - Proofs_Poly.der_transform_spec");
    ("bspline/operators/Derivative.h", "retVal[i]", "Ops.v (der_transform: sub input (i+n), i < size-n) - Proofs_Poly.der_transform_spec");
    ("bspline/operators/GenericOperators.h", "op.transform(oldCoefficients[i]", "Ops.v (apply: one transform per stored coefficient array, index from the loop bound) - Proofs_Ops.apply_spec, Proofs_Pool.apply_okP");
    ("bspline/operators/Position.h", "(grid[intervalIndex]", "Ops.v (OPos: grid_sub g k, grid_sub g (k+1) for an interval index k; pmul/expand_power on fixed-size arrays) - Proofs_Ops.transform_pos, Proofs_Binom.length_expand_power");
    ("bspline/operators/Position.h", "expanded[j]", "Ops.v (OPos: grid_sub g k, grid_sub g (k+1) for an interval index k; pmul/expand_power on fixed-size arrays) - Proofs_Ops.transform_pos, Proofs_Binom.length_expand_power");
    ("bspline/operators/Position.h", "grid[intervalIndex + 1]", "Ops.v (OPos: grid_sub g k, grid_sub g (k+1) for an interval index k; pmul/expand_power on fixed-size arrays) - Proofs_Ops.transform_pos, Proofs_Binom.length_expand_power");
    ("bspline/operators/Position.h", "input[i]", "Ops.v (OPos: grid_sub g k, grid_sub g (k+1) for an interval index k; pmul/expand_power on fixed-size arrays) - Proofs_Ops.transform_pos, Proofs_Binom.length_expand_power");
    ("bspline/operators/Position.h", "retVal[i + j]", "Ops.v (OPos: grid_sub g k, grid_sub g (k+1) for an interval index k; pmul/expand_power on fixed-size arrays) - Proofs_Ops.transform_pos, Proofs_Binom.length_expand_power");
    ("bspline/operators/Position.h", "retVal[n - i]", "Ops.v (OPos: grid_sub g k, grid_sub g (k+1) for an interval index k; pmul/expand_power on fixed-size arrays) - Proofs_Ops.transform_pos, Proofs_Binom.length_expand_power");
    ("bspline/operators/SplineOperator.h", "_s.getCoefficients()[*relativeIndex]", "Ops.v (OSpl: coefs_at after interval_index (fix D1); pmul on fixed-size arrays) - Proofs_Ops.expr_sound, Proofs_Pool.transform_total");
    ("bspline/operators/SplineOperator.h", "coeffs[j]", "Ops.v (OSpl: coefs_at after interval_index (fix D1); pmul on fixed-size arrays) - Proofs_Ops.expr_sound, Proofs_Pool.transform_total");
    ("bspline/operators/SplineOperator.h", "input[i]", "Ops.v (OSpl: coefs_at after interval_index (fix D1); pmul on fixed-size arrays) - Proofs_Ops.expr_sound, Proofs_Pool.transform_total");
    ("bspline/operators/SplineOperator.h", "retVal[i + j]", "Ops.v (OSpl: coefs_at after interval_index (fix D1); pmul on fixed-size arrays) - Proofs_Ops.expr_sound, Proofs_Pool.transform_total");
    ("bspline/support/Grid.h", "((*_data)[i - 1]", "Support.v (steadily: i-1, i < size by the loop; grid_sub: the documented-unchecked accessor, used with proved indices; front/back guarded by empty()) - Proofs_Eval.grid_ctor_iff, Proofs_Support.*");
    ("bspline/support/Grid.h", "(*_data)[i]", "Support.v (steadily: i-1, i < size by the loop; grid_sub: the documented-unchecked accessor, used with proved indices; front/back guarded by empty()) - Proofs_Eval.grid_ctor_iff, Proofs_Support.*");
    ("bspline/support/Grid.h", "_data->back()", "Support.v (steadily: i-1, i < size by the loop; grid_sub: the documented-unchecked accessor, used with proved indices; front/back guarded by empty()) - Proofs_Eval.grid_ctor_iff, Proofs_Support.*");
    ("bspline/support/Grid.h", "_data->front()", "Support.v (steadily: i-1, i < size by the loop; grid_sub: the documented-unchecked accessor, used with proved indices; front/back guarded by empty()) - Proofs_Eval.grid_ctor_iff, Proofs_Support.*");
    ("bspline/support/Support.h", "_grid[_endIndex - 1]", "Support.v (sup_sub: the documented-unchecked accessor; sup_front/sup_back guarded by empty(); begin()+start/end within [0,size] by the class invariant) - Proofs_Support.sup_front_spec, sup_back_spec, nnth_sup_points, SInv");
    ("bspline/support/Support.h", "_grid[_startIndex + index]", "Support.v (sup_sub: the documented-unchecked accessor; sup_front/sup_back guarded by empty(); begin()+start/end within [0,size] by the class invariant) - Proofs_Support.sup_front_spec, sup_back_spec, nnth_sup_points, SInv");
    ("bspline/support/Support.h", "_grid[_startIndex]", "Support.v (sup_sub: the documented-unchecked accessor; sup_front/sup_back guarded by empty(); begin()+start/end within [0,size] by the class invariant) - Proofs_Support.sup_front_spec, sup_back_spec, nnth_sup_points, SInv");
    ("bspline/support/Support.h", "begin() + _endIndex", "Support.v (sup_sub: the documented-unchecked accessor; sup_front/sup_back guarded by empty(); begin()+start/end within [0,size] by the class invariant) - Proofs_Support.sup_front_spec, sup_back_spec, nnth_sup_points, SInv");
    ("bspline/support/Support.h", "begin() + _startIndex", "Support.v (sup_sub: the documented-unchecked accessor; sup_front/sup_back guarded by empty(); begin()+start/end within [0,size] by the class invariant) - Proofs_Support.sup_front_spec, sup_back_spec, nnth_sup_points, SInv")
  ].

Inductive share_class := Immutable | ConstInitOnce | AtomicRC | PureFunction.

(* Immutable: constexpr constant.  ConstInitOnce: function-local static const, initialised once under the
   C++11 thread-safe-statics rule and never written again.  AtomicRC: shared_ptr to a const vector - the only
   shared mutable word is the atomic reference count.  PureFunction: a static member FUNCTION (no state). *)
Definition shared_table : list (string * string * share_class) :=
  [
    ("bspline/BSplineGenerator.h", "static constexpr size_t k = order + 1;", Immutable);
    ("bspline/Spline.h", "static const T ZERO = static_cast<T>(0);", ConstInitOnce);
    ("bspline/Spline.h", "static constexpr size_t ARRAY_SIZE = order + 1;", Immutable);
    ("bspline/Spline.h", "static constexpr size_t NEW_ARRAY_SIZE = NEW_ORDER + 1;", Immutable);
    ("bspline/Spline.h", "static constexpr size_t NEW_ORDER = order + ordera;", Immutable);
    ("bspline/Spline.h", "static constexpr size_t NEW_ORDER = std::max(order, ordera);", Immutable);
    ("bspline/Spline.h", "static constexpr size_t spline_order = order;", Immutable);
    ("bspline/integration/BilinearForm.h", "static T evaluateInterval(const std::array<T, sizea> &a,", PureFunction);
    ("bspline/integration/LinearForm.h", "static T evaluateInterval(const std::array<T, size> &a, const T &dxhalf) {", PureFunction);
    ("bspline/operators/CompoundOperators.h", "static constexpr size_t outputOrder(size_t inputOrder) {", Immutable);
    ("bspline/operators/CompoundOperators.h", "static std::array<T, std::max(sizea, sizeb)> &add(std::array<T, sizea> &a,", PureFunction);
    ("bspline/operators/Derivative.h", "static constexpr size_t outputOrder(size_t inputOrder) {", Immutable);
    ("bspline/operators/GenericOperators.h", "static constexpr size_t outputOrder(size_t inputOrder) { return inputOrder; }", Immutable);
    ("bspline/operators/Position.h", "static constexpr size_t outputOrder(size_t inputOrder) {", Immutable);
    ("bspline/operators/Position.h", "static std::array<T, n + 1> expandPower(const T &xm) {", PureFunction);
    ("bspline/operators/ScalarOperators.h", "static constexpr size_t outputOrder(size_t inputOrder) {", Immutable);
    ("bspline/operators/SplineOperator.h", "static constexpr size_t outputOrder(size_t inputOrder) {", Immutable);
    ("bspline/support/Grid.h", "explicit Grid(std::shared_ptr<const std::vector<T>> data)", AtomicRC);
    ("bspline/support/Grid.h", "std::shared_ptr<const std::vector<T>> _data;", AtomicRC);
    ("bspline/support/Grid.h", "std::shared_ptr<const std::vector<T>> getData() const {", AtomicRC);
    ("bspline/support/Support.h", "static Support<T> createEmpty(const Grid<T> &grid) {", PureFunction);
    ("bspline/support/Support.h", "static Support<T> createWholeGrid(const Grid<T> &grid) {", PureFunction)
  ].

Definition site_covered (s : string * string) : bool := existsb (fun e => pair_eqb (fst e) s) site_table.
Definition shared_covered (s : string * string) : bool := existsb (fun e => pair_eqb (fst e) s) shared_table.

Theorem sites_covered : forallb site_covered unchecked_sites = true.
Proof. vm_compute. reflexivity. Qed.

Theorem shared_inventory_safe : forallb shared_covered shared_sites = true.
Proof. vm_compute. reflexivity. Qed.

(* which generated entries are not covered (evaluated by the check to name them in a violation report) *)
Definition uncovered_sites := filter (fun s => negb (site_covered s)) unchecked_sites.
Definition uncovered_shared := filter (fun s => negb (shared_covered s)) shared_sites.

(* Proofs_Sites.v — the access-shape inventory of C09 (no longer a theorem, see below; C18's inventory is in
   Proofs_Shared.v): the tables regenerated from /repo's headers on
   every run (coq/gen/Sites.v, coq/gen/Shared.v, written by gen/scan_sites.py) must be covered by the
   hand-maintained tables below.  A new unchecked access, a changed index expression, a new static /
   mutable / const_cast / shared_ptr or pointer member makes the vm_compute obligation fail.
   Each entry names where the access lives in the model and which theorems prove it in range
   (C09), respectively why the construct cannot be raced on (C18). *)
From Coq Require Import List String Bool.
From BSpl.gen Require Import Sites.
Import ListNotations.
Local Open Scope string_scope.

Definition pair_eqb (a b : string * string) : bool := String.eqb (fst a) (fst b) && String.eqb (snd a) (snd b).

(* (file, access expression, where it is modelled and proved in range) *)
Definition site_table : list (string * string * string) :=
  [
    ("bspline/Spline.h", "(_support[*v1 + 1]", "Spline.v (find_interval/spl_eval: sup_sub, sub; spl_mul/spl_add: coefs_at after interval_index; spl_assign_up, lin_comb: fixed-size arrays of length order+1) - in range by Proofs_Eval.seval_total, Proofs_Spline.spl_add_spec/spl_mul_spec/lin_comb_spec, Proofs_Pool.no_ub");
    ("bspline/Spline.h", ").back()", "Spline.v (find_interval/spl_eval: sup_sub, sub; spl_mul/spl_add: coefs_at after interval_index; spl_assign_up, lin_comb: fixed-size arrays of length order+1) - in range by Proofs_Eval.seval_total, Proofs_Spline.spl_add_spec/spl_mul_spec/lin_comb_spec, Proofs_Pool.no_ub");
    ("bspline/Spline.h", ").front()", "Spline.v (find_interval/spl_eval: sup_sub, sub; spl_mul/spl_add: coefs_at after interval_index; spl_assign_up, lin_comb: fixed-size arrays of length order+1) - in range by Proofs_Eval.seval_total, Proofs_Spline.spl_add_spec/spl_mul_spec/lin_comb_spec, Proofs_Pool.no_ub");
    ("bspline/Spline.h", "_coefficients[*v1]", "Spline.v (find_interval/spl_eval: sup_sub, sub; spl_mul/spl_add: coefs_at after interval_index; spl_assign_up, lin_comb: fixed-size arrays of length order+1) - in range by Proofs_Eval.seval_total, Proofs_Spline.spl_add_spec/spl_mul_spec/lin_comb_spec, Proofs_Pool.no_ub");
    ("bspline/Spline.h", "_coefficients[v1]", "Spline.v (find_interval/spl_eval: sup_sub, sub; spl_mul/spl_add: coefs_at after interval_index; spl_assign_up, lin_comb: fixed-size arrays of length order+1) - in range by Proofs_Eval.seval_total, Proofs_Spline.spl_add_spec/spl_mul_spec/lin_comb_spec, Proofs_Pool.no_ub");
    ("bspline/Spline.h", "_support.back()", "Spline.v (find_interval/spl_eval: sup_sub, sub; spl_mul/spl_add: coefs_at after interval_index; spl_assign_up, lin_comb: fixed-size arrays of length order+1) - in range by Proofs_Eval.seval_total, Proofs_Spline.spl_add_spec/spl_mul_spec/lin_comb_spec, Proofs_Pool.no_ub");
    ("bspline/Spline.h", "_support.front()", "Spline.v (find_interval/spl_eval: sup_sub, sub; spl_mul/spl_add: coefs_at after interval_index; spl_assign_up, lin_comb: fixed-size arrays of length order+1) - in range by Proofs_Eval.seval_total, Proofs_Spline.spl_add_spec/spl_mul_spec/lin_comb_spec, Proofs_Pool.no_ub");
    ("bspline/Spline.h", "_support[*v1]", "Spline.v (find_interval/spl_eval: sup_sub, sub; spl_mul/spl_add: coefs_at after interval_index; spl_assign_up, lin_comb: fixed-size arrays of length order+1) - in range by Proofs_Eval.seval_total, Proofs_Spline.spl_add_spec/spl_mul_spec/lin_comb_spec, Proofs_Pool.no_ub");
    ("bspline/Spline.h", "v1.getCoefficients()[*v2]", "Spline.v (find_interval/spl_eval: sup_sub, sub; spl_mul/spl_add: coefs_at after interval_index; spl_assign_up, lin_comb: fixed-size arrays of length order+1) - in range by Proofs_Eval.seval_total, Proofs_Spline.spl_add_spec/spl_mul_spec/lin_comb_spec, Proofs_Pool.no_ub");
    ("bspline/Spline.h", "v1.getCoefficients()[v2]", "Spline.v (find_interval/spl_eval: sup_sub, sub; spl_mul/spl_add: coefs_at after interval_index; spl_assign_up, lin_comb: fixed-size arrays of length order+1) - in range by Proofs_Eval.seval_total, Proofs_Spline.spl_add_spec/spl_mul_spec/lin_comb_spec, Proofs_Pool.no_ub");
    ("bspline/Spline.h", "v1[v2]", "Spline.v (find_interval/spl_eval: sup_sub, sub; spl_mul/spl_add: coefs_at after interval_index; spl_assign_up, lin_comb: fixed-size arrays of length order+1) - in range by Proofs_Eval.seval_total, Proofs_Spline.spl_add_spec/spl_mul_spec/lin_comb_spec, Proofs_Pool.no_ub");
    ("bspline/Spline.h", "v1[v2 + v3]", "Spline.v (find_interval/spl_eval: sup_sub, sub; spl_mul/spl_add: coefs_at after interval_index; spl_assign_up, lin_comb: fixed-size arrays of length order+1) - in range by Proofs_Eval.seval_total, Proofs_Spline.spl_add_spec/spl_mul_spec/lin_comb_spec, Proofs_Pool.no_ub");
    ("bspline/integration/BilinearForm.h", "(v1.getSupport()[v2 + 1]", "Forms.v (bilinear: sup_sub, coefs_at; bi_kernel: even-power array of size (sa+sb)/2) - Proofs_Forms.bilinear_spec, bi_kernel_spec, Proofs_Pool.bilinear_safe");
    ("bspline/integration/BilinearForm.h", "_o1.transform(v1.getCoefficients()[v2]", "Forms.v (bilinear: sup_sub, coefs_at; bi_kernel: even-power array of size (sa+sb)/2) - Proofs_Forms.bilinear_spec, bi_kernel_spec, Proofs_Pool.bilinear_safe");
    ("bspline/integration/BilinearForm.h", "_o2.transform(v1.getCoefficients()[v2]", "Forms.v (bilinear: sup_sub, coefs_at; bi_kernel: even-power array of size (sa+sb)/2) - Proofs_Forms.bilinear_spec, bi_kernel_spec, Proofs_Pool.bilinear_safe");
    ("bspline/integration/BilinearForm.h", "v1.getSupport()[v2]", "Forms.v (bilinear: sup_sub, coefs_at; bi_kernel: even-power array of size (sa+sb)/2) - Proofs_Forms.bilinear_spec, bi_kernel_spec, Proofs_Pool.bilinear_safe");
    ("bspline/integration/BilinearForm.h", "v1[v2]", "Forms.v (bilinear: sup_sub, coefs_at; bi_kernel: even-power array of size (sa+sb)/2) - Proofs_Forms.bilinear_spec, bi_kernel_spec, Proofs_Pool.bilinear_safe");
    ("bspline/integration/BilinearForm.h", "v1[(v2 + v3) / 2]", "Forms.v (bilinear: sup_sub, coefs_at; bi_kernel: even-power array of size (sa+sb)/2) - Proofs_Forms.bilinear_spec, bi_kernel_spec, Proofs_Pool.bilinear_safe");
    ("bspline/integration/LinearForm.h", "(v1.getSupport()[v2 + 1]", "Forms.v (linear: sup_sub, coefs_at; lin_kernel) - Proofs_Forms.linear_spec, lin_kernel_spec, Proofs_Pool.linear_safe");
    ("bspline/integration/LinearForm.h", "v1.getSupport()[v2]", "Forms.v (linear: sup_sub, coefs_at; lin_kernel) - Proofs_Forms.linear_spec, lin_kernel_spec, Proofs_Pool.linear_safe");
    ("bspline/integration/LinearForm.h", "v1[v2]", "Forms.v (linear: sup_sub, coefs_at; lin_kernel) - Proofs_Forms.linear_spec, lin_kernel_spec, Proofs_Pool.linear_safe");
    ("bspline/integration/LinearForm.h", "evaluateInterval(_o.transform(v1.getCoefficients()[v2]", "Forms.v (linear: sup_sub, coefs_at; lin_kernel) - Proofs_Forms.linear_spec, lin_kernel_spec, Proofs_Pool.linear_safe");
    ("bspline/internal/misc.h", "v1[v2]", "Poly.v (arr_add, change_size, eval_interval on fixed-size arrays, loops bounded by the static sizes) - Proofs_Poly.length_arr_add, length_change_size, eval_interval_spec");
    ("bspline/internal/misc.h", "v1.back()", "Poly.v (arr_add, change_size, eval_interval on fixed-size arrays, loops bounded by the static sizes) - Proofs_Poly.length_arr_add, length_change_size, eval_interval_spec");
    ("bspline/internal/misc.h", "rbegin() + 1", "Poly.v (arr_add, change_size, eval_interval on fixed-size arrays, loops bounded by the static sizes) - Proofs_Poly.length_arr_add, length_change_size, eval_interval_spec");
    ("bspline/internal/misc.h", "rend()", "Poly.v (arr_add, change_size, eval_interval on fixed-size arrays, loops bounded by the static sizes) - Proofs_Poly.length_arr_add, length_change_size, eval_interval_spec");
    ("bspline/interpolation/interpolation.h", "(v1[0]", "Interp.v (interp_system: sup_sub at 0,1,c-1,c,c+1,n-2 guarded by size >= 2 and the loop bounds; y[c], y.front/back guarded by size equality) - Proofs_Interp.interp_system_ok, interp_build_ok, Proofs_Pool.interp_system_okP");
    ("bspline/interpolation/interpolation.h", "(v1[v2]", "Interp.v (interp_system: sup_sub at 0,1,c-1,c,c+1,n-2 guarded by size >= 2 and the loop bounds; y[c], y.front/back guarded by size equality) - Proofs_Interp.interp_system_ok, interp_build_ok, Proofs_Pool.interp_system_okP");
    ("bspline/interpolation/interpolation.h", "v1[v2]", "Interp.v (interp_system: sup_sub at 0,1,c-1,c,c+1,n-2 guarded by size >= 2 and the loop bounds; y[c], y.front/back guarded by size equality) - Proofs_Interp.interp_system_ok, interp_build_ok, Proofs_Pool.interp_system_okP");
    ("bspline/interpolation/interpolation.h", "v1.back()", "Interp.v (interp_system: sup_sub at 0,1,c-1,c,c+1,n-2 guarded by size >= 2 and the loop bounds; y[c], y.front/back guarded by size equality) - Proofs_Interp.interp_system_ok, interp_build_ok, Proofs_Pool.interp_system_okP");
    ("bspline/interpolation/interpolation.h", "v1[1]", "Interp.v (interp_system: sup_sub at 0,1,c-1,c,c+1,n-2 guarded by size >= 2 and the loop bounds; y[c], y.front/back guarded by size equality) - Proofs_Interp.interp_system_ok, interp_build_ok, Proofs_Pool.interp_system_okP");
    ("bspline/interpolation/interpolation.h", "v1[v2 + 1]", "Interp.v (interp_system: sup_sub at 0,1,c-1,c,c+1,n-2 guarded by size >= 2 and the loop bounds; y[c], y.front/back guarded by size equality) - Proofs_Interp.interp_system_ok, interp_build_ok, Proofs_Pool.interp_system_okP");
    ("bspline/interpolation/interpolation.h", "v1[v2 - 1]", "Interp.v (interp_system: sup_sub at 0,1,c-1,c,c+1,n-2 guarded by size >= 2 and the loop bounds; y[c], y.front/back guarded by size equality) - Proofs_Interp.interp_system_ok, interp_build_ok, Proofs_Pool.interp_system_okP");
    ("bspline/interpolation/interpolation.h", "v1[v1.size() - 2]", "Interp.v (interp_system: sup_sub at 0,1,c-1,c,c+1,n-2 guarded by size >= 2 and the loop bounds; y[c], y.front/back guarded by size equality) - Proofs_Interp.interp_system_ok, interp_build_ok, Proofs_Pool.interp_system_okP");
    ("bspline/interpolation/interpolation.h", "v1.front()", "Interp.v (interp_system: sup_sub at 0,1,c-1,c,c+1,n-2 guarded by size >= 2 and the loop bounds; y[c], y.front/back guarded by size equality) - Proofs_Interp.interp_system_ok, interp_build_ok, Proofs_Pool.interp_system_okP");
    ("bspline/operators/CompoundOperators.h", "v1[v2]", "Ops.v (OSum/ODiff: arr_add on fixed-size arrays) - Proofs_Poly.length_arr_add");
    ("bspline/operators/Derivative.h", "v1[v2 + v3]", "Ops.v (der_transform: sub input (i+n), i < size-n) - Proofs_Poly.der_transform_spec");
    ("bspline/operators/Derivative.h", "v1[v2]", "Ops.v (der_transform: sub input (i+n), i < size-n) - Proofs_Poly.der_transform_spec");
    ("bspline/operators/GenericOperators.h", "v1.transform(v2[v3]", "Ops.v (apply: one transform per stored coefficient array, index from the loop bound) - Proofs_Ops.apply_spec, Proofs_Pool.apply_okP");
    ("bspline/operators/Position.h", "(v1[v2]", "Ops.v (OPos: grid_sub g k, grid_sub g (k+1) for an interval index k; pmul/expand_power on fixed-size arrays) - Proofs_Ops.transform_pos, Proofs_Binom.length_expand_power");
    ("bspline/operators/Position.h", "v1[v2]", "Ops.v (OPos: grid_sub g k, grid_sub g (k+1) for an interval index k; pmul/expand_power on fixed-size arrays) - Proofs_Ops.transform_pos, Proofs_Binom.length_expand_power");
    ("bspline/operators/Position.h", "v1[v2 + 1]", "Ops.v (OPos: grid_sub g k, grid_sub g (k+1) for an interval index k; pmul/expand_power on fixed-size arrays) - Proofs_Ops.transform_pos, Proofs_Binom.length_expand_power");
    ("bspline/operators/Position.h", "v1[v2 + v3]", "Ops.v (OPos: grid_sub g k, grid_sub g (k+1) for an interval index k; pmul/expand_power on fixed-size arrays) - Proofs_Ops.transform_pos, Proofs_Binom.length_expand_power");
    ("bspline/operators/Position.h", "v1[v2 - v3]", "Ops.v (OPos: grid_sub g k, grid_sub g (k+1) for an interval index k; pmul/expand_power on fixed-size arrays) - Proofs_Ops.transform_pos, Proofs_Binom.length_expand_power");
    ("bspline/operators/SplineOperator.h", "_s.getCoefficients()[*v1]", "Ops.v (OSpl: coefs_at after interval_index (fix D1); pmul on fixed-size arrays) - Proofs_Ops.expr_sound, Proofs_Pool.transform_total");
    ("bspline/operators/SplineOperator.h", "v1[v2]", "Ops.v (OSpl: coefs_at after interval_index (fix D1); pmul on fixed-size arrays) - Proofs_Ops.expr_sound, Proofs_Pool.transform_total");
    ("bspline/operators/SplineOperator.h", "v1[v2 + v3]", "Ops.v (OSpl: coefs_at after interval_index (fix D1); pmul on fixed-size arrays) - Proofs_Ops.expr_sound, Proofs_Pool.transform_total");
    ("bspline/support/Grid.h", "((*_data)[v1 - 1]", "Support.v (steadily: i-1, i < size by the loop; grid_sub: the documented-unchecked accessor, used with proved indices; front/back guarded by empty()) - Proofs_Eval.grid_ctor_iff, Proofs_Support.*");
    ("bspline/support/Grid.h", "(*_data)[v1]", "Support.v (steadily: i-1, i < size by the loop; grid_sub: the documented-unchecked accessor, used with proved indices; front/back guarded by empty()) - Proofs_Eval.grid_ctor_iff, Proofs_Support.*");
    ("bspline/support/Grid.h", "_data->back()", "Support.v (steadily: i-1, i < size by the loop; grid_sub: the documented-unchecked accessor, used with proved indices; front/back guarded by empty()) - Proofs_Eval.grid_ctor_iff, Proofs_Support.*");
    ("bspline/support/Grid.h", "_data->front()", "Support.v (steadily: i-1, i < size by the loop; grid_sub: the documented-unchecked accessor, used with proved indices; front/back guarded by empty()) - Proofs_Eval.grid_ctor_iff, Proofs_Support.*");
    ("bspline/support/Support.h", "_grid[_endIndex - 1]", "Support.v (sup_sub: the documented-unchecked accessor; sup_front/sup_back guarded by empty(); begin()+start/end within [0,size] by the class invariant) - Proofs_Support.sup_front_spec, sup_back_spec, nnth_sup_points, SInv");
    ("bspline/support/Support.h", "_grid[_startIndex + v1]", "Support.v (sup_sub: the documented-unchecked accessor; sup_front/sup_back guarded by empty(); begin()+start/end within [0,size] by the class invariant) - Proofs_Support.sup_front_spec, sup_back_spec, nnth_sup_points, SInv");
    ("bspline/support/Support.h", "_grid[_startIndex]", "Support.v (sup_sub: the documented-unchecked accessor; sup_front/sup_back guarded by empty(); begin()+start/end within [0,size] by the class invariant) - Proofs_Support.sup_front_spec, sup_back_spec, nnth_sup_points, SInv");
    ("bspline/support/Support.h", "begin() + _endIndex", "Support.v (sup_sub: the documented-unchecked accessor; sup_front/sup_back guarded by empty(); begin()+start/end within [0,size] by the class invariant) - Proofs_Support.sup_front_spec, sup_back_spec, nnth_sup_points, SInv");
    ("bspline/support/Support.h", "begin() + _startIndex", "Support.v (sup_sub: the documented-unchecked accessor; sup_front/sup_back guarded by empty(); begin()+start/end within [0,size] by the class invariant) - Proofs_Support.sup_front_spec, sup_back_spec, nnth_sup_points, SInv")
  ].

Definition site_covered (s : string * string) : bool := existsb (fun e => pair_eqb (fst e) s) site_table.

(* not a proof obligation (DESIGN R9): the check reads the uncovered shapes and, if there are any, escalates
   its search under the sanitizers; see gen/checks.py *)
Definition all_sites_covered : bool := forallb site_covered unchecked_sites.

Definition uncovered_sites := filter (fun s => negb (site_covered s)) unchecked_sites.

(* Solver.v — an exact dense solver (Gauss–Jordan elimination with the first
   non-zero pivot) used as the [Solver] argument of the interpolation model
   when the model is executed.  The correspondence harness instantiates the
   C++ `interpolate` with the same algorithm over exact rationals; for a
   uniquely solvable system any exact solver returns the same vector.  A
   singular system yields the zero vector on both sides.  No proofs here:
   the interpolation theorems hold for every solver result that satisfies the
   assembled system. *)
From Coq Require Import List Arith Bool.
From BSpl Require Import Scalar Outcome Support Poly Spline Interp.
Import ListNotations.
Local Open Scope F_scope.

Section Solver.
  Context {F : Type} {K : Ops F}.

  (* entry j of a sparse row: the last value written to column j, else 0 *)
  Definition row_entry (r : row F) (j : nat) : F :=
    fold_left (fun acc '(c, v) => if (c =? j)%nat then v else acc) (rentries r) f0.

  (* dense augmented row: n matrix entries followed by the right-hand side *)
  Definition dense_row (n : nat) (r : row F) : list F :=
    map (row_entry r) (seq 0 n) ++ [rrhs r].

  Definition row_scale (c : F) (r : list F) : list F := map (fun a => a * c) r.
  Definition row_axpy (c : F) (p r : list F) : list F :=   (* r - c * p *)
    map (fun '(a, b) => a - c * b) (combine r p).

  (* index of the first row at position >= k whose entry in column k is non-zero *)
  Fixpoint find_pivot (rows : list (list F)) (k i : nat) : option nat :=
    match rows with
    | [] => None
    | r :: rest =>
        if (k <=? i)%nat && negb (feqb (nth k r f0) f0) then Some i
        else find_pivot rest k (S i)
    end.

  Definition swap_rows (rows : list (list F)) (i j : nat) : list (list F) :=
    let ri := nth i rows [] in
    let rj := nth j rows [] in
    map (fun '(idx, r) => if (idx =? i)%nat then rj else if (idx =? j)%nat then ri else r)
        (combine (seq 0 (length rows)) rows).

  Definition eliminate (rows : list (list F)) (k : nat) : option (list (list F)) :=
    match find_pivot rows k 0 with
    | None => None
    | Some p =>
        let rows1 := swap_rows rows k p in
        let pr := nth k rows1 [] in
        let prn := row_scale (f1 / nth k pr f0) pr in
        Some (map (fun '(idx, r) => if (idx =? k)%nat then prn
                                    else row_axpy (nth k r f0) prn r)
                  (combine (seq 0 (length rows1)) rows1))
    end.

  Fixpoint gauss_loop (rows : list (list F)) (k fuel : nat) : option (list (list F)) :=
    match fuel with
    | O => Some rows
    | S f => match eliminate rows k with
             | None => None
             | Some rows' => gauss_loop rows' (S k) f
             end
    end.

  (* solution of the n x n system given by its sparse rows, zeros if singular *)
  Definition gauss_solve (n : nat) (sys : list (row F)) : list F :=
    match gauss_loop (map (dense_row n) sys) 0 n with
    | Some rows => map (fun r => nth n r f0) rows
    | None => repeat f0 n
    end.
End Solver.

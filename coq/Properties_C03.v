(* Properties_C03.v — C03: spline arithmetic is pointwise arithmetic of the denoted functions.
   Statements only: every theorem is closed by [exact <lemma>] and followed by
   Print Assumptions.  The statements quantify over every scalar structure
   (F, K : Ops F) that satisfies the ordered-field laws (Laws K), and over all
   grids, windows, orders, coefficient values, expressions etc. named in them.
   Every equation on den holds for ALL interval indices k and all x: den is zero where a
   spline is not supported, so "zero wherever the result is not supported" is part of it. *)
From Coq Require Import List NArith ZArith Arith Bool.
From BSpl Require Import Scalar Outcome Support Poly Spline Ops Forms Generator Interp Spec Spec_Ops Spec_Gen Proofs_Support Proofs_Scalar Proofs_Poly Proofs_Binom Proofs_Eval Proofs_Outcome Proofs_Spline Proofs_Forms Proofs_Ops Proofs_Forms2 Proofs_Interp Proofs_Pred Proofs_Gen Instances Instances_Ext Proofs_Valid Solver Pool Quad Proofs_Pool Proofs_Quad Proofs_Rounded Proofs_Threads Proofs_Updates Examples Proofs_Examples Proofs_Analysis Proofs_Smooth Proofs_Laws.
Import ListNotations.


Theorem C03_scale :
    forall (F : Type) (K : Ops F),
           Laws K -> forall (s : spline F) (c : F) (k : N) (x : F), den (spl_scale s c) k x = (den s k x * c)%F.
Proof. exact (@Proofs_Spline.spl_scale_den). Qed.

Theorem C03_scale_l :
    forall (F : Type) (K : Ops F),
           Laws K -> forall (s : spline F) (c : F) (k : N) (x : F), den (spl_scale_l c s) k x = (c * den s k x)%F.
Proof. exact (@Proofs_Spline.spl_scale_l_den). Qed.

Theorem C03_neg :
    forall (F : Type) (K : Ops F),
           Laws K -> forall (s : spline F) (k : N) (x : F), den (spl_neg s) k x = (- den s k x)%F.
Proof. exact (@Proofs_Spline.spl_neg_den). Qed.

Theorem C03_scale_inv :
    forall (F : Type) (K : Ops F) (s : spline F) (c : F), SplInv s -> SplInv (spl_scale s c).
Proof. exact (@Proofs_Spline.spl_scale_inv). Qed.

Theorem C03_div :
    forall (F : Type) (K : Ops F),
           Laws K ->
           forall (s : spline F) (d : F),
           SplInv s ->
           d <> f0 ->
           exists r : spline F,
             spl_div s d = Ok r /\
             SplInv r /\
             ssup r = ssup s /\ sord r = sord s /\ (forall (k : N) (x : F), den r k x = (den s k x / d)%F).
Proof. exact (@Proofs_Spline.spl_div_spec). Qed.

Theorem C03_assign_up :
    forall (F : Type) (K : Ops F),
           Laws K ->
           forall (ord : nat) (a : spline F),
           SplInv a ->
           sord a <= ord ->
           exists r : spline F,
             spl_assign_up ord a = Ok r /\
             SplInv r /\ sord r = ord /\ ssup r = ssup a /\ (forall (k : N) (x : F), den r k x = den a k x).
Proof. exact (@Proofs_Spline.spl_assign_up_spec). Qed.

Theorem C03_add :
    forall (F : Type) (K : Ops F),
           Laws K ->
           forall a b : spline F,
           SplInv a ->
           SplInv b ->
           sgridp a = sgridp b ->
           exists (u : support F) (r : spline F),
             calc_union (ssup a) (ssup b) = Ok u /\
             spl_add a b = Ok r /\
             SplInv r /\
             ssup r = u /\
             sord r = Nat.max (sord a) (sord b) /\
             (forall (k : N) (x : F), den r k x = (den a k x + den b k x)%F).
Proof. exact (@Proofs_Spline.spl_add_spec). Qed.

Theorem C03_sub :
    forall (F : Type) (K : Ops F),
           Laws K ->
           forall a b : spline F,
           SplInv a ->
           SplInv b ->
           sgridp a = sgridp b ->
           exists (u : support F) (r : spline F),
             calc_union (ssup a) (ssup b) = Ok u /\
             spl_sub a b = Ok r /\
             SplInv r /\
             ssup r = u /\
             sord r = Nat.max (sord a) (sord b) /\
             (forall (k : N) (x : F), den r k x = (den a k x - den b k x)%F).
Proof. exact (@Proofs_Spline.spl_sub_spec). Qed.

Theorem C03_mul :
    forall (F : Type) (K : Ops F),
           Laws K ->
           forall a b : spline F,
           SplInv a ->
           SplInv b ->
           sgridp a = sgridp b ->
           exists (u : support F) (r : spline F),
             calc_inter (ssup a) (ssup b) = Ok u /\
             spl_mul a b = Ok r /\
             SplInv r /\
             ssup r = u /\
             sord r = sord a + sord b /\ (forall (k : N) (x : F), den r k x = (den a k x * den b k x)%F).
Proof. exact (@Proofs_Spline.spl_mul_spec). Qed.

Theorem C03_iadd_is_add :
    forall (F : Type) (K : Ops F) (a b : spline F), sord b <= sord a -> spl_iadd a b = spl_add a b.
Proof. exact (@Proofs_Spline.spl_iadd_eq). Qed.

Theorem C03_isub_is_sub :
    forall (F : Type) (K : Ops F) (a b : spline F), sord b <= sord a -> spl_isub a b = spl_sub a b.
Proof. exact (@Proofs_Spline.spl_isub_eq). Qed.

Theorem C03_iadd :
    forall (F : Type) (K : Ops F),
           Laws K ->
           forall a b : spline F,
           SplInv a ->
           SplInv b ->
           sgridp a = sgridp b ->
           sord b <= sord a ->
           exists (u : support F) (r : spline F),
             calc_union (ssup a) (ssup b) = Ok u /\
             spl_iadd a b = Ok r /\
             SplInv r /\
             ssup r = u /\ sord r = sord a /\ (forall (k : N) (x : F), den r k x = (den a k x + den b k x)%F).
Proof. exact (@Proofs_Spline.spl_iadd_spec). Qed.

Theorem C03_isub :
    forall (F : Type) (K : Ops F),
           Laws K ->
           forall a b : spline F,
           SplInv a ->
           SplInv b ->
           sgridp a = sgridp b ->
           sord b <= sord a ->
           exists (u : support F) (r : spline F),
             calc_union (ssup a) (ssup b) = Ok u /\
             spl_isub a b = Ok r /\
             SplInv r /\
             ssup r = u /\ sord r = sord a /\ (forall (k : N) (x : F), den r k x = (den a k x - den b k x)%F).
Proof. exact (@Proofs_Spline.spl_isub_spec). Qed.

Theorem C03_lin_comb :
    forall (F : Type) (K : Ops F),
           Laws K ->
           forall (cs : list F) (s0 : spline F) (rest : list (spline F)),
           length cs = length (s0 :: rest) ->
           Forall SplInv (s0 :: rest) ->
           (forall s : spline F, In s (s0 :: rest) -> sgridp s = sgridp s0 /\ sord s = sord s0) ->
           exists r : spline F,
             lin_comb cs (s0 :: rest) = Ok r /\
             SplInv r /\
             sord r = sord s0 /\
             sgridp r = sgridp s0 /\
             (forall (s : spline F) (k : N), In s (s0 :: rest) -> imem k (ssup s) -> imem k (ssup r)) /\
             (forall (k : N) (x : F),
              den r k x = lincomb_val cs (map (fun s : spline F => den s k x) (s0 :: rest))).
Proof. exact (@Proofs_Spline.lin_comb_spec_strong). Qed.

Theorem C03_update_sequences :
    forall (F : Type) (K : Ops F),
           Laws K ->
           forall (us : list upd) (a : spline F),
           SplInv a ->
           Forall (upd_ok (sgridp a) (sord a)) us ->
           exists r : spline F,
             apply_upds a us = Ok r /\
             SplInv r /\
             sgridp r = sgridp a /\
             sord r = sord a /\ (forall (k : N) (x : F), den r k x = fold_left (upd_val k x) us (den a k x)).
Proof. exact (@Proofs_Updates.apply_upds_spec). Qed.


Print Assumptions C03_scale.
Print Assumptions C03_scale_l.
Print Assumptions C03_neg.
Print Assumptions C03_scale_inv.
Print Assumptions C03_div.
Print Assumptions C03_assign_up.
Print Assumptions C03_add.
Print Assumptions C03_sub.
Print Assumptions C03_mul.
Print Assumptions C03_iadd_is_add.
Print Assumptions C03_isub_is_sub.
Print Assumptions C03_iadd.
Print Assumptions C03_isub.
Print Assumptions C03_lin_comb.
Print Assumptions C03_update_sequences.

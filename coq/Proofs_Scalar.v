(* Proofs_Scalar.v — consequences of the ordered-field laws [Laws K]:
   order facts, characteristic 0, the integer embedding [fofZ] is a ring
   morphism.  Everything here is a theorem about every scalar structure that
   satisfies [Laws]; nothing is assumed beyond that class. *)
From Coq Require Import List ZArith Field Ring Bool Lia.
From BSpl Require Import Scalar.
Import ListNotations.
Local Open Scope F_scope.

Section ScalarFacts.
  Context {F : Type} {K : Ops F} {L : Laws K}.
  Add Field Ff0 : (@Fth F K L).

  Definition flt (a b : F) : Prop := fltb a b = true.
  Definition fle (a b : F) : Prop := fleb a b = true.

  Lemma feqb_refl a : feqb a a = true.
  Proof. apply feqb_true. reflexivity. Qed.

  Lemma feqb_false a b : feqb a b = false <-> a <> b.
  Proof.
    split.
    - intros H E. apply feqb_true in E. congruence.
    - intros H. destruct (feqb a b) eqn:E; [|reflexivity]. apply feqb_true in E. contradiction.
  Qed.

  Lemma feq_dec (a b : F) : {a = b} + {a <> b}.
  Proof.
    destruct (feqb a b) eqn:E; [left; apply feqb_true; exact E | right; apply feqb_false; exact E].
  Qed.

  Lemma fneb_true a b : fneb a b = true <-> a <> b.
  Proof. rewrite fneb_def, negb_true_iff. apply feqb_false. Qed.

  Lemma fneb_false a b : fneb a b = false <-> a = b.
  Proof. rewrite fneb_def, negb_false_iff. apply feqb_true. Qed.

  Lemma flt_asym a b : fltb a b = true -> fltb b a = false.
  Proof.
    intros H. destruct (fltb b a) eqn:E; [|reflexivity].
    pose proof (flt_trans a b a H E) as H'. rewrite flt_irrefl in H'. discriminate.
  Qed.

  Lemma flt_neq a b : fltb a b = true -> a <> b.
  Proof. intros H ->. rewrite flt_irrefl in H. discriminate. Qed.

  Lemma fleb_true a b : fleb a b = true <-> (fltb a b = true \/ a = b).
  Proof. rewrite fleb_def, orb_true_iff, feqb_true. tauto. Qed.

  Lemma fleb_refl a : fleb a a = true.
  Proof. apply fleb_true. right. reflexivity. Qed.

  Lemma fgtb_true a b : fgtb a b = true <-> fltb b a = true.
  Proof. rewrite fgtb_def. tauto. Qed.

  Lemma fgeb_true a b : fgeb a b = true <-> (fltb b a = true \/ a = b).
  Proof. rewrite fgeb_def, fleb_true. intuition congruence. Qed.

  Lemma fltb_false a b : fltb a b = false <-> fleb b a = true.
  Proof.
    rewrite fleb_true. split.
    - intros H. destruct (flt_total a b) as [H'|[->|H']]; [congruence | right; reflexivity | left; exact H'].
    - intros [H| ->]; [apply flt_asym; exact H | apply flt_irrefl].
  Qed.

  Lemma fleb_false a b : fleb a b = false <-> fltb b a = true.
  Proof.
    split.
    - intros H. destruct (fltb b a) eqn:E; [reflexivity|].
      apply fltb_false in E. congruence.
    - intros H. destruct (fleb a b) eqn:E; [|reflexivity].
      apply fleb_true in E as [E| ->]; [apply flt_asym in E; congruence | rewrite flt_irrefl in H; discriminate].
  Qed.

  Lemma fle_trans a b c : fleb a b = true -> fleb b c = true -> fleb a c = true.
  Proof.
    rewrite !fleb_true. intros [H1| ->] [H2| ->]; auto.
    left. eapply flt_trans; eassumption.
  Qed.

  Lemma fle_lt_trans a b c : fleb a b = true -> fltb b c = true -> fltb a c = true.
  Proof. rewrite fleb_true. intros [H1| ->] H2; [eapply flt_trans; eassumption | exact H2]. Qed.

  Lemma flt_le_trans a b c : fltb a b = true -> fleb b c = true -> fltb a c = true.
  Proof. rewrite fleb_true. intros H1 [H2| <-]; [eapply flt_trans; eassumption | exact H1]. Qed.

  Lemma fle_antisym a b : fleb a b = true -> fleb b a = true -> a = b.
  Proof.
    rewrite !fleb_true. intros [H1|H1] [H2|H2]; auto.
    apply flt_asym in H1. congruence.
  Qed.

  Lemma flt_add_r a b c : fltb a b = true -> fltb (a + c) (b + c) = true.
  Proof. apply flt_add. Qed.

  Lemma flt_add_l a b c : fltb a b = true -> fltb (c + a) (c + b) = true.
  Proof.
    intros H. replace (c + a) with (a + c) by ring. replace (c + b) with (b + c) by ring.
    apply flt_add. exact H.
  Qed.

  Lemma flt_sub_pos a b : fltb a b = true <-> fltb f0 (b - a) = true.
  Proof.
    split; intros H.
    - apply (flt_add_r a b (- a)) in H.
      replace (a + - a) with f0 in H by ring. replace (b + - a) with (b - a) in H by ring. exact H.
    - apply (flt_add_r f0 (b - a) a) in H.
      replace (f0 + a) with a in H by ring. replace (b - a + a) with b in H by ring. exact H.
  Qed.

  Lemma flt_opp a : fltb a f0 = true -> fltb f0 (- a) = true.
  Proof.
    intros H. apply (flt_add_r a f0 (- a)) in H.
    replace (a + - a) with f0 in H by ring. replace (f0 + - a) with (- a) in H by ring. exact H.
  Qed.

  Lemma f1_neq_f0 : f1 <> f0 :> F.
  Proof. destruct (@Fth F K L) as [_ H _ _]. exact H. Qed.

  Lemma flt_0_1 : fltb f0 f1 = true :> bool.
  Proof.
    destruct (flt_total f0 f1) as [H|[H|H]]; [exact H | exfalso; apply f1_neq_f0; congruence |].
    (* 1 < 0 -> 0 < -1 -> 0 < (-1)(-1) = 1 *)
    pose proof (flt_opp f1 H) as Hm.
    pose proof (flt_mul f0 (- f1) (- f1) Hm Hm) as H2.
    replace (f0 * - f1) with f0 in H2 by ring. replace (- f1 * - f1) with f1 in H2 by ring. exact H2.
  Qed.

  Lemma flt_add_pos a b : fltb f0 a = true -> fltb f0 b = true -> fltb f0 (a + b) = true.
  Proof.
    intros Ha Hb. apply (flt_trans _ a); [exact Ha|].
    replace a with (a + f0) at 1 by ring. apply flt_add_l. exact Hb.
  Qed.

  Lemma flt_mul_pos a b : fltb f0 a = true -> fltb f0 b = true -> fltb f0 (a * b) = true.
  Proof.
    intros Ha Hb. pose proof (flt_mul f0 a b Hb Ha) as H.
    replace (f0 * b) with f0 in H by ring. exact H.
  Qed.

  Lemma fof_pos_pos p : fltb f0 (fof_pos p) = true.
  Proof.
    assert (fltb f0 (f1 + f1) = true) as H2 by (apply flt_add_pos; apply flt_0_1).
    induction p as [p IH|p IH|]; cbn [fof_pos].
    - apply flt_add_pos; [apply flt_0_1 | apply flt_mul_pos; assumption].
    - apply flt_mul_pos; assumption.
    - apply flt_0_1.
  Qed.

  Lemma fof_pos_succ p : fof_pos (Pos.succ p) = f1 + fof_pos p.
  Proof. induction p as [p IH|p IH|]; cbn [fof_pos Pos.succ]; try rewrite IH; ring. Qed.

  Lemma fof_pos_add p q : fof_pos (p + q) = fof_pos p + fof_pos q.
  Proof.
    revert q. induction p as [|p IH] using Pos.peano_ind; intros q.
    - rewrite Pos.add_1_l, fof_pos_succ. cbn [fof_pos]. ring.
    - rewrite Pos.add_succ_l, !fof_pos_succ, IH. ring.
  Qed.

  Lemma fof_pos_mul p q : fof_pos (p * q) = fof_pos p * fof_pos q.
  Proof.
    induction p as [|p IH] using Pos.peano_ind.
    - rewrite Pos.mul_1_l. cbn [fof_pos]. ring.
    - rewrite Pos.mul_succ_l, fof_pos_add, fof_pos_succ, IH. ring.
  Qed.

  Lemma fofZ_0 : fofZ 0 = f0 :> F. Proof. reflexivity. Qed.
  Lemma fofZ_1 : fofZ 1 = f1 :> F. Proof. reflexivity. Qed.

  Lemma fofZ_opp z : fofZ (- z) = - fofZ z :> F.
  Proof. destruct z; cbn [fofZ Z.opp]; ring. Qed.

  Lemma fof_pos_sub_lt p q : (q < p)%positive -> fof_pos (p - q) = fof_pos p - fof_pos q.
  Proof.
    intros H. replace p with ((p - q) + q)%positive at 2 by (apply Pos.sub_add; exact H).
    rewrite fof_pos_add. ring.
  Qed.

  Lemma fofZ_pos_sub p q : fofZ (Z.pos_sub p q) = fof_pos p - fof_pos q.
  Proof.
    rewrite Z.pos_sub_spec. destruct (Pos.compare_spec p q) as [->|H|H]; cbn [fofZ].
    - ring.
    - rewrite fof_pos_sub_lt by exact H. ring.
    - rewrite fof_pos_sub_lt by exact H. ring.
  Qed.

  Lemma fofZ_add a b : fofZ (a + b) = fofZ a + fofZ b :> F.
  Proof.
    destruct a as [|p|p], b as [|q|q]; cbn [fofZ Z.add]; try ring.
    - apply fof_pos_add.
    - rewrite fofZ_pos_sub. ring.
    - rewrite fofZ_pos_sub. ring.
    - rewrite fof_pos_add. ring.
  Qed.

  Lemma fofZ_sub a b : fofZ (a - b) = fofZ a - fofZ b :> F.
  Proof. unfold Z.sub. rewrite fofZ_add, fofZ_opp. ring. Qed.

  Lemma fofZ_mul a b : fofZ (a * b) = fofZ a * fofZ b :> F.
  Proof.
    destruct a as [|p|p], b as [|q|q]; cbn [fofZ Z.mul]; try ring; rewrite fof_pos_mul; ring.
  Qed.

  Lemma fofZ_pos z : (0 < z)%Z -> fltb f0 (fofZ z) = true.
  Proof. destruct z; try lia. intros _. apply fof_pos_pos. Qed.

  Lemma fofZ_lt a b : (a < b)%Z -> fltb (fofZ a) (fofZ b) = true.
  Proof.
    intros H. apply flt_sub_pos. rewrite <- fofZ_sub. apply fofZ_pos. lia.
  Qed.

  Lemma fofZ_inj a b : fofZ a = fofZ b :> F -> a = b.
  Proof.
    intros H. destruct (Z.lt_total a b) as [Hl|[He|Hl]]; [|exact He|];
      apply fofZ_lt in Hl; rewrite H, flt_irrefl in Hl; discriminate.
  Qed.

  Lemma fofZ_neq0 z : z <> 0%Z -> fofZ z <> f0 :> F.
  Proof. intros H E. apply H. apply fofZ_inj. exact E. Qed.

  (* characteristic 0 *)
  Lemma fofnat_S_neq0 n : fofnat (S n) <> f0 :> F.
  Proof. unfold fofnat. apply fofZ_neq0. lia. Qed.

  Lemma fofnat_pos n : (0 < n)%nat -> fltb f0 (fofnat n) = true.
  Proof. intros H. unfold fofnat. apply fofZ_pos. lia. Qed.

  Lemma fofnat_0 : fofnat 0 = f0 :> F. Proof. reflexivity. Qed.
  Lemma fofnat_1 : fofnat 1 = f1 :> F. Proof. reflexivity. Qed.

  Lemma fofnat_S n : fofnat (S n) = f1 + fofnat n :> F.
  Proof. unfold fofnat. rewrite Nat2Z.inj_succ, <- Z.add_1_l, fofZ_add. reflexivity. Qed.

  Lemma fofnat_add a b : fofnat (a + b) = fofnat a + fofnat b :> F.
  Proof. unfold fofnat. rewrite Nat2Z.inj_add. apply fofZ_add. Qed.

  Lemma fofnat_mul a b : fofnat (a * b) = fofnat a * fofnat b :> F.
  Proof. unfold fofnat. rewrite Nat2Z.inj_mul. apply fofZ_mul. Qed.

  Lemma f2_eq : f2 = f1 + f1 :> F.
  Proof. unfold f2. cbn [fofZ fof_pos]. ring. Qed.

  Lemma f2_neq0 : f2 <> f0 :> F.
  Proof. unfold f2. apply fofZ_neq0. lia. Qed.

  Lemma fm1_eq : fm1 = - f1 :> F.
  Proof. reflexivity. Qed.

  Lemma flt_pos_neq0 a : fltb f0 a = true -> a <> f0.
  Proof. intros H ->. rewrite flt_irrefl in H. discriminate. Qed.

  Lemma fsub_neq0 a b : fltb a b = true -> b - a <> f0.
  Proof. intros H. apply flt_pos_neq0. apply (proj1 (flt_sub_pos a b)). exact H. Qed.

  Lemma finv_pos a : fltb f0 a = true -> fltb f0 (f1 / a) = true.
  Proof.
    intros H. pose proof (flt_pos_neq0 a H) as Hn.
    destruct (flt_total f0 (f1 / a)) as [H'|[H'|H']]; [exact H'| |].
    - exfalso. apply f1_neq_f0. replace f1 with (f1 / a * a) by (field; exact Hn). rewrite <- H'. ring.
    - exfalso. pose proof (flt_mul (f1 / a) f0 a H H') as H2.
      replace (f1 / a * a) with f1 in H2 by (field; exact Hn). replace (f0 * a) with f0 in H2 by ring.
      pose proof flt_0_1 as H3. apply flt_asym in H3. congruence.
  Qed.

  Lemma flt_mul_pos_r a b c : fltb f0 c = true -> fltb a b = true -> fltb (a * c) (b * c) = true.
  Proof. apply flt_mul. Qed.

  Lemma flt_div_pos a b c : fltb f0 c = true -> fltb a b = true -> fltb (a / c) (b / c) = true.
  Proof.
    intros Hc H. pose proof (flt_pos_neq0 c Hc) as Hn.
    replace (a / c) with (a * (f1 / c)) by (field; exact Hn).
    replace (b / c) with (b * (f1 / c)) by (field; exact Hn).
    apply flt_mul; [apply finv_pos; exact Hc | exact H].
  Qed.

  (* midpoint of a < b lies strictly between *)
  Lemma mid_between a b : fltb a b = true ->
    fltb a ((a + b) / f2) = true /\ fltb ((a + b) / f2) b = true.
  Proof.
    intros H. assert (fltb f0 f2 = true) as H2 by (unfold f2; apply fofZ_pos; lia).
    pose proof f2_neq0 as Hn. pose proof f2_eq as E2. split.
    - replace a with ((a + a) / f2) at 1 by (rewrite E2 in *; field; exact Hn).
      apply flt_div_pos; [exact H2|]. apply flt_add_l. exact H.
    - replace b with ((b + b) / f2) at 2 by (rewrite E2 in *; field; exact Hn).
      apply flt_div_pos; [exact H2|]. apply flt_add_r. exact H.
  Qed.
End ScalarFacts.

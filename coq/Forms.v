(* Forms.v — model of integration/BilinearForm.h and LinearForm.h.
   The per-interval kernels integrate a polynomial given about the interval
   midpoint over [-h, h]: only even powers contribute, 2h * sum c_{2m} h^{2m}/(2m+1).
   No proofs in this file. *)
From Coq Require Import List NArith Arith Bool.
From BSpl Require Import Scalar Outcome Support Poly Spline Ops.
Import ListNotations.

Section Forms.
  Context {F : Type} {K : Ops F}.

  (* elements at even positions *)
  Fixpoint evens (l : list F) : list F :=
    match l with
    | [] => []
    | a :: r => a :: match r with [] => [] | _ :: r' => evens r' end
    end.

  (* sum_m cs[m] / (2(i+m)+1) * h2^m  (Horner in h^2) *)
  Fixpoint even_horner (i : nat) (cs : list F) (h2 : F) : F :=
    match cs with
    | [] => f0
    | c :: r => (c / fofnat (2 * i + 1) + h2 * even_horner (S i) r h2)%F
    end.

  (* LinearForm::evaluateInterval *)
  Definition lin_kernel (a : list F) (h : F) : outcome F :=
    match a with
    | [] => UB OOBRead
    | _ => Ok (f2 * h * even_horner 0 (evens a) (h * h))%F
    end.

  (* BilinearForm::evaluateInterval: the parity-stepped double loop collects
     the even-indexed coefficients of the product a*b *)
  Definition bi_kernel (a b : list F) (h : F) : outcome F :=
    match a, b with
    | [], _ | _, [] => UB OOBRead
    | _, _ => Ok (f2 * h * even_horner 0 (evens (pmul a b)) (h * h))%F
    end.

  (* BilinearForm<O1,O2>::evaluate *)
  Definition bilinear (o1 o2 : opx F) (a b : spline F) : outcome F :=
    do is <- calc_inter (ssup a) (ssup b);
    let g := sgrid is in
    fold_left (fun (acc : outcome F) i =>
      do r <- acc;
      do ai <- abs_from_rel is i;
      do ja <- value (interval_index (ssup a) ai);
      do jb <- value (interval_index (ssup b) ai);
      do hi <- sup_sub (ssup a) (wadd ja 1);
      do lo <- sup_sub (ssup a) ja;
      let h := ((hi - lo) / f2)%F in
      do ca <- coefs_at a ja;
      do ta <- transform o1 ca g ai;
      do cb <- coefs_at b jb;
      do tb <- transform o2 cb g ai;
      do v <- bi_kernel ta tb h;
      Ok (r + v)%F) (nrange (num_intervals is)) (Ok f0).

  (* LinearForm<O>::evaluate *)
  Definition linear (o : opx F) (a : spline F) : outcome F :=
    fold_left (fun (acc : outcome F) i =>
      do r <- acc;
      do ai <- abs_from_rel (ssup a) i;
      do hi <- sup_sub (ssup a) (wadd i 1);
      do lo <- sup_sub (ssup a) i;
      let h := ((hi - lo) / f2)%F in
      do ca <- coefs_at a i;
      do ta <- transform o ca (sgrid (ssup a)) ai;
      do v <- lin_kernel ta h;
      Ok (r + v)%F) (nrange (num_intervals (ssup a))) (Ok f0).
End Forms.

(* Properties_C13.v — C13: support windows form the expected interval algebra
   over the grid.  Statements only; every proof is [exact <lemma>].
   Quantification: all grids (any length below 2^63), all windows satisfying the
   class invariant [SInv], all index values i < 2^64, every scalar structure
   with the ordered-field laws. *)
From Coq Require Import List NArith ZArith Bool.
From BSpl Require Import Scalar Outcome Support Spline Proofs_Support Instances Proofs_SupportGen.
Import ListNotations.
Local Open Scope N_scope.

Section C13.
  Context {F : Type} {K : Ops F} {L : Laws K}.
  Implicit Types s t u w : support F.

  (* union = smallest contiguous window containing both operands; the other
     operand if one is empty *)
  Theorem C13_union_hull s t : SInv s -> SInv t -> sgrid s = sgrid t ->
    exists u, calc_union s t = Ok u /\ SInv u /\ sgrid u = sgrid s /\
              (forall i, mem i u <-> hull_mem i s t).
  Proof. exact (calc_union_spec s t). Qed.

  Theorem C13_union_least s t w : SInv s -> SInv t -> SInv w ->
    (forall i, hull_mem i s t -> mem i w) <->
    ((forall i, mem i s -> mem i w) /\ (forall i, mem i t -> mem i w)).
  Proof. exact (hull_least s t w). Qed.

  (* intersection = exactly the common grid points (the empty window if none) *)
  Theorem C13_inter_mem s t : SInv s -> SInv t -> sgrid s = sgrid t ->
    exists u, calc_inter s t = Ok u /\ SInv u /\ sgrid u = sgrid s /\
              (forall i, mem i u <-> mem i s /\ mem i t).
  Proof. exact (calc_inter_spec s t). Qed.

  Theorem C13_union_comm s t : SInv s -> SInv t -> sgrid s = sgrid t ->
    calc_union s t = calc_union t s.
  Proof. exact (calc_union_comm s t). Qed.
  Theorem C13_inter_comm s t : SInv s -> SInv t -> sgrid s = sgrid t ->
    calc_inter s t = calc_inter t s.
  Proof. exact (calc_inter_comm s t). Qed.
  Theorem C13_union_idem s : SInv s -> calc_union s s = Ok s.
  Proof. exact (calc_union_idem s). Qed.
  Theorem C13_inter_idem s : SInv s -> calc_inter s s = Ok s.
  Proof. exact (calc_inter_idem s). Qed.
  Theorem C13_union_assoc s t u : SInv s -> SInv t -> SInv u ->
    sgrid s = sgrid t -> sgrid t = sgrid u ->
    (do a <- calc_union s t; calc_union a u) = (do b <- calc_union t u; calc_union s b).
  Proof. exact (calc_union_assoc s t u). Qed.
  Theorem C13_inter_assoc s t u : SInv s -> SInv t -> SInv u ->
    sgrid s = sgrid t -> sgrid t = sgrid u ->
    (do a <- calc_inter s t; calc_inter a u) = (do b <- calc_inter t u; calc_inter s b).
  Proof. exact (calc_inter_assoc s t u). Qed.

  (* differing grids are refused by both operations *)
  Theorem C13_union_differing s t : sgrid s <> sgrid t -> calc_union s t = Throw DIFFERING_GRIDS.
  Proof. exact (calc_union_differing s t). Qed.
  Theorem C13_inter_differing s t : sgrid s <> sgrid t -> calc_inter s t = Throw DIFFERING_GRIDS.
  Proof. exact (calc_inter_differing s t). Qed.

  (* equality: logically equal grids and coinciding (or both empty) windows *)
  Theorem C13_eq_spec s t : sup_eqb s t = true <->
    sgrid s = sgrid t /\ ((sstart s = sstart t /\ sstop s = sstop t) \/ (wempty s /\ wempty t)).
  Proof. exact (sup_eqb_spec s t). Qed.
  Theorem C13_eq_same_points s t : SInv s -> SInv t ->
    sup_eqb s t = true <-> (sgrid s = sgrid t /\ forall i, mem i s <-> mem i t).
  Proof. exact (sup_eqb_mem s t). Qed.
End C13.

Section C13_index.
  Context {F : Type} {K : Ops F}.
  Implicit Types s : support F.

  (* conversions, for every index value of the index type *)
  Theorem C13_rel_from_abs s i : SInv s -> i < W ->
    rel_from_abs s i = if (sstart s <=? i) && (i <? sstop s) then Some (i - sstart s) else None.
  Proof. exact (rel_from_abs_spec s i). Qed.
  Theorem C13_not_contained s i : SInv s -> i < W -> ~ mem i s <-> rel_from_abs s i = None.
  Proof. exact (rel_from_abs_none s i). Qed.
  Theorem C13_interval_index s i : SInv s -> i < W ->
    interval_index s i = if (sstart s <=? i) && (i + 1 <? sstop s) then Some (i - sstart s) else None.
  Proof. exact (interval_index_spec s i). Qed.
  Theorem C13_abs_from_rel s r : SInv s -> r < W ->
    abs_from_rel s r = if r <? sstop s - sstart s then Ok (sstart s + r) else Throw UNDETERMINED.
  Proof. exact (abs_from_rel_spec s r). Qed.
  Theorem C13_rel_abs_inverse s i r : SInv s -> i < W ->
    rel_from_abs s i = Some r -> abs_from_rel s r = Ok i.
  Proof. exact (rel_abs_inverse s i r). Qed.
  Theorem C13_abs_rel_inverse s i r : SInv s -> r < W ->
    abs_from_rel s r = Ok i -> rel_from_abs s i = Some r /\ i < W.
  Proof. exact (abs_rel_inverse s i r). Qed.

  (* size, interval count, iteration, front/back and checked access describe
     the same window: the sub-list g[start..stop) *)
  Theorem C13_view_size s : SInv s ->
    sup_size s = nlen (sup_points s) /\ sup_size s = sstop s - sstart s.
  Proof. intros H. rewrite length_sup_points by exact H. split; exact (sup_size_inv s H). Qed.
  Theorem C13_view_points s r : SInv s -> r < sstop s - sstart s ->
    nnth (sup_points s) r = nnth (sgrid s) (sstart s + r).
  Proof. exact (nnth_sup_points s r). Qed.
  Theorem C13_view_intervals s : SInv s ->
    num_intervals s = if sstop s - sstart s =? 0 then 0 else sstop s - sstart s - 1.
  Proof. exact (num_intervals_spec s). Qed.
  Theorem C13_view_at s r : SInv s -> r < W ->
    sup_at s r = match nnth (sup_points s) r with Some x => Ok x | None => Throw INVALID_ACCESS end.
  Proof. exact (sup_at_spec s r). Qed.
  Theorem C13_view_front s : SInv s ->
    sup_front s = match sup_points s with [] => Throw INVALID_ACCESS | x :: _ => Ok x end.
  Proof. exact (sup_front_spec s). Qed.
  Theorem C13_view_back s : SInv s ->
    sup_back s = match sup_points s with [] => Throw INVALID_ACCESS | _ => Ok (last (sup_points s) f0) end.
  Proof. exact (sup_back_spec s). Qed.
End C13_index.

(* Second tie (translation): coq/gen/SupportGen.v is regenerated on every run from /repo's Support.h by
   gen/ast2coq.py (clang JSON AST -> Gallina, size_t as N with explicit wrap-around); the regenerated
   definitions agree with the hand-written model the theorems above are about. *)
Theorem C13_generated_definitions_agree :
    forall (F : Type) (s : support F),
           SInv s ->
           SupportGen.G.size (grid_size (sgrid s)) (sstart s) (sstop s) = sup_size s /\
           SupportGen.G.empty (grid_size (sgrid s)) (sstart s) (sstop s) = sup_is_empty s /\
           SupportGen.G.containsIntervals (grid_size (sgrid s)) (sstart s) (sstop s) = contains_intervals s /\
           (forall i : N,
            (i < W)%N ->
            SupportGen.G.relativeFromAbsolute (grid_size (sgrid s)) (sstart s) (sstop s) i = rel_from_abs s i) /\
           (forall i : N,
            (i < W)%N ->
            SupportGen.G.intervalIndexFromAbsolute (grid_size (sgrid s)) (sstart s) (sstop s) i =
            interval_index s i) /\
           (forall i : N,
            (i < W)%N ->
            SupportGen.G.absoluteFromRelative (grid_size (sgrid s)) (sstart s) (sstop s) i = abs_from_rel s i) /\
           SupportGen.G.numberOfIntervals (grid_size (sgrid s)) (sstart s) (sstop s) = num_intervals s /\
           SupportGen.G.valid (grid_size (sgrid s)) (sstart s) (sstop s) = sup_valid s /\
           (forall i : N,
            (i < W)%N ->
            SupportGen.G.at_guard (grid_size (sgrid s)) (sstart s) (sstop s) i = (sup_size s <=? i)%N).
Proof. exact (@support_gen_agrees). Qed.

Theorem C13_generated_equality_agrees :
    forall (F : Type) (K : Ops F) (s t : support F),
      SupportGen.G.eq (grid_size (sgrid s)) (sstart s) (sstop s) (sstart t) (sstop t) (has_same_grid s t) =
      sup_eqb s t.
Proof. exact (@gen_eq_eq). Qed.

Theorem C13_generated_union_agrees :
    forall (F : Type) (K : Ops F) (s t : support F),
      SInv s -> SInv t ->
      gres_interp s t
        (SupportGen.G.calcUnion (grid_size (sgrid s)) (sstart s) (sstop s) (sstart t) (sstop t) (has_same_grid s t)) =
      calc_union s t.
Proof. exact (@gen_calcUnion_eq). Qed.

Theorem C13_generated_intersection_agrees :
    forall (F : Type) (K : Ops F) (s t : support F),
      SInv s -> SInv t ->
      gres_interp s t
        (SupportGen.G.calcIntersection (grid_size (sgrid s)) (sstart s) (sstop s) (sstart t) (sstop t) (has_same_grid s t)) =
      calc_inter s t.
Proof. exact (@gen_calcIntersection_eq). Qed.

Theorem C13_generated_spline_validity_agrees :
    forall (F : Type) (s : support F) (n : N),
      SupportGen.G.spline_valid (grid_size (sgrid s)) (sstart s) (sstop s) n = spl_valid s n.
Proof. exact (@gen_spline_valid_eq). Qed.

Theorem C13_generated_grid_at_agrees :
    forall (F : Type) (g : list F) (i : N),
      grid_at g i =
      (if SupportGen.G.grid_at_guard (grid_size g) i then Throw SupportGen.G.grid_at_throw else grid_sub g i).
Proof. exact (@gen_grid_at_eq). Qed.

Print Assumptions C13_union_hull.
Print Assumptions C13_union_least.
Print Assumptions C13_inter_mem.
Print Assumptions C13_union_comm.
Print Assumptions C13_inter_comm.
Print Assumptions C13_union_idem.
Print Assumptions C13_inter_idem.
Print Assumptions C13_union_assoc.
Print Assumptions C13_inter_assoc.
Print Assumptions C13_union_differing.
Print Assumptions C13_inter_differing.
Print Assumptions C13_eq_spec.
Print Assumptions C13_eq_same_points.
Print Assumptions C13_rel_from_abs.
Print Assumptions C13_not_contained.
Print Assumptions C13_interval_index.
Print Assumptions C13_abs_from_rel.
Print Assumptions C13_rel_abs_inverse.
Print Assumptions C13_abs_rel_inverse.
Print Assumptions C13_view_size.
Print Assumptions C13_view_points.
Print Assumptions C13_view_intervals.
Print Assumptions C13_view_at.
Print Assumptions C13_view_front.
Print Assumptions C13_view_back.
Print Assumptions C13_generated_definitions_agree.
Print Assumptions C13_generated_equality_agrees.
Print Assumptions C13_generated_union_agrees.
Print Assumptions C13_generated_intersection_agrees.
Print Assumptions C13_generated_spline_validity_agrees.
Print Assumptions C13_generated_grid_at_agrees.

(* Non-vacuity: the premises are satisfiable by concrete windows (nested,
   point-like, empty) on a rational grid, and the laws compute as stated. *)
Definition g5 : list Qcanon.Qc := [qc 0%Z 1%positive; qc 1%Z 2%positive; qc 3%Z 2%positive; qc 2%Z 1%positive; qc 7%Z 2%positive].
Example C13_nonvacuous :
  SInv (mkSup g5 1 4) /\ SInv (mkSup g5 3 5) /\ SInv (mkSup g5 2 3) /\ SInv (mkSup g5 0 0) /\
  calc_union (mkSup g5 1 2) (mkSup g5 3 5) = Ok (mkSup g5 1 5) /\
  calc_inter (mkSup g5 1 4) (mkSup g5 3 5) = Ok (mkSup g5 3 4) /\
  calc_inter (mkSup g5 1 2) (mkSup g5 3 5) = Ok (mkSup g5 0 0) /\
  interval_index (mkSup g5 1 4) (W - 1) = None /\
  sup_at (mkSup g5 1 3) (W - 1) = Throw INVALID_ACCESS.
Proof. unfold SInv; repeat split; try (vm_compute; reflexivity); vm_compute; intuition congruence. Qed.

(* Properties_C01.v — C01: generated basis functions are exactly the Cox-de Boor B-splines of the knots.
   Statements only: every theorem is closed by [exact <lemma>] and followed by
   Print Assumptions.  The statements quantify over every scalar structure
   (F, K : Ops F) that satisfies the ordered-field laws (Laws K), and over all
   grids, windows, orders, coefficient values, expressions etc. named in them.
   B (Spec_Gen.v) is the textbook recursion on the knot list; it mentions neither grids nor
   windows nor midpoints.  den l_i k x = B ks p i x for every x in [g_k, g_{k+1}). *)
From Coq Require Import List NArith ZArith Arith Bool.
From BSpl Require Import Scalar Outcome Support Poly Spline Ops Forms Generator Interp Spec Spec_Ops Spec_Gen Proofs_Support Proofs_Scalar Proofs_Poly Proofs_Binom Proofs_Eval Proofs_Outcome Proofs_Spline Proofs_Forms Proofs_Ops Proofs_Forms2 Proofs_Interp Proofs_Pred Proofs_Gen Instances Instances_Ext Proofs_Valid Solver Pool Quad Proofs_Pool Proofs_Quad Proofs_Rounded Proofs_Threads Proofs_Updates Examples Proofs_Examples Proofs_Analysis Proofs_Smooth Proofs_Laws.
Import ListNotations.


Theorem C01_count :
    forall (F : Type) (K : Ops F),
           Laws K ->
           forall (ks : list F) (p : nat),
           nondecreasing ks ->
           two_distinct ks ->
           (nlen ks < 2 ^ 63)%N ->
           p + 1 <= length ks ->
           exists l : list (spline F),
             generate_bsplines p ks = Ok l /\
             length l = length ks - p - 1 /\
             Forall SplInv l /\ Forall (fun s : spline F => sgridp s = unique ks /\ sord s = p) l.
Proof. exact (@Proofs_Gen.gen_count). Qed.

Theorem C01_too_few_knots :
    forall (F : Type) (K : Ops F),
           Laws K ->
           forall (ks : list F) (p : nat),
           nondecreasing ks ->
           two_distinct ks ->
           (nlen ks < 2 ^ 63)%N -> length ks < p + 1 -> generate_bsplines p ks = Throw UNDETERMINED.
Proof. exact (@Proofs_Gen.gen_too_few). Qed.

Theorem C01_is_cox_de_boor :
    forall (F : Type) (K : Ops F),
           Laws K ->
           forall (ks : list F) (p : nat) (l : list (spline F)) (i k : nat) (x : F),
           nondecreasing ks ->
           two_distinct ks ->
           (nlen ks < 2 ^ 63)%N ->
           p + 1 <= length ks ->
           generate_bsplines p ks = Ok l ->
           i < length l ->
           k + 1 < length (unique ks) ->
           fleb (nth k (unique ks) f0) x = true ->
           fltb x (nth (k + 1) (unique ks) f0) = true ->
           den (nth i l {| ssup := {| sgrid := []; sstart := 0; sstop := 0 |}; sord := 0; scoefs := [] |})
             (N.of_nat k) x = B ks p i x.
Proof. exact (@Proofs_Gen.gen_is_cox_de_boor). Qed.

Theorem C01_order0 :
    forall (F : Type) (K : Ops F),
           Laws K ->
           forall (ks : list F) (l : list (spline F)) (i k : nat) (x : F),
           nondecreasing ks ->
           two_distinct ks ->
           (nlen ks < 2 ^ 63)%N ->
           generate_bsplines 0 ks = Ok l ->
           i < length l ->
           k + 1 < length (unique ks) ->
           fleb (nth k (unique ks) f0) x = true ->
           fltb x (nth (k + 1) (unique ks) f0) = true ->
           den (nth i l {| ssup := {| sgrid := []; sstart := 0; sstop := 0 |}; sord := 0; scoefs := [] |})
             (N.of_nat k) x = (if fleb (knot ks i) x && fltb x (knot ks (i + 1)) then f1 else f0).
Proof. exact (@Proofs_Gen.gen0_is_cox_de_boor). Qed.

Theorem C01_eval_interior :
    forall (F : Type) (K : Ops F),
           Laws K ->
           forall (ks : list F) (p : nat) (l : list (spline F)) (i k : nat) (x : F),
           nondecreasing ks ->
           two_distinct ks ->
           (nlen ks < 2 ^ 63)%N ->
           p + 1 <= length ks ->
           generate_bsplines p ks = Ok l ->
           i < length l ->
           k + 1 < length (unique ks) ->
           fltb (nth k (unique ks) f0) x = true ->
           fltb x (nth (k + 1) (unique ks) f0) = true ->
           spl_eval (nth i l {| ssup := {| sgrid := []; sstart := 0; sstop := 0 |}; sord := 0; scoefs := [] |}) x =
           Ok (B ks p i x).
Proof. exact (@Proofs_Gen.gen_eval_interior). Qed.

Theorem C01_local_support :
    forall (F : Type) (K : Ops F),
           Laws K ->
           forall (ks : list F) (p i : nat) (x : F),
           nondecreasing ks ->
           i + p + 1 < length ks ->
           fltb x (knot ks i) = true \/ fleb (knot ks (i + p + 1)) x = true -> B ks p i x = f0.
Proof. exact (@Proofs_Gen.B_local_support). Qed.

Theorem C01_nonnegative :
    forall (F : Type) (K : Ops F),
           Laws K ->
           forall (ks : list F) (p i : nat) (x : F),
           nondecreasing ks -> i + p + 1 < length ks -> fleb f0 (B ks p i x) = true.
Proof. exact (@Proofs_Gen.B_nonneg). Qed.

Theorem C01_partition_of_unity :
    forall (F : Type) (K : Ops F),
           Laws K ->
           forall (ks : list F) (p : nat) (x : F),
           nondecreasing ks ->
           2 * p + 2 <= length ks ->
           fleb (knot ks p) x = true ->
           fltb x (knot ks (length ks - p - 1)) = true ->
           nsum (length ks - p - 1) (fun i : nat => B ks p i x) = f1.
Proof. exact (@Proofs_Gen.B_partition_of_unity). Qed.

Theorem C01_smooth_across_knots :
    forall (F : Type) (K : Ops F),
           Laws K ->
           forall (ks : list F) (p : nat) (l : list (spline F)) (i k d : nat),
           nondecreasing ks ->
           two_distinct ks ->
           (nlen ks < 2 ^ 63)%N ->
           p + 1 <= length ks ->
           generate_bsplines p ks = Ok l ->
           i < length l ->
           k + 2 < length (unique ks) ->
           d + mult ks (nth (k + 1) (unique ks) f0) <= p ->
           jump_free (nth i l {| ssup := {| sgrid := []; sstart := 0; sstop := 0 |}; sord := 0; scoefs := [] |})
             (N.of_nat k) d.
Proof. exact (@Proofs_Smooth.gen_smooth). Qed.

Theorem C01_smooth_at_every_grid_point :
    forall (F : Type) (K : Ops F),
           Laws K ->
           forall (ks : list F) (p : nat) (l : list (spline F)) (i k d : nat),
           nondecreasing ks ->
           two_distinct ks ->
           (nlen ks < 2 ^ 63)%N ->
           p + 1 <= length ks ->
           generate_bsplines p ks = Ok l ->
           i < length l ->
           k + 1 < length (unique ks) ->
           d + mult ks (nth (k + 1) (unique ks) f0) <= p ->
           jump_free (nth i l {| ssup := {| sgrid := []; sstart := 0; sstop := 0 |}; sord := 0; scoefs := [] |})
             (N.of_nat k) d.
Proof. exact (@Proofs_Smooth.gen_smooth_all). Qed.

Theorem C01_continuous :
    forall (F : Type) (K : Ops F),
           Laws K ->
           forall (ks : list F) (p : nat) (l : list (spline F)) (i k : nat),
           nondecreasing ks ->
           two_distinct ks ->
           (nlen ks < 2 ^ 63)%N ->
           p + 1 <= length ks ->
           generate_bsplines p ks = Ok l ->
           i < length l ->
           k + 2 < length (unique ks) ->
           mult ks (nth (k + 1) (unique ks) f0) <= p ->
           jump_free (nth i l {| ssup := {| sgrid := []; sstart := 0; sstop := 0 |}; sord := 0; scoefs := [] |})
             (N.of_nat k) 0.
Proof. exact (@Proofs_Smooth.gen_continuous). Qed.

Theorem C01_derivative_formula :
    forall (F : Type) (K : Ops F),
           Laws K ->
           forall (ks : list F) (q : nat) (l l' : list (spline F)) (i k : nat) (u : F),
           nondecreasing ks ->
           two_distinct ks ->
           (nlen ks < 2 ^ 63)%N ->
           q + 2 <= length ks ->
           generate_bsplines (S q) ks = Ok l ->
           generate_bsplines q ks = Ok l' ->
           i < length l ->
           k + 1 < length (unique ks) ->
           peval (pderiv (piece (nth i l dflt_spline) (N.of_nat k))) u =
           (fofnat (S q) *
            ((if fltb (knot ks i) (knot ks (i + q + 1))
              then peval (piece (nth i l' dflt_spline) (N.of_nat k)) u / (knot ks (i + q + 1) - knot ks i)
              else f0) -
             (if fltb (knot ks (i + 1)) (knot ks (i + q + 2))
              then
               peval (piece (nth (i + 1) l' dflt_spline) (N.of_nat k)) u /
               (knot ks (i + q + 2) - knot ks (i + 1))
              else f0)))%F.
Proof. exact (@Proofs_Smooth.B_derivative_formula). Qed.

Theorem C01_smoothness_is_sharp_example :
    forall p : nat,
           p = 2 \/ p = 3 ->
           exists l : list (spline Qcanon.Qc),
             generate_bsplines p ks_smooth = Ok l /\
             (forall i k d : nat,
              i < length l ->
              k + 2 < length (unique ks_smooth) ->
              d + mult ks_smooth (nth (k + 1) (unique ks_smooth) f0) <= p ->
              jump_free (nth i l dflt_spline) (N.of_nat k) d) /\
             (forall k : nat,
              k + 2 < length (unique ks_smooth) ->
              exists i : nat,
                i < length l /\
                ~
                jump_free (nth i l dflt_spline) (N.of_nat k)
                  (p + 1 - mult ks_smooth (nth (k + 1) (unique ks_smooth) f0))).
Proof. exact (@Proofs_Smooth.gen_smooth_qc_examples). Qed.

Theorem C01_supplied_grid_route :
    forall (F : Type) (K : Ops F),
           Laws K ->
           forall (ks : list F) (p : nat) (g : list F),
           nondecreasing ks ->
           two_distinct ks ->
           (nlen ks < 2 ^ 63)%N ->
           g = unique ks -> (do gn <- gen_ctor2 ks g; generate gn p) = generate_bsplines p ks.
Proof. exact (@Proofs_Gen.gen_route2). Qed.

Theorem C01_supplied_grid_mismatch :
    forall (F : Type) (K : Ops F),
           Laws K ->
           forall (ks : list F) (p : nat) (g : list F),
           nondecreasing ks ->
           two_distinct ks ->
           (nlen ks < 2 ^ 63)%N ->
           g <> unique ks -> (do gn <- gen_ctor2 ks g; generate gn p) = Throw INCONSISTENT_DATA.
Proof. exact (@Proofs_Gen.gen_route2_mismatch). Qed.

Theorem C01_constructor :
    forall (F : Type) (K : Ops F),
           Laws K ->
           forall ks : list F,
           (nlen ks < 2 ^ 63)%N ->
           (exists gn : generator, gen_ctor1 ks = Ok gn) <-> nondecreasing ks /\ two_distinct ks.
Proof. exact (@Proofs_Gen.gen_ctor1_iff). Qed.

Theorem C01_grid_is_unique_knots :
    forall (F : Type) (K : Ops F),
           Laws K ->
           forall ks : list F,
           nondecreasing ks ->
           two_distinct ks ->
           (nlen ks < 2 ^ 63)%N -> gen_ctor1 ks = Ok {| ggrid := unique ks; gknots := ks |} /\ GInv (unique ks).
Proof. exact (@Proofs_Gen.gen_ctor1_ok). Qed.


Print Assumptions C01_count.
Print Assumptions C01_too_few_knots.
Print Assumptions C01_is_cox_de_boor.
Print Assumptions C01_order0.
Print Assumptions C01_eval_interior.
Print Assumptions C01_local_support.
Print Assumptions C01_nonnegative.
Print Assumptions C01_partition_of_unity.
Print Assumptions C01_smooth_across_knots.
Print Assumptions C01_smooth_at_every_grid_point.
Print Assumptions C01_continuous.
Print Assumptions C01_derivative_formula.
Print Assumptions C01_smoothness_is_sharp_example.
Print Assumptions C01_supplied_grid_route.
Print Assumptions C01_supplied_grid_mismatch.
Print Assumptions C01_constructor.
Print Assumptions C01_grid_is_unique_knots.

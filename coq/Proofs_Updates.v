(* Proofs_Updates.v — C03, the history clause: ALL sequences of in-place updates
   (+=, -=, *=, /=) applied to one object denote the corresponding sequence of
   pointwise operations on the denoted function.  By induction over the update list. *)
From Coq Require Import List Arith NArith Bool Lia Field Ring.
From BSpl Require Import ListAux Scalar Outcome Support Poly Spline Spec Proofs_Support Proofs_Scalar
  Proofs_Poly Proofs_Outcome Proofs_Spline.
Import ListNotations.
Local Open Scope F_scope.

Section Updates.
  Context {F : Type} {K : Ops F} {L : Laws K}.
  Add Field Ffupd : (@Fth F K L).

  (* one in-place update of a spline object *)
  Inductive upd := UAdd (s : spline F) | USub (s : spline F) | UMul (c : F) | UDiv (c : F).

  Definition apply_upd (a : spline F) (u : upd) : outcome (spline F) :=
    match u with
    | UAdd s => spl_iadd a s          (* a += s *)
    | USub s => spl_isub a s          (* a -= s *)
    | UMul c => Ok (spl_scale a c)    (* a *= c *)
    | UDiv c => spl_div a c           (* a /= c *)
    end.

  Fixpoint apply_upds (a : spline F) (us : list upd) : outcome (spline F) :=
    match us with
    | [] => Ok a
    | u :: r => do a' <- apply_upd a u; apply_upds a' r
    end.

  (* the same update on the denoted value *)
  Definition upd_val (k : N) (x : F) (f : F) (u : upd) : F :=
    match u with
    | UAdd s => f + den s k x
    | USub s => f - den s k x
    | UMul c => f * c
    | UDiv c => f / c
    end.

  (* side conditions: operands valid, on the target's grid, of order at most the
     target's (the C++ static_assert); divisors non-zero *)
  Definition upd_ok (g : list F) (ord : nat) (u : upd) : Prop :=
    match u with
    | UAdd s | USub s => SplInv s /\ sgridp s = g /\ (sord s <= ord)%nat
    | UMul _ => True
    | UDiv c => c <> f0
    end.

  Lemma apply_upd_spec a u : SplInv a -> upd_ok (sgridp a) (sord a) u ->
    exists r, apply_upd a u = Ok r /\ SplInv r /\ sgridp r = sgridp a /\ sord r = sord a /\
              forall k x, den r k x = upd_val k x (den a k x) u.
  Proof.
    intros Ha Hu. destruct u as [s|s|c|c]; cbn [apply_upd upd_ok upd_val] in *.
    - destruct Hu as (Hs & Hg & Ho).
      destruct (spl_iadd_spec a s Ha Hs (eq_sym Hg) Ho) as (u & r & H1 & H2 & H3 & H4 & H5 & H6).
      exists r. split; [exact H2|]. split; [exact H3|]. split; [|split; [exact H5 | exact H6]].
      destruct Ha as (Hsa & _). destruct Hs as (Hss & _).
      destruct (calc_union_spec (ssup a) (ssup s) Hsa Hss (eq_sym Hg)) as (u' & E & _ & Hgu & _).
      rewrite H1 in E. injection E as <-. unfold sgridp. rewrite H4. exact Hgu.
    - destruct Hu as (Hs & Hg & Ho).
      destruct (spl_isub_spec a s Ha Hs (eq_sym Hg) Ho) as (u & r & H1 & H2 & H3 & H4 & H5 & H6).
      exists r. split; [exact H2|]. split; [exact H3|]. split; [|split; [exact H5 | exact H6]].
      destruct Ha as (Hsa & _). destruct Hs as (Hss & _).
      destruct (calc_union_spec (ssup a) (ssup s) Hsa Hss (eq_sym Hg)) as (u' & E & _ & Hgu & _).
      rewrite H1 in E. injection E as <-. unfold sgridp. rewrite H4. exact Hgu.
    - exists (spl_scale a c). split; [reflexivity|]. split; [apply spl_scale_inv; exact Ha|].
      split; [reflexivity|]. split; [reflexivity|]. intros k x. apply spl_scale_den.
    - destruct (spl_div_spec a c Ha Hu) as (r & H1 & H2 & H3 & H4 & H5).
      exists r. split; [exact H1|]. split; [exact H2|]. split; [unfold sgridp; rewrite H3; reflexivity|].
      split; [exact H4 | exact H5].
  Qed.

  (* every finite sequence of in-place updates *)
  Theorem apply_upds_spec us : forall a, SplInv a -> Forall (upd_ok (sgridp a) (sord a)) us ->
    exists r, apply_upds a us = Ok r /\ SplInv r /\ sgridp r = sgridp a /\ sord r = sord a /\
              forall k x, den r k x = fold_left (upd_val k x) us (den a k x).
  Proof.
    induction us as [|u us IH]; intros a Ha Hus.
    - exists a. cbn [apply_upds fold_left]. split; [reflexivity|]. split; [exact Ha|].
      split; [reflexivity|]. split; [reflexivity|]. intros k x. reflexivity.
    - inversion Hus as [|u' us' Hu Hrest]; subst.
      destruct (apply_upd_spec a u Ha Hu) as (a' & E & Ha' & Hg & Ho & Hd).
      assert (Forall (upd_ok (sgridp a') (sord a')) us) as Hrest' by (rewrite Hg, Ho; exact Hrest).
      destruct (IH a' Ha' Hrest') as (r & Er & Hr & Hgr & Hor & Hdr).
      exists r. cbn [apply_upds]. rewrite E. cbn [bind]. split; [exact Er|]. split; [exact Hr|].
      split; [congruence|]. split; [congruence|].
      intros k x. cbn [fold_left]. rewrite Hdr, Hd. reflexivity.
  Qed.
End Updates.

(* EvalCheck.v — integer encoding of observations, used to cross-check the extracted OCaml model
   against evaluation inside Coq (vm_compute): the thorough tier evaluates a sample of the generated
   cases with both and compares the encodings. *)
From Coq Require Import List NArith ZArith QArith Qcanon.
From BSpl Require Import Scalar Outcome Support Poly Spline Ops Forms Generator Interp Solver Pool Instances.
Import ListNotations.
Local Open Scope Z_scope.

Definition enc_tag (t : tag) : Z :=
  match t with
  | Tgrid => 1 | Tsup => 2 | Tspl => 3 | Tnone => 4 | Tsome => 5 | Ttrue => 6 | Tfalse => 7
  | Tvoid => 8 | Trow => 9 | Tlist => 10
  end.

Definition enc_tok (t : tok Qc) : list Z :=
  match t with
  | TT g => [0; enc_tag g]
  | TN n => [1; Z.of_N n]
  | TF x => [2; Qnum (this x); Zpos (Qden (this x))]
  end.

Definition enc_err (e : err) : Z :=
  match e with
  | DIFFERING_GRIDS => 1 | INCONSISTENT_DATA => 2 | MISSING_DATA => 3 | INVALID_ACCESS => 4
  | UNDETERMINED => 5 | BadOptionalAccess => 6 | StdOutOfRange => 7
  end.

Definition enc_ub (k : ub) : Z :=
  match k with
  | OOBRead => 1 | OOBWrite => 2 | DivByZero => 3 | ErasePastEnd => 4 | SignedOverflow => 5 | IllTyped => 6
  end.

Definition enc_outcome (o : outcome (obs Qc)) : list Z :=
  match o with
  | Ok l => 0 :: flat_map enc_tok l
  | Throw e => [1; enc_err e]
  | UB k => [2; enc_ub k]
  end.

Definition run_enc (ops : list (op Qc)) : list (list Z) :=
  map enc_outcome (snd (run (@gauss_solve Qc QcOps) [] ops)).

(* Instances_Pair.v — the "pair world": value x magnitude.  A scalar is an exact
   rational together with the running sum of the absolute values of the terms
   that formed it (magnitudes add under + and -, multiply under *, divide by the
   divisor's absolute value).  It is an [Ops] instance only (no Laws): running
   the same model over it yields, for every output scalar, the exact value and
   the quantity S that the rounding bound of C16 is relative to.  Execution
   only; no theorem depends on it. *)
From Coq Require Import List ZArith QArith Qcanon Bool.
From BSpl Require Import Scalar Instances.

Definition pq := (Qc * Qc)%type.
Definition Qc_abs (x : Qc) : Qc := if Qc_ltb x 0%Qc then (- x)%Qc else x.

Global Instance PairOps : Ops pq := {|
  f0 := (0%Qc, 0%Qc); f1 := (1%Qc, 1%Qc);
  fadd := fun a b => ((fst a + fst b)%Qc, (snd a + snd b)%Qc);
  fmul := fun a b => ((fst a * fst b)%Qc, (snd a * snd b)%Qc);
  fsub := fun a b => ((fst a - fst b)%Qc, (snd a + snd b)%Qc);
  fopp := fun a => ((- fst a)%Qc, snd a);
  fdiv := fun a b => ((fst a / fst b)%Qc, (snd a / Qc_abs (fst b))%Qc);
  feqb := fun a b => Qc_eqb (fst a) (fst b); fneb := fun a b => negb (Qc_eqb (fst a) (fst b));
  fltb := fun a b => Qc_ltb (fst a) (fst b);
  fleb := fun a b => Qc_ltb (fst a) (fst b) || Qc_eqb (fst a) (fst b);
  fgtb := fun a b => Qc_ltb (fst b) (fst a);
  fgeb := fun a b => Qc_ltb (fst b) (fst a) || Qc_eqb (fst b) (fst a) |}.

Definition mk_pq (x : Qc) : pq := (x, Qc_abs x).

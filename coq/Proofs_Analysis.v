(* Proofs_Analysis.v — the bridge from the FORMAL notions of the generic model
   to ANALYSIS, at the exact-real instance [ExactOps] (Proofs_Rounded.v).

   The generic development characterises [pderiv] algebraically (formal
   derivative of a coefficient list) and defines [defint p h] as an
   antiderivative difference.  Here, over Coq's real numbers with Coquelicot:
     - the formal derivative is the derivative ([peval_is_derive],
       [peval_is_derive_n], [den_is_derive_n]), hence Derivative<n> applied to
       a spline yields on every interval the n-th derivative of the function
       denoted there ([derivative_operator_is_derivative]);
     - the antiderivative difference is the Riemann integral
       ([defint_is_RInt], [defint_RInt], [piece_integral]), hence the linear
       form and the scalar product are sums of Riemann integrals over the
       intervals ([linear_form_sum_of_integrals],
       [scalar_product_sum_of_integrals]) and, by additivity over adjacent
       intervals, the Riemann integral over the whole (common) support of the
       function computed by Spline::operator() ([linear_form_is_integral],
       [scalar_product_is_integral]).
   This file depends on the axioms of the standard library's [Reals] (and on
   what Coquelicot uses); it declares no axiom itself. *)
From Coq Require Import Reals Lra Lia.
From Coquelicot Require Import Coquelicot.
From Coq Require Import List NArith.
From BSpl Require Import ListAux Scalar Outcome Support Poly Spline Ops Forms Spec Spec_Ops
  Proofs_Support Proofs_Scalar Proofs_Poly Proofs_Spline Proofs_Ops Proofs_Forms Proofs_Forms2
  Proofs_Eval Proofs_Rounded.
Import ListNotations.
Local Open Scope R_scope.

Notation pevalR := (peval (K := ExactOps)).
Notation pderivR := (pderiv (K := ExactOps)).
Notation pderivnR := (pderivn (K := ExactOps)).

Lemma peval_continuous (p : list R) :
  forall u, continuous (fun u => peval (K := ExactOps) p u) u.
Proof.
  induction p as [|a p IH]; intros u.
  - apply (continuous_ext (fun _ => 0)); [intros t; reflexivity|]. apply continuous_const.
  - apply (continuous_ext (fun t : R => a + t * peval (K := ExactOps) p t)).
    + intros t. rewrite peval_exact_cons. reflexivity.
    + apply (continuous_plus (U := R_UniformSpace) (K := R_AbsRing) (V := R_NormedModule)
               (fun _ : R => a) (fun t : R => t * peval (K := ExactOps) p t));
        [apply continuous_const|].
      apply (continuous_mult (U := R_UniformSpace) (K := R_AbsRing)
               (fun t : R => t) (fun t : R => peval (K := ExactOps) p t));
        [apply continuous_id | apply IH].
Qed.

Lemma peval_is_derive (p : list R) (u : R) :
  is_derive (fun u => peval (K := ExactOps) p u) u
            (peval (K := ExactOps) (pderiv (K := ExactOps) p) u).
Proof.
  revert u. induction p as [|a p IH]; intros u.
  - apply (is_derive_ext (fun _ => 0)); [intros t; reflexivity|].
    change (peval (K := ExactOps) (pderiv (K := ExactOps) []) u) with (@zero R_NormedModule).
    apply @is_derive_const.
  - apply (is_derive_ext (fun t : R => a + t * peval (K := ExactOps) p t)).
    { intros t. rewrite peval_exact_cons. reflexivity. }
    rewrite (peval_pderiv_cons (K := ExactOps) a p u). ex_unfold.
    replace (peval (K := ExactOps) p u + u * peval (K := ExactOps) (pderiv (K := ExactOps) p) u)
      with (plus (@zero R_NormedModule)
                 (plus (mult one (peval (K := ExactOps) p u))
                       (mult u (peval (K := ExactOps) (pderiv (K := ExactOps) p) u)))).
    2:{ unfold plus, mult, zero, one; simpl. ring. }
    apply (is_derive_plus (K := R_AbsRing) (V := R_NormedModule)
             (fun _ : R => a) (fun t : R => t * peval (K := ExactOps) p t));
      [apply @is_derive_const|].
    apply (is_derive_mult (K := R_AbsRing) (fun t => t) (fun t => peval (K := ExactOps) p t)).
    + apply @is_derive_id.
    + apply IH.
    + intros n m. apply Rmult_comm.
Qed.

(* iterating the formal derivative commutes with one more derivative *)
Lemma pderivn_pderiv_comm n (p : list R) :
  pderivn (K := ExactOps) n (pderiv (K := ExactOps) p)
  = pderiv (K := ExactOps) (pderivn (K := ExactOps) n p).
Proof.
  revert p; induction n as [|n IH]; intros p; cbn [pderivn]; [reflexivity|].
  apply IH.
Qed.

Lemma pderivn_S_out n (p : list R) :
  pderivn (K := ExactOps) (S n) p = pderiv (K := ExactOps) (pderivn (K := ExactOps) n p).
Proof. cbn [pderivn]. apply pderivn_pderiv_comm. Qed.

Lemma peval_Derive (p : list R) (u : R) :
  Derive (fun u => peval (K := ExactOps) p u) u
  = peval (K := ExactOps) (pderiv (K := ExactOps) p) u.
Proof. apply is_derive_unique. apply peval_is_derive. Qed.

Lemma peval_Derive_n (p : list R) (n : nat) :
  forall u, Derive_n (fun u => peval (K := ExactOps) p u) n u
            = peval (K := ExactOps) (pderivn (K := ExactOps) n p) u.
Proof.
  induction n as [|n IH]; intros u; [reflexivity|].
  rewrite pderivn_S_out. cbn [Derive_n].
  rewrite (Derive_ext _ (fun t => peval (K := ExactOps) (pderivn (K := ExactOps) n p) t) u IH).
  apply peval_Derive.
Qed.

Lemma peval_is_derive_n (p : list R) (n : nat) (u : R) :
  is_derive_n (fun u => peval (K := ExactOps) p u) n u
              (peval (K := ExactOps) (pderivn (K := ExactOps) n p) u).
Proof.
  destruct n as [|n]; [reflexivity|].
  cbn [is_derive_n]. rewrite pderivn_S_out.
  apply (is_derive_ext (fun t => peval (K := ExactOps) (pderivn (K := ExactOps) n p) t)).
  - intros t. symmetry. apply peval_Derive_n.
  - apply peval_is_derive.
Qed.

Lemma peval_ex_derive_n (p : list R) (n : nat) (u : R) :
  ex_derive_n (fun u => peval (K := ExactOps) p u) n u.
Proof.
  destruct n as [|n]; [exact I|]. cbn [ex_derive_n].
  eexists. apply (peval_is_derive_n p (S n) u).
Qed.

(* the shifted polynomial x |-> p (x - m) *)
Lemma peval_shift_is_derive_n (p : list R) (m : R) (n : nat) (x : R) :
  is_derive_n (fun x => peval (K := ExactOps) p (x - m)) n x
              (peval (K := ExactOps) (pderivn (K := ExactOps) n p) (x - m)).
Proof.
  apply (is_derive_n_comp_trans (fun u => peval (K := ExactOps) p u) n x (- m)).
  apply peval_is_derive_n.
Qed.

Lemma den_is_derive_n (s : spline R) (k : N) (n : nat) (x : R) :
  is_derive_n (fun x => den (K := ExactOps) s k x) n x
    (peval (K := ExactOps) (pderivn (K := ExactOps) n (piece s k))
           (x - mid (K := ExactOps) (sgrid (ssup s)) k)).
Proof. unfold den. ex_unfold. apply peval_shift_is_derive_n. Qed.

Lemma den_is_derive (s : spline R) (k : N) (x : R) :
  is_derive (fun x => den (K := ExactOps) s k x) x
    (peval (K := ExactOps) (pderiv (K := ExactOps) (piece s k))
           (x - mid (K := ExactOps) (sgrid (ssup s)) k)).
Proof. exact (den_is_derive_n s k 1 x). Qed.

Lemma den_continuous (s : spline R) (k : N) (x : R) :
  continuous (fun x => den (K := ExactOps) s k x) x.
Proof.
  apply (ex_derive_continuous (K := R_AbsRing) (V := R_NormedModule)).
  eexists. apply den_is_derive.
Qed.

(* Derivative<n> applied to a spline yields, on every interval, the n-th
   derivative (in the sense of analysis) of the function the spline denotes
   there.  Holds for every n: beyond the order both sides are zero. *)
Theorem derivative_operator_is_derivative (s r : spline R) (n : nat) :
  SplInv (K := ExactOps) s -> apply (K := ExactOps) (ODer n) s = Ok r ->
  forall k x, imem k (ssup s) ->
    is_derive_n (fun x => den (K := ExactOps) s k x) n x (den (K := ExactOps) r k x).
Proof.
  intros Hs Hr k x _.
  destruct (apply_spec (K := ExactOps) (EDer n) s Hs I I) as (r' & Er & _ & Sr & _ & Pr).
  cbn [elab] in Er. rewrite Hr in Er. injection Er as <-.
  unfold den at 2. rewrite Sr, Pr. cbn [dsem]. ex_unfold.
  apply den_is_derive_n.
Qed.

(* ------------------------------------------------------------------ *)
(** * Integrals *)

Lemma defint_is_RInt (p : list R) (h : R) :
  is_RInt (fun u => peval (K := ExactOps) p u) (- h) h (defint (K := ExactOps) p h).
Proof.
  change (defint (K := ExactOps) p h)
    with (minus (G := R_AbelianGroup) (peval (K := ExactOps) (antideriv (K := ExactOps) p) h)
                (peval (K := ExactOps) (antideriv (K := ExactOps) p) (- h))).
  apply (is_RInt_derive (V := R_CompleteNormedModule)
           (fun u => peval (K := ExactOps) (antideriv (K := ExactOps) p) u)
           (fun u => peval (K := ExactOps) p u)).
  - intros x _.
    replace (peval (K := ExactOps) p x)
      with (peval (K := ExactOps) (pderiv (K := ExactOps) (antideriv (K := ExactOps) p)) x)
      by (rewrite (pderiv_antideriv (K := ExactOps) p); reflexivity).
    apply peval_is_derive.
  - intros x _. apply peval_continuous.
Qed.

Lemma defint_RInt (p : list R) (h : R) :
  defint (K := ExactOps) p h = RInt (fun u => peval (K := ExactOps) p u) (- h) h.
Proof. symmetry. apply is_RInt_unique. apply defint_is_RInt. Qed.

Lemma f2_exact : f2 (K := ExactOps) = 2.
Proof. rewrite (f2_eq (K := ExactOps)). ex_unfold. lra. Qed.

Lemma mid_exact (g : list R) k :
  mid (K := ExactOps) g k = (gnth (K := ExactOps) g k + gnth (K := ExactOps) g (k + 1)) / 2.
Proof. unfold mid. rewrite f2_exact. reflexivity. Qed.

Lemma halfwidth_exact (g : list R) k :
  halfwidth (K := ExactOps) g k
  = (gnth (K := ExactOps) g (k + 1) - gnth (K := ExactOps) g k) / 2.
Proof. unfold halfwidth. rewrite f2_exact. reflexivity. Qed.

Lemma gnth_lo (g : list R) k :
  gnth (K := ExactOps) g k = mid (K := ExactOps) g k - halfwidth (K := ExactOps) g k.
Proof. rewrite mid_exact, halfwidth_exact. lra. Qed.

Lemma gnth_hi (g : list R) k :
  gnth (K := ExactOps) g (k + 1) = mid (K := ExactOps) g k + halfwidth (K := ExactOps) g k.
Proof. rewrite mid_exact, halfwidth_exact. lra. Qed.

(* substitution x = u + m: a polynomial in the local coordinate of an interval,
   integrated over that interval *)
Lemma shifted_poly_integral (p : list R) (g : list R) (k : N) :
  is_RInt (fun x => peval (K := ExactOps) p (x - mid (K := ExactOps) g k))
          (gnth (K := ExactOps) g k) (gnth (K := ExactOps) g (k + 1))
          (defint (K := ExactOps) p (halfwidth (K := ExactOps) g k)).
Proof.
  set (m := mid (K := ExactOps) g k). set (h := halfwidth (K := ExactOps) g k).
  apply (is_RInt_ext (fun y : R => scal 1 (peval (K := ExactOps) p (1 * y + - m)))).
  - intros x _. unfold scal; simpl. unfold mult; simpl. rewrite Rmult_1_l.
    f_equal. ring.
  - apply (is_RInt_comp_lin (fun u => peval (K := ExactOps) p u) 1 (- m)).
    replace (1 * gnth (K := ExactOps) g k + - m) with (- h)
      by (rewrite (gnth_lo g k); fold m h; ring).
    replace (1 * gnth (K := ExactOps) g (k + 1) + - m) with h
      by (rewrite (gnth_hi g k); fold m h; ring).
    apply defint_is_RInt.
Qed.

Lemma piece_integral_gen (s : spline R) (k : N) :
  is_RInt (fun x => den (K := ExactOps) s k x)
          (gnth (K := ExactOps) (sgrid (ssup s)) k) (gnth (K := ExactOps) (sgrid (ssup s)) (k + 1))
          (defint (K := ExactOps) (piece s k) (halfwidth (K := ExactOps) (sgrid (ssup s)) k)).
Proof. unfold den. ex_unfold. apply shifted_poly_integral. Qed.

Theorem piece_integral (s : spline R) (k : N) :
  SplInv (K := ExactOps) s -> imem k (ssup s) ->
  is_RInt (fun x => den (K := ExactOps) s k x)
          (gnth (K := ExactOps) (sgrid (ssup s)) k) (gnth (K := ExactOps) (sgrid (ssup s)) (k + 1))
          (defint (K := ExactOps) (piece s k) (halfwidth (K := ExactOps) (sgrid (ssup s)) k)).
Proof. intros _ _. apply piece_integral_gen. Qed.

Lemma piece_RInt (s : spline R) (k : N) :
  defint (K := ExactOps) (piece s k) (halfwidth (K := ExactOps) (sgrid (ssup s)) k)
  = RInt (fun x => den (K := ExactOps) s k x)
         (gnth (K := ExactOps) (sgrid (ssup s)) k) (gnth (K := ExactOps) (sgrid (ssup s)) (k + 1)).
Proof. symmetry. apply is_RInt_unique. apply piece_integral_gen. Qed.

(* the linear form with the identity operator is the sum over the intervals of
   the support of the Riemann integrals of the function denoted there *)
Theorem linear_form_sum_of_integrals (s : spline R) :
  SplInv (K := ExactOps) s ->
  linear (K := ExactOps) OId s
  = Ok (fsum (K := ExactOps)
          (fun k => RInt (fun x => den (K := ExactOps) s k x)
                         (gnth (K := ExactOps) (sgrid (ssup s)) k)
                         (gnth (K := ExactOps) (sgrid (ssup s)) (k + 1)))
          (interval_list (ssup s))).
Proof.
  intros Hs.
  change (@OId R) with (elab (K := ExactOps) (@EId R)).
  rewrite (linear_exact (K := ExactOps) EId s Hs I I).
  f_equal. apply (fsum_ext (K := ExactOps)). intros k _. cbn [dsem]. unfold sgridp.
  apply piece_RInt.
Qed.

Lemma product_piece_integral (a b : spline R) (k : N) :
  sgridp a = sgridp b ->
  is_RInt (fun x => den (K := ExactOps) a k x * den (K := ExactOps) b k x)
          (gnth (K := ExactOps) (sgridp a) k) (gnth (K := ExactOps) (sgridp a) (k + 1))
          (defint (K := ExactOps) (pmul (K := ExactOps) (piece a k) (piece b k))
                  (halfwidth (K := ExactOps) (sgridp a) k)).
Proof.
  intros Hg.
  apply (is_RInt_ext (fun x => peval (K := ExactOps) (pmul (K := ExactOps) (piece a k) (piece b k))
                                     (x - mid (K := ExactOps) (sgridp a) k))).
  - intros x _. rewrite (peval_pmul (K := ExactOps)). unfold den. fold (sgridp a). fold (sgridp b).
    rewrite <- Hg. reflexivity.
  - apply shifted_poly_integral.
Qed.

Theorem scalar_product_sum_of_integrals (a b : spline R) u :
  SplInv (K := ExactOps) a -> SplInv (K := ExactOps) b -> sgridp a = sgridp b ->
  calc_inter (K := ExactOps) (ssup a) (ssup b) = Ok u ->
  bilinear (K := ExactOps) OId OId a b
  = Ok (fsum (K := ExactOps)
          (fun k => RInt (fun x => den (K := ExactOps) a k x * den (K := ExactOps) b k x)
                         (gnth (K := ExactOps) (sgridp a) k)
                         (gnth (K := ExactOps) (sgridp a) (k + 1)))
          (interval_list u)).
Proof.
  intros Ha Hb Hg Hu.
  rewrite (scalar_product (K := ExactOps) a b u Ha Hb Hg Hu).
  f_equal. apply (fsum_ext (K := ExactOps)). intros k _.
  symmetry. apply is_RInt_unique. apply product_piece_integral. exact Hg.
Qed.

(* ------------------------------------------------------------------ *)
(** * The forms as integrals of the function computed by operator() *)

Local Open Scope N_scope.

(* the real function a spline computes: Spline::operator()(x) (zero outside
   the support; total for valid splines by [seval_total]) *)
Definition sfun (s : spline R) (x : R) : R :=
  match spl_eval (K := ExactOps) s x with Ok v => v | _ => 0%R end.

Lemma sfun_on_interval (s : spline R) k x :
  SplInv (K := ExactOps) s -> imem k (ssup s) ->
  (gnth (K := ExactOps) (sgrid (ssup s)) k < x < gnth (K := ExactOps) (sgrid (ssup s)) (k + 1))%R ->
  sfun s x = den (K := ExactOps) s k x.
Proof.
  intros Hs Hk [Hx1 Hx2]. unfold sfun.
  rewrite (Proofs_Eval.seval_inside (K := ExactOps) s x k Hs Hk); [reflexivity|].
  left. split.
  - apply Rltb_lt. exact Hx1.
  - apply (fleb_true (K := ExactOps)). left. apply Rltb_lt. exact Hx2.
Qed.

Lemma gnth_increasing (g : list R) k :
  GInv (K := ExactOps) g -> k + 1 < nlen g ->
  (gnth (K := ExactOps) g k < gnth (K := ExactOps) g (k + 1))%R.
Proof.
  intros (_ & _ & Hg) Hk. apply Rltb_lt.
  apply (Proofs_Eval.gnth_lt (K := ExactOps) g k (k + 1) Hg); lia.
Qed.

(* additivity of the integral over a chain of adjacent intervals *)
Lemma RInt_chain (f : R -> R) (pt F : N -> R) a n :
  (forall k, a <= k < a + N.of_nat n -> is_RInt f (pt k) (pt (k + 1)) (F k)) ->
  is_RInt f (pt a) (pt (a + N.of_nat n)) (fsum (K := ExactOps) F (irange a n)).
Proof.
  induction n as [|n IH]; intros H.
  - replace (a + N.of_nat 0) with a by lia.
    change (fsum (K := ExactOps) F (irange a 0)) with (@zero R_NormedModule).
    apply @is_RInt_point.
  - replace (S n) with (n + 1)%nat by lia.
    rewrite irange_app, (fsum_app (K := ExactOps)).
    change (irange (a + N.of_nat n) 1) with [a + N.of_nat n + N.of_nat 0].
    rewrite (fsum_cons (K := ExactOps)), (fsum_nil (K := ExactOps)). ex_unfold.
    replace (a + N.of_nat n + N.of_nat 0) with (a + N.of_nat n) by lia.
    rewrite Rplus_0_r.
    apply (is_RInt_Chasles (V := R_NormedModule) f (pt a) (pt (a + N.of_nat n))).
    + apply IH. intros k Hk. apply H. lia.
    + replace (a + N.of_nat (n + 1)) with (a + N.of_nat n + 1) by lia.
      apply H. lia.
Qed.

Lemma sfun_piece_integral (s : spline R) k :
  SplInv (K := ExactOps) s -> imem k (ssup s) ->
  is_RInt (sfun s)
          (gnth (K := ExactOps) (sgrid (ssup s)) k) (gnth (K := ExactOps) (sgrid (ssup s)) (k + 1))
          (defint (K := ExactOps) (piece s k) (halfwidth (K := ExactOps) (sgrid (ssup s)) k)).
Proof.
  intros Hs Hk. pose proof Hs as (Su & Gg & _).
  pose proof (gnth_increasing _ k Gg (imem_grid _ _ Su Hk)) as Hlt.
  apply (is_RInt_ext (fun x => den (K := ExactOps) s k x)).
  - intros x. rewrite Rmin_left, Rmax_right by lra. intros Hx.
    symmetry. apply sfun_on_interval; assumption.
  - apply piece_integral_gen.
Qed.

Lemma imem_of_range (u : support R) k :
  sstart u <= k < sstart u + N.of_nat (N.to_nat (nintervals u)) -> imem k u.
Proof.
  intros Hk. unfold imem. unfold nintervals in Hk.
  destruct (sstop u - sstart u =? 0) eqn:E; lia.
Qed.

(* the linear form with the identity operator is the Riemann integral, over
   the whole support, of the function the spline computes *)
Theorem linear_form_is_integral (s : spline R) :
  SplInv (K := ExactOps) s ->
  exists v, linear (K := ExactOps) OId s = Ok v /\
    is_RInt (sfun s)
            (gnth (K := ExactOps) (sgrid (ssup s)) (sstart (ssup s)))
            (gnth (K := ExactOps) (sgrid (ssup s)) (sstart (ssup s) + nintervals (ssup s)))
            v.
Proof.
  intros Hs. eexists. split.
  - change (@OId R) with (elab (K := ExactOps) (@EId R)).
    apply (linear_exact (K := ExactOps) EId s Hs I I).
  - cbn [dsem]. unfold sgridp. rewrite (interval_list_irange (ssup s)).
    rewrite <- (N2Nat.id (nintervals (ssup s))) at 1.
    apply (RInt_chain (sfun s) (gnth (K := ExactOps) (sgrid (ssup s)))).
    intros k Hk. apply sfun_piece_integral; [exact Hs|]. apply imem_of_range. exact Hk.
Qed.

(* likewise the scalar product of two splines on one grid is the integral of
   the product of the two functions over the common support *)
Theorem scalar_product_is_integral (a b : spline R) u :
  SplInv (K := ExactOps) a -> SplInv (K := ExactOps) b -> sgridp a = sgridp b ->
  calc_inter (K := ExactOps) (ssup a) (ssup b) = Ok u ->
  exists v, bilinear (K := ExactOps) OId OId a b = Ok v /\
    is_RInt (fun x => sfun a x * sfun b x)%R
            (gnth (K := ExactOps) (sgridp a) (sstart u))
            (gnth (K := ExactOps) (sgridp a) (sstart u + nintervals u))
            v.
Proof.
  intros Ha Hb Hg Hu. eexists. split.
  - apply (scalar_product (K := ExactOps) a b u Ha Hb Hg Hu).
  - destruct (inter_facts (K := ExactOps) a b u Ha Hb Hg Hu) as (Su & Gu & Mu).
    rewrite (interval_list_irange u).
    rewrite <- (N2Nat.id (nintervals u)) at 1.
    apply (RInt_chain (fun x => sfun a x * sfun b x)%R (gnth (K := ExactOps) (sgridp a))).
    intros k Hk. apply imem_of_range in Hk. apply Mu in Hk as [Hka Hkb].
    pose proof Ha as (Sa & Ga & _).
    pose proof (gnth_increasing _ k Ga (imem_grid _ _ Sa Hka)) as Hlt.
    fold (sgridp a) in Hlt.
    apply (is_RInt_ext (fun x => den (K := ExactOps) a k x * den (K := ExactOps) b k x)%R).
    + intros x. rewrite Rmin_left, Rmax_right by lra. intros Hx.
      rewrite (sfun_on_interval a k x Ha Hka) by exact Hx.
      rewrite (sfun_on_interval b k x Hb Hkb); [reflexivity|].
      fold (sgridp b). rewrite <- Hg. exact Hx.
    + apply product_piece_integral. exact Hg.
Qed.

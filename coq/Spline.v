(* Spline.v — model of Spline.h (class Spline, operator*(T, Spline),
   linearCombination).  The template parameter `order` is the field [sord];
   operations whose C++ signature fixes the result order take it from the
   operands exactly as the templates do.  No proofs in this file. *)
From Coq Require Import List NArith Arith Bool.
From BSpl Require Import Scalar Outcome Support Poly.
Import ListNotations.
Local Open Scope N_scope.

Section Spline.
  Context {F : Type} {K : Ops F}.

  Record spline := mkSpl { ssup : support F; sord : nat; scoefs : list (list F) }.

  (* Spline::checkValidity(support, coefficients) *)
  Definition spl_valid (s : support F) (ncoefs : N) : bool :=
    (negb (contains_intervals s) && (ncoefs =? 0))
    || ((2 <=? sup_size s) && (ncoefs =? num_intervals s)).

  (* Spline::Spline(support, coefficients) *)
  Definition spl_ctor (ord : nat) (s : support F) (coefs : list (list F)) : outcome spline :=
    if spl_valid s (nlen coefs) then Ok (mkSpl s ord coefs) else Throw INCONSISTENT_DATA.

  (* Spline::Spline(grid) *)
  Definition spl_empty (ord : nat) (g : list F) : outcome spline :=
    do s <- create_empty g; spl_ctor ord s [].

  (* Spline::findInterval *)
  Definition find_interval (s : spline) (x : F) : outcome (option N) :=
    if sup_size (ssup s) <? 2 then Ok None
    else
      do b <- sup_back (ssup s);
      if fgtb x b then Ok None
      else
        do a <- sup_front (ssup s);
        if fltb x a then Ok None
        else
          let k := lower_bound (sup_points (ssup s)) x in
          Ok (Some (N.of_nat (k - 1))).          (* max(0, k-1) on ptrdiff_t *)

  (* Spline::operator()(x) *)
  Definition spl_eval (s : spline) (x : F) : outcome F :=
    do oi <- find_interval s x;
    match oi with
    | None => Ok f0
    | Some i =>
        do hi <- sup_sub (ssup s) (wadd i 1);
        do lo <- sup_sub (ssup s) i;
        let xm := ((hi + lo) / f2)%F in
        do c <- sub (scoefs s) (N.to_nat i);
        eval_interval x c xm
    end.

  Definition spl_front (s : spline) : outcome F := sup_front (ssup s).
  Definition spl_back (s : spline) : outcome F := sup_back (ssup s).

  (* Spline::checkOverlap *)
  Definition check_overlap (a b : spline) : outcome bool :=
    if negb (contains_intervals (ssup a)) || negb (contains_intervals (ssup b)) then Ok false
    else
      do bb <- sup_back (ssup b);
      do af <- sup_front (ssup a);
      if fleb bb af then Ok false
      else
        do bf <- sup_front (ssup b);
        do ab <- sup_back (ssup a);
        Ok (negb (fgeb bf ab)).

  (* Spline::isZero *)
  Definition is_zero (s : spline) : bool :=
    if negb (contains_intervals (ssup s)) then true
    else forallb (fun cs => forallb (fun c => negb (fneb c f0)) cs) (scoefs s).

  (* Spline::operator*(const T&), operator*=(const T&) *)
  Definition spl_scale (s : spline) (d : F) : spline :=
    mkSpl (ssup s) (sord s) (map (pscale d) (scoefs s)).

  (* Spline::operator/(const T&), operator/=: multiplication by 1/d; a zero
     divisor is outside the documented precondition *)
  Definition spl_div (s : spline) (d : F) : outcome spline :=
    if feqb d f0 then UB DivByZero else Ok (spl_scale s (f1 / d)%F).

  (* Spline::operator-() *)
  Definition spl_neg (s : spline) : spline := spl_scale s (fm1).

  (* Spline::setData (checkValidity then move) *)
  Definition set_data (ord : nat) (s : support F) (coefs : list (list F)) : outcome spline :=
    spl_ctor ord s coefs.

  (* template <size_t ordera> operator=(const Spline<T, ordera>&), ordera < order *)
  Definition spl_assign_up (ord : nat) (a : spline) : outcome spline :=
    set_data ord (ssup a) (map (change_size (ord + 1)) (scoefs a)).

  (* coefficient array of `s` for the interval with absolute index ai, if the
     interval belongs to the support (intervalIndexFromAbsolute + operator[]) *)
  Definition coefs_at (s : spline) (j : N) : outcome (list F) := sub (scoefs s) (N.to_nat j).

  (* Spline::operator*(const Spline<T, ordera>&) *)
  Definition spl_mul (a b : spline) : outcome spline :=
    do ns <- calc_inter (ssup a) (ssup b);
    let n := num_intervals ns in
    let ord := (sord a + sord b)%nat in
    if n =? 0 then spl_ctor ord ns []
    else
      do cs <- omapM (fun i =>
                 do ai <- abs_from_rel ns i;
                 do ja <- value (interval_index (ssup a) ai);
                 do jb <- value (interval_index (ssup b) ai);
                 do ca <- coefs_at a ja;
                 do cb <- coefs_at b jb;
                 Ok (pmul ca cb)) (nrange n);
      spl_ctor ord ns cs.

  (* Spline::operator+(const Spline<T, ordera>&) *)
  Definition spl_add (a b : spline) : outcome spline :=
    do ns <- calc_union (ssup a) (ssup b);
    let n := num_intervals ns in
    let ord := Nat.max (sord a) (sord b) in
    do cs <- omapM (fun i =>
               do ai <- abs_from_rel ns i;
               match interval_index (ssup a) ai, interval_index (ssup b) ai with
               | Some ja, None => do ca <- coefs_at a ja; Ok (change_size (ord + 1) ca)
               | None, Some jb => do cb <- coefs_at b jb; Ok (change_size (ord + 1) cb)
               | Some ja, Some jb => do cb <- coefs_at b jb; do ca <- coefs_at a ja; Ok (arr_add cb ca)
               | None, None => Ok (make_array (ord + 1) f0)
               end) (nrange n);
    spl_ctor ord ns cs.

  (* operator*(const T& d, const Spline& b) = b * d *)
  Definition spl_scale_l (d : F) (b : spline) : spline := spl_scale b d.

  (* Spline::operator-(const Spline&): this + (-1 * a) *)
  Definition spl_sub (a b : spline) : outcome spline := spl_add a (spl_scale_l (fm1) b).

  (* Spline::operator+=, -= : this = this + a, requires ordera <= order
     (static_assert); the value assigned is the sum *)
  Definition spl_iadd (a b : spline) : outcome spline :=
    if (sord a <? sord b)%nat then UB IllTyped else spl_add a b.
  Definition spl_isub (a b : spline) : outcome spline :=
    if (sord a <? sord b)%nat then UB IllTyped else spl_iadd a (spl_scale_l (fm1) b).

  (* std::vector<std::array>::operator== *)
  Fixpoint coefs_eqb (a b : list (list F)) : bool :=
    match a, b with
    | [], [] => true
    | x :: a', y :: b' => list_eqb x y && coefs_eqb a' b'
    | _, _ => false
    end.

  (* Spline::operator== (same order by typing) *)
  Definition spl_eqb (a b : spline) : bool :=
    sup_eqb (ssup a) (ssup b) && coefs_eqb (scoefs a) (scoefs b).

  (* linearCombination(coeffs, splines) *)
  Definition lc_hull (ss : list spline) : option N * option N :=
    fold_left (fun (acc : option N * option N) s =>
      if sup_is_empty (ssup s) then acc
      else
        let si := sstart (ssup s) in
        let ei := sstop (ssup s) in
        (match fst acc with None => Some si | Some v => if si <? v then Some si else Some v end,
         match snd acc with None => Some ei | Some v => if v <? ei then Some ei else Some v end))
      ss (None, None).

  Definition lc_add_spline (ns : support F) (acc : list (list F)) (c : F) (s : spline)
    : outcome (list (list F)) :=
    omapM (fun '(i, cur) =>
             do ai <- abs_from_rel ns i;
             match interval_index (ssup s) ai with
             | None => Ok cur
             | Some j => do cs <- at_ (scoefs s) (N.to_nat j); Ok (padd cur (pscale_l c cs))
             end) (combine (nrange (nlen acc)) acc).

  Fixpoint lc_accumulate (ns : support F) (acc : list (list F)) (cs : list F) (ss : list spline)
    : outcome (list (list F)) :=
    match cs, ss with
    | c :: cs', s :: ss' => do acc' <- lc_add_spline ns acc c s; lc_accumulate ns acc' cs' ss'
    | _, _ => Ok acc
    end.

  Definition lin_comb (cs : list F) (ss : list spline) : outcome spline :=
    if negb (length cs =? length ss)%nat then Throw INCONSISTENT_DATA
    else match ss with
    | [] => Throw MISSING_DATA
    | s0 :: _ =>
        if negb (forallb (fun s => has_same_grid (ssup s) (ssup s0)) ss) then Throw DIFFERING_GRIDS
        else
          let '(os, oe) := lc_hull ss in
          let st := match os with Some v => v | None => 0 end in
          let en := match oe with Some v => v | None => 0 end in
          do ns <- sup_ctor (sgrid (ssup s0)) st en;
          let zero := repeat (make_array (sord s0 + 1) f0) (N.to_nat (num_intervals ns)) in
          do coefs <- lc_accumulate ns zero cs ss;
          spl_ctor (sord s0) ns coefs
    end.
End Spline.

Arguments spline F : clear implicits.

(* Proofs_Laws.v — the laws of the operator algebra, at the level of splines.

   "Operator expressions act as the differential expression they spell":
   here the laws are stated as relations between operator application
   ([apply], Ops.v) and the spline arithmetic of the library ([spl_add],
   [spl_sub], [spl_scale], [spl_scale_l], [spl_div], [spl_neg], [spl_mul],
   Spline.v).  Two splines are compared through the functions they denote on
   every grid interval ([den_eq]).  For every law all the applications and all
   the spline operations involved succeed. *)
From Coq Require Import List Arith NArith ZArith Bool Lia ZifyBool ZifyN Field Ring.
From BSpl Require Import ListAux Scalar Outcome Support Poly Spline Ops Spec Spec_Ops
  Proofs_Support Proofs_Scalar Proofs_Outcome Proofs_Poly Proofs_Spline Proofs_Ops.
Import ListNotations.
Local Open Scope N_scope.

Section Laws.
  Context {F : Type} {K : Ops F} {L : Laws K}.
  Add Field Fflaws : (@Fth F K L).
  Local Open Scope F_scope.

  (* two splines denote the same function on every grid interval *)
  Definition den_eq (r1 r2 : spline F) : Prop := forall k x, den r1 k x = den r2 k x.

  Lemma den_eq_refl r : den_eq r r.
  Proof. intros k x. reflexivity. Qed.

  Lemma den_eq_sym r1 r2 : den_eq r1 r2 -> den_eq r2 r1.
  Proof. intros H k x. symmetry. apply H. Qed.

  Lemma den_eq_trans r1 r2 r3 : den_eq r1 r2 -> den_eq r2 r3 -> den_eq r1 r3.
  Proof. intros H1 H2 k x. rewrite H1. apply H2. Qed.

  (* ------------------------------------------------------------------ *)
  (* operator application, in terms of the denoted function              *)
  (* ------------------------------------------------------------------ *)

  Lemma sgridp_of_sup (r s : spline F) : ssup r = ssup s -> sgridp r = sgridp s.
  Proof. intros H. unfold sgridp. rewrite H. reflexivity. Qed.

  (* [apply_spec], with the result read through [den] *)
  Lemma apply_den (e : expr F) (s : spline F) :
    SplInv s -> factors_ok e (sgridp s) -> scalars_ok e ->
    exists r, apply (elab e) s = Ok r /\ SplInv r /\ ssup r = ssup s /\ sgridp r = sgridp s /\
              (forall k u, peval (piece r k) u = peval (dsem e (sgridp s) k (piece s k)) u) /\
              forall k x, den r k x
                          = peval (dsem e (sgridp s) k (piece s k)) (x - mid (sgridp s) k).
  Proof.
    intros Hs Hf Hc.
    destruct (apply_spec e s Hs Hf Hc) as (r & Er & Ir & Sr & _ & Pr).
    exists r. split; [exact Er|]. split; [exact Ir|]. split; [exact Sr|].
    split; [apply sgridp_of_sup; exact Sr|]. split; [exact Pr|].
    intros k x. unfold den. rewrite Sr. apply Pr.
  Qed.

  Lemma den_unfold (s : spline F) k x : den s k x = peval (piece s k) (x - mid (sgridp s) k).
  Proof. reflexivity. Qed.

  (* ------------------------------------------------------------------ *)
  (* (A * B) s = A (B s)                                                  *)
  (* ------------------------------------------------------------------ *)
  Theorem law_product (a b : expr F) (s : spline F) :
    SplInv s -> factors_ok a (sgridp s) -> scalars_ok a ->
    factors_ok b (sgridp s) -> scalars_ok b ->
    exists r r1 r2, apply (elab (EMul a b)) s = Ok r /\ apply (elab b) s = Ok r1 /\
                    apply (elab a) r1 = Ok r2 /\ den_eq r r2.
  Proof.
    intros Hs Hfa Hsa Hfb Hsb.
    destruct (apply_den (EMul a b) s Hs (conj Hfa Hfb) (conj Hsa Hsb))
      as (r & Er & _ & _ & _ & _ & Dr).
    destruct (apply_den b s Hs Hfb Hsb) as (r1 & E1 & I1 & _ & G1 & P1 & _).
    assert (Hfa1 : factors_ok a (sgridp r1)) by (rewrite G1; exact Hfa).
    destruct (apply_den a r1 I1 Hfa1 Hsa) as (r2 & E2 & _ & _ & _ & _ & D2).
    exists r, r1, r2. split; [exact Er|]. split; [exact E1|]. split; [exact E2|].
    intros k x. rewrite Dr, D2, G1. cbn [dsem]. symmetry.
    apply dsem_ext. intros u. apply P1.
  Qed.

  (* ------------------------------------------------------------------ *)
  (* (A + B) s = A s + B s,  (A - B) s = A s - B s                        *)
  (* ------------------------------------------------------------------ *)
  Theorem law_sum (a b : expr F) (s : spline F) :
    SplInv s -> factors_ok a (sgridp s) -> scalars_ok a ->
    factors_ok b (sgridp s) -> scalars_ok b ->
    exists r ra rb rs, apply (elab (EAdd a b)) s = Ok r /\ apply (elab a) s = Ok ra /\
                       apply (elab b) s = Ok rb /\ spl_add ra rb = Ok rs /\ den_eq r rs.
  Proof.
    intros Hs Hfa Hsa Hfb Hsb.
    destruct (apply_den (EAdd a b) s Hs (conj Hfa Hfb) (conj Hsa Hsb))
      as (r & Er & _ & _ & _ & _ & Dr).
    destruct (apply_den a s Hs Hfa Hsa) as (ra & Ea & Ia & _ & Ga & _ & Da).
    destruct (apply_den b s Hs Hfb Hsb) as (rb & Eb & Ib & _ & Gb & _ & Db).
    assert (Hg : sgridp ra = sgridp rb) by (rewrite Ga, Gb; reflexivity).
    destruct (spl_add_spec ra rb Ia Ib Hg) as (u & rs & _ & Es & _ & _ & _ & Ds).
    exists r, ra, rb, rs. split; [exact Er|]. split; [exact Ea|]. split; [exact Eb|].
    split; [exact Es|].
    intros k x. rewrite Dr, Ds, Da, Db. cbn [dsem]. apply peval_padd.
  Qed.

  Theorem law_difference (a b : expr F) (s : spline F) :
    SplInv s -> factors_ok a (sgridp s) -> scalars_ok a ->
    factors_ok b (sgridp s) -> scalars_ok b ->
    exists r ra rb rs, apply (elab (ESub a b)) s = Ok r /\ apply (elab a) s = Ok ra /\
                       apply (elab b) s = Ok rb /\ spl_sub ra rb = Ok rs /\ den_eq r rs.
  Proof.
    intros Hs Hfa Hsa Hfb Hsb.
    destruct (apply_den (ESub a b) s Hs (conj Hfa Hfb) (conj Hsa Hsb))
      as (r & Er & _ & _ & _ & _ & Dr).
    destruct (apply_den a s Hs Hfa Hsa) as (ra & Ea & Ia & _ & Ga & _ & Da).
    destruct (apply_den b s Hs Hfb Hsb) as (rb & Eb & Ib & _ & Gb & _ & Db).
    assert (Hg : sgridp ra = sgridp rb) by (rewrite Ga, Gb; reflexivity).
    destruct (spl_sub_spec ra rb Ia Ib Hg) as (u & rs & _ & Es & _ & _ & _ & Ds).
    exists r, ra, rb, rs. split; [exact Er|]. split; [exact Ea|]. split; [exact Eb|].
    split; [exact Es|].
    intros k x. rewrite Dr, Ds, Da, Db. cbn [dsem]. apply psub_eq.
  Qed.

  (* ------------------------------------------------------------------ *)
  (* (c A) s = c (A s),  (A c) s = (A s) c                                *)
  (* ------------------------------------------------------------------ *)
  Theorem law_scalar_left (c : scalar F) (a : expr F) (s : spline F) :
    SplInv s -> factors_ok a (sgridp s) -> scalars_ok a -> scalar_wf c ->
    exists r ra, apply (elab (ESMulL c a)) s = Ok r /\ apply (elab a) s = Ok ra /\
                 den_eq r (spl_scale_l (sval c) ra).
  Proof.
    intros Hs Hfa Hsa Hc.
    destruct (apply_den (ESMulL c a) s Hs Hfa (conj Hc Hsa)) as (r & Er & _ & _ & _ & _ & Dr).
    destruct (apply_den a s Hs Hfa Hsa) as (ra & Ea & _ & _ & _ & _ & Da).
    exists r, ra. split; [exact Er|]. split; [exact Ea|].
    intros k x. rewrite Dr, spl_scale_l_den, Da. cbn [dsem]. apply peval_pscale_l.
  Qed.

  Theorem law_scalar_right (a : expr F) (c : scalar F) (s : spline F) :
    SplInv s -> factors_ok a (sgridp s) -> scalars_ok a -> scalar_wf c ->
    exists r ra, apply (elab (ESMulR a c)) s = Ok r /\ apply (elab a) s = Ok ra /\
                 den_eq r (spl_scale ra (sval c)).
  Proof.
    intros Hs Hfa Hsa Hc.
    destruct (apply_den (ESMulR a c) s Hs Hfa (conj Hc Hsa)) as (r & Er & _ & _ & _ & _ & Dr).
    destruct (apply_den a s Hs Hfa Hsa) as (ra & Ea & _ & _ & _ & _ & Da).
    exists r, ra. split; [exact Er|]. split; [exact Ea|].
    intros k x. rewrite Dr, spl_scale_den, Da. cbn [dsem]. rewrite peval_pscale_l. ring.
  Qed.

  (* ------------------------------------------------------------------ *)
  (* (A + c) s = A s + c s, (c + A) s = c s + A s,                        *)
  (* (A - c) s = A s - c s, (c - A) s = c s - A s                         *)
  (* ------------------------------------------------------------------ *)
  Theorem law_add_scalar (a : expr F) (c : scalar F) (s : spline F) :
    SplInv s -> factors_ok a (sgridp s) -> scalars_ok a -> scalar_wf c ->
    exists r ra rs, apply (elab (EAddS a c)) s = Ok r /\ apply (elab a) s = Ok ra /\
                    spl_add ra (spl_scale_l (sval c) s) = Ok rs /\ den_eq r rs.
  Proof.
    intros Hs Hfa Hsa Hc.
    destruct (apply_den (EAddS a c) s Hs Hfa (conj Hc Hsa)) as (r & Er & _ & _ & _ & _ & Dr).
    destruct (apply_den a s Hs Hfa Hsa) as (ra & Ea & Ia & _ & Ga & _ & Da).
    pose proof (spl_scale_l_inv s (sval c) Hs) as Ic.
    assert (Hg : sgridp ra = sgridp (spl_scale_l (sval c) s)) by exact Ga.
    destruct (spl_add_spec ra _ Ia Ic Hg) as (u & rs & _ & Es & _ & _ & _ & Ds).
    exists r, ra, rs. split; [exact Er|]. split; [exact Ea|]. split; [exact Es|].
    intros k x. rewrite Dr, Ds, Da, spl_scale_l_den, den_unfold. cbn [dsem].
    rewrite peval_padd, peval_pscale_l. reflexivity.
  Qed.

  Theorem law_scalar_add (c : scalar F) (a : expr F) (s : spline F) :
    SplInv s -> factors_ok a (sgridp s) -> scalars_ok a -> scalar_wf c ->
    exists r ra rs, apply (elab (ESAdd c a)) s = Ok r /\ apply (elab a) s = Ok ra /\
                    spl_add (spl_scale_l (sval c) s) ra = Ok rs /\ den_eq r rs.
  Proof.
    intros Hs Hfa Hsa Hc.
    destruct (apply_den (ESAdd c a) s Hs Hfa (conj Hc Hsa)) as (r & Er & _ & _ & _ & _ & Dr).
    destruct (apply_den a s Hs Hfa Hsa) as (ra & Ea & Ia & _ & Ga & _ & Da).
    pose proof (spl_scale_l_inv s (sval c) Hs) as Ic.
    assert (Hg : sgridp (spl_scale_l (sval c) s) = sgridp ra) by (symmetry; exact Ga).
    destruct (spl_add_spec _ ra Ic Ia Hg) as (u & rs & _ & Es & _ & _ & _ & Ds).
    exists r, ra, rs. split; [exact Er|]. split; [exact Ea|]. split; [exact Es|].
    intros k x. rewrite Dr, Ds, Da, spl_scale_l_den, den_unfold. cbn [dsem].
    rewrite peval_padd, peval_pscale_l. reflexivity.
  Qed.

  Theorem law_sub_scalar (a : expr F) (c : scalar F) (s : spline F) :
    SplInv s -> factors_ok a (sgridp s) -> scalars_ok a -> scalar_wf c ->
    exists r ra rs, apply (elab (ESubS a c)) s = Ok r /\ apply (elab a) s = Ok ra /\
                    spl_sub ra (spl_scale_l (sval c) s) = Ok rs /\ den_eq r rs.
  Proof.
    intros Hs Hfa Hsa Hc.
    destruct (apply_den (ESubS a c) s Hs Hfa (conj Hc Hsa)) as (r & Er & _ & _ & _ & _ & Dr).
    destruct (apply_den a s Hs Hfa Hsa) as (ra & Ea & Ia & _ & Ga & _ & Da).
    pose proof (spl_scale_l_inv s (sval c) Hs) as Ic.
    assert (Hg : sgridp ra = sgridp (spl_scale_l (sval c) s)) by exact Ga.
    destruct (spl_sub_spec ra _ Ia Ic Hg) as (u & rs & _ & Es & _ & _ & _ & Ds).
    exists r, ra, rs. split; [exact Er|]. split; [exact Ea|]. split; [exact Es|].
    intros k x. rewrite Dr, Ds, Da, spl_scale_l_den, den_unfold. cbn [dsem].
    rewrite psub_eq, peval_pscale_l. reflexivity.
  Qed.

  Theorem law_scalar_sub (c : scalar F) (a : expr F) (s : spline F) :
    SplInv s -> factors_ok a (sgridp s) -> scalars_ok a -> scalar_wf c ->
    exists r ra rs, apply (elab (ESSub c a)) s = Ok r /\ apply (elab a) s = Ok ra /\
                    spl_sub (spl_scale_l (sval c) s) ra = Ok rs /\ den_eq r rs.
  Proof.
    intros Hs Hfa Hsa Hc.
    destruct (apply_den (ESSub c a) s Hs Hfa (conj Hc Hsa)) as (r & Er & _ & _ & _ & _ & Dr).
    destruct (apply_den a s Hs Hfa Hsa) as (ra & Ea & Ia & _ & Ga & _ & Da).
    pose proof (spl_scale_l_inv s (sval c) Hs) as Ic.
    assert (Hg : sgridp (spl_scale_l (sval c) s) = sgridp ra) by (symmetry; exact Ga).
    destruct (spl_sub_spec _ ra Ic Ia Hg) as (u & rs & _ & Es & _ & _ & _ & Ds).
    exists r, ra, rs. split; [exact Er|]. split; [exact Ea|]. split; [exact Es|].
    intros k x. rewrite Dr, Ds, Da, spl_scale_l_den, den_unfold. cbn [dsem].
    rewrite psub_eq, peval_pscale_l. reflexivity.
  Qed.

  (* ------------------------------------------------------------------ *)
  (* (A / c) s = (A s) / c                                                *)
  (* ------------------------------------------------------------------ *)
  Theorem law_div_scalar (a : expr F) (c : scalar F) (s : spline F) :
    SplInv s -> factors_ok a (sgridp s) -> scalars_ok a -> scalar_wf c -> sval c <> f0 ->
    exists r ra rd, apply (elab (EDivS a c)) s = Ok r /\ apply (elab a) s = Ok ra /\
                    spl_div ra (sval c) = Ok rd /\ den_eq r rd.
  Proof.
    intros Hs Hfa Hsa Hc Hnz.
    destruct (apply_den (EDivS a c) s Hs Hfa (conj Hc (conj Hnz Hsa)))
      as (r & Er & _ & _ & _ & _ & Dr).
    destruct (apply_den a s Hs Hfa Hsa) as (ra & Ea & Ia & _ & _ & _ & Da).
    destruct (spl_div_spec ra (sval c) Ia Hnz) as (rd & Ed & _ & _ & _ & Dd).
    exists r, ra, rd. split; [exact Er|]. split; [exact Ea|]. split; [exact Ed|].
    intros k x. rewrite Dr, Dd, Da. cbn [dsem]. rewrite peval_pscale_l. field. exact Hnz.
  Qed.

  (* ------------------------------------------------------------------ *)
  (* (- A) s = - (A s)                                                    *)
  (* ------------------------------------------------------------------ *)
  Theorem law_neg (a : expr F) (s : spline F) :
    SplInv s -> factors_ok a (sgridp s) -> scalars_ok a ->
    exists r ra, apply (elab (ENeg a)) s = Ok r /\ apply (elab a) s = Ok ra /\
                 den_eq r (spl_neg ra).
  Proof.
    intros Hs Hfa Hsa.
    destruct (apply_den (ENeg a) s Hs Hfa Hsa) as (r & Er & _ & _ & _ & _ & Dr).
    destruct (apply_den a s Hs Hfa Hsa) as (ra & Ea & _ & _ & _ & _ & Da).
    exists r, ra. split; [exact Er|]. split; [exact Ea|].
    intros k x. rewrite Dr, spl_neg_den, Da. cbn [dsem]. rewrite peval_pscale_l. ring.
  Qed.

  (* ------------------------------------------------------------------ *)
  (* a spline-valued factor acts as pointwise multiplication by v, and as *)
  (* zero outside v's support                                             *)
  (* ------------------------------------------------------------------ *)
  Theorem law_spline_factor (v s : spline F) :
    SplInv s -> SplInv v -> sgridp v = sgridp s ->
    exists r p, apply (OSpl v) s = Ok r /\ spl_mul v s = Ok p /\
                ssup r = ssup s /\
                (forall k x, imem k (ssup s) -> den r k x = den p k x) /\
                (forall k x, imem k (ssup s) -> den r k x = den v k x * den s k x) /\
                (forall k x, ~ imem k (ssup s) -> den r k x = f0) /\
                (forall k x, ~ imem k (ssup v) -> den r k x = f0).
  Proof.
    intros Hs Hv Hg.
    destruct (apply_den (ESpl v) s Hs (conj Hv Hg) I) as (r & Er & _ & Sr & _ & _ & Dr).
    destruct (spl_mul_spec v s Hv Hs Hg) as (u & p & _ & Ep & _ & _ & _ & Dp).
    assert (Hd : forall k x, den r k x = den v k x * den s k x).
    { intros k x. rewrite Dr. cbn [dsem]. rewrite peval_pmul, !den_unfold, Hg. reflexivity. }
    exists r, p. cbn [elab] in Er. split; [exact Er|]. split; [exact Ep|]. split; [exact Sr|].
    split; [intros k x _; rewrite Hd, Dp; reflexivity|].
    split; [intros k x _; apply Hd|].
    split.
    - intros k x Hk. rewrite Hd, (den_out s k x Hk). ring.
    - intros k x Hk. rewrite Hd, (den_out v k x Hk). ring.
  Qed.

  (* the same, as an equation of denoted functions on every interval *)
  Theorem law_spline_factor_den_eq (v s : spline F) :
    SplInv s -> SplInv v -> sgridp v = sgridp s ->
    exists r p, apply (OSpl v) s = Ok r /\ spl_mul v s = Ok p /\ den_eq r p.
  Proof.
    intros Hs Hv Hg.
    destruct (law_spline_factor v s Hs Hv Hg) as (r & p & Er & Ep & _ & Hin & _ & Hout & _).
    destruct (spl_mul_spec v s Hv Hs Hg) as (u & p' & _ & Ep' & _ & _ & _ & Dp).
    rewrite Ep in Ep'. injection Ep' as <-.
    exists r, p. split; [exact Er|]. split; [exact Ep|].
    intros k x. destruct (inb (ssup s) k) eqn:E.
    - apply inb_imem in E. apply Hin. exact E.
    - apply inb_false in E. rewrite (Hout k x E), Dp, (den_out s k x E). ring.
  Qed.

  (* ------------------------------------------------------------------ *)
  (* (d/dx * x - x * d/dx) s = s                                          *)
  (* ------------------------------------------------------------------ *)
  Theorem law_commutator (s : spline F) :
    SplInv s ->
    exists r, apply (elab (ESub (EMul (EDer 1) (EPos 1)) (EMul (EPos 1) (EDer 1)))) s = Ok r /\
              den_eq r s.
  Proof.
    intros Hs.
    destruct (apply_den (ESub (EMul (EDer 1) (EPos 1)) (EMul (EPos 1) (EDer 1))) s Hs)
      as (r & Er & _ & _ & _ & _ & Dr).
    { cbn [factors_ok]. tauto. }
    { cbn [scalars_ok]. tauto. }
    exists r. split; [exact Er|].
    intros k x. rewrite Dr, den_unfold.
    destruct (inb (ssup s) k) eqn:E.
    - apply inb_imem in E. destruct (piece_in s k Hs E) as [_ Lp].
      apply commutator. apply (nonnil_of_length _ _ Lp).
    - apply inb_false in E. rewrite (piece_out s k E), peval_dsem_nil. reflexivity.
  Qed.

  (* ------------------------------------------------------------------ *)
  (* the identity operator                                                *)
  (* ------------------------------------------------------------------ *)
  Theorem law_identity (s : spline F) :
    SplInv s -> exists r, apply OId s = Ok r /\ den_eq r s.
  Proof.
    intros Hs.
    destruct (apply_den EId s Hs I I) as (r & Er & _ & _ & _ & _ & Dr).
    exists r. split; [exact Er|].
    intros k x. rewrite Dr. reflexivity.
  Qed.

End Laws.

(* Properties_C02_K.v — C02_K: evaluation kernel, as compiled.
   Tie between the C++ source and the model by translation: coq/gen/KernelGen_*.v are regenerated on
   every run by gen/symkern.py, which compiles the headers of /repo's current tree with a symbolic
   scalar type (cpp/symkern.cpp), runs the real templates and records the arithmetic expression each
   one computes (k_<instance>).  kernels_<family>_agree (defined in those generated files) says: for
   every scalar structure satisfying the ordered-field laws and all symbolic arguments, the
   hand-written model function returns the value of the expression the compiled code computes.
   The instance ranges are finite (listed per theorem); the unbounded statements about the model
   are in Properties_C02.v.  Statements only: every theorem is closed by [exact]. *)
From BSpl Require Import Scalar Outcome Support Poly Spline Ops Forms Proofs_KernelTac.
From BSpl.gen Require Import KernelGen_eval.

(* internal::evaluateInterval<T,n> (Horner about the interval midpoint), n = 1..8, equals the model's eval_interval *)
Theorem C02_K_horner_as_compiled : kernels_eval_agree.
Proof. exact kernels_eval_agree_ok. Qed.
Print Assumptions C02_K_horner_as_compiled.


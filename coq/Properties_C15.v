(* Properties_C15.v — C15: predicates tell the truth.
   Statements only: every theorem is closed by [exact <lemma>] and followed by
   Print Assumptions.  The statements quantify over every scalar structure
   (F, K : Ops F) that satisfies the ordered-field laws (Laws K), and over all
   grids, windows, orders, coefficient values, expressions etc. named in them.
 *)
From Coq Require Import List NArith ZArith Arith Bool.
From BSpl Require Import Scalar Outcome Support Poly Spline Ops Forms Generator Interp Spec Spec_Ops Spec_Gen Proofs_Support Proofs_Scalar Proofs_Poly Proofs_Binom Proofs_Eval Proofs_Outcome Proofs_Spline Proofs_Forms Proofs_Ops Proofs_Forms2 Proofs_Interp Proofs_Pred Proofs_Gen Instances Instances_Ext Proofs_Valid Solver Pool Quad Proofs_Pool Proofs_Quad Proofs_Rounded Proofs_Threads Proofs_Updates Examples Proofs_Examples Proofs_Analysis Proofs_Smooth Proofs_Laws.
Import ListNotations.


Theorem C15_is_zero :
    forall (F : Type) (K : Ops F),
           Laws K -> forall s : spline F, SplInv s -> is_zero s = true <-> (forall x : F, spl_eval s x = Ok f0).
Proof. exact (@Proofs_Pred.is_zero_spec). Qed.

Theorem C15_is_zero_coefficients :
    forall (F : Type) (K : Ops F),
           Laws K ->
           forall s : spline F,
           SplInv s ->
           is_zero s = true <-> nintervals (ssup s) = 0%N \/ Forall (Forall (fun c : F => c = f0)) (scoefs s).
Proof. exact (@Proofs_Pred.is_zero_coeffs). Qed.

Theorem C15_overlap_total :
    forall (F : Type) (K : Ops F) (a b : spline F),
           SplInv a -> SplInv b -> exists r : bool, check_overlap a b = Ok r.
Proof. exact (@Proofs_Pred.check_overlap_total). Qed.

Theorem C15_overlap :
    forall (F : Type) (K : Ops F),
           Laws K ->
           forall a b : spline F,
           SplInv a ->
           SplInv b ->
           sgridp a = sgridp b ->
           check_overlap a b = Ok true <-> (exists k : N, imem k (ssup a) /\ imem k (ssup b)).
Proof. exact (@Proofs_Pred.check_overlap_spec). Qed.

Theorem C15_overlap_product :
    forall (F : Type) (K : Ops F),
           Laws K ->
           forall a b : spline F,
           SplInv a ->
           SplInv b ->
           sgridp a = sgridp b ->
           check_overlap a b = Ok true <->
           (exists r : spline F, spl_mul a b = Ok r /\ nintervals (ssup r) <> 0%N).
Proof. exact (@Proofs_Pred.check_overlap_mul). Qed.

Theorem C15_overlap_sym :
    forall (F : Type) (K : Ops F),
           Laws K ->
           forall a b : spline F,
           SplInv a -> SplInv b -> sgridp a = sgridp b -> check_overlap a b = check_overlap b a.
Proof. exact (@Proofs_Pred.check_overlap_sym). Qed.

Theorem C15_eq :
    forall (F : Type) (K : Ops F),
           Laws K ->
           forall a b : spline F,
           spl_eqb a b = true <->
           sgridp a = sgridp b /\
           (sstart (ssup a) = sstart (ssup b) /\ sstop (ssup a) = sstop (ssup b) \/
            wempty (ssup a) /\ wempty (ssup b)) /\ scoefs a = scoefs b.
Proof. exact (@Proofs_Pred.spl_eqb_spec). Qed.

Theorem C15_eq_refl :
    forall (F : Type) (K : Ops F), Laws K -> forall a : spline F, spl_eqb a a = true.
Proof. exact (@Proofs_Pred.spl_eqb_refl). Qed.

Theorem C15_eq_sym :
    forall (F : Type) (K : Ops F), Laws K -> forall a b : spline F, spl_eqb a b = spl_eqb b a.
Proof. exact (@Proofs_Pred.spl_eqb_sym). Qed.

Theorem C15_eq_trans :
    forall (F : Type) (K : Ops F),
           Laws K -> forall a b c0 : spline F, spl_eqb a b = true -> spl_eqb b c0 = true -> spl_eqb a c0 = true.
Proof. exact (@Proofs_Pred.spl_eqb_trans). Qed.

Theorem C15_eq_copy :
    forall (F : Type) (K : Ops F),
           Laws K -> forall a b : spline F, ssup a = ssup b -> scoefs a = scoefs b -> spl_eqb a b = true.
Proof. exact (@Proofs_Pred.spl_eqb_copy). Qed.

Theorem C15_eq_eval :
    forall (F : Type) (K : Ops F),
           Laws K ->
           forall a b : spline F,
           SplInv a -> SplInv b -> spl_eqb a b = true -> forall x : F, spl_eval a x = spl_eval b x.
Proof. exact (@Proofs_Pred.spl_eqb_eval_strong). Qed.


Print Assumptions C15_is_zero.
Print Assumptions C15_is_zero_coefficients.
Print Assumptions C15_overlap_total.
Print Assumptions C15_overlap.
Print Assumptions C15_overlap_product.
Print Assumptions C15_overlap_sym.
Print Assumptions C15_eq.
Print Assumptions C15_eq_refl.
Print Assumptions C15_eq_sym.
Print Assumptions C15_eq_trans.
Print Assumptions C15_eq_copy.
Print Assumptions C15_eq_eval.

(* Properties_C07_K.v — C07_K: linear-form kernel, as compiled.
   Tie between the C++ source and the model by translation: coq/gen/KernelGen_*.v are regenerated on
   every run by gen/symkern.py, which compiles the headers of /repo's current tree with a symbolic
   scalar type (cpp/symkern.cpp), runs the real templates and records the arithmetic expression each
   one computes (k_<instance>).  kernels_<family>_agree (defined in those generated files) says: for
   every scalar structure satisfying the ordered-field laws and all symbolic arguments, the
   hand-written model function returns the value of the expression the compiled code computes.
   The instance ranges are finite (listed per theorem); the unbounded statements about the model
   are in Properties_C07.v.  Statements only: every theorem is closed by [exact]. *)
From BSpl Require Import Scalar Outcome Support Poly Spline Ops Forms Proofs_KernelTac.
From BSpl.gen Require Import KernelGen_lin.

(* LinearForm::evaluateInterval<T,n>, n = 1..8, equals lin_kernel *)
Theorem C07_K_linear_kernel_as_compiled : kernels_lin_agree.
Proof. exact kernels_lin_agree_ok. Qed.
Print Assumptions C07_K_linear_kernel_as_compiled.


(* Properties_C15_P.v — C15_P: predicates, as compiled, path by path.  See Properties_C02_P.v for
   the technique (gen/symops2.py, cpp/symops2.cpp, coq/gen/PathGen_pred.v, coq/Proofs_PathTac.v):
   each statement has the path condition of one concolic run of the real C++ predicate as its
   hypotheses (which coefficients compared equal to zero / to each other, how the end points of the
   supports compared) and says that the model returns the boolean the compiled code returned on every
   input that takes that path; each comes with an instance at the exact rationals the run used.  The
   unbounded statements about the model are in Properties_C15.v.
   Statements only: every theorem is closed by [exact]. *)
From BSpl Require Import Scalar Outcome Support Poly Spline Proofs_PathTac.
From BSpl.gen Require Import PathGen_pred.

(* Spline::isZero() for coefficient patterns all zero / exactly one coefficient non-zero at the
   first, a leading, a middle, the last position / none zero, orders 0, 1, 2, and for splines without
   intervals - equals is_zero;
   Spline::operator== / != for equal coefficients, the first / a middle / the last coefficient
   different, all zero, different windows, different numbers of intervals, two empty splines, an empty
   one against a point-like one, and for the second spline on a separately built grid with equal
   points / one different point - equals spl_eqb;
   Spline::checkOverlap for windows identical, nested either way, staggered, touching and disjoint in
   both orders, empty and point-like, orders (1,1), (1,2), (2,0), (0,2) - equals check_overlap. *)
Theorem C15_P_predicates_as_compiled : paths_pred_agree.
Proof. exact paths_pred_agree_ok. Qed.
Print Assumptions C15_P_predicates_as_compiled.

(* Properties_C12.v — C12: interpolation reproduces the data with the promised smoothness and boundaries.
   Statements only: every theorem is closed by [exact <lemma>] and followed by
   Print Assumptions.  The statements quantify over every scalar structure
   (F, K : Ops F) that satisfies the ordered-field laws (Laws K), and over all
   grids, windows, orders, coefficient values, expressions etc. named in them.
   Relative to the solver: the theorems hold for EVERY vector that solves the assembled
   system (solves rows c); unique solvability is not needed. *)
From Coq Require Import List NArith ZArith Arith Bool.
From BSpl Require Import Scalar Outcome Support Poly Spline Ops Forms Generator Interp Spec Spec_Ops Spec_Gen Proofs_Support Proofs_Scalar Proofs_Poly Proofs_Binom Proofs_Eval Proofs_Outcome Proofs_Spline Proofs_Forms Proofs_Ops Proofs_Forms2 Proofs_Interp Proofs_Pred Proofs_Gen Instances Instances_Ext Proofs_Valid Solver Pool Quad Proofs_Pool Proofs_Quad Proofs_Rounded Proofs_Threads Proofs_Updates Examples Proofs_Examples Proofs_Analysis Proofs_Smooth Proofs_Laws.
Import ListNotations.


Theorem C12_system_ok :
    forall (F : Type) (K : Ops F) (order : nat) (x : support F) (y : list F) (bs : list (boundary F)),
           SInv x ->
           GInv (sgrid x) ->
           1 <= order ->
           sup_size x = nlen y ->
           (2 <= sup_size x)%N ->
           bnd_ok order bs ->
           length bs = order - 1 ->
           exists rows : list (row F),
             interp_system order x y bs = Ok rows /\ length rows = (order + 1) * (N.to_nat (sup_size x) - 1).
Proof. exact (@Proofs_Interp.interp_system_ok). Qed.

Theorem C12_spec :
    forall (F : Type) (K : Ops F),
           Laws K ->
           forall (order : nat) (x : support F) (y : list F) (bs : list (boundary F)) 
             (rows : list (row F)) (c : list F),
           SInv x ->
           GInv (sgrid x) ->
           1 <= order ->
           sup_size x = nlen y ->
           (2 <= sup_size x)%N ->
           bnd_ok order bs ->
           length bs = order - 1 ->
           interp_system order x y bs = Ok rows ->
           length c = length rows ->
           solves rows c ->
           exists s : spline F,
             interp_build order x c = Ok s /\
             SplInv s /\
             ssup s = x /\
             sord s = order /\
             (forall k : N,
              imem k x ->
              peval (piece s k) (gnth (sgrid x) k - mid (sgrid x) k)%F = nth (N.to_nat (k - sstart x)) y f0 /\
              peval (piece s k) (gnth (sgrid x) (k + 1) - mid (sgrid x) k)%F =
              nth (N.to_nat (k + 1 - sstart x)) y f0) /\
             (forall (k : N) (d : nat),
              imem k x ->
              imem (k + 1) x ->
              1 <= d < order ->
              dval (piece s k) d (gnth (sgrid x) (k + 1)) (mid (sgrid x) k) =
              dval (piece s (k + 1)) d (gnth (sgrid x) (k + 1)) (mid (sgrid x) (k + 1))) /\
             (forall b : boundary F,
              In b bs ->
              bnode b = FIRST ->
              dval (piece s (sstart x)) (bderiv b) (gnth (sgrid x) (sstart x)) (mid (sgrid x) (sstart x)) =
              bvalue b) /\
             (forall b : boundary F,
              In b bs ->
              bnode b = LAST ->
              dval (piece s (sstop x - 2)) (bderiv b) (gnth (sgrid x) (sstop x - 1))
                (mid (sgrid x) (sstop x - 2)) = bvalue b).
Proof. exact (@Proofs_Interp.interp_spec). Qed.

Theorem C12_interpolate :
    forall (F : Type) (K : Ops F),
           Laws K ->
           forall (solver : nat -> list (row F) -> list F) (order : nat) (x : support F) 
             (y : list F) (bs : list (boundary F)),
           SInv x ->
           GInv (sgrid x) ->
           1 <= order ->
           sup_size x = nlen y ->
           (2 <= sup_size x)%N ->
           bnd_ok order bs ->
           length bs = order - 1 ->
           (forall rows : list (row F),
            interp_system order x y bs = Ok rows ->
            length (solver (length rows) rows) = length rows /\ solves rows (solver (length rows) rows)) ->
           exists s : spline F,
             interpolate solver order x y bs = Ok s /\
             SplInv s /\
             ssup s = x /\
             sord s = order /\
             (forall k : N,
              imem k x ->
              peval (piece s k) (gnth (sgrid x) k - mid (sgrid x) k)%F = nth (N.to_nat (k - sstart x)) y f0 /\
              peval (piece s k) (gnth (sgrid x) (k + 1) - mid (sgrid x) k)%F =
              nth (N.to_nat (k + 1 - sstart x)) y f0) /\
             (forall (k : N) (d : nat),
              imem k x ->
              imem (k + 1) x ->
              1 <= d < order ->
              dval (piece s k) d (gnth (sgrid x) (k + 1)) (mid (sgrid x) k) =
              dval (piece s (k + 1)) d (gnth (sgrid x) (k + 1)) (mid (sgrid x) (k + 1))) /\
             (forall b : boundary F,
              In b bs ->
              bnode b = FIRST ->
              dval (piece s (sstart x)) (bderiv b) (gnth (sgrid x) (sstart x)) (mid (sgrid x) (sstart x)) =
              bvalue b) /\
             (forall b : boundary F,
              In b bs ->
              bnode b = LAST ->
              dval (piece s (sstop x - 2)) (bderiv b) (gnth (sgrid x) (sstop x - 1))
                (mid (sgrid x) (sstop x - 2)) = bvalue b).
Proof. exact (@Proofs_Interp.interpolate_spec). Qed.

Theorem C12_default_boundaries_ok :
    forall (F : Type) (K : Ops F) (order : nat),
           1 <= order -> bnd_ok order (default_boundaries order) /\ length (default_boundaries order) = order - 1.
Proof. exact (@Proofs_Interp.default_boundaries_ok). Qed.

Theorem C12_default_boundaries :
    forall (F : Type) (K : Ops F) (order i : nat),
           i < order - 1 ->
           nth_error (default_boundaries order) i =
           Some {| bnode := if Nat.even i then FIRST else LAST; bderiv := i / 2 + 1; bvalue := f0 |}.
Proof. exact (@Proofs_Interp.default_boundaries_spec). Qed.

Theorem C12_value_row :
    forall (F : Type) (K : Ops F),
           Laws K ->
           forall (order base : nat) (dx y : F) (c : list F),
           base + order + 1 <= length c ->
           row_apply (value_row order base dx y) c = peval (firstn (order + 1) (skipn base c)) dx.
Proof. exact (@Proofs_Interp.row_apply_value_row). Qed.

Theorem C12_derivative_row :
    forall (F : Type) (K : Ops F),
           Laws K ->
           forall (order base d : nat) (dx rhs : F) (c : list F),
           1 <= d <= order ->
           base + order + 1 <= length c ->
           row_apply {| rentries := deriv_entries order base d dx false; rrhs := rhs |} c =
           peval (pderivn d (firstn (order + 1) (skipn base c))) dx /\
           row_apply {| rentries := deriv_entries order base d dx true; rrhs := rhs |} c =
           (- peval (pderivn d (firstn (order + 1) (skipn base c))) dx)%F.
Proof. exact (@Proofs_Interp.row_apply_deriv_entries). Qed.

Theorem C12_count_mismatch :
    forall (F : Type) (K : Ops F) (order : nat) (x : support F) (y : list F) (bs : list (boundary F)),
           SInv x -> sup_size x <> nlen y -> interp_system order x y bs = Throw INCONSISTENT_DATA.
Proof. exact (@Proofs_Interp.interp_system_count). Qed.

Theorem C12_too_few :
    forall (F : Type) (K : Ops F) (order : nat) (x : support F) (y : list F) (bs : list (boundary F)),
           SInv x -> sup_size x = nlen y -> (sup_size x < 2)%N -> interp_system order x y bs = Throw UNDETERMINED.
Proof. exact (@Proofs_Interp.interp_system_few). Qed.

Theorem C12_bad_derivative :
    forall (F : Type) (K : Ops F) (order : nat) (x : support F) (y : list F) (bs : list (boundary F)),
           SInv x ->
           GInv (sgrid x) ->
           sup_size x = nlen y ->
           (2 <= sup_size x)%N -> ~ bnd_ok order bs -> interp_system order x y bs = Throw UNDETERMINED.
Proof. exact (@Proofs_Interp.interp_system_bad_deriv). Qed.


Print Assumptions C12_system_ok.
Print Assumptions C12_spec.
Print Assumptions C12_interpolate.
Print Assumptions C12_default_boundaries_ok.
Print Assumptions C12_default_boundaries.
Print Assumptions C12_value_row.
Print Assumptions C12_derivative_row.
Print Assumptions C12_count_mismatch.
Print Assumptions C12_too_few.
Print Assumptions C12_bad_derivative.

(* Properties_C17.v — C17: numerical quadrature matches the analytic forms where Gauss-Legendre is exact.
   Statements only: every theorem is closed by [exact <lemma>] and followed by
   Print Assumptions.  The statements quantify over every scalar structure
   (F, K : Ops F) that satisfies the ordered-field laws (Laws K), and over all
   grids, windows, orders, coefficient values, expressions etc. named in them.
   Relative to the rule: `rule` is any function satisfying rule_ext (depends only on the values
   of the integrand) and rule_exact (exact for polynomials of degree <= 2n-1, written about the
   interval midpoint) — premises of the theorems, not axioms.  That Boost's tables are such a
   rule is validated numerically by the check, not proved. *)
From Coq Require Import List NArith ZArith Arith Bool.
From BSpl Require Import Scalar Outcome Support Poly Spline Ops Forms Generator Interp Spec Spec_Ops Spec_Gen Proofs_Support Proofs_Scalar Proofs_Poly Proofs_Binom Proofs_Eval Proofs_Outcome Proofs_Spline Proofs_Forms Proofs_Ops Proofs_Forms2 Proofs_Interp Proofs_Pred Proofs_Gen Instances Instances_Ext Proofs_Valid Solver Pool Quad Proofs_Pool Proofs_Quad Proofs_Rounded Proofs_Threads Proofs_Updates Examples Proofs_Examples Proofs_Analysis Proofs_Smooth Proofs_Laws.
Import ListNotations.


Theorem C17_spec :
    forall (F : Type) (K : Ops F),
           Laws K ->
           forall rule : nat -> (F -> F) -> F -> F -> F,
           (forall (n : nat) (g h : F -> F) (a b : F), (forall x : F, g x = h x) -> rule n g a b = rule n h a b) ->
           (forall (n : nat) (p : list F) (a b : F),
            length p <= 2 * n ->
            rule n (fun x : F => peval p (x - (a + b) / f2)%F) a b = defint p ((b - a) / f2)%F) ->
           forall (n : nat) (w : list F) (m1 m2 : spline F),
           SplInv m1 ->
           SplInv m2 ->
           sgridp m1 = sgridp m2 ->
           sord m1 + sord m2 + (length w - 1) + 1 <= 2 * n ->
           exists v : F,
             integrate rule n (fun x : F => peval w x) m1 m2 = Ok v /\
             bilinear OId (elab (weight_expr w)) m1 m2 = Ok v.
Proof. exact (@Proofs_Quad.integrate_spec). Qed.

Theorem C17_sum_over_common_intervals :
    forall (F : Type) (K : Ops F),
           Laws K ->
           forall rule : nat -> (F -> F) -> F -> F -> F,
           (forall (n : nat) (g h : F -> F) (a b : F), (forall x : F, g x = h x) -> rule n g a b = rule n h a b) ->
           forall (n : nat) (f : F -> F) (m1 m2 : spline F) (u : support F),
           SplInv m1 ->
           SplInv m2 ->
           sgridp m1 = sgridp m2 ->
           calc_inter (ssup m1) (ssup m2) = Ok u ->
           integrate rule n f m1 m2 =
           Ok
             (fsum
                (fun k : N =>
                 rule n
                   (fun x : F =>
                    (f x * peval (piece m1 k) (x - mid (sgridp m1) k) *
                     peval (piece m2 k) (x - mid (sgridp m1) k))%F) (gnth (sgridp m1) k)
                   (gnth (sgridp m1) (k + 1))) (interval_list u)).
Proof. exact (@Proofs_Quad.integrate_sum). Qed.

Theorem C17_no_common_interval :
    forall (F : Type) (K : Ops F),
           Laws K ->
           forall (rule : nat -> (F -> F) -> F -> F -> F) (n : nat) (f : F -> F) (m1 m2 : spline F)
             (u : support F),
           SplInv m1 ->
           SplInv m2 ->
           sgridp m1 = sgridp m2 ->
           calc_inter (ssup m1) (ssup m2) = Ok u -> nintervals u = 0%N -> integrate rule n f m1 m2 = Ok f0.
Proof. exact (@Proofs_Quad.integrate_no_common). Qed.

Theorem C17_differing_grids :
    forall (F : Type) (K : Ops F),
           Laws K ->
           forall (rule : nat -> (F -> F) -> F -> F -> F) (n : nat) (f : F -> F) (m1 m2 : spline F),
           sgridp m1 <> sgridp m2 -> integrate rule n f m1 m2 = Throw DIFFERING_GRIDS.
Proof. exact (@Proofs_Quad.integrate_differing). Qed.

Theorem C17_weight_is_multiplication :
    forall (F : Type) (K : Ops F),
           Laws K ->
           forall (w g : list F) (k : N) (c : list F) (u : F),
           c <> [] -> peval (dsem (weight_expr w) g k c) u = (peval w (u + mid g k) * peval c u)%F.
Proof. exact (@Proofs_Quad.peval_weight). Qed.

Theorem C17_weight_order :
    forall (F : Type) (K : Ops F) (w : list F) (n : nat),
           out_ord (elab (weight_expr w)) n = n + (length w - 1).
Proof. exact (@Proofs_Quad.out_ord_weight). Qed.

Theorem C17_horner :
    forall (F : Type) (K : Ops F),
           Laws K -> forall (x : F) (c : list F) (xm : F), c <> [] -> horner x c xm = peval c (x - xm)%F.
Proof. exact (@Proofs_Quad.horner_spec). Qed.


Print Assumptions C17_spec.
Print Assumptions C17_sum_over_common_intervals.
Print Assumptions C17_no_common_interval.
Print Assumptions C17_differing_grids.
Print Assumptions C17_weight_is_multiplication.
Print Assumptions C17_weight_order.
Print Assumptions C17_horner.

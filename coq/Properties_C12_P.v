(* Properties_C12_P.v — C12_P: the interpolation system, as compiled.  See Properties_C02_P.v for the
   technique (gen/symops2.py, cpp/symops2.cpp, coq/gen/PathGen_interp.v, coq/Proofs_PathTac.v).
   interpolation::interpolate<T, order, Solver> is run with a RECORDING solver (cpp/symops2.cpp:
   it keeps the dense matrix and right-hand side it was handed - entries never written are
   static_cast<T>(0), the documented contract of ISolver - and returns fresh variables s0, s1, ... as
   the solution).  Abscissae are a window of a grid of five symbolic points, ordinates and boundary
   values are variables.  The assembly compares no scalars: the only hypotheses are the comparisons of
   the grid's construction (g0 < ... < g4), and they are not needed.  Per scenario two statements:
   p_<scenario>_sys_ok: the model's assembled system, densified as Pool.eval_op observes it
   (interp_dense, coq/Proofs_PathTac.v), equals the recorded system entry by entry (field identities);
   p_<scenario>_ok: the model's interpolate, given a solver that returns s0, s1, ..., returns the spline
   the code returned.  A refused call throws the same error code in both.  The unbounded statements
   about the model are in Properties_C12.v.
   Statements only: every theorem is closed by [exact]. *)
From BSpl Require Import Scalar Outcome Support Poly Spline Interp Solver Proofs_PathTac.
From BSpl.gen Require Import PathGen_interp.

(* orders 1, 2, 3; abscissae g0..g2, g0..g3, g1..g3, g1..g4 and the single interval g1..g2; the
   default boundary conditions and user-supplied ones (order 2: LAST 1 / FIRST 2; order 3: LAST 2 +
   FIRST 3 / LAST 1 + LAST 3) with symbolic values; refused calls: too few / too many ordinates
   (INCONSISTENT_DATA), one abscissa, none, derivative orders 0, order + 1 (UNDETERMINED) *)
Theorem C12_P_interpolation_system_as_compiled : paths_interp_agree.
Proof. exact paths_interp_agree_ok. Qed.
Print Assumptions C12_P_interpolation_system_as_compiled.

(* Proofs_Examples.v — the example solvers (C20).

   Examples.v models the skeletons of examples/diffusion.cpp and
   examples/spline-potential.cpp; the dense solvers of Eigen are function
   parameters about which only result sizes are assumed.

   Part 0: lists, std::unique on clamped knot vectors, the generator for a
           knot vector whose grid is already known to be valid (no bound on
           the number of knots is needed then).
   Part A: container safety: the example solvers never run into undefined
           behaviour, and which library exceptions they can raise.
   Part B: laws of the assembled linear systems (scaling of the diffusion
           coefficient, constant shift of the potential).
   Part C: the diffusion solution attains the prescribed end values, for any
           solver output. *)
From Coq Require Import List Arith NArith ZArith Bool Lia ZifyBool ZifyN Field Ring.
From BSpl Require Import ListAux Scalar Outcome Support Poly Spline Ops Forms Generator Examples
  Spec Spec_Ops Spec_Gen
  Proofs_Support Proofs_Scalar Proofs_Outcome Proofs_Poly Proofs_Eval Proofs_Spline Proofs_Ops
  Proofs_Forms Proofs_Forms2 Proofs_Gen.
Import ListNotations.

Ltac Zify.zify_post_hook ::= Z.div_mod_to_equations.

(* ====================================================================== *)
(* Part 0a: lists and the outcome monad                                    *)
(* ====================================================================== *)

Lemma map_inj_local {A B} (f : A -> B) (l l' : list A) :
  (forall x y, f x = f y -> x = y) -> map f l = map f l' -> l = l'.
Proof.
  intros Hf. revert l'; induction l as [|a l IH]; intros [|b l'] H; cbn [map] in H;
    try discriminate; [reflexivity|].
  injection H as H1 H2. f_equal; [apply Hf; exact H1 | apply IH; exact H2].
Qed.

(* a loop whose body is replaced by a related body *)
Lemma omapM_rel_local {A B C} (f : A -> outcome B) (g : A -> outcome C) (h : B -> C) l r :
  (forall a b, In a l -> f a = Ok b -> g a = Ok (h b)) ->
  omapM f l = Ok r -> omapM g l = Ok (map h r).
Proof.
  revert r; induction l as [|a l IH]; intros r H E.
  - cbn in E. injection E as <-. reflexivity.
  - rewrite omapM_cons in E. apply bind_ok_inv in E as (b & Eb & E).
    apply bind_ok_inv in E as (bs & Ebs & E). injection E as <-.
    rewrite omapM_cons, (H a b (or_introl eq_refl) Eb). cbn [bind].
    rewrite (IH bs); [reflexivity | | exact Ebs].
    intros a' b' Ha'. apply H. right. exact Ha'.
Qed.

Lemma nth_error_last_split {A} (l : list A) b :
  nth_error l (length l - 1) = Some b -> l = removelast l ++ [b].
Proof.
  intros H. assert (l <> []) as Hne by (intros ->; discriminate).
  destruct (exists_last Hne) as (l' & a & ->).
  rewrite app_length in H. cbn [length] in H.
  rewrite nth_error_app2 in H by lia.
  replace (length l' + 1 - 1 - length l')%nat with 0%nat in H by lia. cbn in H. injection H as ->.
  rewrite removelast_app by discriminate. cbn [removelast]. rewrite app_nil_r. reflexivity.
Qed.

Lemma length_removelast_local {A} (l : list A) : length (removelast l) = (length l - 1)%nat.
Proof.
  rewrite removelast_firstn_len, firstn_length.
  destruct (length l) as [|n]; [reflexivity|]. cbn [pred]. rewrite Nat.min_l; lia.
Qed.

(* the elements left after erase(begin()) and pop_back() *)
Lemma nth_error_inner_local {A} (l : list A) i :
  (i + 2 < length l)%nat ->
  nth_error (removelast (tl l)) i = nth_error l (S i).
Proof.
  intros Hi. destruct l as [|a l]; [cbn [length] in Hi; lia|]. cbn [tl nth_error length] in *.
  rewrite removelast_firstn_len. apply nth_error_firstn. lia.
Qed.

Lemma length_inner_local {A} (l : list A) : length (removelast (tl l)) = (length l - 2)%nat.
Proof.
  rewrite length_removelast_local. destruct l; cbn [tl length]; lia.
Qed.

Lemma In_inner_local {A} (l : list A) x :
  In x (removelast (tl l)) ->
  exists i, (1 <= i)%nat /\ (i + 1 < length l)%nat /\ nth_error l i = Some x.
Proof.
  intros H. apply In_nth_error in H as [i Hi].
  assert (i < length (removelast (tl l)))%nat as Hl by (apply nth_error_Some; congruence).
  rewrite length_inner_local in Hl.
  rewrite nth_error_inner_local in Hi by lia.
  exists (S i). split; [lia|]. split; [lia | exact Hi].
Qed.

(* ====================================================================== *)
(* Part 0b: std::unique on a clamped knot vector                           *)
(* ====================================================================== *)
Section UniqueClamped.
  Context {F : Type} {K : Ops F} {L : Laws K}.

  Lemma unique_increasing_id (l : list F) : increasing l -> unique l = l.
  Proof.
    induction l as [|a l IH]; intros H; [reflexivity|].
    destruct l as [|b r]; [reflexivity|].
    apply increasing_cons in H as [Hab Hr]. rewrite unique_cons2.
    apply flt_neq, feqb_false in Hab. rewrite Hab, (IH Hr). reflexivity.
  Qed.

  Lemma unique_repeat_same (b : F) n : unique (b :: repeat b n) = [b].
  Proof.
    induction n as [|n IH]; [reflexivity|].
    cbn [repeat]. rewrite unique_cons2, feqb_refl. exact IH.
  Qed.

  (* trailing copies of the last element disappear *)
  Lemma unique_snoc_repeat (l : list F) b n : unique (l ++ b :: repeat b n) = unique (l ++ [b]).
  Proof.
    induction l as [|a l IH]; cbn [app].
    - apply unique_repeat_same.
    - destruct l as [|c l']; cbn [app] in *.
      + rewrite !unique_cons2, unique_repeat_same. reflexivity.
      + rewrite !unique_cons2, IH. reflexivity.
  Qed.

  (* leading copies of the first element disappear *)
  Lemma unique_repeat_cons (a : F) n r : unique (repeat a n ++ a :: r) = unique (a :: r).
  Proof.
    induction n as [|n IH]; [reflexivity|].
    cbn [repeat app]. destruct (repeat a n ++ a :: r) as [|c t] eqn:E.
    - destruct n; discriminate.
    - assert (c = a) as -> by (destruct n; cbn in E; congruence).
      rewrite unique_cons2, feqb_refl. exact IH.
  Qed.

  (* the knot vector of examples/diffusion.cpp: n copies of the first point,
     the points, n copies of the last point *)
  Lemma unique_clamped (a b : F) (mid_ : list F) n :
    increasing (a :: mid_ ++ [b]) ->
    unique (repeat a n ++ (a :: mid_ ++ [b]) ++ repeat b n) = a :: mid_ ++ [b].
  Proof.
    intros Hinc.
    replace ((a :: mid_ ++ [b]) ++ repeat b n) with (a :: (mid_ ++ b :: repeat b n))
      by (cbn [app]; rewrite <- app_assoc; reflexivity).
    rewrite unique_repeat_cons.
    change (a :: mid_ ++ b :: repeat b n) with ((a :: mid_) ++ b :: repeat b n).
    rewrite unique_snoc_repeat. apply unique_increasing_id. exact Hinc.
  Qed.
End UniqueClamped.

(* ====================================================================== *)
(* Part 0c: the generator, for a knot vector whose grid is known to be     *)
(* valid.  Proofs_Gen.generate_spec bounds the NUMBER OF KNOTS by 2^63 only *)
(* to obtain [GInv (unique ks)]; the clamped vectors of the examples have   *)
(* 2*ORDER more knots than grid points, so here the grid invariant is the   *)
(* premise instead (same proofs).                                           *)
(* ====================================================================== *)
Section GenOnValidGrid.
  Context {F : Type} {K : Ops F} {L : Laws K}.
  Add Field Ffex0 : (@Fth F K L).

  Lemma apply_rec_spec_g (ks : list F) q i (a b : spline F) :
    nondecreasing ks -> GInv (unique ks) ->
    (i + q + 2 < length ks)%nat ->
    spl_is ks q i a -> spl_is ks q (i + 1) b ->
    exists r, apply_rec (mkGen (unique ks) ks) (S q + 1) i a b = Ok r /\ spl_is ks (S q) i r.
  Proof.
    intros Hn Hg Hi (Ia & Ga & Oa & Da) (Ib & Gb & Ob & Db).
    unfold apply_rec. cbn [ggrid gknots].
    replace (S q + 1 - 1)%nat with (S q) by lia.
    replace (i + (S q + 1) - 1)%nat with (i + q + 1)%nat by lia.
    replace (i + (S q + 1))%nat with (i + q + 2)%nat by lia.
    rewrite spl_empty_ok by exact Hg. cbn [bind].
    rewrite !at_knot by lia. cbn [bind].
    set (r0 := mkSpl (mkSup (unique ks) 0 0) (S q) []).
    assert (exists r1,
      (if fgtb (knot ks (i + q + 1)) (knot ks i)
       then apply (rec_op1 (f1 / (knot ks (i + q + 1) - knot ks i))%F (knot ks i)) a
       else Ok r0) = Ok r1 /\ SplInv r1 /\ sgridp r1 = unique ks /\ sord r1 = S q /\
      forall k x, den r1 k x =
        (if fltb (knot ks i) (knot ks (i + q + 1))
         then (x - knot ks i) / (knot ks (i + q + 1) - knot ks i) * den a k x else f0)%F)
      as (r1 & -> & I1 & G1 & O1 & D1).
    { rewrite fgtb_def. destruct (fltb (knot ks i) (knot ks (i + q + 1))) eqn:E1.
      - destruct (apply_op1 (f1 / (knot ks (i + q + 1) - knot ks i))%F (knot ks i) a Ia)
          as (r & -> & Ir & Sr & Or & Dr).
        exists r. split; [reflexivity|]. split; [exact Ir|].
        split; [unfold sgridp in *; rewrite Sr; exact Ga|]. split; [lia|].
        intros k x. rewrite Dr. field. apply fsub_neq0. exact E1.
      - exists r0. split; [reflexivity|]. split; [apply spl_empty_inv; exact Hg|].
        split; [reflexivity|]. split; [reflexivity|]. intros k x. apply den_empty. }
    cbn [bind]. rewrite fgtb_def.
    destruct (fltb (knot ks (i + 1)) (knot ks (i + q + 2))) eqn:E2.
    - destruct (apply_op2 (f1 / (knot ks (i + q + 2) - knot ks (i + 1)))%F (knot ks (i + q + 2)) b Ib)
        as (t & -> & It & St & Ot & Dt).
      cbn [bind].
      assert (sgridp t = unique ks) as Gt by (unfold sgridp in *; rewrite St; exact Gb).
      destruct (spl_iadd_spec r1 t I1 It ltac:(congruence) ltac:(lia))
        as (u & r & Eu & -> & Ir & Sr & Or & Dr).
      exists r. split; [reflexivity|]. split; [exact Ir|]. split.
      { destruct I1 as (S1 & _). destruct It as (S2 & _).
        destruct (calc_union_spec (ssup r1) (ssup t) S1 S2 ltac:(unfold sgridp in *; congruence))
          as (u' & Eu' & _ & Gu' & _).
        rewrite Eu in Eu'. injection Eu' as <-. unfold sgridp in *. rewrite Sr, Gu'. exact G1. }
      split; [lia|].
      intros k x Hk. rewrite Dr, D1, Dt, (Da k x Hk), (Db k x Hk). cbn [Bk]. rewrite E2.
      f_equal. field. apply fsub_neq0. exact E2.
    - exists r1. split; [reflexivity|]. split; [exact I1|]. split; [exact G1|]. split; [exact O1|].
      intros k x Hk. rewrite D1, (Da k x Hk). cbn [Bk]. rewrite E2. ring.
  Qed.

  Lemma gen0_elem_g (ks : list F) i :
    nondecreasing ks -> GInv (unique ks) -> (i + 1 < length ks)%nat ->
    exists s, gen0_body (unique ks) ks i = Ok s /\ spl_is ks 0 i s.
  Proof.
    intros Hn Hg Hi.
    pose proof Hg as (Hg2 & Hg63 & Hinc).
    unfold gen0_body. rewrite !at_knot by lia. cbn [bind].
    pose proof (nondecreasing_step ks i Hn Hi) as Hle.
    rewrite fgtb_def.
    assert (fltb (knot ks (i + 1)) (knot ks i) = false) as -> by (apply fltb_false; exact Hle).
    destruct (feqb (knot ks i) (knot ks (i + 1))) eqn:Eq.
    - apply feqb_true in Eq. rewrite spl_empty_ok by exact Hg.
      eexists. split; [reflexivity|]. split; [apply spl_empty_inv; exact Hg|].
      split; [reflexivity|]. split; [reflexivity|].
      intros k x Hk. rewrite den_empty. cbn [Bk]. rewrite <- Eq, flt_irrefl. reflexivity.
    - apply feqb_false in Eq.
      assert (fltb (knot ks i) (knot ks (i + 1)) = true) as Hlt.
      { apply fleb_true in Hle as [Hle|Hle]; [exact Hle | contradiction]. }
      destruct (knot_grid_index ks i Hn Hi Hlt) as (j & Hj & Hj1).
      assert (S j < length (unique ks))%nat as Hjl.
      { apply nth_error_Some. congruence. }
      assert (grid_find (unique ks) (knot ks i) = Ok (N.of_nat j)) as ->.
      { apply grid_find_spec; [exact Hinc|]. unfold nnth. rewrite Nat2N.id. exact Hj. }
      cbn [bind]. unfold nlen in *.
      rewrite wadd_small by (unfold W; lia).
      rewrite sup_ctor_ok by (unfold nlen; lia). cbn [bind].
      assert (SInv (mkSup (unique ks) (N.of_nat j) (N.of_nat j + 2))) as Hsi.
      { unfold SInv, nlen. cbn [sgrid sstart sstop]. lia. }
      assert (nintervals (mkSup (unique ks) (N.of_nat j) (N.of_nat j + 2)) = 1%N) as Hni.
      { unfold nintervals. cbn [sstart sstop].
        destruct (N.of_nat j + 2 - N.of_nat j =? 0)%N eqn:E0; lia. }
      rewrite spl_ctor_ok by (try exact Hsi; rewrite Hni; reflexivity).
      eexists. split; [reflexivity|]. split.
      { unfold SplInv. cbn [ssup sord scoefs sgrid]. split; [exact Hsi|]. split; [exact Hg|].
        split; [rewrite Hni; reflexivity|]. constructor; [reflexivity | constructor]. }
      split; [reflexivity|]. split; [reflexivity|].
      intros k x Hk. unfold den, piece. cbn [ssup sstart sstop scoefs sgrid Bk].
      rewrite Hlt. cbn [andb].
      assert (nth_error (unique ks) k = Some (nth k (unique ks) f0)) as Ek
        by (apply nth_error_nth'; lia).
      destruct ((N.of_nat j <=? N.of_nat k)%N && (N.of_nat k + 1 <? N.of_nat j + 2)%N) eqn:E.
      + assert (k = j) as -> by lia.
        replace (N.to_nat (N.of_nat j - N.of_nat j)) with 0%nat by lia.
        assert (knot ks i = nth j (unique ks) f0) as <- by congruence.
        rewrite feqb_refl. cbn [nth peval]. ring.
      + assert (k <> j) as Hkj by lia.
        destruct (feqb (knot ks i) (nth k (unique ks) f0)) eqn:E2; [|reflexivity].
        apply feqb_true in E2. exfalso. apply Hkj.
        apply (increasing_inj (unique ks) k j (knot ks i)); [exact Hinc | congruence | exact Hj].
  Qed.

  Lemma generate_spec_g (ks : list F) p :
    nondecreasing ks -> GInv (unique ks) -> (p + 1 <= length ks)%nat ->
    exists l, generate (mkGen (unique ks) ks) p = Ok l /\
              length l = (length ks - p - 1)%nat /\
              forall i, (i < length l)%nat -> exists s, nth_error l i = Some s /\ spl_is ks p i s.
  Proof.
    intros Hn Hg. induction p as [|q IH]; intros Hp.
    - rewrite generate_unfold. cbn [gknots].
      destruct (Nat.ltb_spec (length ks) (0 + 1)) as [Hlt|_]; [lia|].
      rewrite gen0_unfold. cbn [ggrid gknots].
      destruct (omapM_seq_exists (gen0_body (unique ks) ks) (spl_is ks 0) (length ks - 1))
        as (l & Hl1 & Hl2 & Hl3).
      + intros i Hi. apply gen0_elem_g; try assumption. lia.
      + exists l. split; [exact Hl1|]. split; [lia|]. intros i Hi. apply Hl3. lia.
    - destruct (IH ltac:(lia)) as (lower & Hlow & Llow & Nlow).
      rewrite generate_unfold. cbn [gknots].
      destruct (Nat.ltb_spec (length ks) (S q + 1)) as [Hlt|_]; [lia|].
      rewrite Hlow. cbn [bind].
      destruct (omapM_seq_exists
                  (fun i => do a <- at_ lower i; do b <- at_ lower (i + 1);
                            apply_rec (mkGen (unique ks) ks) (S q + 1) i a b)
                  (spl_is ks (S q)) (length ks - (S q + 1))) as (l & Hl1 & Hl2 & Hl3).
      + intros i Hi.
        destruct (Nlow i ltac:(lia)) as (a & Ea & Pa).
        destruct (Nlow (i + 1)%nat ltac:(lia)) as (b & Eb & Pb).
        rewrite (at_nth_error _ _ _ Ea), (at_nth_error _ _ _ Eb). cbn [bind].
        apply apply_rec_spec_g; try assumption. lia.
      + exists l. split; [exact Hl1|]. split; [lia|]. intros i Hi. apply Hl3. lia.
  Qed.

  Lemma generate_too_few_g (g ks : list F) p :
    (length ks < p + 1)%nat -> generate (mkGen g ks) p = Throw UNDETERMINED.
  Proof.
    intros Hp. rewrite generate_unfold. cbn [gknots].
    destruct (Nat.ltb_spec (length ks) (p + 1)) as [_|Hge]; [reflexivity | lia].
  Qed.
End GenOnValidGrid.

(* ====================================================================== *)
(* The example solvers                                                     *)
(* ====================================================================== *)
Section ExFacts.
  Context {F : Type} {K : Ops F} {L : Laws K}.
  Variable ORDER : nat.
  Add Field Ffex : (@Fth F K L).

  (* ------------------------------------------------------------------ *)
  (* Part A.1: the knot vector of the diffusion example                  *)
  (* ------------------------------------------------------------------ *)

  (* the window of a valid support with at least two points: first point,
     inner points, last point *)
  Lemma sup_points_shape (s : support F) : SInv s -> (2 <= sstop s - sstart s)%N ->
    exists mid_, sup_points s
                 = gnth (sgrid s) (sstart s) :: mid_ ++ [gnth (sgrid s) (sstop s - 1)].
  Proof.
    intros Hs H2. pose proof (length_sup_points s Hs) as Hlen. unfold nlen in Hlen.
    pose proof (nth_sup_points s 0 Hs ltac:(lia)) as H0.
    pose proof (nth_sup_points s (length (sup_points s) - 1) Hs ltac:(lia)) as Hl.
    replace (sstart s + N.of_nat 0)%N with (sstart s) in H0 by lia.
    replace (sstart s + N.of_nat (length (sup_points s) - 1))%N with (sstop s - 1)%N in Hl by lia.
    apply nth_error_last_split in Hl.
    destruct (sup_points s) as [|a r] eqn:E; [discriminate|].
    cbn [nth_error] in H0. injection H0 as ->.
    destruct r as [|c r']; [cbn [length] in Hlen; lia|].
    exists (removelast (c :: r')).
    change (removelast (gnth (sgrid s) (sstart s) :: c :: r'))
      with (gnth (sgrid s) (sstart s) :: removelast (c :: r')) in Hl.
    exact Hl.
  Qed.

  Lemma diff_knots_ok (s : support F) : SInv s -> (2 <= sstop s - sstart s)%N ->
    diff_knots ORDER s
    = Ok (repeat (gnth (sgrid s) (sstart s)) ORDER ++ sup_points s
          ++ repeat (gnth (sgrid s) (sstop s - 1)) ORDER).
  Proof.
    intros Hs H2. unfold diff_knots.
    rewrite sup_front_gnth, sup_back_gnth by exact Hs.
    destruct (sstart s =? sstop s)%N eqn:E; [lia|]. reflexivity.
  Qed.

  (* std::unique of the knot vector is the list of the points of the window *)
  Lemma diff_knots_unique (s : support F) : SInv s -> GInv (sgrid s) ->
    (2 <= sstop s - sstart s)%N ->
    unique (repeat (gnth (sgrid s) (sstart s)) ORDER ++ sup_points s
            ++ repeat (gnth (sgrid s) (sstop s - 1)) ORDER) = sup_points s.
  Proof.
    intros Hs (_ & _ & Hinc) H2.
    pose proof (increasing_sup_points s Hs Hinc) as Hp.
    destruct (sup_points_shape s Hs H2) as (mid_ & E). rewrite E in *.
    apply unique_clamped. exact Hp.
  Qed.

  Lemma diff_knots_nondecreasing (s : support F) : SInv s -> GInv (sgrid s) ->
    (2 <= sstop s - sstart s)%N ->
    nondecreasing (repeat (gnth (sgrid s) (sstart s)) ORDER ++ sup_points s
                   ++ repeat (gnth (sgrid s) (sstop s - 1)) ORDER).
  Proof.
    intros Hs Hg H2. apply unique_increasing_inv.
    rewrite diff_knots_unique by assumption.
    apply increasing_sup_points; [exact Hs | apply Hg].
  Qed.

  Lemma sup_points_whole (s : support F) :
    sstart s = 0%N -> sstop s = nlen (sgrid s) -> sup_points s = sgrid s.
  Proof.
    intros H0 H1. unfold sup_points. rewrite H0, H1. unfold nlen.
    rewrite Nat2N.id. cbn [N.to_nat skipn]. rewrite Nat.sub_0_r. apply firstn_all.
  Qed.

  (* the knot vector on the whole grid g *)
  Definition knots_of (g : list F) : list F :=
    repeat (gnth g 0) ORDER ++ g ++ repeat (gnth g (nlen g - 1)) ORDER.

  Lemma length_knots_of (g : list F) : length (knots_of g) = (length g + 2 * ORDER)%nat.
  Proof. unfold knots_of. rewrite !app_length, !repeat_length. lia. Qed.

  Lemma diff_basis_whole (s : support F) : SInv s -> GInv (sgrid s) ->
    sstart s = 0%N -> sstop s = nlen (sgrid s) ->
    unique (knots_of (sgrid s)) = sgrid s /\ nondecreasing (knots_of (sgrid s)) /\
    diff_basis ORDER s = generate (mkGen (unique (knots_of (sgrid s))) (knots_of (sgrid s))) ORDER.
  Proof.
    intros Hs Hg H0 H1. pose proof Hg as (Hg2 & _ & Hinc).
    assert (2 <= sstop s - sstart s)%N as H2 by lia.
    pose proof (diff_knots_unique s Hs Hg H2) as HU.
    pose proof (diff_knots_nondecreasing s Hs Hg H2) as HN.
    pose proof (diff_knots_ok s Hs H2) as HK.
    rewrite (sup_points_whole s H0 H1), H0, H1 in *. fold (knots_of (sgrid s)) in *.
    split; [exact HU|]. split; [exact HN|].
    unfold diff_basis. rewrite HK. cbn [bind]. unfold gen_ctor2. rewrite HU.
    destruct (proj2 (grid_ctor_iff (sgrid s)) (conj Hg2 Hinc)) as [g' Eg].
    rewrite Eg. cbn [bind]. apply grid_ctor_ok in Eg. subst g'.
    rewrite grid_eqb_refl. reflexivity.
  Qed.

  (* a strict sub-window with at least one interval: the generator's second
     constructor compares the grid of the knots with the WHOLE grid and
     refuses — a library exception, not undefined behaviour *)
  Theorem diff_basis_window_refused (s : support F) : SInv s -> GInv (sgrid s) ->
    nintervals s <> 0%N -> ~ (sstart s = 0%N /\ sstop s = nlen (sgrid s)) ->
    diff_basis ORDER s = Throw INCONSISTENT_DATA.
  Proof.
    intros Hs Hg Hn Hw. pose proof Hg as (Hg2 & _ & Hinc).
    assert (2 <= sstop s - sstart s)%N as H2.
    { unfold nintervals in Hn. destruct (sstop s - sstart s =? 0)%N eqn:E; lia. }
    pose proof (SInv_bounds s Hs) as B.
    unfold diff_basis. rewrite (diff_knots_ok s Hs H2). cbn [bind]. unfold gen_ctor2.
    rewrite (diff_knots_unique s Hs Hg H2).
    pose proof (length_sup_points s Hs) as Hlen.
    destruct (proj2 (grid_ctor_iff (sup_points s))) as [g' Eg].
    { split; [lia|]. apply increasing_sup_points; assumption. }
    rewrite Eg. cbn [bind]. apply grid_ctor_ok in Eg. subst g'.
    destruct (grid_eqb (sgrid s) (sup_points s)) eqn:E; [|reflexivity].
    apply grid_eqb_eq in E. rewrite <- E in Hlen. exfalso. lia.
  Qed.

  (* ------------------------------------------------------------------ *)
  (* Part A.2: the basis of the diffusion example                        *)
  (* ------------------------------------------------------------------ *)

  (* on the whole grid the generator succeeds; the i-th function is the
     Cox-de Boor B-spline of the clamped knot vector *)
  Lemma diff_basis_spec (s : support F) : SInv s -> GInv (sgrid s) ->
    sstart s = 0%N -> sstop s = nlen (sgrid s) ->
    exists basis, diff_basis ORDER s = Ok basis /\
      length basis = (length (sgrid s) + ORDER - 1)%nat /\
      forall i, (i < length basis)%nat ->
        exists b, nth_error basis i = Some b /\ spl_is (knots_of (sgrid s)) ORDER i b.
  Proof.
    intros Hs Hg H0 H1. destruct (diff_basis_whole s Hs Hg H0 H1) as (HU & HN & ->).
    pose proof Hg as (Hg2 & _). unfold nlen in Hg2.
    destruct (generate_spec_g (knots_of (sgrid s)) ORDER HN) as (l & El & Ll & Nl).
    - rewrite HU. exact Hg.
    - rewrite length_knots_of. lia.
    - exists l. split; [exact El|]. split; [rewrite Ll, length_knots_of; lia | exact Nl].
  Qed.

  Theorem diff_basis_count (d : spline F) :
    SplInv d -> nintervals (ssup d) <> 0%N -> (1 <= ORDER)%nat ->
    sstart (ssup d) = 0%N /\ sstop (ssup d) = nlen (sgridp d) ->
    exists basis, diff_basis ORDER (ssup d) = Ok basis /\
      length basis = (N.to_nat (sstop (ssup d) - sstart (ssup d)) + ORDER - 1)%nat /\
      Forall SplInv basis /\
      Forall (fun s => sgridp s = sgridp d /\ sord s = ORDER) basis.
  Proof.
    intros (Hs & Hg & _) _ _ [H0 H1]. unfold sgridp in *.
    destruct (diff_basis_spec (ssup d) Hs Hg H0 H1) as (basis & E & Lb & Nb).
    destruct (diff_basis_whole (ssup d) Hs Hg H0 H1) as (HU & _ & _).
    exists basis. split; [exact E|]. split; [rewrite Lb, H0, H1; unfold nlen; lia|].
    split; apply Forall_forall; intros b Hb; apply In_nth_error in Hb as [i Hi];
      (assert (i < length basis)%nat as Hil by (apply nth_error_Some; congruence));
      destruct (Nb i Hil) as (b' & Eb' & (I' & G' & O' & _));
      rewrite Hi in Eb'; injection Eb' as <-; [exact I'|].
    split; [unfold sgridp in *; rewrite G', HU; reflexivity | exact O'].
  Qed.

  (* ------------------------------------------------------------------ *)
  (* Part A.3: setUpSymmetricMatrix                                       *)
  (* ------------------------------------------------------------------ *)

  Lemma at_In {A} (l : list A) i a : at_ l i = Ok a -> In a l.
  Proof.
    unfold at_. destruct (nth_error l i) as [x|] eqn:E; [|discriminate].
    intros [= <-]. eapply nth_error_In. exact E.
  Qed.

  Lemma sym_matrix_shape (form : spline F -> spline F -> outcome F) basis m :
    sym_matrix form basis = Ok m ->
    length m = length basis /\ Forall (fun row => length row = length basis) m.
  Proof.
    intros H. unfold sym_matrix in H. pose proof (omapM_ok_inv _ _ _ H) as [Hl Hn].
    rewrite seq_length in Hl. split; [exact Hl|].
    apply Forall_forall. intros row Hr. apply In_nth_error in Hr as [i Hi].
    assert (i < length basis)%nat as Hil by (rewrite <- Hl; apply nth_error_Some; congruence).
    destruct (Hn i i (nth_error_seq 0 _ i Hil)) as (row' & Er & Hr').
    rewrite Hi in Hr'. injection Hr' as <-.
    apply omapM_length in Er. rewrite seq_length in Er. exact Er.
  Qed.

  Lemma sym_matrix_ok (form : spline F -> spline F -> outcome F) basis :
    (forall a b, In a basis -> In b basis -> exists v, form a b = Ok v) ->
    exists m, sym_matrix form basis = Ok m.
  Proof.
    intros H. unfold sym_matrix.
    destruct (omapM_seq_exists
                (fun i => omapM (fun j =>
                   do bi <- at_ basis (Nat.min i j); do bj <- at_ basis (Nat.max i j); form bi bj)
                   (seq 0 (length basis)))
                (fun _ _ => True) (length basis)) as (m & Em & _).
    - intros i Hi.
      destruct (omapM_seq_exists
                  (fun j => do bi <- at_ basis (Nat.min i j); do bj <- at_ basis (Nat.max i j);
                            form bi bj)
                  (fun _ _ => True) (length basis)) as (row & Er & _).
      + intros j Hj.
        assert (Nat.min i j < length basis)%nat as Hlo by (destruct (Nat.min_spec i j); lia).
        assert (Nat.max i j < length basis)%nat as Hhi by (destruct (Nat.max_spec i j); lia).
        destruct (nth_error basis (Nat.min i j)) as [bi|] eqn:Ei;
          [|apply nth_error_None in Ei; lia].
        destruct (nth_error basis (Nat.max i j)) as [bj|] eqn:Ej;
          [|apply nth_error_None in Ej; lia].
        rewrite (at_nth_error _ _ _ Ei), (at_nth_error _ _ _ Ej). cbn [bind].
        destruct (H bi bj (nth_error_In _ _ Ei) (nth_error_In _ _ Ej)) as [v Ev].
        exists v. split; [exact Ev | exact I].
      + exists row. split; [exact Er | exact I].
    - exists m. exact Em.
  Qed.

  Lemma sym_matrix_entry (form : spline F -> spline F -> outcome F) basis m i j d :
    sym_matrix form basis = Ok m -> (i < length basis)%nat -> (j < length basis)%nat ->
    form (nth (Nat.min i j) basis d) (nth (Nat.max i j) basis d) = Ok (nth j (nth i m []) f0).
  Proof.
    intros H Hi Hj. unfold sym_matrix in H. pose proof (omapM_ok_inv _ _ _ H) as [_ Hn].
    destruct (Hn i i (nth_error_seq 0 _ i Hi)) as (row & Er & Hr).
    pose proof (omapM_ok_inv _ _ _ Er) as [_ Hn'].
    destruct (Hn' j j (nth_error_seq 0 _ j Hj)) as (v & Ev & Hv).
    rewrite (nth_error_nth _ _ _ Hr), (nth_error_nth _ _ _ Hv).
    assert (Nat.min i j < length basis)%nat as Hlo by (destruct (Nat.min_spec i j); lia).
    assert (Nat.max i j < length basis)%nat as Hhi by (destruct (Nat.max_spec i j); lia).
    cbn [Nat.add] in Ev.
    rewrite (at_ok_nth basis _ d Hlo), (at_ok_nth basis _ d Hhi) in Ev. exact Ev.
  Qed.

  (* two forms related entry by entry give related matrices *)
  Lemma sym_matrix_rel (f g : spline F -> spline F -> outcome F) (h : F -> F) basis m :
    (forall a b v, In a basis -> In b basis -> f a b = Ok v -> g a b = Ok (h v)) ->
    sym_matrix f basis = Ok m -> sym_matrix g basis = Ok (map (map h) m).
  Proof.
    intros H E. unfold sym_matrix in *.
    eapply omapM_rel_local; [|exact E]. intros i row _ Er. cbv beta in *.
    eapply omapM_rel_local; [|exact Er]. intros j v _ Ev. cbv beta in *.
    apply bind_ok_inv in Ev as (bi & Ebi & Ev). apply bind_ok_inv in Ev as (bj & Ebj & Ev).
    rewrite Ebi, Ebj. cbn [bind]. apply (H bi bj v (at_In _ _ _ Ebi) (at_In _ _ _ Ebj) Ev).
  Qed.

  (* ------------------------------------------------------------------ *)
  (* Part A.4: the linear system of the diffusion example                 *)
  (* ------------------------------------------------------------------ *)

  (* the operators of the bilinear form, as surface expressions *)
  Definition diff_e1 : expr F := EDer 1.
  Definition diff_e2 (d : spline F) : expr F :=
    ESMulL (ScF (fm1 / f2)%F) (EMul (ESpl d) (EDer 1)).

  Lemma diff_o1_elab : @diff_o1 F = elab diff_e1.
  Proof. reflexivity. Qed.
  Lemma diff_o2_elab (d : spline F) : diff_o2 d = elab (diff_e2 d).
  Proof. reflexivity. Qed.

  Lemma diff_e2_ok (d : spline F) g : SplInv d -> sgridp d = g ->
    factors_ok (diff_e2 d) g /\ scalars_ok (diff_e2 d).
  Proof. intros Hd Hg. cbn [diff_e2 factors_ok scalars_ok scalar_wf]. tauto. Qed.

  (* the entries are total: BilinearForm::evaluate never fails on the basis *)
  Lemma diff_form_total (d a b : spline F) : SplInv d -> SplInv a -> SplInv b ->
    sgridp a = sgridp d -> sgridp b = sgridp d ->
    exists v, bilinear diff_o1 (diff_o2 d) a b = Ok v.
  Proof.
    intros Hd Ha Hb Ga Gb. rewrite diff_o1_elab, diff_o2_elab.
    destruct (diff_e2_ok d (sgridp a) Hd (eq_sym Ga)) as [Hf Hs].
    apply bilinear_total; try assumption; try exact I. congruence.
  Qed.

  Definition spl0 : spline F := mkSpl (mkSup [] 0 0) 0 [].

  Lemma vback_nth {A} (l : list A) d : l <> [] -> vback l = Ok (nth (length l - 1) l d).
  Proof.
    intros Hne. destruct (exists_last Hne) as (l' & a & ->). unfold vback.
    rewrite rev_app_distr. cbn [rev app]. rewrite app_length. cbn [length].
    rewrite app_nth2 by lia. replace (length l' + 1 - 1 - length l')%nat with 0%nat by lia.
    reflexivity.
  Qed.

  Definition diff_rhs_body (d first last : spline F) (bi : spline F) : outcome F :=
    do x <- bilinear diff_o1 (diff_o2 d) bi first;
    do y <- bilinear diff_o1 (diff_o2 d) bi last;
    Ok (- (x + y))%F.

  (* unfolding of the container manipulations for a basis with >= 2 elements *)
  Lemma diffusion_system_unfold (d : spline F) a b basis :
    diff_basis ORDER (ssup d) = Ok basis -> (2 <= length basis)%nat ->
    diffusion_system ORDER d a b =
    let first := spl_scale (nth 0 basis spl0) a in
    let last := spl_scale (nth (length basis - 1) basis spl0) b in
    let inner := removelast (tl basis) in
    do rhs <- omapM (diff_rhs_body d first last) inner;
    do mat <- sym_matrix (bilinear diff_o1 (diff_o2 d)) inner;
    Ok (mkDiffSys first last inner mat rhs).
  Proof.
    intros E H2. unfold diffusion_system. rewrite E. cbn [bind].
    destruct basis as [|b0 rest]; [cbn [length] in H2; lia|].
    destruct rest as [|b1 rest]; [cbn [length] in H2; lia|].
    rewrite (vback_nth (b0 :: b1 :: rest) spl0) by discriminate.
    cbn [vfront verase_begin bind vpop_back tl nth]. reflexivity.
  Qed.

  Lemma diffusion_system_spec (d : spline F) a b basis :
    SplInv d -> diff_basis ORDER (ssup d) = Ok basis -> (2 <= length basis)%nat ->
    Forall SplInv basis -> Forall (fun s => sgridp s = sgridp d /\ sord s = ORDER) basis ->
    exists mat rhs,
      diffusion_system ORDER d a b
      = Ok (mkDiffSys (spl_scale (nth 0 basis spl0) a)
                      (spl_scale (nth (length basis - 1) basis spl0) b)
                      (removelast (tl basis)) mat rhs) /\
      omapM (diff_rhs_body d (spl_scale (nth 0 basis spl0) a)
                           (spl_scale (nth (length basis - 1) basis spl0) b))
            (removelast (tl basis)) = Ok rhs /\
      sym_matrix (bilinear diff_o1 (diff_o2 d)) (removelast (tl basis)) = Ok mat.
  Proof.
    intros Hd E H2 Hinv Hsame. rewrite (diffusion_system_unfold d a b basis E H2). cbv zeta.
    rewrite Forall_forall in Hinv, Hsame.
    assert (Hin : forall s, In s (removelast (tl basis)) -> In s basis).
    { intros s Hs. apply In_inner_local in Hs as (i & _ & _ & Hi). eapply nth_error_In. exact Hi. }
    assert (H0 : In (nth 0 basis spl0) basis) by (apply nth_In; lia).
    assert (Hl : In (nth (length basis - 1) basis spl0) basis) by (apply nth_In; lia).
    set (first := spl_scale (nth 0 basis spl0) a).
    set (last := spl_scale (nth (length basis - 1) basis spl0) b).
    assert (If : SplInv first) by (apply spl_scale_inv, Hinv, H0).
    assert (Il : SplInv last) by (apply spl_scale_inv, Hinv, Hl).
    assert (Gf : sgridp first = sgridp d) by (apply (Hsame _ H0)).
    assert (Gl : sgridp last = sgridp d) by (apply (Hsame _ Hl)).
    destruct (omapM_exists (diff_rhs_body d first last) (fun _ _ => True) (removelast (tl basis)))
      as (rhs & Er & _).
    { intros bi Hbi. apply Hin in Hbi. unfold diff_rhs_body.
      destruct (diff_form_total d bi first Hd (Hinv _ Hbi) If (proj1 (Hsame _ Hbi)) Gf) as [x ->].
      destruct (diff_form_total d bi last Hd (Hinv _ Hbi) Il (proj1 (Hsame _ Hbi)) Gl) as [y ->].
      cbn [bind]. eexists. split; [reflexivity | exact I]. }
    destruct (sym_matrix_ok (bilinear diff_o1 (diff_o2 d)) (removelast (tl basis))) as [mat Em].
    { intros x y Hx Hy. apply Hin in Hx. apply Hin in Hy.
      apply diff_form_total; try assumption; [apply Hinv, Hx | apply Hinv, Hy | apply Hsame, Hx
                                              | apply Hsame, Hy]. }
    exists mat, rhs. rewrite Er, Em. cbn [bind]. auto.
  Qed.

  Theorem diffusion_system_ok (d : spline F) a b :
    SplInv d -> nintervals (ssup d) <> 0%N -> (1 <= ORDER)%nat ->
    sstart (ssup d) = 0%N /\ sstop (ssup d) = nlen (sgridp d) ->
    exists basis sys,
      diff_basis ORDER (ssup d) = Ok basis /\
      diffusion_system ORDER d a b = Ok sys /\
      length (ds_inner sys) = (length basis - 2)%nat /\
      length (ds_inner sys) = (N.to_nat (sstop (ssup d) - sstart (ssup d)) + ORDER - 3)%nat /\
      length (ds_mat sys) = length (ds_inner sys) /\
      Forall (fun row => length row = length (ds_inner sys)) (ds_mat sys) /\
      length (ds_rhs sys) = length (ds_inner sys) /\
      SplInv (ds_first sys) /\ SplInv (ds_last sys) /\ Forall SplInv (ds_inner sys) /\
      Forall (fun s => sgridp s = sgridp d /\ sord s = ORDER)
             (ds_first sys :: ds_last sys :: ds_inner sys).
  Proof.
    intros Hd Hn HO Hw.
    destruct (diff_basis_count d Hd Hn HO Hw) as (basis & E & Lb & Hinv & Hsame).
    assert (2 <= length basis)%nat as H2.
    { destruct Hd as (Hs & (Hg2 & _) & _). destruct Hw as [H0 H1]. unfold sgridp, nlen in *. lia. }
    destruct (diffusion_system_spec d a b basis Hd E H2 Hinv Hsame) as (mat & rhs & Es & Er & Em).
    exists basis. eexists. split; [exact E|]. split; [exact Es|]. cbn [ds_inner ds_mat ds_rhs ds_first ds_last].
    rewrite Forall_forall in Hinv, Hsame.
    assert (Hin : forall s, In s (removelast (tl basis)) -> In s basis).
    { intros s Hs. apply In_inner_local in Hs as (i & _ & _ & Hi). eapply nth_error_In. exact Hi. }
    assert (H0 : In (nth 0 basis spl0) basis) by (apply nth_In; lia).
    assert (Hl : In (nth (length basis - 1) basis spl0) basis) by (apply nth_In; lia).
    destruct (sym_matrix_shape _ _ _ Em) as [Lm Rm].
    split; [apply length_inner_local|]. split; [rewrite length_inner_local; lia|].
    split; [exact Lm|]. split; [exact Rm|]. split; [apply (omapM_length _ _ _ Er)|].
    split; [apply spl_scale_inv, Hinv, H0|]. split; [apply spl_scale_inv, Hinv, Hl|].
    split; [apply Forall_forall; intros s Hs; apply Hinv, Hin, Hs|].
    constructor; [apply (Hsame _ H0)|]. constructor; [apply (Hsame _ Hl)|].
    apply Forall_forall. intros s Hs. apply Hsame, Hin, Hs.
  Qed.

  (* ------------------------------------------------------------------ *)
  (* Part A.5: solveDiffusionSteadyState                                  *)
  (* ------------------------------------------------------------------ *)

  Lemma spl_add_full (a b : spline F) : SplInv a -> SplInv b -> sgridp a = sgridp b ->
    exists r, spl_add a b = Ok r /\ SplInv r /\ sgridp r = sgridp a /\
              sord r = Nat.max (sord a) (sord b) /\
              (forall k, imem k (ssup a) \/ imem k (ssup b) -> imem k (ssup r)) /\
              forall k x, den r k x = (den a k x + den b k x)%F.
  Proof.
    intros Ha Hb Hg. pose proof Ha as (Sa & _). pose proof Hb as (Sb & _).
    destruct (spl_add_spec a b Ha Hb Hg) as (u & r & Eu & Er & Ir & Sr & Or & Dr).
    unfold sgridp in Hg.
    destruct (calc_union_spec _ _ Sa Sb Hg) as (u' & Eu' & _ & Gu & Mu).
    rewrite Eu in Eu'. injection Eu' as <-.
    exists r. split; [exact Er|]. split; [exact Ir|].
    split; [unfold sgridp; rewrite Sr; exact Gu|]. split; [exact Or|]. split; [|exact Dr].
    intros k Hk. rewrite Sr. apply imem_mem. rewrite !Mu. unfold hull_mem.
    rewrite !imem_mem in Hk. tauto.
  Qed.

  Section DiffusionSolver.
  Variable solve : list (list F) -> list F -> list F.

  Lemma diffusion_spec (d : spline F) a b basis :
    SplInv d -> diff_basis ORDER (ssup d) = Ok basis -> (3 <= length basis)%nat ->
    Forall SplInv basis -> Forall (fun s => sgridp s = sgridp d /\ sord s = ORDER) basis ->
    (forall m r, length (solve m r) = length r) ->
    exists sys r,
      diffusion_system ORDER d a b = Ok sys /\ diffusion ORDER solve d a b = Ok r /\
      SplInv r /\ sgridp r = sgridp d /\ sord r = ORDER /\
      (forall k, imem k (ssup (nth 0 basis spl0)) \/
                 imem k (ssup (nth (length basis - 1) basis spl0)) -> imem k (ssup r)) /\
      forall k x, den r k x =
        (lincomb_val (solve (ds_mat sys) (ds_rhs sys))
                     (map (fun s => den s k x) (removelast (tl basis)))
         + den (nth 0 basis spl0) k x * a
         + den (nth (length basis - 1) basis spl0) k x * b)%F.
  Proof.
    intros Hd E H3 Hinv Hsame Hsolve.
    destruct (diffusion_system_spec d a b basis Hd E ltac:(lia) Hinv Hsame)
      as (mat & rhs & Es & Er & Em).
    exists (mkDiffSys (spl_scale (nth 0 basis spl0) a)
                      (spl_scale (nth (length basis - 1) basis spl0) b)
                      (removelast (tl basis)) mat rhs).
    unfold diffusion. rewrite Es. cbn [bind ds_mat ds_rhs ds_inner ds_first ds_last].
    rewrite Forall_forall in Hinv, Hsame.
    assert (Hin : forall s, In s (removelast (tl basis)) -> In s basis).
    { intros s Hs. apply In_inner_local in Hs as (i & _ & _ & Hi). eapply nth_error_In. exact Hi. }
    assert (H0 : In (nth 0 basis spl0) basis) by (apply nth_In; lia).
    assert (Hl : In (nth (length basis - 1) basis spl0) basis) by (apply nth_In; lia).
    set (first0 := nth 0 basis spl0) in *. set (last0 := nth (length basis - 1) basis spl0) in *.
    set (inner := removelast (tl basis)) in *.
    assert (Li : length inner = (length basis - 2)%nat) by apply length_inner_local.
    destruct inner as [|s0 rest] eqn:Einner; [cbn [length] in Li; lia|].
    assert (Hs0 : In s0 basis) by (apply Hin; left; reflexivity).
    destruct (lin_comb_spec_strong (solve mat rhs) s0 rest) as (lc & Elc & Ilc & Olc & Glc & _ & Dlc).
    { rewrite Hsolve. apply (omapM_length _ _ _ Er). }
    { apply Forall_forall. intros s Hs. apply Hinv, Hin, Hs. }
    { intros s Hs. apply Hin in Hs. destruct (Hsame _ Hs) as [G1 O1].
      destruct (Hsame _ Hs0) as [G2 O2]. split; congruence. }
    rewrite Elc. cbn [bind].
    destruct (Hsame _ Hs0) as [G0 O0]. destruct (Hsame _ H0) as [Gf Of]. destruct (Hsame _ Hl) as [Gl Ol].
    destruct (spl_add_full lc (spl_scale first0 a)) as (t & Et & It & Gt & Ot & Mt & Dt).
    { exact Ilc. } { apply spl_scale_inv, Hinv, H0. }
    { change (sgridp (spl_scale first0 a)) with (sgridp first0). congruence. }
    rewrite Et.
    destruct (spl_add_full t (spl_scale last0 b)) as (r & Er' & Ir & Gr & Or & Mr & Dr).
    { exact It. } { apply spl_scale_inv, Hinv, Hl. }
    { change (sgridp (spl_scale last0 b)) with (sgridp last0). congruence. }
    exists r. split; [reflexivity|]. split; [exact Er'|]. split; [exact Ir|].
    split; [congruence|]. split.
    { rewrite Or, Ot, Olc. cbn [spl_scale sord]. lia. }
    split.
    { intros k [Hk|Hk]; apply Mr; [left; apply Mt; right; exact Hk | right; exact Hk]. }
    intros k x. rewrite Dr, Dt, Dlc, !spl_scale_den. reflexivity.
  Qed.

  Theorem diffusion_no_ub (d : spline F) a b :
    SplInv d -> nintervals (ssup d) <> 0%N -> (1 <= ORDER)%nat ->
    sstart (ssup d) = 0%N /\ sstop (ssup d) = nlen (sgridp d) ->
    (forall m r, length (solve m r) = length r) ->
    (N.to_nat (sstop (ssup d) - sstart (ssup d)) + ORDER >= 4)%nat ->
    exists r, diffusion ORDER solve d a b = Ok r /\ SplInv r /\
              sgridp r = sgridp d /\ sord r = ORDER.
  Proof.
    intros Hd Hn HO Hw Hsolve H4.
    destruct (diff_basis_count d Hd Hn HO Hw) as (basis & E & Lb & Hinv & Hsame).
    destruct (diffusion_spec d a b basis Hd E ltac:(lia) Hinv Hsame Hsolve)
      as (sys & r & _ & Er & Ir & Gr & Or & _).
    exists r. auto.
  Qed.

  (* with fewer than three basis functions (one interval, ORDER = 1) nothing
     is left after front and back have been removed: linearCombination of an
     empty set is refused with MISSING_DATA — a library exception *)
  Theorem diffusion_too_small (d : spline F) a b :
    SplInv d -> nintervals (ssup d) <> 0%N -> (1 <= ORDER)%nat ->
    sstart (ssup d) = 0%N /\ sstop (ssup d) = nlen (sgridp d) ->
    (forall m r, length (solve m r) = length r) ->
    (N.to_nat (sstop (ssup d) - sstart (ssup d)) + ORDER < 4)%nat ->
    diffusion ORDER solve d a b = Throw MISSING_DATA.
  Proof.
    intros Hd Hn HO Hw Hsolve H4.
    destruct (diff_basis_count d Hd Hn HO Hw) as (basis & E & Lb & Hinv & Hsame).
    assert (length basis = 2)%nat as L2.
    { destruct Hd as (Hs & (Hg2 & _) & _). destruct Hw as [H0 H1]. unfold sgridp, nlen in *. lia. }
    destruct (diffusion_system_spec d a b basis Hd E ltac:(lia) Hinv Hsame)
      as (mat & rhs & Es & Er & Em).
    unfold diffusion. rewrite Es. cbn [bind ds_mat ds_rhs ds_inner ds_first ds_last].
    pose proof (length_inner_local basis) as Li. rewrite L2 in Li.
    destruct (removelast (tl basis)) as [|s0 rest]; [|discriminate].
    cbn in Er. injection Er as <-.
    pose proof (Hsolve mat []) as Hl. destruct (solve mat []) as [|c cs]; [|discriminate].
    reflexivity.
  Qed.

  End DiffusionSolver.

  (* ------------------------------------------------------------------ *)
  (* Part A.6: the spline-potential example                               *)
  (* ------------------------------------------------------------------ *)

  Definition ham_e (v : spline F) : expr F :=
    EAdd (ESMulL (ScF (fm1 / f2)%F) (EDer 2)) (ESpl v).

  Lemma hamilton_op_elab (v : spline F) : hamilton_op v = elab (ham_e v).
  Proof. reflexivity. Qed.

  Lemma ham_e_ok (v : spline F) g : SplInv v -> sgridp v = g ->
    factors_ok (ham_e v) g /\ scalars_ok (ham_e v).
  Proof. intros Hv Hg. cbn [ham_e factors_ok scalars_ok scalar_wf]. tauto. Qed.

  Lemma pot_basis_eq (g : list F) : GInv g ->
    unique g = g /\ nondecreasing g /\
    pot_basis ORDER g = generate (mkGen (unique g) g) ORDER.
  Proof.
    intros (Hg2 & Hg63 & Hinc). pose proof (unique_increasing_id g Hinc) as HU.
    split; [exact HU|]. split; [apply unique_increasing_inv; rewrite HU; exact Hinc|].
    unfold pot_basis, gen_ctor2. rewrite HU.
    destruct (proj2 (grid_ctor_iff g) (conj Hg2 Hinc)) as [g' Eg].
    rewrite Eg. cbn [bind]. apply grid_ctor_ok in Eg. subst g'.
    rewrite grid_eqb_refl. reflexivity.
  Qed.

  Lemma pot_basis_spec (g : list F) : GInv g -> (ORDER + 1 <= length g)%nat ->
    exists basis, pot_basis ORDER g = Ok basis /\
      length basis = (length g - ORDER - 1)%nat /\
      forall i, (i < length basis)%nat ->
        exists b, nth_error basis i = Some b /\ spl_is g ORDER i b.
  Proof.
    intros Hg Hp. destruct (pot_basis_eq g Hg) as (HU & HN & ->).
    apply generate_spec_g; [exact HN | rewrite HU; exact Hg | exact Hp].
  Qed.

  (* fewer grid points than ORDER+1 knots: refused by the generator *)
  Lemma pot_basis_few (g : list F) : GInv g -> (length g < ORDER + 1)%nat ->
    pot_basis ORDER g = Throw UNDETERMINED.
  Proof.
    intros Hg Hp. destruct (pot_basis_eq g Hg) as (_ & _ & ->).
    apply generate_too_few_g. exact Hp.
  Qed.

  Lemma pot_basis_inv (g : list F) basis : GInv g -> pot_basis ORDER g = Ok basis ->
    length basis = (length g - ORDER - 1)%nat /\ (ORDER + 1 <= length g)%nat /\
    Forall SplInv basis /\ Forall (fun s => sgridp s = g /\ sord s = ORDER) basis.
  Proof.
    intros Hg E.
    destruct (Nat.le_gt_cases (ORDER + 1) (length g)) as [Hp|Hp];
      [|rewrite pot_basis_few in E by (try exact Hg; lia); discriminate].
    destruct (pot_basis_spec g Hg Hp) as (basis' & E' & Lb & Nb).
    rewrite E in E'. injection E' as <-.
    destruct (pot_basis_eq g Hg) as (HU & _ & _).
    split; [exact Lb|]. split; [exact Hp|].
    split; apply Forall_forall; intros b Hb; apply In_nth_error in Hb as [i Hi];
      (assert (i < length basis)%nat as Hil by (apply nth_error_Some; congruence));
      destruct (Nb i Hil) as (b' & Eb' & (I' & G' & O' & _));
      rewrite Hi in Eb'; injection Eb' as <-; [exact I'|].
    split; [rewrite G', HU; reflexivity | exact O'].
  Qed.

  Lemma ham_form_total (v a b : spline F) : SplInv v -> SplInv a -> SplInv b ->
    sgridp a = sgridp v -> sgridp b = sgridp v ->
    exists x, bilinear OId (hamilton_op v) a b = Ok x.
  Proof.
    intros Hv Ha Hb Ga Gb. rewrite hamilton_op_elab. change (@OId F) with (elab (@EId F)).
    destruct (ham_e_ok v (sgridp a) Hv (eq_sym Ga)) as [Hf Hs].
    apply bilinear_total; try assumption; try exact I. congruence.
  Qed.

  Lemma overlap_form_total (a b : spline F) : SplInv a -> SplInv b -> sgridp a = sgridp b ->
    exists x, bilinear OId OId a b = Ok x.
  Proof.
    intros Ha Hb Hg. change (@OId F) with (elab (@EId F)).
    apply bilinear_total; try assumption; exact I.
  Qed.

  Lemma pot_matrices_ok (v : spline F) basis : SplInv v ->
    pot_basis ORDER (sgridp v) = Ok basis ->
    exists h s, pot_matrices ORDER v = Ok (basis, h, s) /\
                sym_matrix (bilinear OId (hamilton_op v)) basis = Ok h /\
                sym_matrix (bilinear OId OId) basis = Ok s.
  Proof.
    intros Hv E. pose proof Hv as (_ & Hg & _).
    destruct (pot_basis_inv _ _ Hg E) as (_ & _ & Hinv & Hsame).
    rewrite Forall_forall in Hinv, Hsame.
    destruct (sym_matrix_ok (bilinear OId (hamilton_op v)) basis) as [h Eh].
    { intros a b Ha Hb. apply ham_form_total; try assumption;
        [apply Hinv, Ha | apply Hinv, Hb | apply Hsame, Ha | apply Hsame, Hb]. }
    destruct (sym_matrix_ok (bilinear OId OId) basis) as [s Es].
    { intros a b Ha Hb. apply overlap_form_total; [apply Hinv, Ha | apply Hinv, Hb|].
      destruct (Hsame _ Ha), (Hsame _ Hb). congruence. }
    exists h, s. unfold pot_matrices. fold (sgridp v). rewrite E. cbn [bind]. rewrite Eh, Es.
    cbn [bind]. auto.
  Qed.

  Lemma pot_matrices_few (v : spline F) : SplInv v -> (length (sgridp v) < ORDER + 1)%nat ->
    pot_matrices ORDER v = Throw UNDETERMINED.
  Proof.
    intros (_ & Hg & _) Hp. unfold pot_matrices. fold (sgridp v).
    rewrite pot_basis_few by assumption. reflexivity.
  Qed.

  Section EigenSolver.
  Variable eigs : list (list F) -> list (list F) -> list (F * list F).

  Definition eigs_sized : Prop :=
    forall h s, length (eigs h s) = length h /\
                Forall (fun e => length (snd e) = length h) (eigs h s).

  (* the loop over the eigenpairs, for any bound not exceeding the number of
     basis functions *)
  Lemma eigen_loop_ok basis (es : list (F * list F)) g n :
    Forall SplInv basis -> Forall (fun s => sgridp s = g /\ sord s = ORDER) basis ->
    length es = length basis -> Forall (fun e => length (snd e) = length basis) es ->
    (n <= length basis)%nat ->
    exists l, omapM (fun i => do e <- sub es i; do wf <- lin_comb (snd e) basis; Ok (fst e, wf))
                    (seq 0 n) = Ok l /\ length l = n /\
              Forall (fun p => SplInv (snd p) /\ sgridp (snd p) = g /\ sord (snd p) = ORDER) l.
  Proof.
    intros Hinv Hsame Les Hes Hn.
    destruct (omapM_seq_exists
                (fun i => do e <- sub es i; do wf <- lin_comb (snd e) basis; Ok (fst e, wf))
                (fun _ p => SplInv (snd p) /\ sgridp (snd p) = g /\ sord (snd p) = ORDER) n)
      as (l & El & Ll & Nl).
    - intros i Hi.
      destruct (nth_error es i) as [e|] eqn:Ee; [|apply nth_error_None in Ee; lia].
      rewrite (sub_nth_error _ _ _ Ee). cbn [bind].
      rewrite Forall_forall in Hes. pose proof (Hes e (nth_error_In _ _ Ee)) as Le.
      destruct basis as [|s0 rest]; [cbn [length] in Hn; lia|].
      rewrite Forall_forall in Hsame.
      destruct (Hsame s0 (or_introl eq_refl)) as [G0 O0].
      destruct (lin_comb_spec_strong (snd e) s0 rest Le Hinv) as (wf & Ewf & Iwf & Owf & Gwf & _).
      { intros s Hs. destruct (Hsame s Hs). split; congruence. }
      rewrite Ewf. cbn [bind]. eexists. split; [reflexivity|]. cbn [snd].
      split; [exact Iwf|]. split; congruence.
    - exists l. split; [exact El|]. split; [exact Ll|].
      apply Forall_forall. intros p Hp. apply In_nth_error in Hp as [i Hi].
      assert (i < n)%nat as Hin by (rewrite <- Ll; apply nth_error_Some; congruence).
      destruct (Nl i Hin) as (p' & Ep' & Pp'). rewrite Hi in Ep'. injection Ep' as <-. exact Pp'.
  Qed.

  Theorem potential_count (v : spline F) :
    SplInv v -> eigs_sized -> (N.of_nat ORDER + 1 <= nlen (sgridp v))%N ->
    exists l, potential_solve ORDER eigs v = Ok l /\
              length l = Nat.min 10 (N.to_nat (nlen (sgridp v)) - ORDER - 1) /\
              Forall (fun p => SplInv (snd p) /\ sgridp (snd p) = sgridp v /\ sord (snd p) = ORDER) l.
  Proof.
    intros Hv Heigs Hp. pose proof Hv as (_ & Hg & _). fold (sgridp v) in Hg.
    unfold nlen in Hp.
    destruct (pot_basis_spec (sgridp v) Hg ltac:(lia)) as (basis & E & Lb & _).
    destruct (pot_basis_inv _ _ Hg E) as (_ & _ & Hinv & Hsame).
    destruct (pot_matrices_ok v basis Hv E) as (h & s & Em & Eh & Es).
    unfold potential_solve. rewrite Em. cbn [bind].
    destruct (sym_matrix_shape _ _ _ Eh) as [Lh _].
    destruct (Heigs h s) as [Le Fe]. rewrite Lh in Le, Fe.
    destruct (eigen_loop_ok basis (eigs h s) (sgridp v) (Nat.min 10 (length basis))
                Hinv Hsame Le Fe (Nat.le_min_r _ _)) as (l & El & Ll & Fl).
    exists l. split; [exact El|]. split; [|exact Fl].
    rewrite Ll, Lb. unfold nlen. rewrite Nat2N.id. reflexivity.
  Qed.

  Theorem potential_few (v : spline F) :
    SplInv v -> (nlen (sgridp v) < N.of_nat ORDER + 1)%N ->
    potential_solve ORDER eigs v = Throw UNDETERMINED.
  Proof.
    intros Hv Hp. unfold potential_solve. rewrite pot_matrices_few; [reflexivity | exact Hv|].
    unfold nlen in Hp. lia.
  Qed.

  Theorem potential_no_ub (v : spline F) :
    SplInv v -> eigs_sized ->
    match potential_solve ORDER eigs v with
    | UB _ => False
    | Throw BadOptionalAccess | Throw StdOutOfRange => False
    | _ => True
    end.
  Proof.
    intros Hv Heigs.
    destruct (N.le_gt_cases (N.of_nat ORDER + 1) (nlen (sgridp v))) as [Hp|Hp].
    - destruct (potential_count v Hv Heigs Hp) as (l & -> & _). exact I.
    - rewrite (potential_few v Hv Hp). exact I.
  Qed.

  (* ---- the defect the fix D6 removed: the ORIGINAL loop ran to 10 ---- *)
  Definition potential_solve_old (v : spline F) : outcome (list (F * spline F)) :=
    do bhs <- pot_matrices ORDER v;
    let '(basis, h, s) := bhs in
    let es := eigs h s in
    omapM (fun i =>
      do e <- sub es i;
      do wf <- lin_comb (snd e) basis;
      Ok (fst e, wf)) (seq 0 10).

  Theorem old_loop_reads_out_of_range (v : spline F) :
    SplInv v -> eigs_sized -> (N.of_nat ORDER + 1 <= nlen (sgridp v))%N ->
    (N.to_nat (nlen (sgridp v)) - ORDER - 1 < 10)%nat ->
    potential_solve_old v = UB OOBRead.
  Proof.
    intros Hv Heigs Hp H10. pose proof Hv as (_ & Hg & _). fold (sgridp v) in Hg.
    unfold nlen in Hp, H10. rewrite Nat2N.id in H10.
    destruct (pot_basis_spec (sgridp v) Hg ltac:(lia)) as (basis & E & Lb & _).
    destruct (pot_basis_inv _ _ Hg E) as (_ & _ & Hinv & Hsame).
    destruct (pot_matrices_ok v basis Hv E) as (h & s & Em & Eh & Es).
    unfold potential_solve_old. rewrite Em. cbn [bind].
    destruct (sym_matrix_shape _ _ _ Eh) as [Lh _].
    destruct (Heigs h s) as [Le Fe]. rewrite Lh in Le, Fe.
    replace 10%nat with (length basis + S (10 - length basis - 1))%nat at 1 by lia.
    rewrite seq_app. cbn [seq Nat.add].
    apply omapM_ub_first.
    - intros i Hi. apply in_seq in Hi.
      destruct (eigen_loop_ok basis (eigs h s) (sgridp v) (length basis)
                  Hinv Hsame Le Fe (Nat.le_refl _)) as (l & El & _).
      pose proof (omapM_ok_inv _ _ _ El) as [_ Hn].
      destruct (Hn i i (nth_error_seq 0 (length basis) i ltac:(lia))) as (p & Ep & _). eauto.
    - rewrite sub_oob by lia. reflexivity.
  Qed.

  End EigenSolver.

  (* ================================================================== *)
  (* Part B.1: scaling the diffusion coefficient scales the system       *)
  (* ================================================================== *)

  Lemma diff_form_scale (d a b : spline F) lam v : SplInv d -> SplInv a -> SplInv b ->
    sgridp a = sgridp d -> sgridp b = sgridp d ->
    bilinear diff_o1 (diff_o2 d) a b = Ok v ->
    bilinear diff_o1 (diff_o2 (spl_scale d lam)) a b = Ok (v * lam)%F.
  Proof.
    intros Hd Ha Hb Ga Gb H. rewrite diff_o1_elab, diff_o2_elab in *.
    destruct (diff_e2_ok d (sgridp d) Hd eq_refl) as [Hf Hs].
    destruct (diff_e2_ok (spl_scale d lam) (sgridp d) (spl_scale_inv d lam Hd) eq_refl) as [Hf' Hs'].
    rewrite (bilinear_value_all_on diff_e1 (diff_e2 d) a b (sgridp d)) in H
      by (try assumption; exact I).
    injection H as <-.
    rewrite (bilinear_value_all_on diff_e1 (diff_e2 (spl_scale d lam)) a b (sgridp d))
      by (try assumption; exact I).
    f_equal.
    match goal with |- _ = (fsum ?f ?l * lam)%F =>
      transitivity (lam * fsum f l)%F; [|ring]; rewrite <- (fsum_scale lam f l) end.
    apply fsum_ext. intros k _. rewrite <- defint_pscale_l. apply defint_ext. intros w.
    cbn [diff_e1 diff_e2 dsem sval pderivn].
    rewrite !peval_pscale_l, !peval_pmul, !peval_pscale_l, !peval_pmul, piece_scale, peval_pscale.
    ring.
  Qed.

  Theorem diffusion_scale (d : spline F) lam a b sys :
    SplInv d -> nintervals (ssup d) <> 0%N -> (1 <= ORDER)%nat ->
    sstart (ssup d) = 0%N /\ sstop (ssup d) = nlen (sgridp d) ->
    diffusion_system ORDER d a b = Ok sys ->
    exists sys', diffusion_system ORDER (spl_scale d lam) a b = Ok sys' /\
      ds_inner sys' = ds_inner sys /\ ds_first sys' = ds_first sys /\ ds_last sys' = ds_last sys /\
      ds_mat sys' = map (map (fun x => x * lam)%F) (ds_mat sys) /\
      ds_rhs sys' = map (fun x => x * lam)%F (ds_rhs sys).
  Proof.
    intros Hd Hn HO Hw Hsys.
    destruct (diff_basis_count d Hd Hn HO Hw) as (basis & E & Lb & Hinv & Hsame).
    assert (2 <= length basis)%nat as H2.
    { destruct Hd as (Hs & (Hg2 & _) & _). destruct Hw as [H0 H1]. unfold sgridp, nlen in *. lia. }
    destruct (diffusion_system_spec d a b basis Hd E H2 Hinv Hsame) as (mat & rhs & Es & Er & Em).
    rewrite Hsys in Es. injection Es as ->. cbn [ds_inner ds_first ds_last ds_mat ds_rhs].
    pose proof (spl_scale_inv d lam Hd) as Hd'.
    destruct (diffusion_system_spec (spl_scale d lam) a b basis Hd' E H2 Hinv Hsame)
      as (mat' & rhs' & Es' & Er' & Em').
    rewrite Es'. eexists. split; [reflexivity|]. cbn [ds_inner ds_first ds_last ds_mat ds_rhs].
    rewrite Forall_forall in Hinv, Hsame.
    assert (Hin : forall s, In s (removelast (tl basis)) -> In s basis).
    { intros s Hs. apply In_inner_local in Hs as (i & _ & _ & Hi). eapply nth_error_In. exact Hi. }
    assert (H0 : In (nth 0 basis spl0) basis) by (apply nth_In; lia).
    assert (Hl : In (nth (length basis - 1) basis spl0) basis) by (apply nth_In; lia).
    set (first := spl_scale (nth 0 basis spl0) a) in *.
    set (last := spl_scale (nth (length basis - 1) basis spl0) b) in *.
    assert (If : SplInv first) by (apply spl_scale_inv, Hinv, H0).
    assert (Il : SplInv last) by (apply spl_scale_inv, Hinv, Hl).
    assert (Gf : sgridp first = sgridp d) by (apply (Hsame _ H0)).
    assert (Gl : sgridp last = sgridp d) by (apply (Hsame _ Hl)).
    split; [reflexivity|]. split; [reflexivity|]. split; [reflexivity|]. split.
    - pose proof (sym_matrix_rel (bilinear diff_o1 (diff_o2 d))
                    (bilinear diff_o1 (diff_o2 (spl_scale d lam))) (fun x => x * lam)%F
                    (removelast (tl basis)) mat) as R.
      rewrite R in Em'; [injection Em' as <-; reflexivity | | exact Em].
      intros x y v Hx Hy Hv. apply Hin in Hx. apply Hin in Hy.
      apply diff_form_scale; try assumption;
        [apply Hinv, Hx | apply Hinv, Hy | apply Hsame, Hx | apply Hsame, Hy].
    - pose proof (omapM_rel_local (diff_rhs_body d first last)
                    (diff_rhs_body (spl_scale d lam) first last) (fun x => x * lam)%F
                    (removelast (tl basis)) rhs) as R.
      rewrite R in Er'; [injection Er' as <-; reflexivity | | exact Er].
      intros bi v Hbi Hv. apply Hin in Hbi. unfold diff_rhs_body in *.
      apply bind_ok_inv in Hv as (x & Ex & Hv). apply bind_ok_inv in Hv as (y & Ey & Hv).
      injection Hv as <-.
      rewrite (diff_form_scale d bi first lam x Hd (Hinv _ Hbi) If (proj1 (Hsame _ Hbi)) Gf Ex).
      rewrite (diff_form_scale d bi last lam y Hd (Hinv _ Hbi) Il (proj1 (Hsame _ Hbi)) Gl Ey).
      cbn [bind]. f_equal. ring.
  Qed.

  (* matrix-vector product: one scalar product per row *)
  Definition mat_apply (m : list (list F)) (c : list F) : list F :=
    map (fun row => lincomb_val row c) m.

  Lemma lincomb_val_scale_l (row c : list F) lam :
    lincomb_val (map (fun x => x * lam)%F row) c = (lincomb_val row c * lam)%F.
  Proof.
    revert c; induction row as [|x row IH]; intros [|y c]; cbn [map lincomb_val]; try ring.
    rewrite IH. ring.
  Qed.

  Lemma mat_apply_scale (m : list (list F)) (c : list F) lam :
    mat_apply (map (map (fun x => x * lam)%F) m) c = map (fun x => x * lam)%F (mat_apply m c).
  Proof.
    unfold mat_apply. rewrite !map_map. apply map_ext. intros row. apply lincomb_val_scale_l.
  Qed.

  (* the scaled system has exactly the same solutions *)
  Corollary diffusion_scale_solution (d : spline F) lam a b sys sys' c :
    SplInv d -> nintervals (ssup d) <> 0%N -> (1 <= ORDER)%nat ->
    sstart (ssup d) = 0%N /\ sstop (ssup d) = nlen (sgridp d) ->
    lam <> f0 ->
    diffusion_system ORDER d a b = Ok sys ->
    diffusion_system ORDER (spl_scale d lam) a b = Ok sys' ->
    (mat_apply (ds_mat sys) c = ds_rhs sys <-> mat_apply (ds_mat sys') c = ds_rhs sys').
  Proof.
    intros Hd Hn HO Hw Hlam Hsys Hsys'.
    destruct (diffusion_scale d lam a b sys Hd Hn HO Hw Hsys) as (sys'' & E'' & _ & _ & _ & Em & Er).
    rewrite Hsys' in E''. injection E'' as <-. rewrite Em, Er, mat_apply_scale.
    split; [intros ->; reflexivity|].
    apply map_inj_local. intros x y Hxy.
    assert (x = x * lam / lam)%F as -> by (field; exact Hlam). rewrite Hxy. field. exact Hlam.
  Qed.

  (* hence, for a solver that is insensitive to a common factor of matrix and
     right-hand side, the returned concentration does not change at all *)
  Corollary diffusion_scale_invariant (solve : list (list F) -> list F -> list F)
    (d : spline F) lam a b :
    SplInv d -> nintervals (ssup d) <> 0%N -> (1 <= ORDER)%nat ->
    sstart (ssup d) = 0%N /\ sstop (ssup d) = nlen (sgridp d) ->
    (forall m r, solve (map (map (fun x => x * lam)%F) m) (map (fun x => x * lam)%F r) = solve m r) ->
    diffusion ORDER solve (spl_scale d lam) a b = diffusion ORDER solve d a b.
  Proof.
    intros Hd Hn HO Hw Hsolve.
    destruct (diffusion_system_ok d a b Hd Hn HO Hw) as (basis & sys & _ & Hsys & _).
    destruct (diffusion_scale d lam a b sys Hd Hn HO Hw Hsys) as (sys' & E' & Ei & Ef & El & Em & Er).
    unfold diffusion. rewrite Hsys, E'. cbn [bind]. rewrite Ei, Ef, El, Em, Er, Hsolve. reflexivity.
  Qed.

  (* ================================================================== *)
  (* Part B.2: adding a constant to the potential: H(v + c) = H(v) + c S *)
  (* ================================================================== *)

  Lemma ham_form_shift (v v' a b : spline F) c x y :
    SplInv v -> SplInv v' -> ssup v' = ssup v ->
    sstart (ssup v) = 0%N /\ sstop (ssup v) = nlen (sgridp v) ->
    (forall k u, imem k (ssup v) -> peval (piece v' k) u = (peval (piece v k) u + c)%F) ->
    SplInv a -> SplInv b -> sgridp a = sgridp v -> sgridp b = sgridp v ->
    bilinear OId (hamilton_op v) a b = Ok x -> bilinear OId OId a b = Ok y ->
    bilinear OId (hamilton_op v') a b = Ok (x + c * y)%F.
  Proof.
    intros Hv Hv' Hsup [H0 H1] Hshift Ha Hb Ga Gb Hx Hy.
    assert (Gv' : sgridp v' = sgridp v) by (unfold sgridp; rewrite Hsup; reflexivity).
    rewrite !hamilton_op_elab in *. change (@OId F) with (elab (@EId F)) in *.
    destruct (ham_e_ok v (sgridp v) Hv eq_refl) as [Hf Hs].
    destruct (ham_e_ok v' (sgridp v) Hv' Gv') as [Hf' Hs'].
    rewrite (bilinear_value_all_on EId (ham_e v) a b (sgridp v)) in Hx by (try assumption; exact I).
    rewrite (bilinear_value_all_on EId EId a b (sgridp v)) in Hy by (try assumption; exact I).
    injection Hx as <-. injection Hy as <-.
    rewrite (bilinear_value_all_on EId (ham_e v') a b (sgridp v)) by (try assumption; exact I).
    f_equal. rewrite <- fsum_scale, <- fsum_add. apply fsum_ext. intros k Hk.
    apply In_interval_list_whole in Hk.
    assert (imem k (ssup v)) as Hkv by (unfold imem; lia).
    rewrite <- defint_pscale_l, <- defint_padd. apply defint_ext. intros w.
    cbn [ham_e dsem sval pderivn].
    rewrite !peval_padd, !peval_pscale_l, !peval_pmul, !peval_padd, !peval_pscale_l, !peval_pmul.
    rewrite (Hshift k w Hkv). ring.
  Qed.

  Lemma mat_nth_out (m : list (list F)) n i j :
    length m = n -> Forall (fun row => length row = n) m -> (n <= i \/ n <= j)%nat ->
    nth j (nth i m []) f0 = f0.
  Proof.
    intros Lm Rm Hout. destruct (Nat.lt_ge_cases i n) as [Hi|Hi].
    - rewrite Forall_forall in Rm.
      assert (length (nth i m []) = n) as Lr by (apply Rm, nth_In; lia).
      apply nth_overflow. lia.
    - rewrite (nth_overflow m) by lia. destruct j; reflexivity.
  Qed.

  Lemma pot_matrices_inv (v : spline F) basis h s :
    pot_matrices ORDER v = Ok (basis, h, s) ->
    pot_basis ORDER (sgridp v) = Ok basis /\
    sym_matrix (bilinear OId (hamilton_op v)) basis = Ok h /\
    sym_matrix (bilinear OId OId) basis = Ok s.
  Proof.
    unfold pot_matrices. fold (sgridp v). intros H.
    apply bind_ok_inv in H as (basis0 & Eb & H). apply bind_ok_inv in H as (h0 & Eh & H).
    apply bind_ok_inv in H as (s0 & Es & H). injection H as -> -> ->. auto.
  Qed.

  Theorem potential_shift (v v' : spline F) c basis h s :
    SplInv v -> SplInv v' -> ssup v' = ssup v ->
    sstart (ssup v) = 0%N /\ sstop (ssup v) = nlen (sgridp v) ->
    (forall k u, imem k (ssup v) -> peval (piece v' k) u = (peval (piece v k) u + c)%F) ->
    pot_matrices ORDER v = Ok (basis, h, s) ->
    exists h', pot_matrices ORDER v' = Ok (basis, h', s) /\
      length h' = length basis /\ Forall (fun row => length row = length basis) h' /\
      forall i j, nth j (nth i h' []) f0 = (nth j (nth i h []) f0 + c * nth j (nth i s []) f0)%F.
  Proof.
    intros Hv Hv' Hsup Hw Hshift Hm.
    assert (Gv' : sgridp v' = sgridp v) by (unfold sgridp; rewrite Hsup; reflexivity).
    destruct (pot_matrices_inv v basis h s Hm) as (Eb & Eh & Es).
    pose proof Hv as (_ & Hg & _). fold (sgridp v) in Hg.
    destruct (pot_basis_inv _ _ Hg Eb) as (_ & _ & Hinv & Hsame).
    destruct (pot_matrices_ok v' basis Hv' ltac:(rewrite Gv'; exact Eb)) as (h' & s' & Em' & Eh' & Es').
    rewrite Es in Es'. injection Es' as <-.
    exists h'. split; [exact Em'|].
    destruct (sym_matrix_shape _ _ _ Eh) as [Lh Rh]. destruct (sym_matrix_shape _ _ _ Es) as [Ls Rs].
    destruct (sym_matrix_shape _ _ _ Eh') as [Lh' Rh'].
    split; [exact Lh'|]. split; [exact Rh'|].
    intros i j.
    destruct (Nat.lt_ge_cases i (length basis)) as [Hi|Hi];
      [destruct (Nat.lt_ge_cases j (length basis)) as [Hj|Hj]|].
    - pose proof (sym_matrix_entry _ basis h i j spl0 Eh Hi Hj) as Xh.
      pose proof (sym_matrix_entry _ basis s i j spl0 Es Hi Hj) as Xs.
      pose proof (sym_matrix_entry _ basis h' i j spl0 Eh' Hi Hj) as Xh'.
      rewrite Forall_forall in Hinv, Hsame.
      assert (Nat.min i j < length basis)%nat as Hlo by (destruct (Nat.min_spec i j); lia).
      assert (Nat.max i j < length basis)%nat as Hhi by (destruct (Nat.max_spec i j); lia).
      pose proof (nth_In basis spl0 Hlo) as Ilo. pose proof (nth_In basis spl0 Hhi) as Ihi.
      rewrite (ham_form_shift v v' _ _ c _ _ Hv Hv' Hsup Hw Hshift (Hinv _ Ilo) (Hinv _ Ihi)
                 (proj1 (Hsame _ Ilo)) (proj1 (Hsame _ Ihi)) Xh Xs) in Xh'.
      injection Xh' as <-. reflexivity.
    - rewrite (mat_nth_out h' _ i j Lh' Rh'), (mat_nth_out h _ i j Lh Rh),
        (mat_nth_out s _ i j Ls Rs) by (right; exact Hj). ring.
    - rewrite (mat_nth_out h' _ i j Lh' Rh'), (mat_nth_out h _ i j Lh Rh),
        (mat_nth_out s _ i j Ls Rs) by (left; exact Hi). ring.
  Qed.

  Lemma nth_mat_apply (m : list (list F)) (x : list F) i :
    nth i (mat_apply m x) f0 = lincomb_val (nth i m []) x.
  Proof. exact (map_nth (fun row => lincomb_val row x) m [] i). Qed.

  Lemma length_mat_apply (m : list (list F)) (x : list F) : length (mat_apply m x) = length m.
  Proof. apply map_length. Qed.

  Lemma lincomb_rows (t : list F) : forall (r r' x : list F) c,
    length r = length t -> length r' = length t ->
    (forall j, nth j r' f0 = (nth j r f0 + c * nth j t f0)%F) ->
    lincomb_val r' x = (lincomb_val r x + c * lincomb_val t x)%F.
  Proof.
    induction t as [|t0 t IH]; intros r r' x c Lr Lr' H.
    - destruct r; [|discriminate]. destruct r'; [|discriminate]. cbn [lincomb_val]. ring.
    - destruct r as [|r0 r]; [discriminate|]. destruct r' as [|r0' r']; [discriminate|].
      destruct x as [|x0 x]; cbn [lincomb_val]; [ring|].
      rewrite (IH r r' x c); [| cbn [length] in *; lia | cbn [length] in *; lia
                               | intros j; apply (H (S j))].
      pose proof (H 0%nat) as H0. cbn [nth] in H0. rewrite H0. ring.
  Qed.

  (* a generalised eigenpair of (H(v), S) with eigenvalue lam is one of
     (H(v + c), S) with eigenvalue lam + c *)
  Corollary potential_shift_eigen (v v' : spline F) c basis h s h' x lam :
    SplInv v -> SplInv v' -> ssup v' = ssup v ->
    sstart (ssup v) = 0%N /\ sstop (ssup v) = nlen (sgridp v) ->
    (forall k u, imem k (ssup v) -> peval (piece v' k) u = (peval (piece v k) u + c)%F) ->
    pot_matrices ORDER v = Ok (basis, h, s) ->
    pot_matrices ORDER v' = Ok (basis, h', s) ->
    mat_apply h x = map (fun y => lam * y)%F (mat_apply s x) ->
    mat_apply h' x = map (fun y => (lam + c) * y)%F (mat_apply s x).
  Proof.
    intros Hv Hv' Hsup Hw Hshift Hm Hm' Heig.
    destruct (potential_shift v v' c basis h s Hv Hv' Hsup Hw Hshift Hm)
      as (h'' & Em'' & Lh' & Rh' & Hent).
    rewrite Hm' in Em''. injection Em'' as <-.
    destruct (pot_matrices_inv v basis h s Hm) as (_ & Eh & Es).
    destruct (sym_matrix_shape _ _ _ Eh) as [Lh Rh]. destruct (sym_matrix_shape _ _ _ Es) as [Ls Rs].
    apply (nth_ext _ _ f0 f0).
    { rewrite map_length, !length_mat_apply. congruence. }
    intros i Hi. rewrite length_mat_apply, Lh' in Hi.
    apply (f_equal (fun l => nth i l f0)) in Heig.
    rewrite (nth_indep (map _ (mat_apply s x)) f0 ((fun y => lam * y)%F f0)) in Heig
      by (rewrite map_length, length_mat_apply; lia).
    rewrite (nth_indep (map _ (mat_apply s x)) f0 ((fun y => (lam + c) * y)%F f0))
      by (rewrite map_length, length_mat_apply; lia).
    rewrite map_nth in *. rewrite !nth_mat_apply in *.
    rewrite Forall_forall in Rh, Rs, Rh'.
    rewrite (lincomb_rows (nth i s []) (nth i h []) (nth i h' []) x c).
    - rewrite Heig. ring.
    - rewrite (Rh (nth i h [])), (Rs (nth i s [])) by (apply nth_In; lia). reflexivity.
    - rewrite (Rh' (nth i h' [])), (Rs (nth i s [])) by (apply nth_In; lia). reflexivity.
    - intros j. apply Hent.
  Qed.

  (* ================================================================== *)
  (* Part C.1: B-splines of a clamped knot vector at the two end points  *)
  (* ================================================================== *)

  (* left end: the first p+1 knots coincide with the first grid point a;
     on grid interval 0 the polynomial of B_{i,q} takes the value
     [i = p - q] at a *)
  Lemma clamped_left_aux (ks : list F) p a :
    nondecreasing ks -> (forall i, (i <= p)%nat -> knot ks i = a) ->
    fltb a (knot ks (p + 1)) = true -> nth 0 (unique ks) f0 = a ->
    forall q i, (q <= p)%nat -> (i + q + 1 < length ks)%nat ->
      Bk ks q i 0 a = if (i =? p - q)%nat then f1 else f0.
  Proof.
    intros Hn Hrep Hnext Hg0. induction q as [|q IH]; intros i Hq Hi.
    - cbn [Bk]. rewrite Hg0, Nat.sub_0_r.
      destruct (Nat.eqb_spec i p) as [->|Hne].
      + rewrite (Hrep p (Nat.le_refl _)), Hnext, feqb_refl. reflexivity.
      + destruct (Nat.lt_ge_cases i p) as [Hlt|Hge].
        * rewrite (Hrep i), (Hrep (i + 1)%nat) by lia. rewrite flt_irrefl. reflexivity.
        * assert (fltb a (knot ks i) = true) as Hai.
          { apply (flt_le_trans _ (knot ks (p + 1))); [exact Hnext|].
            apply nondecreasing_knot_le; [exact Hn | lia | lia]. }
          assert (feqb (knot ks i) a = false) as ->.
          { apply feqb_false. intros E. rewrite E, flt_irrefl in Hai. discriminate. }
          rewrite andb_false_r. reflexivity.
    - cbn [Bk]. rewrite (IH i) by lia. rewrite (IH (i + 1)%nat) by lia.
      (* the first term vanishes: either B is zero or the factor (a - t_i) is *)
      assert ((if fltb (knot ks i) (knot ks (i + q + 1))
               then (a - knot ks i) / (knot ks (i + q + 1) - knot ks i)
                    * (if (i =? p - q)%nat then f1 else f0) else f0)%F = f0) as ->.
      { destruct (fltb (knot ks i) (knot ks (i + q + 1))) eqn:E1; [|reflexivity].
        destruct (Nat.eqb_spec i (p - q)) as [Hip|_]; [|ring].
        rewrite (Hrep i) in * by lia. field. apply fsub_neq0. exact E1. }
      destruct (Nat.eqb_spec (i + 1) (p - q)) as [Hip|Hip].
      + assert (i = p - S q)%nat as Hi' by lia. rewrite <- Hi', Nat.eqb_refl.
        replace (i + q + 2)%nat with (p + 1)%nat by lia.
        rewrite (Hrep (i + 1)%nat) by lia. rewrite Hnext.
        field. apply fsub_neq0. exact Hnext.
      + destruct (Nat.eqb_spec i (p - S q)) as [Hi'|_]; [lia|].
        destruct (fltb (knot ks (i + 1)) (knot ks (i + q + 2))); ring.
  Qed.

  (* right end: all knots from index e on coincide with the last grid point b,
     [t_{e-1}, t_e) is grid interval kL; on it the polynomial of B_{i,q} takes
     the value [i = e - 1] at b *)
  Lemma clamped_right_aux (ks : list F) e kL b :
    nondecreasing ks -> (1 <= e)%nat -> (e < length ks)%nat ->
    (forall j, (e <= j)%nat -> (j < length ks)%nat -> knot ks j = b) ->
    fltb (knot ks (e - 1)) b = true -> nth kL (unique ks) f0 = knot ks (e - 1) ->
    forall q i, (i + q + 1 < length ks)%nat ->
      Bk ks q i kL b = if (i =? e - 1)%nat then f1 else f0.
  Proof.
    intros Hn He1 Hel Hrep Hprev HgL. induction q as [|q IH]; intros i Hi.
    - cbn [Bk]. rewrite HgL.
      destruct (Nat.eqb_spec i (e - 1)) as [->|Hne].
      + replace (e - 1 + 1)%nat with e by lia. rewrite (Hrep e) by lia.
        rewrite Hprev, feqb_refl. reflexivity.
      + destruct (Nat.lt_ge_cases i e) as [Hlt|Hge].
        * destruct (fltb (knot ks i) (knot ks (i + 1))) eqn:E1; [|reflexivity].
          destruct (feqb (knot ks i) (knot ks (e - 1))) eqn:E2; [|reflexivity].
          exfalso. apply feqb_true in E2.
          assert (fleb (knot ks (i + 1)) (knot ks (e - 1)) = true) as H1
            by (apply nondecreasing_knot_le; [exact Hn | lia | lia]).
          rewrite <- E2 in H1. pose proof (flt_le_trans _ _ _ E1 H1) as H2.
          rewrite flt_irrefl in H2. discriminate.
        * rewrite (Hrep i), (Hrep (i + 1)%nat) by lia. rewrite flt_irrefl. reflexivity.
    - cbn [Bk]. rewrite (IH i) by lia. rewrite (IH (i + 1)%nat) by lia.
      (* the second term vanishes: either B is zero or the factor (t - b) is *)
      assert ((if fltb (knot ks (i + 1)) (knot ks (i + q + 2))
               then (knot ks (i + q + 2) - b) / (knot ks (i + q + 2) - knot ks (i + 1))
                    * (if (i + 1 =? e - 1)%nat then f1 else f0) else f0)%F = f0) as ->.
      { destruct (fltb (knot ks (i + 1)) (knot ks (i + q + 2))) eqn:E1; [|reflexivity].
        destruct (Nat.eqb_spec (i + 1) (e - 1)) as [Hie|_]; [|ring].
        rewrite (Hrep (i + q + 2)%nat) in * by lia. field. apply fsub_neq0. exact E1. }
      destruct (Nat.eqb_spec i (e - 1)) as [Hie|Hie].
      + rewrite (Hrep (i + q + 1)%nat) by lia. rewrite Hie, Hprev.
        field. apply fsub_neq0. exact Hprev.
      + destruct (fltb (knot ks i) (knot ks (i + q + 1))); ring.
  Qed.

  (* ---- the knots of [knots_of g] ---- *)
  Lemma nth_repeat_lt (a : F) n i : (i < n)%nat -> nth i (repeat a n) f0 = a.
  Proof. intros H. apply nth_error_nth. apply nth_error_repeat. exact H. Qed.

  Lemma knot_knots_of_front (g : list F) i : (i < ORDER)%nat -> knot (knots_of g) i = gnth g 0.
  Proof.
    intros H. unfold knot, knots_of. rewrite app_nth1 by (rewrite repeat_length; exact H).
    apply nth_repeat_lt. exact H.
  Qed.

  Lemma knot_knots_of_mid (g : list F) j : (j < length g)%nat ->
    knot (knots_of g) (ORDER + j) = nth j g f0.
  Proof.
    intros H. unfold knot, knots_of. rewrite app_nth2 by (rewrite repeat_length; lia).
    rewrite repeat_length. replace (ORDER + j - ORDER)%nat with j by lia.
    apply app_nth1. exact H.
  Qed.

  Lemma knot_knots_of_back (g : list F) j : (j < ORDER)%nat ->
    knot (knots_of g) (ORDER + length g + j) = gnth g (nlen g - 1).
  Proof.
    intros H. unfold knot, knots_of. rewrite app_nth2 by (rewrite repeat_length; lia).
    rewrite repeat_length. rewrite app_nth2 by lia.
    replace (ORDER + length g + j - ORDER - length g)%nat with j by lia.
    apply nth_repeat_lt. exact H.
  Qed.

  Lemma gnth_nat (g : list F) j : gnth g (N.of_nat j) = nth j g f0.
  Proof. unfold gnth. rewrite Nat2N.id. reflexivity. Qed.

  Section ClampedEnds.
    Variable g : list F.
    Hypothesis Hg : GInv g.
    Let ks := knots_of g.
    Let n := length g.

    Lemma knots_of_facts : unique ks = g /\ nondecreasing ks /\ (2 <= n)%nat /\
                           length ks = (n + 2 * ORDER)%nat.
    Proof.
      pose proof Hg as (Hg2 & Hg63 & Hinc). unfold nlen in Hg2, Hg63.
      assert (SInv (mkSup g 0 (nlen g))) as Hs.
      { unfold SInv, nlen. cbn [sgrid sstart sstop]. lia. }
      destruct (diff_basis_whole (mkSup g 0 (nlen g)) Hs Hg eq_refl eq_refl) as (HU & HN & _).
      cbn [sgrid] in HU, HN. split; [exact HU|]. split; [exact HN|]. split; [unfold n; lia|].
      apply length_knots_of.
    Qed.

    Lemma knots_left : (forall i, (i <= ORDER)%nat -> knot ks i = gnth g 0) /\
                       fltb (gnth g 0) (knot ks (ORDER + 1)) = true.
    Proof.
      destruct knots_of_facts as (_ & _ & H2 & _). pose proof Hg as (_ & _ & Hinc). fold n in H2.
      split.
      - intros i Hi. destruct (Nat.eq_dec i ORDER) as [->|Hne].
        + replace ORDER with (ORDER + 0)%nat at 1 by lia. unfold ks.
          rewrite knot_knots_of_mid by (fold n; lia). reflexivity.
        + apply knot_knots_of_front. lia.
      - unfold ks. rewrite knot_knots_of_mid by (fold n; lia).
        rewrite <- (gnth_nat g 1). apply gnth_lt; [exact Hinc | lia | unfold nlen; fold n; lia].
    Qed.

    Lemma knots_right :
      (forall j, (ORDER + n - 1 <= j)%nat -> (j < length ks)%nat -> knot ks j = gnth g (nlen g - 1)) /\
      knot ks (ORDER + n - 1 - 1) = nth (n - 2) g f0 /\
      fltb (nth (n - 2) g f0) (gnth g (nlen g - 1)) = true.
    Proof.
      destruct knots_of_facts as (_ & _ & H2 & Lk). pose proof Hg as (_ & _ & Hinc).
      split; [|split].
      - intros j Hj Hjl. destruct (Nat.eq_dec j (ORDER + n - 1)) as [->|Hne].
        + replace (ORDER + n - 1)%nat with (ORDER + (n - 1))%nat by lia. unfold ks.
          rewrite knot_knots_of_mid by (fold n; lia).
          rewrite <- gnth_nat. f_equal. unfold nlen. fold n. lia.
        + replace j with (ORDER + length g + (j - ORDER - n))%nat by (fold n; lia).
          apply knot_knots_of_back. fold n. lia.
      - replace (ORDER + n - 1 - 1)%nat with (ORDER + (n - 2))%nat by lia.
        apply knot_knots_of_mid. fold n. lia.
      - rewrite <- gnth_nat. apply gnth_lt; [exact Hinc | unfold nlen; fold n; lia
                                             | unfold nlen; fold n; lia].
    Qed.

    (* with an (ORDER+1)-fold end knot the first basis function is 1 at the
       first grid point and every other one is 0 there *)
    Theorem clamped_first : Bk ks ORDER 0 0 (gnth g 0) = f1.
    Proof.
      destruct knots_of_facts as (HU & HN & H2 & Lk). destruct knots_left as [Hrep Hnext].
      rewrite (clamped_left_aux ks ORDER (gnth g 0) HN Hrep Hnext); try lia.
      - rewrite Nat.sub_diag. reflexivity.
      - rewrite HU. reflexivity.
    Qed.

    Theorem clamped_others_zero_first i : (1 <= i)%nat -> (i + ORDER + 1 < length ks)%nat ->
      Bk ks ORDER i 0 (gnth g 0) = f0.
    Proof.
      intros Hi Hil.
      destruct knots_of_facts as (HU & HN & H2 & Lk). destruct knots_left as [Hrep Hnext].
      rewrite (clamped_left_aux ks ORDER (gnth g 0) HN Hrep Hnext); try lia.
      - rewrite Nat.sub_diag. destruct i; [lia | reflexivity].
      - rewrite HU. reflexivity.
    Qed.

    (* ... and symmetrically at the last grid point, on the last interval *)
    Theorem clamped_last : Bk ks ORDER (n + ORDER - 2) (n - 2) (gnth g (nlen g - 1)) = f1.
    Proof.
      destruct knots_of_facts as (HU & HN & H2 & Lk). destruct knots_right as (Hrep & Hprev & Hlt).
      rewrite (clamped_right_aux ks (ORDER + n - 1) (n - 2) (gnth g (nlen g - 1)) HN); try lia;
        try assumption.
      - replace (ORDER + n - 1 - 1)%nat with (n + ORDER - 2)%nat by lia.
        rewrite Nat.eqb_refl. reflexivity.
      - rewrite Hprev. exact Hlt.
      - rewrite HU, Hprev. reflexivity.
    Qed.

    Theorem clamped_others_zero_last i : i <> (n + ORDER - 2)%nat ->
      (i + ORDER + 1 < length ks)%nat ->
      Bk ks ORDER i (n - 2) (gnth g (nlen g - 1)) = f0.
    Proof.
      intros Hi Hil.
      destruct knots_of_facts as (HU & HN & H2 & Lk). destruct knots_right as (Hrep & Hprev & Hlt).
      rewrite (clamped_right_aux ks (ORDER + n - 1) (n - 2) (gnth g (nlen g - 1)) HN); try lia;
        try assumption.
      - destruct (Nat.eqb_spec i (ORDER + n - 1 - 1)) as [E|_]; [lia | reflexivity].
      - rewrite Hprev. exact Hlt.
      - rewrite HU, Hprev. reflexivity.
    Qed.
  End ClampedEnds.

  (* ================================================================== *)
  (* Part C.2: the diffusion solution attains the prescribed end values, *)
  (* whatever the dense solver returned                                  *)
  (* ================================================================== *)
  Section EndValues.
  Variable solve : list (list F) -> list F -> list F.

  Theorem diffusion_end_values (d : spline F) a b r :
    SplInv d -> nintervals (ssup d) <> 0%N -> (1 <= ORDER)%nat ->
    sstart (ssup d) = 0%N /\ sstop (ssup d) = nlen (sgridp d) ->
    (forall m rhs, length (solve m rhs) = length rhs) ->
    diffusion ORDER solve d a b = Ok r ->
    spl_eval r (gnth (sgridp d) 0) = Ok a /\
    spl_eval r (gnth (sgridp d) (nlen (sgridp d) - 1)) = Ok b.
  Proof.
    intros Hd Hn HO Hw Hsolve Hr.
    pose proof Hd as (Hs & Hg & _). fold (sgridp d) in Hg. destruct Hw as [Hw0 Hw1].
    set (g := sgridp d) in *. set (ks := knots_of g).
    destruct (knots_of_facts g Hg) as (HU & HN & H2 & Lk). fold ks in HU, HN, Lk.
    pose proof Hg as (_ & Hg63 & Hinc).
    destruct (diff_basis_spec (ssup d) Hs Hg Hw0 Hw1) as (basis & E & Lb & Nb).
    change (sgrid (ssup d)) with g in Lb, Nb. fold ks in Nb.
    destruct (diff_basis_count d Hd Hn HO (conj Hw0 Hw1)) as (basis' & E' & _ & Hinv & Hsame).
    rewrite E in E'. injection E' as <-.
    (* at least three basis functions, otherwise the solver throws *)
    assert (3 <= length basis)%nat as H3.
    { destruct (Nat.lt_ge_cases (length basis) 3) as [Hlt|Hge]; [|exact Hge]. exfalso.
      rewrite (diffusion_too_small solve d a b Hd Hn HO (conj Hw0 Hw1) Hsolve) in Hr;
        [discriminate|]. rewrite Hw0, Hw1. unfold nlen. lia. }
    destruct (diffusion_spec solve d a b basis Hd E H3 Hinv Hsame Hsolve)
      as (sys & r' & _ & Er' & Ir & Gr & _ & Mr & Dr).
    rewrite Hr in Er'. injection Er' as <-. fold g in Gr.
    set (first0 := nth 0 basis spl0) in *. set (last0 := nth (length basis - 1) basis spl0) in *.
    (* what the basis functions denote *)
    assert (Hden : forall i k x, (i < length basis)%nat -> (k + 1 < length g)%nat ->
                     den (nth i basis spl0) (N.of_nat k) x = Bk ks ORDER i k x).
    { intros i k x Hi Hk. destruct (Nb i Hi) as (b' & Eb' & (_ & _ & _ & Db')).
      rewrite (nth_error_nth _ _ _ Eb'). apply Db'. rewrite HU. exact Hk. }
    assert (Hinner : forall s, In s (removelast (tl basis)) ->
              exists i, (1 <= i)%nat /\ (i + 1 < length basis)%nat /\ s = nth i basis spl0).
    { intros s Hsi. apply In_inner_local in Hsi as (i & H1 & H2' & Hi).
      exists i. split; [exact H1|]. split; [exact H2'|]. symmetry. apply nth_error_nth. exact Hi. }
    assert (Himem : forall (s : spline F) k x, den s k x = f1 -> imem k (ssup s)).
    { intros s k x H1. destruct (inb (ssup s) k) eqn:Ei; [apply inb_imem; exact Ei|].
      apply inb_false in Ei. rewrite (den_out s k x Ei) in H1. exfalso.
      apply (@f1_neq_f0 F K L). symmetry. exact H1. }
    split.
    - (* the first grid point: interval 0, its left end *)
      set (x := gnth g 0).
      assert (D1 : den first0 0 x = f1).
      { change 0%N with (N.of_nat 0). unfold first0. rewrite Hden by lia.
        apply (clamped_first g Hg). }
      assert (D2 : den last0 0 x = f0).
      { change 0%N with (N.of_nat 0). unfold last0. rewrite Hden by lia.
        apply (clamped_others_zero_first g Hg); [lia | fold ks; lia]. }
      assert (D3 : lincomb_val (solve (ds_mat sys) (ds_rhs sys))
                     (map (fun s => den s 0 x) (removelast (tl basis))) = f0).
      { apply lincomb_val_zero. intros v Hv. apply in_map_iff in Hv as (s & <- & Hsi).
        destruct (Hinner s Hsi) as (i & H1 & H2' & ->).
        change 0%N with (N.of_nat 0). rewrite Hden by lia.
        apply (clamped_others_zero_first g Hg); [lia | fold ks; lia]. }
      assert (I0 : imem 0 (ssup r)) by (apply Mr; left; apply (Himem first0 0%N x D1)).
      rewrite (seval_inside r x 0 Ir I0).
      + rewrite Dr, D1, D2, D3. f_equal. ring.
      + right. split; [unfold imem in I0; lia|]. unfold sgridp in Gr. rewrite Gr. reflexivity.
    - (* the last grid point: the last interval, its right end *)
      set (x := gnth g (nlen g - 1)).
      assert (EkL : (nlen g - 2)%N = N.of_nat (length g - 2)) by (unfold nlen; lia).
      assert (D1 : den first0 (nlen g - 2) x = f0).
      { rewrite EkL. unfold first0. rewrite Hden by lia.
        apply (clamped_others_zero_last g Hg); [lia | fold ks; lia]. }
      assert (D2 : den last0 (nlen g - 2) x = f1).
      { rewrite EkL. unfold last0. rewrite Hden by lia.
        replace (length basis - 1)%nat with (length g + ORDER - 2)%nat by lia.
        apply (clamped_last g Hg). }
      assert (D3 : lincomb_val (solve (ds_mat sys) (ds_rhs sys))
                     (map (fun s => den s (nlen g - 2) x) (removelast (tl basis))) = f0).
      { apply lincomb_val_zero. intros v Hv. apply in_map_iff in Hv as (s & <- & Hsi).
        destruct (Hinner s Hsi) as (i & H1 & H2' & ->).
        rewrite EkL, Hden by lia.
        apply (clamped_others_zero_last g Hg); [lia | fold ks; lia]. }
      assert (IL : imem (nlen g - 2) (ssup r))
        by (apply Mr; right; apply (Himem last0 (nlen g - 2)%N x D2)).
      rewrite (seval_inside r x (nlen g - 2) Ir IL).
      + rewrite Dr, D1, D2, D3. f_equal. ring.
      + left. unfold sgridp in Gr. rewrite Gr. unfold nlen in *.
        replace (N.of_nat (length g) - 2 + 1)%N with (N.of_nat (length g) - 1)%N by lia.
        split; [|apply fleb_refl].
        apply gnth_lt; [exact Hinc | lia | unfold nlen; lia].
  Qed.
  End EndValues.
  (* ================================================================== *)
  (* the premise of [potential_shift] is satisfiable for every potential: *)
  (* adding c to the constant coefficient of every piece                  *)
  (* ================================================================== *)
  Definition shift_piece (c : F) (p : list F) : list F :=
    match p with [] => [] | a :: q => (a + c)%F :: q end.

  Definition spl_shift (v : spline F) (c : F) : spline F :=
    mkSpl (ssup v) (sord v) (map (shift_piece c) (scoefs v)).

  Lemma length_shift_piece c (p : list F) : length (shift_piece c p) = length p.
  Proof. destruct p; reflexivity. Qed.

  Lemma spl_shift_inv (v : spline F) c : SplInv v -> SplInv (spl_shift v c).
  Proof.
    intros (H1 & H2 & H3 & H4). unfold SplInv. cbn [spl_shift ssup sord scoefs].
    split; [exact H1|]. split; [exact H2|]. split; [rewrite nlen_map; exact H3|].
    apply Forall_map. eapply Forall_impl; [|exact H4].
    intros p Hp. cbv beta in *. rewrite length_shift_piece. exact Hp.
  Qed.

  Lemma piece_spl_shift (v : spline F) c k u : SplInv v -> imem k (ssup v) ->
    peval (piece (spl_shift v c) k) u = (peval (piece v k) u + c)%F.
  Proof.
    intros Hv Hk. destruct (piece_in v k Hv Hk) as [_ Lp].
    rewrite !piece_eq in *. cbn [spl_shift ssup scoefs].
    destruct (inb (ssup v) k); [|cbn [length] in Lp; lia].
    rewrite (nth_map_nil (shift_piece c)) by reflexivity.
    destruct (nth (N.to_nat (k - sstart (ssup v))) (scoefs v) []) as [|a0 q];
      [cbn [length] in Lp; lia|].
    cbn [shift_piece peval]. ring.
  Qed.

  Corollary potential_shift_const (v : spline F) c basis h s :
    SplInv v -> sstart (ssup v) = 0%N /\ sstop (ssup v) = nlen (sgridp v) ->
    pot_matrices ORDER v = Ok (basis, h, s) ->
    exists h', pot_matrices ORDER (spl_shift v c) = Ok (basis, h', s) /\
      forall i j, nth j (nth i h' []) f0 = (nth j (nth i h []) f0 + c * nth j (nth i s []) f0)%F.
  Proof.
    intros Hv Hw Hm.
    destruct (potential_shift v (spl_shift v c) c basis h s Hv (spl_shift_inv v c Hv) eq_refl Hw
                (fun k u Hk => piece_spl_shift v c k u Hv Hk) Hm) as (h' & E & _ & _ & Hent).
    exists h'. auto.
  Qed.
End ExFacts.

(* ====================================================================== *)
(* Non-vacuity and witnesses over the rationals                            *)
(* ====================================================================== *)
From BSpl Require Import Instances.

Definition ex_grid : list Qcanon.Qc := [qc 0 1; qc 1 1; qc 3 1].
(* a piecewise linear diffusion coefficient on the whole grid *)
Definition ex_d : spline Qcanon.Qc :=
  mkSpl (mkSup ex_grid 0 3) 1 [[qc 1 1; qc 1 2]; [qc 2 1; qc 1 2]].
(* a "solver" that only respects the size of the right-hand side *)
Definition ex_solve (m : list (list Qcanon.Qc)) (r : list Qcanon.Qc) : list Qcanon.Qc :=
  map (fun _ => qc 1 1) r.

Lemma ex_grid_inv : GInv ex_grid.
Proof.
  split; [vm_compute; discriminate|]. split; [vm_compute; reflexivity|].
  apply steadily_increasing. vm_compute. reflexivity.
Qed.

Lemma ex_d_inv : SplInv ex_d.
Proof.
  split; [|split; [exact ex_grid_inv|split]].
  - split; [vm_compute; reflexivity|]. right. split; vm_compute; [reflexivity | discriminate].
  - vm_compute. reflexivity.
  - repeat constructor.
Qed.

(* the premises of the diffusion theorems are satisfiable (ORDER = 2), and the
   conclusions agree with what the model computes *)
Example diffusion_nonvacuous :
  (exists r, diffusion 2 ex_solve ex_d (qc 5 1) (qc 7 1) = Ok r /\ SplInv r) /\
  (forall r, diffusion 2 ex_solve ex_d (qc 5 1) (qc 7 1) = Ok r ->
             spl_eval r (qc 0 1) = Ok (qc 5 1) /\ spl_eval r (qc 3 1) = Ok (qc 7 1)) /\
  (do r <- diffusion 2 ex_solve ex_d (qc 5 1) (qc 7 1);
   do x <- spl_eval r (qc 0 1); do y <- spl_eval r (qc 3 1);
   Ok (Qcanon.this x, Qcanon.this y)) = Ok (Qcanon.this (qc 5 1), Qcanon.this (qc 7 1)).
Proof.
  assert (Hn : nintervals (ssup ex_d) <> 0%N) by (vm_compute; discriminate).
  assert (Hw : sstart (ssup ex_d) = 0%N /\ sstop (ssup ex_d) = nlen (sgridp ex_d))
    by (split; reflexivity).
  assert (Hs : forall m r, length (ex_solve m r) = length r) by (intros m r; apply map_length).
  split; [|split].
  - destruct (diffusion_no_ub 2 ex_solve ex_d (qc 5 1) (qc 7 1) ex_d_inv Hn ltac:(lia) Hw Hs)
      as (r & Er & Ir & _); [vm_compute; lia|]. exists r. auto.
  - intros r Hr.
    exact (diffusion_end_values 2 ex_solve ex_d (qc 5 1) (qc 7 1) r ex_d_inv Hn ltac:(lia) Hw Hs Hr).
  - vm_compute. reflexivity.
Qed.

(* ORDER = 1 on a single interval: two basis functions, nothing left for the
   inner system — MISSING_DATA, as [diffusion_too_small] says *)
Example diffusion_too_small_witness :
  diffusion 1 ex_solve (mkSpl (mkSup [qc 0 1; qc 1 1] 0 2) 1 [[qc 1 1; qc 1 2]]) (qc 5 1) (qc 7 1)
  = Throw MISSING_DATA.
Proof. vm_compute. reflexivity. Qed.

(* why the theorems assume 1 <= ORDER: with SPLINE_ORDER = 0 on a single
   interval the basis has one element and pop_back() meets an empty vector
   (SPLINE_ORDER is the compile-time constant 10 in the shipped example) *)
Example order_zero_erases_past_end :
  diffusion 0 ex_solve (mkSpl (mkSup [qc 0 1; qc 1 1] 0 2) 1 [[qc 1 1; qc 1 2]]) (qc 5 1) (qc 7 1)
  = UB ErasePastEnd.
Proof. vm_compute. reflexivity. Qed.

(* a sub-window of the grid is refused by the generator *)
Example diff_basis_window_refused_witness :
  diff_basis 2 (mkSup [qc 0 1; qc 1 1; qc 3 1; qc 4 1] 1 3) = Throw INCONSISTENT_DATA.
Proof. vm_compute. reflexivity. Qed.

(* the spline-potential example on four grid points with ORDER = 1: two basis
   functions.  The repaired loop returns two eigenpairs, the original loop
   bound 10 reads eigenvalues(2) out of range. *)
Definition ex_grid4 : list Qcanon.Qc := [qc 0 1; qc 1 1; qc 3 1; qc 4 1].
Definition ex_v : spline Qcanon.Qc :=
  mkSpl (mkSup ex_grid4 0 4) 1 [[qc 1 1; qc 1 2]; [qc 2 1; qc 1 2]; [qc 3 1; qc 1 2]].
Definition ex_eigs (h s : list (list Qcanon.Qc)) : list (Qcanon.Qc * list Qcanon.Qc) :=
  map (fun row => (qc 1 1, map (fun _ => qc 1 1) row)) h.

Example old_loop_reads_out_of_range_witness :
  (exists l, potential_solve 1 ex_eigs ex_v = Ok l /\ length l = 2%nat) /\
  potential_solve_old 1 ex_eigs ex_v = UB OOBRead.
Proof.
  split; [eexists; split; [vm_compute; reflexivity | reflexivity] | vm_compute; reflexivity].
Qed.

(* fewer grid points than ORDER + 1 knots *)
Example potential_few_witness : potential_solve 4 ex_eigs ex_v = Throw UNDETERMINED.
Proof. vm_compute. reflexivity. Qed.

(* Proofs_Forms.v — linear and bilinear forms are exact integrals.
   Part A: the per-interval kernels of Forms.v compute [defint] (the
   antiderivative difference over [-h, h]).
   Part B: [linear] / [bilinear] are the sums of these integrals over the
   intervals of the support / of the common support. *)
From Coq Require Import List Arith NArith ZArith Bool Lia ZifyBool ZifyN Field Ring.
From BSpl Require Import ListAux Scalar Outcome Support Poly Spline Ops Forms Spec
  Proofs_Support Proofs_Scalar.
Import ListNotations.
Local Open Scope F_scope.

Ltac Zify.zify_post_hook ::= Z.div_mod_to_equations.

Section FormsProofs.
  Context {F : Type} {K : Ops F} {L : Laws K}.
  Add Field Ffforms : (@Fth F K L).

  (* ================= Part A: kernels ================= *)

  (* symmetric part of the antiderivative tail: the odd powers cancel *)
  Lemma antideriv_from_sym_local n : forall (p : list F) j k h,
    (length p <= n)%nat -> k = S (2 * j) ->
    peval (antideriv_from k p) h + peval (antideriv_from k p) (- h)
    = f2 * even_horner j (evens p) (h * h).
  Proof.
    induction n as [n IH] using (well_founded_induction lt_wf).
    intros p j k h Hlen Hk.
    destruct p as [|a [|b r]].
    - cbn [antideriv_from peval evens even_horner]. ring.
    - cbn [antideriv_from peval evens even_horner].
      subst k. replace (2 * j + 1)%nat with (S (2 * j)) by lia.
      rewrite f2_eq. field. apply fofnat_S_neq0.
    - cbn [antideriv_from peval evens even_horner].
      cbn [length] in Hlen.
      assert (Hr : peval (antideriv_from (S (S k)) r) h + peval (antideriv_from (S (S k)) r) (- h)
                   = f2 * even_horner (S j) (evens r) (h * h)).
      { apply (IH (length r)); [lia | lia | lia]. }
      set (x := peval (antideriv_from (S (S k)) r) h) in *.
      set (y := peval (antideriv_from (S (S k)) r) (- h)) in *.
      replace (a / fofnat k + h * (b / fofnat (S k) + h * x)
               + (a / fofnat k + - h * (b / fofnat (S k) + - h * y)))
        with ((f1 + f1) * (a / fofnat k) + h * h * (x + y)).
      2:{ field. split; [apply fofnat_S_neq0 | subst k; apply fofnat_S_neq0]. }
      rewrite Hr. subst k. replace (2 * j + 1)%nat with (S (2 * j)) by lia.
      rewrite f2_eq. field. apply fofnat_S_neq0.
  Qed.

  Lemma defint_even_horner (p : list F) h :
    defint p h = f2 * h * even_horner 0 (evens p) (h * h).
  Proof.
    unfold defint, antideriv. cbn [peval].
    pose proof (antideriv_from_sym_local (length p) p 0 1 h (le_n _) eq_refl) as H.
    set (x := peval (antideriv_from 1 p) h) in *.
    set (y := peval (antideriv_from 1 p) (- h)) in *.
    replace (f0 + h * x - (f0 + - h * y)) with (h * (x + y)) by ring.
    rewrite H. ring.
  Qed.

  Lemma lin_kernel_spec (a : list F) h : a <> [] -> lin_kernel a h = Ok (defint a h).
  Proof.
    intros Ha. destruct a as [|x a]; [congruence|].
    unfold lin_kernel. rewrite defint_even_horner. reflexivity.
  Qed.

  Lemma bi_kernel_spec (a b : list F) h :
    a <> [] -> b <> [] -> bi_kernel a b h = Ok (defint (pmul a b) h).
  Proof.
    intros Ha Hb. destruct a as [|x a]; [congruence|]. destruct b as [|y b]; [congruence|].
    unfold bi_kernel. rewrite defint_even_horner. reflexivity.
  Qed.

  Lemma defint_fundamental (p : list F) h :
    defint p h = peval (antideriv p) h - peval (antideriv p) (- h).
  Proof. reflexivity. Qed.

  (* private copy of Proofs_Poly.pderiv_antideriv *)
  Lemma pderiv_from_antideriv_from_local i (p : list F) :
    pderiv_from (S i) (antideriv_from (S i) p) = p.
  Proof.
    revert i; induction p as [|a p IH]; intros i; cbn [antideriv_from pderiv_from]; [reflexivity|].
    rewrite IH. f_equal. field. apply fofnat_S_neq0.
  Qed.

  Lemma pderiv_antideriv_local (p : list F) : pderiv (antideriv p) = p.
  Proof. unfold antideriv, pderiv. apply pderiv_from_antideriv_from_local. Qed.

  (* [defint p h] is the difference at h and -h of a polynomial whose formal
     derivative is p: the integral of p over [-h, h]. *)
  Lemma defint_is_integral (p : list F) h :
    exists P, pderiv P = p /\ defint p h = peval P h - peval P (- h).
  Proof. exists (antideriv p). split; [apply pderiv_antideriv_local | reflexivity]. Qed.

  (* ================= Part B: the forms over all intervals ================= *)

  (* ---- fsum helpers ---- *)
  Lemma fsum_nil (f : N -> F) : fsum f [] = f0.
  Proof. reflexivity. Qed.

  Lemma fold_add_ext_local (f g : N -> F) l :
    (forall k, In k l -> f k = g k) ->
    forall acc, fold_left (fun r k => r + f k) l acc = fold_left (fun r k => r + g k) l acc.
  Proof.
    induction l as [|x l IH]; intros H acc; cbn [fold_left]; [reflexivity|].
    rewrite (H x (or_introl eq_refl)). apply IH. intros k Hk. apply H. right. exact Hk.
  Qed.

  Lemma fsum_ext (f g : N -> F) l : (forall k, In k l -> f k = g k) -> fsum f l = fsum g l.
  Proof. intros H. unfold fsum. apply fold_add_ext_local. exact H. Qed.

  Lemma fold_add_add_local (f g : N -> F) l : forall a b,
    fold_left (fun r k => r + (f k + g k)) l (a + b)
    = fold_left (fun r k => r + f k) l a + fold_left (fun r k => r + g k) l b.
  Proof.
    induction l as [|x l IH]; intros a b; cbn [fold_left]; [reflexivity|].
    replace (a + b + (f x + g x)) with ((a + f x) + (b + g x)) by ring. apply IH.
  Qed.

  Lemma fsum_add (f g : N -> F) l : fsum (fun k => f k + g k) l = fsum f l + fsum g l.
  Proof.
    unfold fsum. rewrite <- fold_add_add_local.
    replace (f0 + f0) with (@f0 F K) by ring. reflexivity.
  Qed.

  Lemma fold_add_scale_local c (f : N -> F) l : forall a,
    fold_left (fun r k => r + c * f k) l (c * a) = c * fold_left (fun r k => r + f k) l a.
  Proof.
    induction l as [|x l IH]; intros a; cbn [fold_left]; [reflexivity|].
    replace (c * a + c * f x) with (c * (a + f x)) by ring. apply IH.
  Qed.

  Lemma fsum_scale c (f : N -> F) l : fsum (fun k => c * f k) l = c * fsum f l.
  Proof.
    unfold fsum. rewrite <- fold_add_scale_local.
    replace (c * f0) with (@f0 F K) by ring. reflexivity.
  Qed.

  Lemma fsum_app (f : N -> F) l1 l2 : fsum f (l1 ++ l2) = fsum f l1 + fsum f l2.
  Proof.
    unfold fsum. rewrite fold_left_app. generalize (fold_left (fun r k => r + f k) l1 f0) as a.
    induction l2 as [|x l2 IH] using rev_ind; intros a.
    - cbn [fold_left]. ring.
    - rewrite !fold_left_app. cbn [fold_left]. rewrite IH. ring.
  Qed.

  Lemma fsum_cons (f : N -> F) x l : fsum f (x :: l) = f x + fsum f l.
  Proof.
    change (x :: l) with ([x] ++ l). rewrite fsum_app. unfold fsum at 1. cbn [fold_left]. ring.
  Qed.

  (* ---- generic fold facts ---- *)
  Lemma fold_ok_local {A} (step : outcome F -> A -> outcome F) (g : A -> F) l :
    (forall r i, In i l -> step (Ok r) i = Ok (r + g i)) ->
    forall acc, fold_left step l (Ok acc) = Ok (fold_left (fun r i => r + g i) l acc).
  Proof.
    induction l as [|x l IH]; intros H acc; cbn [fold_left]; [reflexivity|].
    rewrite (H acc x (or_introl eq_refl)). apply IH. intros r i Hi. apply H. right. exact Hi.
  Qed.

  Lemma fold_left_map_local {A B C} (f : A -> B -> A) (h : C -> B) l : forall a,
    fold_left f (map h l) a = fold_left (fun r x => f r (h x)) l a.
  Proof. induction l as [|x l IH]; intros a; cbn [map fold_left]; [reflexivity | apply IH]. Qed.

  Lemma In_nrange_local n i : In i (nrange n) <-> (i < n)%N.
  Proof.
    unfold nrange. rewrite in_map_iff. split.
    - intros (j & <- & Hj). apply in_seq in Hj. lia.
    - intros H. exists (N.to_nat i). split; [lia|]. apply in_seq. lia.
  Qed.

  Lemma nrange_0_local : nrange 0 = [].
  Proof. reflexivity. Qed.

  (* ---- index facts ---- *)
  Lemma grid_sub_gnth (g : list F) k : (k < nlen g)%N -> grid_sub g k = Ok (gnth g k).
  Proof.
    intros H. unfold grid_sub, nnth, gnth, nlen in *.
    rewrite (nth_error_nth' g f0) by lia. reflexivity.
  Qed.

  Lemma sup_sub_gnth (s : support F) j k :
    SInv s -> k = (sstart s + j)%N -> (k < sstop s)%N -> sup_sub s j = Ok (gnth (sgrid s) k).
  Proof.
    intros Hs -> Hk. pose proof (SInv_bounds _ Hs) as B. unfold sup_sub.
    rewrite wadd_small by (unfold W; lia). apply grid_sub_gnth. lia.
  Qed.

  Lemma num_intervals_nintervals (s : support F) : SInv s -> num_intervals s = nintervals s.
  Proof. intros Hs. rewrite num_intervals_spec by exact Hs. reflexivity. Qed.

  Lemma nintervals_lt (s : support F) i :
    (i < nintervals s)%N -> (sstart s + i + 1 < sstop s)%N.
  Proof.
    unfold nintervals. destruct (sstop s - sstart s =? 0)%N eqn:E; lia.
  Qed.

  Lemma imem_interval_list (s : support F) k :
    In k (interval_list s) <-> imem k s.
  Proof.
    unfold interval_list, imem. rewrite in_map_iff. split.
    - intros (i & <- & Hi). apply In_nrange_local in Hi. apply nintervals_lt in Hi. lia.
    - intros [H1 H2]. exists (k - sstart s)%N. split; [lia|]. apply In_nrange_local.
      unfold nintervals. destruct (sstop s - sstart s =? 0)%N eqn:E; lia.
  Qed.

  Lemma coefs_at_piece (a : spline F) k j :
    SplInv a -> imem k (ssup a) -> j = (k - sstart (ssup a))%N -> coefs_at a j = Ok (piece a k).
  Proof.
    intros (Hs & Hg & Hn & Hc) [H1 H2] ->. unfold coefs_at, piece, sub.
    destruct ((sstart (ssup a) <=? k)%N && (k + 1 <? sstop (ssup a))%N) eqn:E; [|lia].
    rewrite (nth_error_nth' (scoefs a) []); [reflexivity|].
    unfold nlen, nintervals in Hn.
    destruct (sstop (ssup a) - sstart (ssup a) =? 0)%N eqn:E2; lia.
  Qed.

  (* ---- LinearForm ---- *)
  Lemma linear_spec o a (tr : N -> list F) :
    SplInv a ->
    (forall k, imem k (ssup a) ->
       transform o (piece a k) (sgridp a) k = Ok (tr k) /\ tr k <> []) ->
    linear o a
    = Ok (fsum (fun k => defint (tr k) (halfwidth (sgridp a) k)) (interval_list (ssup a))).
  Proof.
    intros Ha Htr. pose proof Ha as (Hs & Hg & Hn & Hc).
    unfold linear, fsum, interval_list, sgridp in *.
    rewrite num_intervals_nintervals by exact Hs.
    rewrite fold_left_map_local.
    apply fold_ok_local. intros r i Hi. apply In_nrange_local in Hi.
    apply nintervals_lt in Hi. pose proof (SInv_bounds _ Hs) as B.
    set (s := ssup a) in *. set (k := (sstart s + i)%N).
    assert (Hk : imem k s) by (unfold imem, k; lia).
    cbn [bind].
    rewrite abs_from_rel_spec by (assumption || unfold W; lia).
    destruct (i <? sstop s - sstart s)%N eqn:E; [|lia]. cbn [bind].
    rewrite (wadd_small i 1) by (unfold W; lia).
    rewrite (sup_sub_gnth s (i + 1) (k + 1)) by (assumption || unfold k; lia).
    rewrite (sup_sub_gnth s i k) by (assumption || unfold k; lia).
    cbn [bind].
    rewrite (coefs_at_piece a k i Ha Hk) by (unfold k; fold s; lia). cbn [bind].
    fold k. destruct (Htr k Hk) as [Ht Hne]. rewrite Ht. cbn [bind].
    rewrite lin_kernel_spec by exact Hne. cbn [bind]. reflexivity.
  Qed.

  Lemma linear_no_interval o a :
    SplInv a -> nintervals (ssup a) = 0%N -> linear o a = Ok f0.
  Proof.
    intros (Hs & _) H0. unfold linear.
    rewrite num_intervals_nintervals by exact Hs. rewrite H0. reflexivity.
  Qed.

  (* ---- BilinearForm ---- *)
  Lemma bilinear_differing o1 o2 a b :
    sgridp a <> sgridp b -> bilinear o1 o2 a b = Throw DIFFERING_GRIDS.
  Proof.
    intros H. unfold bilinear, sgridp in *. rewrite calc_inter_differing by exact H. reflexivity.
  Qed.

  Lemma bilinear_spec o1 o2 a b u (tr1 tr2 : N -> list F) :
    SplInv a -> SplInv b -> sgridp a = sgridp b ->
    calc_inter (ssup a) (ssup b) = Ok u ->
    (forall k, imem k u ->
       transform o1 (piece a k) (sgridp a) k = Ok (tr1 k) /\ tr1 k <> [] /\
       transform o2 (piece b k) (sgridp a) k = Ok (tr2 k) /\ tr2 k <> []) ->
    bilinear o1 o2 a b
    = Ok (fsum (fun k => defint (pmul (tr1 k) (tr2 k)) (halfwidth (sgridp a) k)) (interval_list u)).
  Proof.
    intros Ha Hb Hgab Hu Htr.
    pose proof Ha as (Hsa & Hga & Hna & Hca). pose proof Hb as (Hsb & Hgb & Hnb & Hcb).
    unfold sgridp in *.
    destruct (calc_inter_spec (ssup a) (ssup b) Hsa Hsb Hgab) as (u' & Hu' & Hsu & Hgu & Hmu).
    rewrite Hu in Hu'. injection Hu' as <-.
    unfold bilinear. rewrite Hu. cbn [bind].
    unfold fsum, interval_list.
    rewrite num_intervals_nintervals by exact Hsu.
    rewrite fold_left_map_local.
    apply fold_ok_local. intros r i Hi. apply In_nrange_local in Hi.
    apply nintervals_lt in Hi.
    pose proof (SInv_bounds _ Hsu) as Bu. pose proof (SInv_bounds _ Hsa) as Ba.
    pose proof (SInv_bounds _ Hsb) as Bb.
    set (k := (sstart u + i)%N).
    assert (Hk : imem k u) by (unfold imem, k; lia).
    assert (Hm1 : mem k u) by (unfold mem, k; lia).
    assert (Hm2 : mem (k + 1) u) by (unfold mem, k; lia).
    apply Hmu in Hm1 as [Hm1a Hm1b]. apply Hmu in Hm2 as [Hm2a Hm2b].
    unfold mem in Hm1a, Hm1b, Hm2a, Hm2b.
    assert (Hka : imem k (ssup a)) by (unfold imem; lia).
    assert (Hkb : imem k (ssup b)) by (unfold imem; lia).
    assert (HkW : (k < W)%N) by (unfold W; lia).
    cbn [bind].
    rewrite abs_from_rel_spec by (assumption || unfold W; lia).
    destruct (i <? sstop u - sstart u)%N eqn:E; [|lia]. cbn [bind]. fold k.
    rewrite (interval_index_spec (ssup a) k Hsa HkW).
    destruct ((sstart (ssup a) <=? k)%N && (k + 1 <? sstop (ssup a))%N) eqn:Ea; [|lia].
    cbn [value of_option bind].
    rewrite (interval_index_spec (ssup b) k Hsb HkW).
    destruct ((sstart (ssup b) <=? k)%N && (k + 1 <? sstop (ssup b))%N) eqn:Eb; [|lia].
    cbn [value of_option bind].
    rewrite (wadd_small (k - sstart (ssup a)) 1) by (unfold W; lia).
    rewrite (sup_sub_gnth (ssup a) (k - sstart (ssup a) + 1) (k + 1)) by (assumption || lia).
    rewrite (sup_sub_gnth (ssup a) (k - sstart (ssup a)) k) by (assumption || lia).
    cbn [bind].
    rewrite (coefs_at_piece a k _ Ha Hka eq_refl). cbn [bind].
    destruct (Htr k Hk) as (Ht1 & Hne1 & Ht2 & Hne2).
    rewrite Hgu, Ht1. cbn [bind].
    rewrite (coefs_at_piece b k _ Hb Hkb eq_refl). cbn [bind].
    rewrite Ht2. cbn [bind].
    rewrite bi_kernel_spec by assumption. cbn [bind]. reflexivity.
  Qed.

  Lemma bilinear_no_common o1 o2 a b u :
    SplInv a -> SplInv b -> sgridp a = sgridp b ->
    calc_inter (ssup a) (ssup b) = Ok u -> nintervals u = 0%N ->
    bilinear o1 o2 a b = Ok f0.
  Proof.
    intros (Hsa & _) (Hsb & _) Hgab Hu H0. unfold sgridp in *.
    destruct (calc_inter_spec (ssup a) (ssup b) Hsa Hsb Hgab) as (u' & Hu' & Hsu & Hgu & Hmu).
    rewrite Hu in Hu'. injection Hu' as <-.
    unfold bilinear. rewrite Hu. cbn [bind].
    rewrite num_intervals_nintervals by exact Hsu. rewrite H0. reflexivity.
  Qed.

End FormsProofs.

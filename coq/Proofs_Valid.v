(* Proofs_Valid.v — validation facts specific to C11: special floating-point
   values.  The iff-characterisations of the constructors (grid_ctor_iff etc.)
   need no order law, so they hold verbatim for the IEEE comparison structure
   [ext]; here: a NaN anywhere in a sequence is refused. *)
From Coq Require Import List Arith NArith ZArith Bool Lia.
From BSpl Require Import ListAux Scalar Outcome Support Spec Instances Instances_Ext Proofs_Support Proofs_Eval.
Import ListNotations.

Lemma nan_not_increasing (l : list ext) :
  (2 <= length l)%nat -> In NaN l -> ~ increasing (K:=ExtOps) l.
Proof.
  intros Hlen Hin Hinc.
  apply In_nth_error in Hin as [i Hi].
  assert (i < length l)%nat as Hil by (apply nth_error_Some; congruence).
  destruct (Nat.lt_ge_cases (S i) (length l)) as [Hs|Hs].
  - destruct (nth_error l (S i)) as [b|] eqn:Hb; [|apply nth_error_None in Hb; lia].
    pose proof (Hinc i NaN b Hi Hb) as H. cbn in H. discriminate.
  - destruct i as [|j]; [lia|].
    destruct (nth_error l j) as [a|] eqn:Ha; [|apply nth_error_None in Ha; lia].
    pose proof (Hinc j a NaN Ha Hi) as H. cbn in H. rewrite ext_ltb_nan_r in H. discriminate.
Qed.

Lemma grid_ctor_nan (l : list ext) :
  In NaN l ->
  grid_ctor (K:=ExtOps) l = Throw MISSING_DATA \/ grid_ctor (K:=ExtOps) l = Throw INCONSISTENT_DATA.
Proof.
  intros Hin. destruct (grid_ctor_cases (K:=ExtOps) l) as [H|[H|H]]; auto.
  exfalso.
  assert (exists g, grid_ctor (K:=ExtOps) l = Ok g) as Hex by eauto.
  apply grid_ctor_iff in Hex as [Hlen Hinc].
  apply (nan_not_increasing l); [unfold nlen in Hlen; lia | exact Hin | exact Hinc].
Qed.

Lemma grid_ctor_nan_long (l : list ext) :
  (2 <= length l)%nat -> In NaN l -> grid_ctor (K:=ExtOps) l = Throw INCONSISTENT_DATA.
Proof.
  intros Hlen Hin. apply grid_ctor_inconsistent. split; [unfold nlen; lia|].
  apply nan_not_increasing; assumption.
Qed.

(* The defect repaired by the fix of D2, kept as a witness: with the old test
   `a[i-1] >= a[i]` (false whenever NaN is involved) the sequence 2, NaN, 1 passed. *)
Definition steadily_old {F} {K : Ops F} : list F -> bool :=
  fix go l := match l with
              | a :: ((b :: _) as r) => if fgeb a b then false else go r
              | _ => true
              end.
Example D2_old_test_accepts_nan :
  steadily_old (K:=ExtOps) [Fin (qc 2%Z 1%positive); NaN; Fin (qc 1%Z 1%positive)] = true /\
  steadily (K:=ExtOps) [Fin (qc 2%Z 1%positive); NaN; Fin (qc 1%Z 1%positive)] = false.
Proof. split; vm_compute; reflexivity. Qed.

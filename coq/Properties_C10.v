(* Properties_C10.v — C10: objects are always valid: class invariants survive every history.
   Statements only: every theorem is closed by [exact <lemma>] and followed by
   Print Assumptions.  The statements quantify over every scalar structure
   (F, K : Ops F) that satisfies the ordered-field laws (Laws K), and over all
   grids, windows, orders, coefficient values, expressions etc. named in them.
 *)
From Coq Require Import List NArith ZArith Arith Bool.
From BSpl Require Import Scalar Outcome Support Poly Spline Ops Forms Generator Interp Spec Spec_Ops Spec_Gen Proofs_Support Proofs_Scalar Proofs_Poly Proofs_Binom Proofs_Eval Proofs_Outcome Proofs_Spline Proofs_Forms Proofs_Ops Proofs_Forms2 Proofs_Interp Proofs_Pred Proofs_Gen Instances Instances_Ext Proofs_Valid Solver Pool Quad Proofs_Pool Proofs_Quad Proofs_Rounded Proofs_Threads Proofs_Updates Examples Proofs_Examples Proofs_Analysis Proofs_Smooth Proofs_Laws.
Import ListNotations.


Theorem C10_init :
    forall (F : Type) (K : Ops F), StInv [].
Proof. exact (@Proofs_Pool.inv_init). Qed.

Theorem C10_writes_valid :
    forall (F : Type) (K : Ops F),
           Laws K ->
           forall solver : nat -> list (row F) -> list F,
           (forall sys : list (row F), length (solver (length sys) sys) = length sys) ->
           forall (st : state F) (o : op F) (ws : list (nat * obj F)) (r : obs F),
           StInv st ->
           op_sized o -> eval_op solver st o = Ok (ws, r) -> Forall (fun w : nat * obj F => ObjInv (snd w)) ws.
Proof. exact (@Proofs_Pool.eval_op_inv). Qed.

Theorem C10_step :
    forall (F : Type) (K : Ops F),
           Laws K ->
           forall solver : nat -> list (row F) -> list F,
           (forall sys : list (row F), length (solver (length sys) sys) = length sys) ->
           forall (st : state F) (o : op F), StInv st -> op_sized o -> StInv (fst (step solver st o)).
Proof. exact (@Proofs_Pool.inv_step). Qed.

Theorem C10_run :
    forall (F : Type) (K : Ops F),
           Laws K ->
           forall solver : nat -> list (row F) -> list F,
           (forall sys : list (row F), length (solver (length sys) sys) = length sys) ->
           forall (ops : list (op F)) (st : state F),
           StInv st -> Forall op_sized ops -> StInv (fst (run solver st ops)).
Proof. exact (@Proofs_Pool.inv_run). Qed.

Theorem C10_history :
    forall (F : Type) (K : Ops F),
           Laws K ->
           forall solver : nat -> list (row F) -> list F,
           (forall sys : list (row F), length (solver (length sys) sys) = length sys) ->
           forall ops : list (op F), Forall op_sized ops -> StInv (fst (run solver [] ops)).
Proof. exact (@Proofs_Pool.inv_history). Qed.

Theorem C10_history_with_model_solver :
    forall ops : list (op Qcanon.Qc), Forall op_sized ops -> StInv (fst (run gauss_solve [] ops)).
Proof. exact (@Proofs_Pool.inv_history_gauss). Qed.

Theorem C10_moved_from_support :
    forall (F : Type) (K : Ops F) (solver : nat -> list (row F) -> list F) (st : state F) 
             (d a : nat) (s : support F),
           d <> a ->
           lookup st a = Some (VSup s) ->
           lookup (fst (step solver st (SupMove d a))) a = Some (VSup (sup_empty_on (sgrid s))) /\
           lookup (fst (step solver st (SupMove d a))) d = Some (VSup s).
Proof. exact (@Proofs_Pool.moved_from_sup). Qed.

Theorem C10_moved_from_support_assign :
    forall (F : Type) (K : Ops F) (solver : nat -> list (row F) -> list F) (st : state F) 
             (d a : nat) (s t : support F),
           lookup st d = Some (VSup t) ->
           lookup st a = Some (VSup s) ->
           lookup (fst (step solver st (SupMoveAssign d a))) a = Some (VSup (sup_empty_on (sgrid s))) /\
           (d <> a -> lookup (fst (step solver st (SupMoveAssign d a))) d = Some (VSup s)).
Proof. exact (@Proofs_Pool.moved_from_sup_assign). Qed.

Theorem C10_moved_from_spline :
    forall (F : Type) (K : Ops F) (solver : nat -> list (row F) -> list F) (st : state F) 
             (d a : nat) (s : spline F),
           d <> a ->
           lookup st a = Some (VSpl s) ->
           lookup (fst (step solver st (SplMove d a))) a =
           Some (VSpl {| ssup := sup_empty_on (sgrid (ssup s)); sord := sord s; scoefs := [] |}) /\
           lookup (fst (step solver st (SplMove d a))) d = Some (VSpl s).
Proof. exact (@Proofs_Pool.moved_from_spl). Qed.

Theorem C10_moved_from_spline_assign :
    forall (F : Type) (K : Ops F) (solver : nat -> list (row F) -> list F) (st : state F) 
             (d a : nat) (s t : spline F),
           lookup st d = Some (VSpl t) ->
           lookup st a = Some (VSpl s) ->
           sord t = sord s ->
           lookup (fst (step solver st (SplMoveAssign d a))) a =
           Some (VSpl {| ssup := sup_empty_on (sgrid (ssup s)); sord := sord s; scoefs := [] |}) /\
           (d <> a -> lookup (fst (step solver st (SplMoveAssign d a))) d = Some (VSpl s)).
Proof. exact (@Proofs_Pool.moved_from_spl_assign). Qed.

Theorem C10_moved_from_support_valid :
    forall (F : Type) (K : Ops F) (s : support F),
           ObjInv (VSup s) ->
           ObjInv (VSup (sup_empty_on (sgrid s))) /\
           sgrid (sup_empty_on (sgrid s)) = sgrid s /\ nintervals (sup_empty_on (sgrid s)) = 0%N.
Proof. exact (@Proofs_Pool.moved_from_valid_sup). Qed.

Theorem C10_moved_from_spline_valid :
    forall (F : Type) (K : Ops F) (s : spline F),
           ObjInv (VSpl s) ->
           let m := {| ssup := sup_empty_on (sgrid (ssup s)); sord := sord s; scoefs := [] |} in
           ObjInv (VSpl m) /\ sgridp m = sgridp s /\ sord m = sord s /\ scoefs m = [].
Proof. exact (@Proofs_Pool.moved_from_valid_spl). Qed.

Theorem C10_size_bound_needed :
    forall (F : Type) (K : Ops F), Laws K -> exists pts : list F, grid_ctor pts = Ok pts /\ ~ GInv pts.
Proof. exact (@Proofs_Pool.grid_size_bound_needed). Qed.


Print Assumptions C10_init.
Print Assumptions C10_writes_valid.
Print Assumptions C10_step.
Print Assumptions C10_run.
Print Assumptions C10_history.
Print Assumptions C10_history_with_model_solver.
Print Assumptions C10_moved_from_support.
Print Assumptions C10_moved_from_support_assign.
Print Assumptions C10_moved_from_spline.
Print Assumptions C10_moved_from_spline_assign.
Print Assumptions C10_moved_from_support_valid.
Print Assumptions C10_moved_from_spline_valid.
Print Assumptions C10_size_bound_needed.

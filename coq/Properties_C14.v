(* Properties_C14.v — C14: value semantics: operations never disturb their operands or earlier results.
   Statements only: every theorem is closed by [exact <lemma>] and followed by
   Print Assumptions.  The statements quantify over every scalar structure
   (F, K : Ops F) that satisfies the ordered-field laws (Laws K), and over all
   grids, windows, orders, coefficient values, expressions etc. named in them.
 *)
From Coq Require Import List NArith ZArith Arith Bool.
From BSpl Require Import Scalar Outcome Support Poly Spline Ops Forms Generator Interp Spec Spec_Ops Spec_Gen Proofs_Support Proofs_Scalar Proofs_Poly Proofs_Binom Proofs_Eval Proofs_Outcome Proofs_Spline Proofs_Forms Proofs_Ops Proofs_Forms2 Proofs_Interp Proofs_Pred Proofs_Gen Instances Instances_Ext Proofs_Valid Solver Pool Quad Proofs_Pool Proofs_Quad Proofs_Rounded Proofs_Threads Proofs_Updates Examples Proofs_Examples Proofs_Analysis Proofs_Smooth Proofs_Laws.
Import ListNotations.


Theorem C14_frame :
    forall (F : Type) (K : Ops F) (solver : nat -> list (row F) -> list F) (st : state F) 
             (o : op F) (i : nat), ~ In i (targets o) -> lookup (fst (step solver st o)) i = lookup st i.
Proof. exact (@Proofs_Pool.frame). Qed.

Theorem C14_frame_history :
    forall (F : Type) (K : Ops F) (solver : nat -> list (row F) -> list F) (ops : list (op F))
             (st : state F) (i : nat),
           (forall o : op F, In o ops -> ~ In i (targets o)) -> lookup (fst (run solver st ops)) i = lookup st i.
Proof. exact (@Proofs_Pool.frame_run). Qed.

Theorem C14_writes_are_targets :
    forall (F : Type) (K : Ops F) (solver : nat -> list (row F) -> list F) (st : state F) 
             (o : op F) (ws : list (nat * obj F)) (r : obs F),
           eval_op solver st o = Ok (ws, r) -> forall w : nat * obj F, In w ws -> In (fst w) (targets o).
Proof. exact (@Proofs_Pool.eval_op_targets). Qed.

Theorem C14_throw_changes_nothing :
    forall (F : Type) (K : Ops F) (solver : nat -> list (row F) -> list F) (st : state F) 
             (o : op F) (e : err), snd (step solver st o) = Throw e -> fst (step solver st o) = st.
Proof. exact (@Proofs_Pool.throw_changes_nothing). Qed.

Theorem C14_ub_changes_nothing :
    forall (F : Type) (K : Ops F) (solver : nat -> list (row F) -> list F) (st : state F) 
             (o : op F) (k : ub), snd (step solver st o) = UB k -> fst (step solver st o) = st.
Proof. exact (@Proofs_Pool.ub_changes_nothing). Qed.

Theorem C14_observers_change_nothing :
    forall (F : Type) (K : Ops F) (solver : nat -> list (row F) -> list F) (st : state F) (o : op F),
           targets o = [] -> forall i : nat, lookup (fst (step solver st o)) i = lookup st i.
Proof. exact (@Proofs_Pool.observers_change_nothing). Qed.

Theorem C14_copy_independent :
    forall (F : Type) (K : Ops F) (solver : nat -> list (row F) -> list F) (st : state F) 
             (d a : nat) (o : op F),
           d <> a ->
           ~ In a (targets o) ->
           lookup (fst (step solver (fst (step solver st (SplCopy d a))) o)) a = lookup st a.
Proof. exact (@Proofs_Pool.copy_independent). Qed.

Theorem C14_copy_value :
    forall (F : Type) (K : Ops F) (solver : nat -> list (row F) -> list F) (st : state F) 
             (d a : nat) (s : spline F),
           lookup st a = Some (VSpl s) ->
           (forall t : spline F, lookup st d = Some (VSpl t) -> sord t = sord s) ->
           lookup (fst (step solver st (SplCopy d a))) d = Some (VSpl s).
Proof. exact (@Proofs_Pool.copy_value). Qed.


Print Assumptions C14_frame.
Print Assumptions C14_frame_history.
Print Assumptions C14_writes_are_targets.
Print Assumptions C14_throw_changes_nothing.
Print Assumptions C14_ub_changes_nothing.
Print Assumptions C14_observers_change_nothing.
Print Assumptions C14_copy_independent.
Print Assumptions C14_copy_value.

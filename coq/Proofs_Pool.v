(* Proofs_Pool.v — properties of ALL finite histories of the state machine of
   Pool.v:
     C10  every live object is always valid (class invariants are preserved by
          every operation, including failed ones and moves):
          [eval_op_inv], [inv_step], [inv_run], [inv_history], [moved_from_*];
     C14  value semantics (an operation changes only its target slots; a
          throwing operation changes nothing):
          [frame], [frame_run], [throw_changes_nothing], [ub_changes_nothing],
          [observers_change_nothing], [copy_independent], [copy_value];
     C08  operations across different grids are refused and change nothing:
          [c08_*];
     C09  no undefined behaviour on well-typed operations over a valid state:
          [no_ub], [no_ub_history], [transform_total].

   Layout: generic facts about outcomes; Section PoolPure (everything that does
   not mention the solver: vocabulary [ObjInv] [StInv] [targets] [op_sized]
   [op_typed], what each library function returns on valid arguments);
   Section PoolFacts (the state machine, for a solver [solver] about which only
   [solver_len] is assumed); then [gauss_solve_len], the witness
   [eval_op_inv_size_needed] and examples over Qc.

   Deviations from the statements as first written down, each forced by a
   counterexample recorded in this file:
   - [eval_op_inv], [inv_step], [inv_run], [inv_history] assume [op_sized]:
     list arguments that become a NEW grid are shorter than 2^63
     ([eval_op_inv_size_needed]);
   - [moved_from_sup], [moved_from_spl] (move CONSTRUCTION d <- a) assume
     d <> a ([sup_move_same_slot]); the move ASSIGNMENTS hold for d = a too;
   - [solver_len] is only assumed for the square case n = length sys: the
     rectangular form is false for [gauss_solve]
     ([gauss_solve_not_rectangular]), the square one holds ([gauss_solve_len]). *)
From Coq Require Import List Arith NArith ZArith Bool Lia ZifyBool ZifyN.
From BSpl Require Import ListAux Scalar Outcome Support Poly Spline Ops Forms Generator
  Interp Solver Pool Spec Spec_Ops Spec_Gen
  Proofs_Support Proofs_Scalar Proofs_Outcome Proofs_Poly Proofs_Binom Proofs_Eval
  Proofs_Spline Proofs_Ops Proofs_Forms Proofs_Forms2 Proofs_Interp Proofs_Pred Proofs_Gen.
Import ListNotations.

Ltac Zify.zify_post_hook ::= Z.div_mod_to_equations.

(* ---- generic facts about outcomes (no scalar structure involved) ---- *)

(* library exceptions, as opposed to the two standard-library ones that
   signal an internal error of the library *)
Definition lib_err (e : err) : Prop :=
  match e with BadOptionalAccess | StdOutOfRange => False | _ => True end.

(* [m] is not undefined behaviour and not an internal error; a returned value
   satisfies [P] *)
Definition okP {A} (P : A -> Prop) (m : outcome A) : Prop :=
  match m with Ok a => P a | Throw e => lib_err e | UB _ => False end.

Notation safe m := (okP (fun _ => True) m).

Lemma okP_ok {A} (P : A -> Prop) m a : okP P m -> m = Ok a -> P a.
Proof. intros H ->. exact H. Qed.

Lemma okP_bind {A B} (P : A -> Prop) (Q : B -> Prop) (m : outcome A) (f : A -> outcome B) :
  okP P m -> (forall a, m = Ok a -> P a -> okP Q (f a)) -> okP Q (bind m f).
Proof. destruct m as [a|e|k]; cbn [okP bind]; intros H Hf; [apply Hf; auto | exact H | exact H]. Qed.

Lemma okP_impl {A} (P Q : A -> Prop) m : okP P m -> (forall a, m = Ok a -> P a -> Q a) -> okP Q m.
Proof. destruct m as [a|e|k]; cbn [okP]; intros H Hf; [apply Hf; auto | exact H | exact H]. Qed.

Lemma okP_of_ex {A} (P : A -> Prop) m : (exists a, m = Ok a /\ P a) -> okP P m.
Proof. intros (a & -> & H). exact H. Qed.

Lemma omapM_okP {A B} (f : A -> outcome B) (P : B -> Prop) l :
  (forall a, In a l -> okP P (f a)) ->
  okP (fun r => length r = length l /\ Forall P r) (omapM f l).
Proof.
  induction l as [|a l IH]; intros H.
  - cbn. split; [reflexivity | constructor].
  - rewrite omapM_cons. apply (okP_bind P); [apply H; left; reflexivity|].
    intros b _ Hb. apply (okP_bind (fun r => length r = length l /\ Forall P r)).
    + apply IH. intros a' Ha'. apply H. right. exact Ha'.
    + intros bs _ [Hl Hbs]. cbn [okP length]. split; [congruence | constructor; assumption].
Qed.

Lemma nonnil_len {A} (l : list A) : l <> [] -> (1 <= length l)%nat.
Proof. destruct l; [contradiction | cbn [length]; lia]. Qed.

Lemma len_nonnil {A} (l : list A) n : length l = (n + 1)%nat -> l <> [].
Proof. intros H E. rewrite E in H. cbn [length] in H. lia. Qed.

Lemma neq_eqb (a d : nat) : d <> a -> (a =? d)%nat = false /\ (d =? a)%nat = false.
Proof. intros H. split; apply Nat.eqb_neq; congruence. Qed.

Lemma okP_weaken {A} (P : A -> Prop) (m : outcome A) : okP P m -> safe m.
Proof. intros H. apply (okP_impl P); [exact H | auto]. Qed.

Lemma safe_bind {A B} (m : outcome A) (f : A -> outcome B) :
  safe m -> (forall a, m = Ok a -> safe (f a)) -> safe (bind m f).
Proof. intros Hm Hf. apply (okP_bind (fun _ => True)); [exact Hm | auto]. Qed.

Lemma fold_bind_safe {A B} (body : A -> B -> outcome A) (l : list B) :
  (forall r i, In i l -> safe (body r i)) ->
  forall init, safe init ->
  safe (fold_left (fun acc i => bind acc (fun r => body r i)) l init).
Proof.
  induction l as [|i l IH]; intros H init Hi; cbn [fold_left]; [exact Hi|].
  apply IH; [intros r j Hj; apply H; right; exact Hj|].
  apply safe_bind; [exact Hi|]. intros r _. apply H. left. reflexivity.
Qed.

Lemma safe_last {A B} (m : outcome A) (f : A -> outcome B) :
  safe m -> (forall a, safe (f a)) -> safe (bind m f).
Proof. intros Hm Hf. apply safe_bind; [exact Hm | intros a _; apply Hf]. Qed.

(* ================================================================== *)
(* Section 1: facts that do not involve the solver                      *)
(* ================================================================== *)
Section PoolPure.
  Context {F : Type} {K : Ops F} {L : Laws K}.

  (* ================================================================== *)
  (* Specification vocabulary                                           *)
  (* ================================================================== *)
  (* validity of one stored object: the class invariant of its C++ class.  A
     support additionally lives on a valid grid (it shares ownership of one). *)
  Definition ObjInv (o : obj F) : Prop :=
    match o with
    | VGrid g => GInv g
    | VSup s => SInv s /\ GInv (sgrid s)
    | VSpl s => SplInv s
    end.

  (* every live object is valid *)
  Definition StInv (st : state F) : Prop :=
    forall i o, lookup st i = Some o -> ObjInv o.

  (* the slots an operation may write *)
  Definition targets (o : op F) : list nat :=
    match o with
    | GridNew d _ | GridCopy d _ => [d]
    | SupNew d _ _ _ => [d]
    | SupEmpty d _ | SupWhole d _ | SupCopy d _ | SupGrid d _ => [d]
    | SupMove d a | SupMoveAssign d a => [d; a]
    | SupUnion d _ _ | SupInter d _ _ => [d]
    | SplNew d _ _ _ => [d]
    | SplEmpty d _ _ => [d]
    | SplCopy d _ | SplAssignUp d _ | SplNeg d _ | SplSupport d _ => [d]
    | SplMove d a | SplMoveAssign d a => [d; a]
    | SplScale d _ _ | SplDiv d _ _ => [d]
    | SplScaleL d _ _ => [d]
    | SplIMul a _ | SplIDiv a _ => [a]
    | SplAdd d _ _ | SplSub d _ _ | SplMul d _ _ => [d]
    | SplIAdd a _ | SplISub a _ => [a]
    | SplLinComb d _ _ => [d]
    | Apply d _ _ => [d]
    | Gen1 d0 order knots => seq d0 (length knots - order - 1)
    | Gen2 d0 order knots _ => seq d0 (length knots - order - 1)
    | Interp d _ _ _ _ => [d]
    | InterpDefault d _ _ _ => [d]
    | _ => []
    end.

  (* ================================================================== *)
  (* The store                                                          *)
  (* ================================================================== *)
  Lemma lookup_write (st : state F) j o i :
    lookup (write st (j, o)) i = if (i =? j)%nat then Some o else lookup st i.
  Proof. reflexivity. Qed.

  Lemma commit_nil (st : state F) : commit st [] = st.
  Proof. reflexivity. Qed.

  Lemma commit_cons (st : state F) w ws : commit st (w :: ws) = commit (write st w) ws.
  Proof. reflexivity. Qed.

  (* a slot not written keeps its binding *)
  Lemma lookup_commit_other (ws : list (nat * obj F)) : forall (st : state F) i,
    (forall w, In w ws -> fst w <> i) -> lookup (commit st ws) i = lookup st i.
  Proof.
    induction ws as [|[j o] ws IH]; intros st i H; [reflexivity|].
    rewrite commit_cons, IH by (intros w Hw; apply H; right; exact Hw).
    rewrite lookup_write.
    destruct (Nat.eqb_spec i j) as [->|Hne]; [|reflexivity].
    exfalso. apply (H (j, o)); [left; reflexivity | reflexivity].
  Qed.

  (* the last write to a slot wins *)
  Lemma lookup_commit_last (ws : list (nat * obj F)) (st : state F) j o :
    lookup (commit st (ws ++ [(j, o)])) j = Some o.
  Proof.
    unfold commit. rewrite fold_left_app. cbn [fold_left].
    rewrite lookup_write, Nat.eqb_refl. reflexivity.
  Qed.

  Lemma inv_init : StInv [].
  Proof. intros i o H. discriminate. Qed.

  Lemma inv_write (st : state F) w : StInv st -> ObjInv (snd w) -> StInv (write st w).
  Proof.
    intros Hst Hw i o. destruct w as [j v]. rewrite lookup_write.
    destruct (i =? j)%nat; [intros [= <-]; exact Hw | apply Hst].
  Qed.

  Lemma inv_commit (ws : list (nat * obj F)) : forall st : state F,
    StInv st -> Forall (fun w => ObjInv (snd w)) ws -> StInv (commit st ws).
  Proof.
    induction ws as [|w ws IH]; intros st Hst Hws; [exact Hst|].
    apply Forall_cons_iff in Hws as [Hw Hws]. rewrite commit_cons.
    apply IH; [apply inv_write; assumption | exact Hws].
  Qed.

  (* typed slot access *)
  Lemma get_grid_ok (st : state F) i g : get_grid st i = Ok g <-> lookup st i = Some (VGrid g).
  Proof.
    unfold get_grid. destruct (lookup st i) as [[g'|s|s]|]; split; intros H; try discriminate;
      injection H as <-; reflexivity.
  Qed.

  Lemma get_sup_ok (st : state F) i s : get_sup st i = Ok s <-> lookup st i = Some (VSup s).
  Proof.
    unfold get_sup. destruct (lookup st i) as [[g|s'|s']|]; split; intros H; try discriminate;
      injection H as <-; reflexivity.
  Qed.

  Lemma get_spl_ok (st : state F) i s : get_spl st i = Ok s <-> lookup st i = Some (VSpl s).
  Proof.
    unfold get_spl. destruct (lookup st i) as [[g|s'|s']|]; split; intros H; try discriminate;
      injection H as <-; reflexivity.
  Qed.

  Lemma get_grid_inv (st : state F) i g : StInv st -> get_grid st i = Ok g -> GInv g.
  Proof. intros Hst H. apply get_grid_ok in H. exact (Hst _ _ H). Qed.

  Lemma get_sup_inv (st : state F) i s : StInv st -> get_sup st i = Ok s -> SInv s /\ GInv (sgrid s).
  Proof. intros Hst H. apply get_sup_ok in H. exact (Hst _ _ H). Qed.

  Lemma get_spl_inv (st : state F) i s : StInv st -> get_spl st i = Ok s -> SplInv s.
  Proof. intros Hst H. apply get_spl_ok in H. exact (Hst _ _ H). Qed.

  (* ---- a predicate on the writes of an operation, compositional in [bind] ---- *)
  Definition wr_all (Q : list (nat * obj F) -> Prop)
             (m : outcome (list (nat * obj F) * obs F)) : Prop :=
    forall ws r, m = Ok (ws, r) -> Q ws.

  Lemma wr_bind {A} (Q : list (nat * obj F) -> Prop) (m : outcome A) f :
    (forall a, m = Ok a -> wr_all Q (f a)) -> wr_all Q (bind m f).
  Proof.
    intros H ws r E. apply bind_ok_inv in E as (a & Ea & E). exact (H a Ea ws r E).
  Qed.

  Lemma wr_ret (Q : list (nat * obj F) -> Prop) ws r : Q ws -> wr_all Q (ret ws r).
  Proof. intros H ws' r' [= <- <-]. exact H. Qed.

  Lemma wr_ub (Q : list (nat * obj F) -> Prop) k : wr_all Q (UB k).
  Proof. intros ws r E. discriminate. Qed.

  Lemma wr_throw (Q : list (nat * obj F) -> Prop) e : wr_all Q (Throw e).
  Proof. intros ws r E. discriminate. Qed.

  Lemma wr_if (Q : list (nat * obj F) -> Prop) (c : bool) m1 m2 :
    (c = true -> wr_all Q m1) -> (c = false -> wr_all Q m2) -> wr_all Q (if c then m1 else m2).
  Proof. destruct c; auto. Qed.

  (* the length of a generated list, whatever the knots *)
  Lemma generate_length (gn : generator) p l :
    generate gn p = Ok l -> length l = (length (gknots gn) - p - 1)%nat.
  Proof.
    rewrite generate_unfold.
    destruct (length (gknots gn) <? p + 1)%nat; [discriminate|].
    destruct p as [|q].
    - rewrite gen0_unfold. intros H. apply omapM_length in H. rewrite H, seq_length. lia.
    - intros H. apply bind_ok_inv in H as (lower & _ & H).
      apply omapM_length in H. rewrite H, seq_length. lia.
  Qed.

  Lemma In_store_splines d0 (l : list (spline F)) w :
    In w (store_splines d0 l) -> exists i, (i < length l)%nat /\ fst w = (d0 + i)%nat /\
                                           exists s, nth_error l i = Some s /\ snd w = VSpl s.
  Proof.
    unfold store_splines. intros H. apply in_map_iff in H as ([i s] & <- & H).
    apply In_nth_error in H as [n Hn].
    assert (n < length (combine (seq 0 (length l)) l))%nat as Hlt
      by (apply nth_error_Some; congruence).
    rewrite combine_length, seq_length, Nat.min_id in Hlt.
    destruct (nth_error l n) as [s'|] eqn:Es; [|apply nth_error_None in Es; lia].
    rewrite (nth_error_combine _ _ n n s') in Hn;
      [|rewrite nth_error_seq by exact Hlt; reflexivity | exact Es].
    injection Hn as <- <-. exists n. cbn [fst snd]. eauto.
  Qed.

  (* ================================================================== *)
  (* What the library functions return on valid arguments               *)
  (* ================================================================== *)
  (* grids of two objects: equal or not *)
  Lemma grid_eq_dec (g h : list F) : g = h \/ g <> h.
  Proof.
    destruct (grid_eqb g h) eqn:E; [left; apply grid_eqb_eq; exact E|].
    right. intros H. apply grid_eqb_eq in H. congruence.
  Qed.

  (* ---- grids and supports ---- *)
  Lemma grid_ctor_inv (l g : list F) :
    (nlen l < 2 ^ 63)%N -> grid_ctor l = Ok g -> GInv g.
  Proof.
    intros Hl H. pose proof (grid_ctor_ok _ _ H) as ->.
    destruct (proj1 (grid_ctor_iff l) (ex_intro _ _ H)) as [H2 Hinc].
    split; [exact H2|]. split; assumption.
  Qed.

  Lemma grid_ctor_okP (l : list F) : okP (fun g => g = l) (grid_ctor l).
  Proof. destruct (grid_ctor_cases l) as [->|[->| ->]]; cbn; auto. Qed.

  Lemma sup_ctor_okP (g : list F) a b :
    (nlen g < 2 ^ 63)%N -> okP (fun s => SInv s /\ sgrid s = g) (sup_ctor g a b).
  Proof.
    intros Hg. unfold sup_ctor. destruct (sup_valid (mkSup g a b)) eqn:E; cbn [okP lib_err]; [|exact I].
    apply sup_valid_iff in E. split; [|reflexivity]. split; [exact Hg | exact E].
  Qed.

  Lemma sup_empty_on_SInv (g : list F) : GInv g -> SInv (sup_empty_on g).
  Proof. apply GInv_SInv_empty. Qed.

  Theorem sup_empty_on_inv (g : list F) : GInv g -> ObjInv (VSup (sup_empty_on g)).
  Proof. intros Hg. split; [apply sup_empty_on_SInv; exact Hg | exact Hg]. Qed.

  Lemma moved_from_spl_inv (s : spline F) :
    SplInv s -> ObjInv (VSpl (mkSpl (sup_empty_on (sgrid (ssup s))) (sord s) [])).
  Proof. intros (_ & Hg & _). apply spl_empty_inv. exact Hg. Qed.

  Lemma calc_union_okP (s t : support F) : SInv s -> SInv t ->
    okP (fun u => SInv u /\ sgrid u = sgrid s) (calc_union s t).
  Proof.
    intros Hs Ht. destruct (grid_eq_dec (sgrid s) (sgrid t)) as [Hg|Hg].
    - destruct (calc_union_spec s t Hs Ht Hg) as (u & -> & Hu & Gu & _). cbn. auto.
    - rewrite calc_union_differing by exact Hg. exact I.
  Qed.

  Lemma calc_inter_okP (s t : support F) : SInv s -> SInv t ->
    okP (fun u => SInv u /\ sgrid u = sgrid s) (calc_inter s t).
  Proof.
    intros Hs Ht. destruct (grid_eq_dec (sgrid s) (sgrid t)) as [Hg|Hg].
    - destruct (calc_inter_spec s t Hs Ht Hg) as (u & -> & Hu & Gu & _). cbn. auto.
    - rewrite calc_inter_differing by exact Hg. exact I.
  Qed.

  (* ---- spline constructors ---- *)
  Lemma spl_ctor_okP ord (s : support F) (cs : list (list F)) :
    SInv s -> GInv (sgrid s) -> Forall (fun c => length c = (ord + 1)%nat) cs ->
    okP (fun r => SplInv r /\ ssup r = s /\ sord r = ord) (spl_ctor ord s cs).
  Proof.
    intros Hs Hg Hc. unfold spl_ctor.
    destruct (spl_valid s (nlen cs)) eqn:E; cbn [okP lib_err]; [|exact I].
    apply spl_valid_iff in E; [|exact Hs].
    split; [|split; reflexivity]. unfold SplInv. cbn [ssup sord scoefs]. auto.
  Qed.

  Lemma spl_empty_okP ord (g : list F) : GInv g -> okP (@SplInv F K) (spl_empty ord g).
  Proof. intros Hg. rewrite spl_empty_ok by exact Hg. apply spl_empty_inv. exact Hg. Qed.

  Lemma spl_assign_up_okP ord (a : spline F) : SplInv a -> (sord a <= ord)%nat ->
    okP (fun r => SplInv r /\ sord r = ord) (spl_assign_up ord a).
  Proof.
    intros Ha Ho. destruct (spl_assign_up_spec ord a Ha Ho) as (r & -> & Hr & Or & _). cbn. auto.
  Qed.

  Lemma spl_div_inv (s r : spline F) d : SplInv s -> spl_div s d = Ok r -> SplInv r.
  Proof.
    intros Hs. unfold spl_div. destruct (feqb d f0); [discriminate|].
    intros [= <-]. apply spl_scale_inv. exact Hs.
  Qed.

  (* ---- spline arithmetic ---- *)
  Lemma spl_add_okP (a b : spline F) : SplInv a -> SplInv b -> okP (@SplInv F K) (spl_add a b).
  Proof.
    intros Ha Hb. destruct (grid_eq_dec (sgridp a) (sgridp b)) as [Hg|Hg].
    - destruct (spl_add_spec a b Ha Hb Hg) as (u & r & _ & -> & Hr & _). exact Hr.
    - rewrite spl_add_differing by exact Hg. exact I.
  Qed.

  Lemma spl_sub_okP (a b : spline F) : SplInv a -> SplInv b -> okP (@SplInv F K) (spl_sub a b).
  Proof. intros Ha Hb. unfold spl_sub. apply spl_add_okP; [exact Ha | apply spl_scale_l_inv; exact Hb]. Qed.

  Lemma spl_mul_okP (a b : spline F) : SplInv a -> SplInv b -> okP (@SplInv F K) (spl_mul a b).
  Proof.
    intros Ha Hb. destruct (grid_eq_dec (sgridp a) (sgridp b)) as [Hg|Hg].
    - destruct (spl_mul_spec a b Ha Hb Hg) as (u & r & _ & -> & Hr & _). exact Hr.
    - rewrite spl_mul_differing by exact Hg. exact I.
  Qed.

  Lemma spl_iadd_inv (a b r : spline F) : SplInv a -> SplInv b -> spl_iadd a b = Ok r -> SplInv r.
  Proof.
    intros Ha Hb. unfold spl_iadd. destruct (sord a <? sord b)%nat; [discriminate|].
    apply (okP_ok _ _ _ (spl_add_okP a b Ha Hb)).
  Qed.

  Lemma spl_isub_inv (a b r : spline F) : SplInv a -> SplInv b -> spl_isub a b = Ok r -> SplInv r.
  Proof.
    intros Ha Hb. unfold spl_isub. destruct (sord a <? sord b)%nat; [discriminate|].
    apply spl_iadd_inv; [exact Ha | apply spl_scale_l_inv; exact Hb].
  Qed.

  Lemma lin_comb_okP (cs : list F) (l : list (spline F)) :
    Forall (@SplInv F K) l ->
    (forall s0 s, nth_error l 0 = Some s0 -> In s l -> sord s = sord s0) ->
    okP (@SplInv F K) (lin_comb cs l).
  Proof.
    intros Hl Ho. unfold lin_comb.
    destruct (Nat.eqb_spec (length cs) (length l)) as [Hlen|Hlen]; cbn [negb okP lib_err]; [|exact I].
    destruct l as [|s0 rest]; [exact I|].
    destruct (forallb (fun s => has_same_grid (ssup s) (ssup s0)) (s0 :: rest)) eqn:E;
      cbn [negb]; [|exact I].
    rewrite forallb_forall in E.
    destruct (lin_comb_spec cs s0 rest Hlen Hl) as (r & Hr & Ir & _).
    { intros s Hs. split; [apply has_same_grid_iff, E, Hs | apply (Ho s0 s eq_refl Hs)]. }
    unfold lin_comb in Hr. apply Nat.eqb_eq in Hlen. rewrite Hlen in Hr. cbn [negb] in Hr.
    assert (forallb (fun s => has_same_grid (ssup s) (ssup s0)) (s0 :: rest) = true) as E'
      by (apply forallb_forall; exact E).
    rewrite E' in Hr. cbn [negb] in Hr. rewrite Hr. exact Ir.
  Qed.

  (* ---- operator expressions whose spline factors are merely VALID (they may
          live on any grid) ---- *)
  Fixpoint opx_inv (o : opx F) : Prop :=
    match o with
    | OId | OPos _ | ODer _ => True
    | OSpl v => SplInv v
    | OProd a b | OSum a b | ODiff a b => opx_inv a /\ opx_inv b
    | OScal _ o' => opx_inv o'
    end.

  Fixpoint expr_inv (e : expr F) : Prop :=
    match e with
    | EId | EPos _ | EDer _ => True
    | ESpl v => SplInv v
    | EMul a b | EAdd a b | ESub a b => expr_inv a /\ expr_inv b
    | ESMulL _ a | ESMulR a _ | EDivS a _ | EAddS a _ | ESAdd _ a | ESubS a _ | ESSub _ a
    | ENeg a => expr_inv a
    end.

  Lemma elab_inv (e : expr F) : expr_inv e -> opx_inv (elab e).
  Proof.
    induction e as [|n|n|v|a IHa b IHb|a IHa b IHb|a IHa b IHb|s a IHa|a IHa s|a IHa s
                    |a IHa s|s a IHa|a IHa s|s a IHa|a IHa];
      cbn [expr_inv elab opx_inv]; intuition.
  Qed.

  Lemma resolve_inv (st : state F) (e : pexpr F) : StInv st ->
    forall ex, resolve st e = Ok ex -> expr_inv ex.
  Proof.
    intros Hst.
    induction e as [|n|n|i|a IHa b IHb|a IHa b IHb|a IHa b IHb|s a IHa|a IHa s|a IHa s
                    |a IHa s|s a IHa|a IHa s|s a IHa|a IHa];
      intros ex H; cbn [resolve] in H;
      try (injection H as <-; exact I);
      try (apply bind_ok_inv in H as (a' & Ha' & H); apply bind_ok_inv in H as (b' & Hb' & H);
           injection H as <-; cbn [expr_inv]; split; [apply IHa | apply IHb]; assumption);
      try (apply bind_ok_inv in H as (a' & Ha' & H); injection H as <-; cbn [expr_inv];
           apply IHa; assumption).
    apply bind_ok_inv in H as (v & Hv & H). injection H as <-. cbn [expr_inv].
    exact (get_spl_inv st i v Hst Hv).
  Qed.

  (* totality of O::transform for valid factors on ANY grid: the transformed
     array, of the length announced by outputOrder, or DIFFERING_GRIDS *)
  Definition tr_shape (o : opx F) (c : list F) (m : outcome (list F)) : Prop :=
    (exists t, m = Ok t /\ length t = (out_ord o (length c - 1) + 1)%nat) \/
    m = Throw DIFFERING_GRIDS.

  Lemma transform_total_shape (o : opx F) : opx_inv o -> forall (c g : list F) k,
    (nlen g < 2 ^ 63)%N -> (k + 1 < nlen g)%N -> c <> [] ->
    tr_shape o c (transform o c g k).
  Proof.
    induction o as [|n|n|v|a IHa b IHb|a IHa b IHb|a IHa b IHb|s o' IH];
      intros Ho c g k Hg Hk Hc; cbn [opx_inv] in Ho; pose proof (nonnil_len c Hc) as Hlc;
      unfold tr_shape.
    - (* OId *) left. exists c. split; [reflexivity|]. cbn [out_ord]. lia.
    - (* OPos *)
      left. rewrite transform_pos by (try exact Hk; unfold W; lia).
      eexists. split; [reflexivity|].
      rewrite length_pmul; [|exact Hc|apply (len_nonnil _ n), length_expand_power].
      rewrite length_expand_power. cbn [out_ord]. lia.
    - (* ODer *)
      left. rewrite transform_der by exact Hc. eexists. split; [reflexivity|].
      cbn [out_ord]. destruct (Nat.ltb_spec (length c - 1) n) as [Hlt|Hge].
      + cbn [length]. lia.
      + rewrite length_pderivn. lia.
    - (* OSpl *)
      cbn [transform out_ord]. pose proof Ho as (Sv & _).
      destruct (grid_eqb (sgrid (ssup v)) g) eqn:Eg; cbn [negb]; [|right; reflexivity].
      left. destruct (inb (ssup v) k) eqn:E.
      + apply inb_imem in E. rewrite interval_index_in by assumption.
        rewrite coefs_at_in by assumption. cbn [bind].
        destruct (piece_in v k Ho E) as [_ Lp].
        eexists. split; [reflexivity|].
        rewrite length_pmul; [|exact Hc|apply (len_nonnil _ (sord v)); exact Lp].
        rewrite Lp. lia.
      + apply inb_false in E. rewrite interval_index_out; [|exact Sv|unfold W; lia|exact E].
        eexists. split; [reflexivity|]. unfold make_array. rewrite repeat_length. lia.
    - (* OProd *)
      destruct Ho as [Hoa Hob]. cbn [transform out_ord].
      destruct (IHb Hob c g k Hg Hk Hc) as [(t1 & -> & L1)| ->]; [|right; reflexivity].
      cbn [bind].
      destruct (IHa Hoa t1 g k Hg Hk (len_nonnil _ _ L1)) as [(t2 & -> & L2)| ->];
        [|right; reflexivity].
      left. exists t2. split; [reflexivity|]. rewrite L2, L1. f_equal. f_equal. lia.
    - (* OSum *)
      destruct Ho as [Hoa Hob]. cbn [transform out_ord].
      destruct (IHa Hoa c g k Hg Hk Hc) as [(ta & -> & La)| ->]; [|right; reflexivity].
      cbn [bind].
      destruct (IHb Hob c g k Hg Hk Hc) as [(tb & -> & Lb)| ->]; [|right; reflexivity].
      left. eexists. split; [reflexivity|]. rewrite length_arr_add, La, Lb. lia.
    - (* ODiff *)
      destruct Ho as [Hoa Hob]. cbn [transform out_ord].
      destruct (IHa Hoa c g k Hg Hk Hc) as [(ta & -> & La)| ->]; [|right; reflexivity].
      cbn [bind].
      destruct (IHb Hob c g k Hg Hk Hc) as [(tb & -> & Lb)| ->]; [|right; reflexivity].
      left. eexists. split; [reflexivity|]. rewrite length_arr_add, length_pneg, La, Lb. lia.
    - (* OScal *)
      cbn [transform out_ord].
      destruct (IH Ho c g k Hg Hk Hc) as [(t & -> & Lt)| ->]; [|right; reflexivity].
      left. eexists. split; [reflexivity|]. rewrite length_pscale. exact Lt.
  Qed.

  (* the form requested: a non-empty array or DIFFERING_GRIDS *)
  Theorem transform_total (e : expr F) (c g : list F) k :
    expr_inv e -> GInv g -> (k + 1 < nlen g)%N -> c <> [] ->
    (exists t, transform (elab e) c g k = Ok t /\ t <> [] /\
               length t = (out_ord (elab e) (length c - 1) + 1)%nat) \/
    transform (elab e) c g k = Throw DIFFERING_GRIDS.
  Proof.
    intros He (_ & Hg & _) Hk Hc.
    destruct (transform_total_shape (elab e) (elab_inv e He) c g k Hg Hk Hc) as [(t & Ht & Lt)|H];
      [left | right; exact H].
    exists t. split; [exact Ht|]. split; [exact (len_nonnil _ _ Lt) | exact Lt].
  Qed.

  Lemma tr_shape_okP (o : opx F) c m :
    tr_shape o c m -> okP (fun t => length t = (out_ord o (length c - 1) + 1)%nat) m.
  Proof. intros [(t & -> & Ht)| ->]; [exact Ht | exact I]. Qed.

  (* transformSpline *)
  Lemma apply_okP (o : opx F) (s : spline F) : opx_inv o -> SplInv s ->
    okP (fun r => SplInv r /\ ssup r = ssup s /\ sord r = out_ord o (sord s)) (apply o s).
  Proof.
    intros Ho Hs. pose proof Hs as (Hu & Hg & Hn & Hl). unfold apply.
    eapply okP_bind.
    - apply (omapM_okP _ (fun t => length t = (out_ord o (sord s) + 1)%nat)).
      intros [i c] Hin.
      pose proof (in_combine_r _ _ _ _ Hin) as Hc. apply in_combine_l in Hin.
      apply In_nrange in Hin. rewrite Hn in Hin.
      rewrite Forall_forall in Hl. specialize (Hl c Hc). cbv beta in Hl.
      rewrite abs_from_rel_in by assumption. cbn [bind].
      pose proof (nintervals_imem _ _ Hin) as Hk.
      pose proof (imem_grid _ _ Hu Hk) as Hkg.
      eapply okP_impl.
      + apply tr_shape_okP. apply transform_total_shape; [exact Ho | apply Hg | exact Hkg |].
        apply (len_nonnil _ _ Hl).
      + intros t _ Lt. cbv beta in Lt. rewrite Lt, Hl. f_equal. f_equal. lia.
    - intros cs _ [Lcs Hcs]. cbv beta in Lcs.
      rewrite combine_length, length_nrange in Lcs.
      rewrite spl_ctor_ok; [|exact Hu|unfold nlen in *; lia].
      cbn [okP ssup sord]. split; [|split; reflexivity].
      unfold SplInv. cbn [ssup sord scoefs]. split; [exact Hu|]. split; [exact Hg|].
      split; [unfold nlen in *; lia | exact Hcs].
  Qed.

  (* ---- generator ---- *)
  Lemma generate_okP (ks : list F) p :
    nondecreasing ks -> two_distinct ks -> (nlen ks < 2 ^ 63)%N ->
    okP (fun l => Forall (@SplInv F K) l /\ length l = (length ks - p - 1)%nat)
        (generate (mkGen (unique ks) ks) p).
  Proof.
    intros Hn Hd Hl. destruct (le_lt_dec (p + 1) (length ks)) as [Hp|Hp].
    - destruct (generate_spec ks p Hn Hd Hl Hp) as (l & -> & Ll & Nl). cbn [okP].
      split; [|exact Ll]. apply Forall_forall. intros s Hs. apply In_nth_error in Hs as [i Hi].
      assert (i < length l)%nat as Hil by (apply nth_error_Some; congruence).
      destruct (Nl i Hil) as (s' & Es' & (I' & _)). rewrite Hi in Es'. injection Es' as <-. exact I'.
    - rewrite generate_unfold. cbn [gknots].
      destruct (Nat.ltb_spec (length ks) (p + 1)) as [_|Hge]; [exact I | lia].
  Qed.

  Lemma knots_valid_of_grid (ks g : list F) :
    (nlen ks < 2 ^ 63)%N -> grid_ctor (unique ks) = Ok g -> nondecreasing ks /\ two_distinct ks.
  Proof.
    intros Hl Hg. apply (gen_ctor1_iff ks Hl). unfold gen_ctor1. rewrite Hg. cbn [bind]. eauto.
  Qed.

  Lemma generate_bsplines_okP p (ks : list F) : (nlen ks < 2 ^ 63)%N ->
    okP (fun l => Forall (@SplInv F K) l /\ length l = (length ks - p - 1)%nat)
        (generate_bsplines p ks).
  Proof.
    intros Hl. unfold generate_bsplines, gen_ctor1.
    destruct (grid_ctor_cases (unique ks)) as [Eg|[Eg|Eg]]; rewrite Eg; cbn [bind]; try exact I.
    destruct (knots_valid_of_grid ks _ Hl Eg) as [Hn Hd]. apply generate_okP; assumption.
  Qed.

  Lemma generate2_okP p (ks gr : list F) : (nlen ks < 2 ^ 63)%N ->
    okP (fun l => Forall (@SplInv F K) l /\ length l = (length ks - p - 1)%nat)
        (do gn <- gen_ctor2 ks gr; generate gn p).
  Proof.
    intros Hl. unfold gen_ctor2.
    destruct (grid_ctor_cases (unique ks)) as [Eg|[Eg|Eg]]; rewrite Eg; cbn [bind]; try exact I.
    destruct (grid_eqb gr (unique ks)) eqn:E; cbn [negb bind]; [|exact I].
    apply grid_eqb_eq in E. subst gr.
    destruct (knots_valid_of_grid ks _ Hl Eg) as [Hn Hd]. apply generate_okP; assumption.
  Qed.

  (* ---- interpolation ---- *)
  Lemma interp_system_ok_inv order (x : support F) y bs sys :
    interp_system order x y bs = Ok sys ->
    (2 <= sup_size x)%N /\ length sys = ((order + 1) * (N.to_nat (sup_size x) - 1))%nat.
  Proof.
    unfold interp_system. cbv zeta.
    destruct (negb (sup_size x =? nlen y)%N); [discriminate|].
    destruct (sup_size x <? 2)%N eqn:E2; [discriminate|].
    intros H.
    apply bind_ok_inv in H as (x0 & _ & H). apply bind_ok_inv in H as (x1 & _ & H).
    apply bind_ok_inv in H as (y0 & _ & H). apply bind_ok_inv in H as (bf & _ & H).
    apply bind_ok_inv in H as (mid & _ & H). apply bind_ok_inv in H as (xb & _ & H).
    apply bind_ok_inv in H as (xp & _ & H).
    match type of H with
    | (if negb (?a =? ?b)%nat then _ else _) = _ => destruct (Nat.eqb_spec a b) as [E|E]
    end; cbn [negb] in H; [|discriminate].
    injection H as <-. split; [lia | exact E].
  Qed.

  Lemma bnd_ok_dec order (bs : list (boundary F)) : bnd_ok order bs \/ ~ bnd_ok order bs.
  Proof.
    unfold bnd_ok. induction bs as [|b bs IH]; [left; constructor|].
    destruct IH as [IH|IH].
    - destruct (le_lt_dec 1 (bderiv b)) as [H1|H1]; destruct (le_lt_dec (bderiv b) order) as [H2|H2];
        try (left; constructor; [lia | exact IH]);
        right; intros H; apply Forall_cons_iff in H as [H _]; lia.
    - right. intros H. apply Forall_cons_iff in H as [_ H]. contradiction.
  Qed.

  Lemma interp_system_okP order (x : support F) y bs :
    SInv x -> GInv (sgrid x) -> (1 <= order)%nat -> length bs = (order - 1)%nat ->
    okP (fun sys => (2 <= sup_size x)%N /\
                    length sys = ((order + 1) * (N.to_nat (sup_size x) - 1))%nat)
        (interp_system order x y bs).
  Proof.
    intros Hs Hg Ho Hb.
    destruct (N.eq_dec (sup_size x) (nlen y)) as [E|E];
      [|rewrite interp_system_count by assumption; exact I].
    destruct (N.lt_ge_cases (sup_size x) 2) as [H2|H2];
      [rewrite interp_system_few by assumption; exact I|].
    destruct (bnd_ok_dec order bs) as [Hbo|Hbo];
      [|rewrite interp_system_bad_deriv by assumption; exact I].
    destruct (interp_system_ok order x y bs Hs Hg Ho E H2 Hbo Hb) as (rows & -> & Lr).
    cbn [okP]. split; assumption.
  Qed.

  (* ================================================================== *)
  (* Validity of written objects: vocabulary and small facts (C10)      *)
  (* ================================================================== *)
  (* The model's grid invariant carries the size bound of a real std::vector
     (< 2^63 elements), which [grid_ctor] cannot establish by itself for the
     mathematical lists of the model: the list arguments from which an operation
     builds a NEW grid must respect it. *)
  Definition op_sized (o : op F) : Prop :=
    match o with
    | GridNew _ pts => (nlen pts < 2 ^ 63)%N
    | Gen1 _ _ knots => (nlen knots < 2 ^ 63)%N
    | Gen2 _ _ knots _ => (nlen knots < 2 ^ 63)%N
    | _ => True
    end.

  Lemma Forall_one (d : nat) (v : obj F) :
    ObjInv v -> Forall (fun w : nat * obj F => ObjInv (snd w)) [(d, v)].
  Proof. intros H. constructor; [exact H | constructor]. Qed.

  Lemma Forall_two (d1 d2 : nat) (v1 v2 : obj F) :
    ObjInv v1 -> ObjInv v2 -> Forall (fun w : nat * obj F => ObjInv (snd w)) [(d1, v1); (d2, v2)].
  Proof. intros H1 H2. constructor; [exact H1 | apply Forall_one; exact H2]. Qed.

  Lemma omapM_get_spl_inv (st : state F) ss l :
    StInv st -> omapM (get_spl st) ss = Ok l -> Forall (@SplInv F K) l.
  Proof.
    intros Hst H. apply omapM_ok_inv in H as [Hlen Hnth].
    apply Forall_forall. intros s Hs. apply In_nth_error in Hs as [i Hi].
    assert (i < length ss)%nat as Hil by (rewrite <- Hlen; apply nth_error_Some; congruence).
    destruct (nth_error ss i) as [a|] eqn:Ea; [|apply nth_error_None in Ea; lia].
    destruct (Hnth i a Ea) as (b & Hb & Hib). rewrite Hi in Hib. injection Hib as <-.
    exact (get_spl_inv st a s Hst Hb).
  Qed.

  Lemma Forall_store_splines d0 (l : list (spline F)) :
    Forall (@SplInv F K) l -> Forall (fun w => ObjInv (snd w)) (store_splines d0 l).
  Proof.
    intros Hl. apply Forall_forall. intros w Hw.
    apply In_store_splines in Hw as (i & _ & _ & s & Hs & ->).
    rewrite Forall_forall in Hl. apply Hl. eapply nth_error_In. exact Hs.
  Qed.

  (* a moved-from object is a valid interval-free object on the same grid *)
  Theorem moved_from_valid_sup (s : support F) :
    ObjInv (VSup s) ->
    ObjInv (VSup (sup_empty_on (sgrid s))) /\ sgrid (sup_empty_on (sgrid s)) = sgrid s /\
    nintervals (sup_empty_on (sgrid s)) = 0%N.
  Proof. intros [_ Hg]. split; [apply sup_empty_on_inv; exact Hg | split; reflexivity]. Qed.

  Theorem moved_from_valid_spl (s : spline F) :
    ObjInv (VSpl s) ->
    let m := mkSpl (sup_empty_on (sgrid (ssup s))) (sord s) [] in
    ObjInv (VSpl m) /\ sgridp m = sgridp s /\ sord m = sord s /\ scoefs m = [].
  Proof. intros Hs. split; [apply moved_from_spl_inv; exact Hs | repeat split]. Qed.

  (* ================================================================== *)
  (* Totality without undefined behaviour (C09): library functions      *)
  (* ================================================================== *)
  (* the forms *)
  Lemma linear_safe (o : opx F) (a : spline F) : opx_inv o -> SplInv a -> safe (linear o a).
  Proof.
    intros Ho Ha. pose proof Ha as (Hs & Hg & Hn & Hc). unfold linear.
    apply (fold_bind_safe (fun (r : F) (i : N) =>
      do ai <- abs_from_rel (ssup a) i;
      do hi <- sup_sub (ssup a) (wadd i 1);
      do lo <- sup_sub (ssup a) i;
      do ca <- coefs_at a i;
      do ta <- transform o ca (sgrid (ssup a)) ai;
      do v <- lin_kernel ta ((hi - lo) / f2)%F; Ok (r + v)%F)); [|exact I].
    intros r i Hi. apply In_nrange in Hi.
    rewrite (Proofs_Spline.num_intervals_nintervals _ Hs) in Hi.
    pose proof (nintervals_imem _ _ Hi) as Hk.
    pose proof (imem_lt _ _ Hs Hk) as [_ Hk63].
    pose proof (imem_grid _ _ Hs Hk) as Hkg.
    pose proof (SInv_bounds _ Hs) as B.
    assert (Hi2 : (sstart (ssup a) + i + 1 < sstop (ssup a))%N) by (unfold imem in Hk; lia).
    rewrite abs_from_rel_in by assumption. cbn [bind].
    rewrite (wadd_small i 1) by (unfold W; lia).
    rewrite !Proofs_Eval.sup_sub_gnth by (try exact Hs; lia). cbn [bind].
    destruct (piece_in a _ Ha Hk) as [Hp Lp].
    replace (sstart (ssup a) + i - sstart (ssup a))%N with i in Hp by lia.
    unfold coefs_at. rewrite (sub_nth_error _ _ _ Hp). cbn [bind].
    destruct (transform_total_shape o Ho (piece a (sstart (ssup a) + i)) (sgrid (ssup a))
                (sstart (ssup a) + i)%N (proj1 (proj2 Hg)) Hkg (len_nonnil _ _ Lp))
      as [(t & -> & Lt)| ->]; [|exact I].
    cbn [bind]. rewrite lin_kernel_spec by (apply (len_nonnil _ _ Lt)). exact I.
  Qed.

  Lemma bilinear_safe (o1 o2 : opx F) (a b : spline F) :
    opx_inv o1 -> opx_inv o2 -> SplInv a -> SplInv b -> safe (bilinear o1 o2 a b).
  Proof.
    intros Ho1 Ho2 Ha Hb.
    destruct (grid_eq_dec (sgridp a) (sgridp b)) as [Hg|Hg];
      [|rewrite bilinear_differing by exact Hg; exact I].
    pose proof Ha as (Hsa & Hga & _). pose proof Hb as (Hsb & Hgb & _).
    destruct (calc_inter_spec _ _ Hsa Hsb Hg) as (u & Eu & Su & Gu & _).
    destruct (inter_facts a b u Ha Hb Hg Eu) as (_ & _ & Mu).
    unfold bilinear. rewrite Eu. cbn [bind].
    apply (fold_bind_safe (fun (r : F) (i : N) =>
      do ai <- abs_from_rel u i;
      do ja <- value (interval_index (ssup a) ai);
      do jb <- value (interval_index (ssup b) ai);
      do hi <- sup_sub (ssup a) (wadd ja 1);
      do lo <- sup_sub (ssup a) ja;
      do ca <- coefs_at a ja;
      do ta <- transform o1 ca (sgrid u) ai;
      do cb <- coefs_at b jb;
      do tb <- transform o2 cb (sgrid u) ai;
      do v <- bi_kernel ta tb ((hi - lo) / f2)%F; Ok (r + v)%F)); [|exact I].
    intros r i Hi. apply In_nrange in Hi.
    rewrite (Proofs_Spline.num_intervals_nintervals _ Su) in Hi.
    set (k := (sstart u + i)%N).
    assert (Hk : imem k u) by (apply nintervals_imem; exact Hi).
    destruct (proj1 (Mu k) Hk) as [Hka Hkb].
    pose proof (imem_grid _ _ Su Hk) as Hkg.
    pose proof (SInv_bounds _ Hsa) as Ba.
    rewrite abs_from_rel_in by assumption. cbn [bind]. fold k.
    rewrite !interval_index_in by assumption. cbn [value of_option bind].
    assert (Hka' : (sstart (ssup a) <= k /\ k + 1 < sstop (ssup a))%N) by exact Hka.
    rewrite (wadd_small (k - sstart (ssup a)) 1) by (unfold W; lia).
    rewrite !Proofs_Eval.sup_sub_gnth by (try exact Hsa; lia). cbn [bind].
    rewrite !coefs_at_in by assumption. cbn [bind].
    destruct (piece_in a k Ha Hka) as [_ Lpa]. destruct (piece_in b k Hb Hkb) as [_ Lpb].
    assert (Hgu63 : (nlen (sgrid u) < 2 ^ 63)%N) by (rewrite Gu; apply Hga).
    destruct (transform_total_shape o1 Ho1 (piece a k) (sgrid u) k Hgu63 Hkg (len_nonnil _ _ Lpa))
      as [(ta & -> & Lta)| ->]; [|exact I].
    cbn [bind].
    destruct (transform_total_shape o2 Ho2 (piece b k) (sgrid u) k Hgu63 Hkg (len_nonnil _ _ Lpb))
      as [(tb & -> & Ltb)| ->]; [|exact I].
    cbn [bind].
    rewrite bi_kernel_spec by (eapply len_nonnil; eassumption). exact I.
  Qed.

  (* ---- the remaining accessors ---- *)
  Lemma grid_at_safe (g : list F) i : safe (grid_at g i).
  Proof.
    unfold grid_at, grid_size. destruct (nlen g <=? i)%N eqn:E; [exact I|].
    unfold grid_sub. destruct (nlen_nnth g i ltac:(lia)) as [x ->]. exact I.
  Qed.

  Lemma grid_sub_safe (g : list F) i : (i < nlen g)%N -> safe (grid_sub g i).
  Proof. intros H. unfold grid_sub. destruct (nlen_nnth g i H) as [x ->]. exact I. Qed.

  Lemma grid_find_safe (g : list F) x : safe (grid_find g x).
  Proof. destruct (grid_find_cases_nolaws g x) as [[i ->]| ->]; exact I. Qed.

  Lemma grid_front_safe (g : list F) : safe (grid_front g).
  Proof. destruct g; exact I. Qed.

  Lemma grid_back_safe (g : list F) : safe (grid_back g).
  Proof. destruct g; exact I. Qed.

  Lemma abs_from_rel_safe (s : support F) i : safe (abs_from_rel s i).
  Proof. unfold abs_from_rel. destruct (sup_size s <=? i)%N; exact I. Qed.

  Lemma sup_at_safe (s : support F) i : SInv s -> (i < W)%N -> safe (sup_at s i).
  Proof.
    intros Hs Hi. rewrite sup_at_spec by assumption. destruct (nnth (sup_points s) i); exact I.
  Qed.

  Lemma sup_sub_safe (s : support F) i : SInv s -> (i < sup_size s)%N -> safe (sup_sub s i).
  Proof.
    intros Hs Hi. rewrite sup_size_inv in Hi by exact Hs.
    destruct (sup_sub_spec s i Hs Hi) as (x & -> & _). exact I.
  Qed.

  Lemma sup_front_safe (s : support F) : SInv s -> safe (sup_front s).
  Proof. intros Hs. rewrite sup_front_spec by exact Hs. destruct (sup_points s); exact I. Qed.

  Lemma sup_back_safe (s : support F) : SInv s -> safe (sup_back s).
  Proof. intros Hs. rewrite sup_back_spec by exact Hs. destruct (sup_points s); exact I. Qed.

  Lemma spl_div_okP (s : spline F) d : SplInv s -> d <> f0 -> okP (@SplInv F K) (spl_div s d).
  Proof. intros Hs Hd. destruct (spl_div_spec s d Hs Hd) as (r & -> & Hr & _). exact Hr. Qed.

  Lemma spl_iadd_okP (a b : spline F) : SplInv a -> SplInv b -> (sord b <= sord a)%nat ->
    okP (@SplInv F K) (spl_iadd a b).
  Proof. intros Ha Hb Ho. rewrite spl_iadd_eq by exact Ho. apply spl_add_okP; assumption. Qed.

  Lemma spl_isub_okP (a b : spline F) : SplInv a -> SplInv b -> (sord b <= sord a)%nat ->
    okP (@SplInv F K) (spl_isub a b).
  Proof. intros Ha Hb Ho. rewrite spl_isub_eq by exact Ho. apply spl_sub_okP; assumption. Qed.

  Lemma spl_eval_safe (s : spline F) x : SplInv s -> safe (spl_eval s x).
  Proof. intros Hs. destruct (seval_total s x Hs) as [v ->]. exact I. Qed.

  Lemma check_overlap_safe (a b : spline F) : SplInv a -> SplInv b -> safe (check_overlap a b).
  Proof. intros Ha Hb. destruct (check_overlap_total a b Ha Hb) as [r ->]. exact I. Qed.

  (* ================================================================== *)
  (* Typing of operations (C09)                                         *)
  (* ================================================================== *)
  (* ---- typing of operations ---- *)
  Definition is_grid (st : state F) (i : nat) : Prop := exists g, lookup st i = Some (VGrid g).
  Definition is_sup (st : state F) (i : nat) : Prop := exists s, lookup st i = Some (VSup s).
  Definition is_spl (st : state F) (i : nat) : Prop := exists s, lookup st i = Some (VSpl s).

  (* every spline factor of an operator expression names a slot holding a spline *)
  Fixpoint slots_ok (st : state F) (e : pexpr F) : Prop :=
    match e with
    | PId | PPos _ | PDer _ => True
    | PSpl i => is_spl st i
    | PMul a b | PAdd a b | PSub a b => slots_ok st a /\ slots_ok st b
    | PSMulL _ a | PSMulR a _ | PDivS a _ | PAddS a _ | PSAdd _ a | PSubS a _ | PSSub _ a
    | PNeg a => slots_ok st a
    end.

  (* ... and no divisor of the expression is a zero scalar: exactly the guard
     [divisors_ok] that [eval_op] tests (documented precondition of operator/) *)
  Definition pexpr_typed (st : state F) (e : pexpr F) : Prop :=
    slots_ok st e /\ divisors_ok e = true.

  (* The static typing and the documented preconditions of one call.  Each
     clause says which slots must hold which kind of object (otherwise the C++
     call would not compile), plus:
     - list arguments are shorter than 2^63 (a std::vector) and index arguments
       are below 2^64 (a size_t);
     - GridSub / SupSub are the explicitly unchecked operator[]: the index must
       be in range;
     - SplNew: std::array<T, order+1> coefficient arrays;
     - SplCopy / SplMoveAssign: copy/move assignment is between splines of one
       order; SplAssignUp: the converting assignment needs a strictly lower
       source order; SplIAdd / SplISub: static_assert(ordera <= order);
       SplEq: operator== compares splines of one order; SplLinComb: a
       std::vector<Spline<T, order>> has one order;
     - SplDiv / SplIDiv and expression divisors: division by zero is outside the
       documented precondition;
     - Transform: the raw [transform] of an operator is called by the library
       with a non-empty coefficient array and an interval index of the grid;
     - Interp: order >= 1 and exactly order-1 boundary conditions
       (std::array<Boundary, order-1>). *)
  Definition op_typed (st : state F) (o : op F) : Prop :=
    match o with
    | GridNew _ pts => (nlen pts < 2 ^ 63)%N
    | GridCopy _ a | GridSize a | GridFront a | GridBack a => is_grid st a
    | GridFind a _ => is_grid st a
    | GridAt a i => is_grid st a /\ (i < W)%N
    | GridSub a i => exists g, lookup st a = Some (VGrid g) /\ (i < grid_size g)%N
    | GridEq a b => is_grid st a /\ is_grid st b
    | SupNew _ g i j => is_grid st g /\ (i < W)%N /\ (j < W)%N
    | SupEmpty _ g | SupWhole _ g => is_grid st g
    | SupCopy _ a | SupMove _ a | SupGrid _ a => is_sup st a
    | SupFront a | SupBack a | SupIter a | SupIsEmpty a | SupContains a => is_sup st a
    | SupMoveAssign d a => is_sup st d /\ is_sup st a
    | SupUnion _ a b | SupInter _ a b => is_sup st a /\ is_sup st b
    | SupEq a b | SupSameGrid a b => is_sup st a /\ is_sup st b
    | SupRel a i | SupIvl a i | SupAbs a i | SupAt a i => is_sup st a /\ (i < W)%N
    | SupSub a i => exists s, lookup st a = Some (VSup s) /\ (i < sup_size s)%N
    | SplNew _ ord sup coefs =>
        is_sup st sup /\ Forall (fun c => length c = (ord + 1)%nat) coefs /\
        (nlen coefs < 2 ^ 63)%N
    | SplEmpty _ _ g => is_grid st g
    | SplCopy d a =>
        exists s, lookup st a = Some (VSpl s) /\
                  forall t, lookup st d = Some (VSpl t) -> sord t = sord s
    | SplMove _ a => is_spl st a
    | SplMoveAssign d a =>
        exists t s, lookup st d = Some (VSpl t) /\ lookup st a = Some (VSpl s) /\ sord t = sord s
    | SplAssignUp d a =>
        exists t s, lookup st d = Some (VSpl t) /\ lookup st a = Some (VSpl s) /\
                    (sord s < sord t)%nat
    | SplScale _ a _ | SplIMul a _ => is_spl st a
    | SplScaleL _ _ a => is_spl st a
    | SplNeg _ a | SplSupport _ a => is_spl st a
    | SplDiv _ a c | SplIDiv a c => is_spl st a /\ c <> f0
    | SplAdd _ a b | SplSub _ a b | SplMul _ a b => is_spl st a /\ is_spl st b
    | SplIAdd a b | SplISub a b =>
        exists s t, lookup st a = Some (VSpl s) /\ lookup st b = Some (VSpl t) /\
                    (sord t <= sord s)%nat
    | SplLinComb _ cs ss =>
        (exists l, Forall2 (fun i s => lookup st i = Some (VSpl s)) ss l /\
                   forall s s', In s l -> In s' l -> sord s = sord s') /\
        (nlen cs < 2 ^ 63)%N /\ (nlen ss < 2 ^ 63)%N
    | SplEval a _ => is_spl st a
    | SplFront a | SplBack a | SplIsZero a => is_spl st a
    | SplOverlap a b => is_spl st a /\ is_spl st b
    | SplEq a b =>
        exists s t, lookup st a = Some (VSpl s) /\ lookup st b = Some (VSpl t) /\ sord s = sord t
    | Apply _ e a => pexpr_typed st e /\ is_spl st a
    | Transform e input g k =>
        pexpr_typed st e /\ input <> [] /\ (nlen input < 2 ^ 63)%N /\
        exists gr, lookup st g = Some (VGrid gr) /\ (k + 1 < grid_size gr)%N
    | Bilin e1 e2 a b => pexpr_typed st e1 /\ pexpr_typed st e2 /\ is_spl st a /\ is_spl st b
    | Lin e a => pexpr_typed st e /\ is_spl st a
    | Gen1 _ _ knots => (nlen knots < 2 ^ 63)%N
    | Gen2 _ _ knots g => is_grid st g /\ (nlen knots < 2 ^ 63)%N
    | Interp _ order x y bs =>
        is_sup st x /\ (1 <= order)%nat /\ length bs = (order - 1)%nat /\ (nlen y < 2 ^ 63)%N
    | InterpDefault _ order x y => is_sup st x /\ (1 <= order)%nat /\ (nlen y < 2 ^ 63)%N
    | Show _ => True
    end.

  Lemma op_typed_sized (st : state F) o : op_typed st o -> op_sized o.
  Proof. destruct o; cbn [op_typed op_sized]; try exact (fun _ => I); tauto. Qed.

  Lemma resolve_total (st : state F) (e : pexpr F) :
    slots_ok st e -> exists ex, resolve st e = Ok ex.
  Proof.
    induction e as [|n|n|i|a IHa b IHb|a IHa b IHb|a IHa b IHb|s a IHa|a IHa s|a IHa s
                    |a IHa s|s a IHa|a IHa s|s a IHa|a IHa];
      cbn [slots_ok resolve]; intros H;
      try (eexists; reflexivity);
      try (destruct H as [Ha Hb]; destruct (IHa Ha) as [a' ->]; destruct (IHb Hb) as [b' ->];
           eexists; reflexivity);
      try (destruct (IHa H) as [a' ->]; eexists; reflexivity).
    destruct H as [v Hv]. rewrite (proj2 (get_spl_ok st i v) Hv). eexists. reflexivity.
  Qed.

  Lemma copy_check (st : state F) d (s : spline F) :
    (forall t, lookup st d = Some (VSpl t) -> sord t = sord s) ->
    match lookup st d with
    | Some (VSpl t) => if (sord t =? sord s)%nat then Ok tt else UB IllTyped
    | _ => Ok tt
    end = Ok tt.
  Proof.
    intros Hd. destruct (lookup st d) as [[g|u|t]|]; try reflexivity.
    rewrite (Hd t eq_refl), Nat.eqb_refl. reflexivity.
  Qed.

  Lemma omapM_get_spl_total (st : state F) ss l :
    Forall2 (fun i s => lookup st i = Some (VSpl s)) ss l -> omapM (get_spl st) ss = Ok l.
  Proof.
    induction 1 as [|i s ss l Hi _ IH]; [reflexivity|].
    rewrite omapM_cons, (proj2 (get_spl_ok st i s) Hi). cbn [bind]. rewrite IH. reflexivity.
  Qed.

  Lemma order_check (l : list (spline F)) :
    (forall s s', In s l -> In s' l -> sord s = sord s') ->
    match l with
    | s0 :: _ => if forallb (fun s => (sord s =? sord s0)%nat) l then Ok tt else UB IllTyped
    | [] => Ok tt
    end = Ok tt.
  Proof.
    intros Ho. destruct l as [|s0 rest]; [reflexivity|].
    assert (forallb (fun s => (sord s =? sord s0)%nat) (s0 :: rest) = true) as ->; [|reflexivity].
    apply forallb_forall. intros s Hs. apply Nat.eqb_eq. apply Ho; [exact Hs | left; reflexivity].
  Qed.

End PoolPure.

(* automatic traversal for goals whose [Q] does not need the intermediate values *)
Ltac wr_auto :=
  repeat first
    [ apply wr_ub | apply wr_throw
    | apply wr_bind; intros ? ?
    | apply wr_if; intros ?
    | apply wr_ret ].

Ltac got H :=
  first [ rewrite (proj2 (get_grid_ok _ _ _) H)
        | rewrite (proj2 (get_sup_ok _ _ _) H)
        | rewrite (proj2 (get_spl_ok _ _ _) H) ]; cbn [bind].

Ltac fin := intros; exact I.

(* ================================================================== *)
(* Section 2: the state machine, for any solver returning a vector of   *)
(* the problem size                                                    *)
(* ================================================================== *)
Section PoolFacts.
  Context {F : Type} {K : Ops F} {L : Laws K}.
  Variable solver : nat -> list (row F) -> list F.
  (* a solver returns a vector of the problem size.  Only the square case — the
     one [interpolate] uses, n = number of assembled rows — is assumed, so that
     the theorems apply to [gauss_solve] of Solver.v (see [gauss_solve_len]). *)
  Hypothesis solver_len : forall sys, length (solver (length sys) sys) = length sys.

  (* ================================================================== *)
  (* Steps; C14: frame properties and value semantics                   *)
  (* ================================================================== *)
  (* ---- step ---- *)
  Lemma step_ok (st : state F) o ws r :
    eval_op solver st o = Ok (ws, r) -> step solver st o = (commit st ws, Ok r).
  Proof. intros H. unfold step. rewrite H. reflexivity. Qed.

  Lemma step_throw (st : state F) o e :
    eval_op solver st o = Throw e -> step solver st o = (st, Throw e).
  Proof. intros H. unfold step. rewrite H. reflexivity. Qed.

  Lemma step_ub (st : state F) o k :
    eval_op solver st o = UB k -> step solver st o = (st, UB k).
  Proof. intros H. unfold step. rewrite H. reflexivity. Qed.

  (* C14, second half: a failing operation changes nothing *)
  Theorem throw_changes_nothing (st : state F) o e :
    snd (step solver st o) = Throw e -> fst (step solver st o) = st.
  Proof.
    unfold step. destruct (eval_op solver st o) as [[ws r]|e'|k]; cbn [fst snd];
      [discriminate | reflexivity | reflexivity].
  Qed.

  Theorem ub_changes_nothing (st : state F) o k :
    snd (step solver st o) = UB k -> fst (step solver st o) = st.
  Proof.
    unfold step. destruct (eval_op solver st o) as [[ws r]|e'|k']; cbn [fst snd];
      [discriminate | reflexivity | reflexivity].
  Qed.

  (* every write of an operation goes to one of its targets *)
  Lemma eval_op_targets (st : state F) o ws r :
    eval_op solver st o = Ok (ws, r) -> forall w, In w ws -> In (fst w) (targets o).
  Proof.
    revert ws r. change (wr_all (fun ws => forall w, In w ws -> In (fst w) (targets o))
                                (eval_op solver st o)).
    destruct o; unfold eval_op; cbn [targets];
      try solve [wr_auto; cbn [In fst]; intros w Hw; intuition (subst; cbn [fst]; auto)].
    - (* Gen1 *)
      apply wr_bind. intros l Hl. apply wr_ret. intros w Hw.
      apply In_store_splines in Hw as (i & Hi & -> & _).
      unfold generate_bsplines in Hl. apply bind_ok_inv in Hl as (gn & Hgn & Hl).
      apply generate_length in Hl.
      unfold gen_ctor1 in Hgn. apply bind_ok_inv in Hgn as (g & _ & [= <-]).
      cbn [gknots] in Hl. apply in_seq. lia.
    - (* Gen2 *)
      apply wr_bind. intros gr Hgr. apply wr_bind. intros gn Hgn.
      apply wr_bind. intros l Hl. apply wr_ret. intros w Hw.
      apply In_store_splines in Hw as (i & Hi & -> & _).
      apply generate_length in Hl.
      unfold gen_ctor2 in Hgn. apply bind_ok_inv in Hgn as (g2 & _ & Hgn).
      destruct (negb (grid_eqb gr g2)); [discriminate|]. injection Hgn as <-.
      cbn [gknots] in Hl. apply in_seq. lia.
    - (* Show *)
      destruct (lookup st a); apply wr_ret; intros w [].
  Qed.

  (* C14, first half: an operation changes only its targets *)
  Theorem frame (st : state F) o i :
    ~ In i (targets o) -> lookup (fst (step solver st o)) i = lookup st i.
  Proof.
    intros Hi. unfold step.
    destruct (eval_op solver st o) as [[ws r]|e|k] eqn:E; cbn [fst]; try reflexivity.
    apply lookup_commit_other. intros w Hw <-. apply Hi.
    exact (eval_op_targets st o ws r E w Hw).
  Qed.

  (* operations without targets (all observers) leave the whole state as it is *)
  Theorem observers_change_nothing (st : state F) o :
    targets o = [] -> forall i, lookup (fst (step solver st o)) i = lookup st i.
  Proof. intros H i. apply frame. rewrite H. intros []. Qed.

  Theorem observers_change_nothing_eq (st : state F) o :
    targets o = [] -> fst (step solver st o) = st.
  Proof.
    intros H. unfold step.
    destruct (eval_op solver st o) as [[ws r]|e|k] eqn:E; cbn [fst]; try reflexivity.
    destruct ws as [|w ws]; [reflexivity|].
    exfalso. pose proof (eval_op_targets st o _ r E w (or_introl eq_refl)) as Hin.
    rewrite H in Hin. exact Hin.
  Qed.

  (* value semantics of copies: after [SplCopy d a], no later operation that does
     not target [a] can change [a] (in particular none applied to the copy [d]) *)
  Theorem copy_independent (st : state F) d a o :
    d <> a -> ~ In a (targets o) ->
    lookup (fst (step solver (fst (step solver st (SplCopy d a))) o)) a = lookup st a.
  Proof.
    intros Hda Ha. rewrite frame by exact Ha. apply frame. cbn [targets In]. intuition.
  Qed.

  (* and the copy holds the value of the source *)
  Theorem copy_value (st : state F) d a s :
    lookup st a = Some (VSpl s) ->
    (forall t, lookup st d = Some (VSpl t) -> sord t = sord s) ->
    lookup (fst (step solver st (SplCopy d a))) d = Some (VSpl s).
  Proof.
    intros Ha Hd. unfold step, eval_op. rewrite (proj2 (get_spl_ok st a s) Ha). cbn [bind].
    assert ((match lookup st d with
             | Some (VSpl t) => if (sord t =? sord s)%nat then Ok tt else UB IllTyped
             | _ => Ok tt end) = Ok tt) as ->.
    { destruct (lookup st d) as [[g|u|t]|]; try reflexivity.
      rewrite (Hd t eq_refl), Nat.eqb_refl. reflexivity. }
    cbn [bind ret fst commit fold_left]. rewrite lookup_write, Nat.eqb_refl. reflexivity.
  Qed.

  (* ================================================================== *)
  (* C10: every object an operation writes is valid                     *)
  (* ================================================================== *)
  Lemma interp_build_inv order (x : support F) sys :
    SInv x -> GInv (sgrid x) -> (2 <= sup_size x)%N ->
    length sys = ((order + 1) * (N.to_nat (sup_size x) - 1))%nat ->
    okP (@SplInv F K) (interp_build order x (solver (length sys) sys)).
  Proof.
    intros Hs Hg H2 Ls.
    destruct (interp_build_ok order x (solver (length sys) sys) Hs Hg H2) as [-> Hi].
    - rewrite solver_len. exact Ls.
    - exact Hi.
  Qed.

  Theorem eval_op_inv (st : state F) o ws r :
    StInv st -> op_sized o -> eval_op solver st o = Ok (ws, r) ->
    Forall (fun w => ObjInv (snd w)) ws.
  Proof.
    intros Hst Hsz. revert ws r.
    change (wr_all (fun ws => Forall (fun w => ObjInv (snd w)) ws) (eval_op solver st o)).
    destruct o; unfold eval_op; cbn [op_sized] in Hsz;
      try solve [wr_auto; constructor].
    - (* GridNew *)
      apply wr_bind; intros g Hg. apply wr_ret, Forall_one. exact (grid_ctor_inv _ _ Hsz Hg).
    - (* GridCopy *)
      apply wr_bind; intros g Hg. apply wr_ret, Forall_one. exact (get_grid_inv st a g Hst Hg).
    - (* SupNew *)
      apply wr_bind; intros gr Hgr. apply wr_bind; intros s Hs. apply wr_ret, Forall_one.
      pose proof (get_grid_inv st g gr Hst Hgr) as Ig.
      destruct (okP_ok _ _ _ (sup_ctor_okP gr i j (proj1 (proj2 Ig))) Hs) as [Is Gs].
      split; [exact Is | rewrite Gs; exact Ig].
    - (* SupEmpty *)
      apply wr_bind; intros gr Hgr. apply wr_bind; intros s Hs. apply wr_ret, Forall_one.
      pose proof (get_grid_inv st g gr Hst Hgr) as Ig. unfold create_empty in Hs.
      destruct (okP_ok _ _ _ (sup_ctor_okP gr _ _ (proj1 (proj2 Ig))) Hs) as [Is Gs].
      split; [exact Is | rewrite Gs; exact Ig].
    - (* SupWhole *)
      apply wr_bind; intros gr Hgr. apply wr_bind; intros s Hs. apply wr_ret, Forall_one.
      pose proof (get_grid_inv st g gr Hst Hgr) as Ig. unfold create_whole in Hs.
      destruct (okP_ok _ _ _ (sup_ctor_okP gr _ _ (proj1 (proj2 Ig))) Hs) as [Is Gs].
      split; [exact Is | rewrite Gs; exact Ig].
    - (* SupCopy *)
      apply wr_bind; intros s Hs. apply wr_ret, Forall_one. exact (get_sup_inv st a s Hst Hs).
    - (* SupMove *)
      apply wr_bind; intros s Hs. pose proof (get_sup_inv st a s Hst Hs) as Is.
      apply wr_ret, Forall_two; [apply sup_empty_on_inv, Is | exact Is].
    - (* SupMoveAssign *)
      apply wr_bind; intros t _. apply wr_bind; intros s Hs.
      pose proof (get_sup_inv st a s Hst Hs) as Is.
      apply wr_ret, Forall_two; [exact Is | apply sup_empty_on_inv, Is].
    - (* SupUnion *)
      apply wr_bind; intros s Hs. apply wr_bind; intros t Ht. apply wr_bind; intros u Hu.
      apply wr_ret, Forall_one.
      destruct (get_sup_inv st a s Hst Hs) as [Is Gs]. destruct (get_sup_inv st b t Hst Ht) as [It _].
      destruct (okP_ok _ _ _ (calc_union_okP s t Is It) Hu) as [Iu Gu].
      split; [exact Iu | rewrite Gu; exact Gs].
    - (* SupInter *)
      apply wr_bind; intros s Hs. apply wr_bind; intros t Ht. apply wr_bind; intros u Hu.
      apply wr_ret, Forall_one.
      destruct (get_sup_inv st a s Hst Hs) as [Is Gs]. destruct (get_sup_inv st b t Hst Ht) as [It _].
      destruct (okP_ok _ _ _ (calc_inter_okP s t Is It) Hu) as [Iu Gu].
      split; [exact Iu | rewrite Gu; exact Gs].
    - (* SupGrid *)
      apply wr_bind; intros s Hs. apply wr_ret, Forall_one.
      exact (proj2 (get_sup_inv st a s Hst Hs)).
    - (* SplNew *)
      apply wr_bind; intros s Hs. destruct (get_sup_inv st sup s Hst Hs) as [Is Gs].
      apply wr_if; intros Hc; [apply wr_ub|].
      apply wr_bind; intros r Hr. apply wr_ret, Forall_one.
      apply negb_false_iff in Hc. rewrite forallb_forall in Hc.
      refine (proj1 (okP_ok _ _ _ (spl_ctor_okP ord s coefs Is Gs _) Hr)).
      apply Forall_forall. intros c Hin. apply Nat.eqb_eq. apply Hc. exact Hin.
    - (* SplEmpty *)
      apply wr_bind; intros gr Hgr. apply wr_bind; intros r Hr. apply wr_ret, Forall_one.
      exact (okP_ok _ _ _ (spl_empty_okP ord gr (get_grid_inv st g gr Hst Hgr)) Hr).
    - (* SplCopy *)
      apply wr_bind; intros s Hs. apply wr_bind; intros u _. apply wr_ret, Forall_one.
      exact (get_spl_inv st a s Hst Hs).
    - (* SplMove *)
      apply wr_bind; intros s Hs. pose proof (get_spl_inv st a s Hst Hs) as Is.
      apply wr_ret, Forall_two; [apply moved_from_spl_inv, Is | exact Is].
    - (* SplMoveAssign *)
      apply wr_bind; intros t _. apply wr_bind; intros s Hs.
      pose proof (get_spl_inv st a s Hst Hs) as Is.
      apply wr_if; intros _; [apply wr_ub|].
      apply wr_ret, Forall_two; [exact Is | apply moved_from_spl_inv, Is].
    - (* SplAssignUp *)
      apply wr_bind; intros t _. apply wr_bind; intros s Hs.
      pose proof (get_spl_inv st a s Hst Hs) as Is.
      apply wr_if; intros Hc; [apply wr_ub|].
      apply wr_bind; intros r Hr. apply wr_ret, Forall_one.
      apply negb_false_iff, Nat.ltb_lt in Hc.
      exact (proj1 (okP_ok _ _ _ (spl_assign_up_okP (sord t) s Is ltac:(lia)) Hr)).
    - (* SplScale *)
      apply wr_bind; intros s Hs. apply wr_ret, Forall_one.
      apply spl_scale_inv. exact (get_spl_inv st a s Hst Hs).
    - (* SplScaleL *)
      apply wr_bind; intros s Hs. apply wr_ret, Forall_one.
      apply spl_scale_l_inv. exact (get_spl_inv st a s Hst Hs).
    - (* SplDiv *)
      apply wr_bind; intros s Hs. apply wr_bind; intros r Hr. apply wr_ret, Forall_one.
      exact (spl_div_inv s r c (get_spl_inv st a s Hst Hs) Hr).
    - (* SplNeg *)
      apply wr_bind; intros s Hs. apply wr_ret, Forall_one.
      apply spl_neg_inv. exact (get_spl_inv st a s Hst Hs).
    - (* SplIMul *)
      apply wr_bind; intros s Hs. apply wr_ret, Forall_one.
      apply spl_scale_inv. exact (get_spl_inv st a s Hst Hs).
    - (* SplIDiv *)
      apply wr_bind; intros s Hs. apply wr_bind; intros r Hr. apply wr_ret, Forall_one.
      exact (spl_div_inv s r c (get_spl_inv st a s Hst Hs) Hr).
    - (* SplAdd *)
      apply wr_bind; intros s Hs. apply wr_bind; intros t Ht. apply wr_bind; intros r Hr.
      apply wr_ret, Forall_one.
      exact (okP_ok _ _ _ (spl_add_okP s t (get_spl_inv st a s Hst Hs) (get_spl_inv st b t Hst Ht)) Hr).
    - (* SplSub *)
      apply wr_bind; intros s Hs. apply wr_bind; intros t Ht. apply wr_bind; intros r Hr.
      apply wr_ret, Forall_one.
      exact (okP_ok _ _ _ (spl_sub_okP s t (get_spl_inv st a s Hst Hs) (get_spl_inv st b t Hst Ht)) Hr).
    - (* SplMul *)
      apply wr_bind; intros s Hs. apply wr_bind; intros t Ht. apply wr_bind; intros r Hr.
      apply wr_ret, Forall_one.
      exact (okP_ok _ _ _ (spl_mul_okP s t (get_spl_inv st a s Hst Hs) (get_spl_inv st b t Hst Ht)) Hr).
    - (* SplIAdd *)
      apply wr_bind; intros s Hs. apply wr_bind; intros t Ht. apply wr_bind; intros r Hr.
      apply wr_ret, Forall_one.
      exact (spl_iadd_inv s t r (get_spl_inv st a s Hst Hs) (get_spl_inv st b t Hst Ht) Hr).
    - (* SplISub *)
      apply wr_bind; intros s Hs. apply wr_bind; intros t Ht. apply wr_bind; intros r Hr.
      apply wr_ret, Forall_one.
      exact (spl_isub_inv s t r (get_spl_inv st a s Hst Hs) (get_spl_inv st b t Hst Ht) Hr).
    - (* SplLinComb *)
      apply wr_bind; intros l Hl. apply wr_bind; intros u Hu. apply wr_bind; intros r Hr.
      apply wr_ret, Forall_one.
      refine (okP_ok _ _ _ (lin_comb_okP cs l (omapM_get_spl_inv st ss l Hst Hl) _) Hr).
      intros s0 s H0 Hin. destruct l as [|s0' rest]; [discriminate|].
      cbn [nth_error] in H0. injection H0 as ->.
      destruct (forallb (fun s1 => (sord s1 =? sord s0)%nat) (s0 :: rest)) eqn:E; [|discriminate].
      rewrite forallb_forall in E. apply Nat.eqb_eq. apply E. exact Hin.
    - (* SplSupport *)
      apply wr_bind; intros s Hs. apply wr_ret, Forall_one.
      destruct (get_spl_inv st a s Hst Hs) as (Is & Gs & _). split; assumption.
    - (* Apply *)
      apply wr_if; intros _; [apply wr_ub|].
      apply wr_bind; intros ex Hex. apply wr_bind; intros s Hs. apply wr_bind; intros r Hr.
      apply wr_ret, Forall_one.
      exact (proj1 (okP_ok _ _ _ (apply_okP (elab ex) s (elab_inv ex (resolve_inv st e Hst ex Hex))
                                            (get_spl_inv st a s Hst Hs)) Hr)).
    - (* Gen1 *)
      apply wr_bind; intros l Hl. apply wr_ret, Forall_store_splines.
      exact (proj1 (okP_ok _ _ _ (generate_bsplines_okP order knots Hsz) Hl)).
    - (* Gen2 *)
      apply wr_bind; intros gr Hgr. apply wr_bind; intros gn Hgn. apply wr_bind; intros l Hl.
      apply wr_ret, Forall_store_splines.
      refine (proj1 (okP_ok _ _ _ (generate2_okP order knots gr Hsz) _)).
      rewrite Hgn. exact Hl.
    - (* Interp *)
      apply wr_bind; intros s Hs. destruct (get_sup_inv st x s Hst Hs) as [Is Gs].
      apply wr_if; intros _; [apply wr_ub|].
      apply wr_bind; intros sys Hsys. apply wr_bind; intros r Hr. apply wr_ret, Forall_one.
      destruct (interp_system_ok_inv _ _ _ _ _ Hsys) as [H2 Ls].
      exact (okP_ok _ _ _ (interp_build_inv order s sys Is Gs H2 Ls) Hr).
    - (* InterpDefault *)
      apply wr_bind; intros s Hs. destruct (get_sup_inv st x s Hst Hs) as [Is Gs].
      apply wr_if; intros _; [apply wr_ub|].
      apply wr_bind; intros sys Hsys. apply wr_bind; intros r Hr. apply wr_ret, Forall_one.
      destruct (interp_system_ok_inv _ _ _ _ _ Hsys) as [H2 Ls].
      exact (okP_ok _ _ _ (interp_build_inv order s sys Is Gs H2 Ls) Hr).
    - (* Show *)
      destruct (lookup st a); apply wr_ret; constructor.
  Qed.

  (* C10 over one step and over all histories *)
  Theorem inv_step (st : state F) o : StInv st -> op_sized o -> StInv (fst (step solver st o)).
  Proof.
    intros Hst Hsz. unfold step.
    destruct (eval_op solver st o) as [[ws r]|e|k] eqn:E; cbn [fst]; try exact Hst.
    apply inv_commit; [exact Hst | exact (eval_op_inv st o ws r Hst Hsz E)].
  Qed.

  Lemma run_cons (st : state F) o ops :
    run solver st (o :: ops) =
    (fst (run solver (fst (step solver st o)) ops),
     snd (step solver st o) :: snd (run solver (fst (step solver st o)) ops)).
  Proof.
    cbn [run]. destruct (step solver st o) as [st' x]. cbn [fst snd].
    destruct (run solver st' ops) as [st'' xs]. reflexivity.
  Qed.

  Theorem inv_run (ops : list (op F)) : forall st : state F,
    StInv st -> Forall op_sized ops -> StInv (fst (run solver st ops)).
  Proof.
    induction ops as [|o ops IH]; intros st Hst Hsz; [exact Hst|].
    apply Forall_cons_iff in Hsz as [Ho Hsz]. rewrite run_cons. cbn [fst].
    apply IH; [apply inv_step; assumption | exact Hsz].
  Qed.

  Theorem inv_history (ops : list (op F)) :
    Forall op_sized ops -> StInv (fst (run solver [] ops)).
  Proof. apply inv_run. exact inv_init. Qed.

  (* ================================================================== *)
  (* C10/C14: moved-from objects                                        *)
  (* ================================================================== *)
  (* Support d(std::move(a)): the source becomes the empty view of its grid *)
  Theorem moved_from_sup (st : state F) d a s :
    d <> a -> lookup st a = Some (VSup s) ->
    lookup (fst (step solver st (SupMove d a))) a = Some (VSup (sup_empty_on (sgrid s))) /\
    lookup (fst (step solver st (SupMove d a))) d = Some (VSup s).
  Proof.
    intros Hda Ha. destruct (neq_eqb a d Hda) as [E1 E2].
    unfold step, eval_op. rewrite (proj2 (get_sup_ok st a s) Ha).
    cbn [bind ret fst commit fold_left write lookup].
    rewrite E1, !Nat.eqb_refl. auto.
  Qed.

  (* d = std::move(a), also for d = a (the self-move leaves the object empty) *)
  Theorem moved_from_sup_assign (st : state F) d a s t :
    lookup st d = Some (VSup t) -> lookup st a = Some (VSup s) ->
    lookup (fst (step solver st (SupMoveAssign d a))) a = Some (VSup (sup_empty_on (sgrid s))) /\
    (d <> a -> lookup (fst (step solver st (SupMoveAssign d a))) d = Some (VSup s)).
  Proof.
    intros Hd Ha.
    unfold step, eval_op. rewrite (proj2 (get_sup_ok st d t) Hd), (proj2 (get_sup_ok st a s) Ha).
    cbn [bind ret fst commit fold_left write lookup].
    rewrite !Nat.eqb_refl. split; [reflexivity|].
    intros Hda. destruct (neq_eqb a d Hda) as [E1 E2]. rewrite E2. reflexivity.
  Qed.

  Theorem moved_from_spl (st : state F) d a s :
    d <> a -> lookup st a = Some (VSpl s) ->
    lookup (fst (step solver st (SplMove d a))) a
      = Some (VSpl (mkSpl (sup_empty_on (sgrid (ssup s))) (sord s) [])) /\
    lookup (fst (step solver st (SplMove d a))) d = Some (VSpl s).
  Proof.
    intros Hda Ha. destruct (neq_eqb a d Hda) as [E1 E2].
    unfold step, eval_op. rewrite (proj2 (get_spl_ok st a s) Ha).
    cbn [bind ret fst commit fold_left write lookup].
    rewrite E1, !Nat.eqb_refl. auto.
  Qed.

  Theorem moved_from_spl_assign (st : state F) d a s t :
    lookup st d = Some (VSpl t) -> lookup st a = Some (VSpl s) -> sord t = sord s ->
    lookup (fst (step solver st (SplMoveAssign d a))) a
      = Some (VSpl (mkSpl (sup_empty_on (sgrid (ssup s))) (sord s) [])) /\
    (d <> a -> lookup (fst (step solver st (SplMoveAssign d a))) d = Some (VSpl s)).
  Proof.
    intros Hd Ha Ho.
    unfold step, eval_op. rewrite (proj2 (get_spl_ok st d t) Hd), (proj2 (get_spl_ok st a s) Ha).
    cbn [bind]. rewrite Ho, Nat.eqb_refl.
    cbn [negb ret fst commit fold_left write lookup].
    rewrite !Nat.eqb_refl. split; [reflexivity|].
    intros Hda. destruct (neq_eqb a d Hda) as [E1 E2]. rewrite E2. reflexivity.
  Qed.

  (* ================================================================== *)
  (* C08: operations across different grids are refused, state unchanged *)
  (* ================================================================== *)
  Lemma step_of_throw (st : state F) o e :
    eval_op solver st o = Throw e -> step solver st o = (st, Throw e).
  Proof. apply step_throw. Qed.

  Theorem c08_sup_union (st : state F) d a b sa sb :
    lookup st a = Some (VSup sa) -> lookup st b = Some (VSup sb) -> sgrid sa <> sgrid sb ->
    step solver st (SupUnion d a b) = (st, Throw DIFFERING_GRIDS).
  Proof.
    intros Ha Hb Hg. apply step_throw. unfold eval_op.
    rewrite (proj2 (get_sup_ok _ _ _) Ha), (proj2 (get_sup_ok _ _ _) Hb). cbn [bind].
    rewrite calc_union_differing by exact Hg. reflexivity.
  Qed.

  Theorem c08_sup_inter (st : state F) d a b sa sb :
    lookup st a = Some (VSup sa) -> lookup st b = Some (VSup sb) -> sgrid sa <> sgrid sb ->
    step solver st (SupInter d a b) = (st, Throw DIFFERING_GRIDS).
  Proof.
    intros Ha Hb Hg. apply step_throw. unfold eval_op.
    rewrite (proj2 (get_sup_ok _ _ _) Ha), (proj2 (get_sup_ok _ _ _) Hb). cbn [bind].
    rewrite calc_inter_differing by exact Hg. reflexivity.
  Qed.

  Theorem c08_spl_add (st : state F) d a b sa sb :
    lookup st a = Some (VSpl sa) -> lookup st b = Some (VSpl sb) -> sgridp sa <> sgridp sb ->
    step solver st (SplAdd d a b) = (st, Throw DIFFERING_GRIDS).
  Proof.
    intros Ha Hb Hg. apply step_throw. unfold eval_op.
    rewrite (proj2 (get_spl_ok _ _ _) Ha), (proj2 (get_spl_ok _ _ _) Hb). cbn [bind].
    rewrite spl_add_differing by exact Hg. reflexivity.
  Qed.

  Theorem c08_spl_sub (st : state F) d a b sa sb :
    lookup st a = Some (VSpl sa) -> lookup st b = Some (VSpl sb) -> sgridp sa <> sgridp sb ->
    step solver st (SplSub d a b) = (st, Throw DIFFERING_GRIDS).
  Proof.
    intros Ha Hb Hg. apply step_throw. unfold eval_op.
    rewrite (proj2 (get_spl_ok _ _ _) Ha), (proj2 (get_spl_ok _ _ _) Hb). cbn [bind].
    rewrite spl_sub_differing by exact Hg. reflexivity.
  Qed.

  Theorem c08_spl_mul (st : state F) d a b sa sb :
    lookup st a = Some (VSpl sa) -> lookup st b = Some (VSpl sb) -> sgridp sa <> sgridp sb ->
    step solver st (SplMul d a b) = (st, Throw DIFFERING_GRIDS).
  Proof.
    intros Ha Hb Hg. apply step_throw. unfold eval_op.
    rewrite (proj2 (get_spl_ok _ _ _) Ha), (proj2 (get_spl_ok _ _ _) Hb). cbn [bind].
    rewrite spl_mul_differing by exact Hg. reflexivity.
  Qed.

  (* the in-place forms, well-typed: the operand's order does not exceed the target's *)
  Theorem c08_spl_iadd (st : state F) a b sa sb :
    lookup st a = Some (VSpl sa) -> lookup st b = Some (VSpl sb) ->
    (sord sb <= sord sa)%nat -> sgridp sa <> sgridp sb ->
    step solver st (SplIAdd a b) = (st, Throw DIFFERING_GRIDS).
  Proof.
    intros Ha Hb Ho Hg. apply step_throw. unfold eval_op.
    rewrite (proj2 (get_spl_ok _ _ _) Ha), (proj2 (get_spl_ok _ _ _) Hb). cbn [bind].
    rewrite spl_iadd_differing by assumption. reflexivity.
  Qed.

  Theorem c08_spl_isub (st : state F) a b sa sb :
    lookup st a = Some (VSpl sa) -> lookup st b = Some (VSpl sb) ->
    (sord sb <= sord sa)%nat -> sgridp sa <> sgridp sb ->
    step solver st (SplISub a b) = (st, Throw DIFFERING_GRIDS).
  Proof.
    intros Ha Hb Ho Hg. apply step_throw. unfold eval_op.
    rewrite (proj2 (get_spl_ok _ _ _) Ha), (proj2 (get_spl_ok _ _ _) Hb). cbn [bind].
    rewrite spl_isub_differing by assumption. reflexivity.
  Qed.

  (* linearCombination: as many coefficients as splines (at least one), all of
     one order, one of them on another grid than the first *)
  Theorem c08_lin_comb (st : state F) d cs ss s0 rest :
    omapM (get_spl st) ss = Ok (s0 :: rest) ->
    (forall s, In s (s0 :: rest) -> sord s = sord s0) ->
    length cs = length ss ->
    (exists s, In s (s0 :: rest) /\ sgridp s <> sgridp s0) ->
    step solver st (SplLinComb d cs ss) = (st, Throw DIFFERING_GRIDS).
  Proof.
    intros Hl Ho Hlen Hex. apply step_throw. unfold eval_op. rewrite Hl. cbn [bind].
    assert (forallb (fun s => (sord s =? sord s0)%nat) (s0 :: rest) = true) as ->.
    { apply forallb_forall. intros s Hs. apply Nat.eqb_eq. apply Ho. exact Hs. }
    cbn [bind]. rewrite lin_comb_differing; [reflexivity | | exact Hex].
    rewrite Hlen. symmetry. exact (omapM_length _ _ _ Hl).
  Qed.

  (* C08 for the bilinear form and for the generator given a foreign grid *)
  Theorem c08_bilin (st : state F) e1 e2 a b sa sb :
    pexpr_typed st e1 -> pexpr_typed st e2 ->
    lookup st a = Some (VSpl sa) -> lookup st b = Some (VSpl sb) -> sgridp sa <> sgridp sb ->
    step solver st (Bilin e1 e2 a b) = (st, Throw DIFFERING_GRIDS).
  Proof.
    intros [S1 D1] [S2 D2] Ha Hb Hg. apply step_throw. unfold eval_op.
    rewrite D1, D2. cbn [andb negb].
    destruct (resolve_total st e1 S1) as [x1 ->]. destruct (resolve_total st e2 S2) as [x2 ->].
    rewrite (proj2 (get_spl_ok _ _ _) Ha), (proj2 (get_spl_ok _ _ _) Hb). cbn [bind].
    rewrite bilinear_differing by exact Hg. reflexivity.
  Qed.

  Theorem c08_gen2 (st : state F) d0 order knots g gr :
    lookup st g = Some (VGrid gr) ->
    nondecreasing knots -> two_distinct knots -> (nlen knots < 2 ^ 63)%N -> gr <> unique knots ->
    step solver st (Gen2 d0 order knots g) = (st, Throw INCONSISTENT_DATA).
  Proof.
    intros Hg Hn Hd Hl Hne. apply step_throw. unfold eval_op.
    rewrite (proj2 (get_grid_ok _ _ _) Hg). cbn [bind].
    rewrite (gen_ctor2_mismatch knots gr Hn Hd Hl Hne). reflexivity.
  Qed.

  (* ================================================================== *)
  (* C09: no undefined behaviour on well-typed operations               *)
  (* ================================================================== *)
  Lemma eval_safe (st : state F) o : StInv st -> op_typed st o -> safe (eval_op solver st o).
  Proof.
    intros Hst Ht. destruct o; unfold eval_op; cbn [op_typed] in Ht.
    - (* GridNew *)
      apply safe_last; [apply (okP_weaken _ _ (grid_ctor_okP pts)) | fin].
    - (* GridCopy *) destruct Ht as [g Hg]. got Hg. exact I.
    - (* GridAt *)
      destruct Ht as [[g Hg] _]. got Hg. apply safe_last; [apply grid_at_safe | fin].
    - (* GridSub *)
      destruct Ht as (g & Hg & Hi). got Hg. apply safe_last; [apply grid_sub_safe; exact Hi | fin].
    - (* GridFind *)
      destruct Ht as [g Hg]. got Hg. apply safe_last; [apply grid_find_safe | fin].
    - (* GridEq *) destruct Ht as [[g Hg] [h Hh]]. got Hg. got Hh. exact I.
    - (* GridSize *) destruct Ht as [g Hg]. got Hg. exact I.
    - (* GridFront *)
      destruct Ht as [g Hg]. got Hg. apply safe_last; [apply grid_front_safe | fin].
    - (* GridBack *)
      destruct Ht as [g Hg]. got Hg. apply safe_last; [apply grid_back_safe | fin].
    - (* SupNew *)
      destruct Ht as ([gr Hg] & _ & _). got Hg. pose proof (Hst _ _ Hg) as Ig.
      apply safe_last; [apply (okP_weaken _ _ (sup_ctor_okP gr i j (proj1 (proj2 Ig)))) | fin].
    - (* SupEmpty *)
      destruct Ht as [gr Hg]. got Hg. pose proof (Hst _ _ Hg) as Ig. unfold create_empty.
      apply safe_last; [apply (okP_weaken _ _ (sup_ctor_okP gr _ _ (proj1 (proj2 Ig)))) | fin].
    - (* SupWhole *)
      destruct Ht as [gr Hg]. got Hg. pose proof (Hst _ _ Hg) as Ig. unfold create_whole.
      apply safe_last; [apply (okP_weaken _ _ (sup_ctor_okP gr _ _ (proj1 (proj2 Ig)))) | fin].
    - (* SupCopy *) destruct Ht as [s Hs]. got Hs. exact I.
    - (* SupMove *) destruct Ht as [s Hs]. got Hs. exact I.
    - (* SupMoveAssign *) destruct Ht as [[t Hd] [s Hs]]. got Hd. got Hs. exact I.
    - (* SupUnion *)
      destruct Ht as [[s Hs] [t Ht']]. got Hs. got Ht'.
      destruct (Hst _ _ Hs) as [Is _]. destruct (Hst _ _ Ht') as [It _].
      apply safe_last; [apply (okP_weaken _ _ (calc_union_okP s t Is It)) | fin].
    - (* SupInter *)
      destruct Ht as [[s Hs] [t Ht']]. got Hs. got Ht'.
      destruct (Hst _ _ Hs) as [Is _]. destruct (Hst _ _ Ht') as [It _].
      apply safe_last; [apply (okP_weaken _ _ (calc_inter_okP s t Is It)) | fin].
    - (* SupRel *) destruct Ht as [[s Hs] _]. got Hs. exact I.
    - (* SupIvl *) destruct Ht as [[s Hs] _]. got Hs. exact I.
    - (* SupAbs *)
      destruct Ht as [[s Hs] _]. got Hs. apply safe_last; [apply abs_from_rel_safe | fin].
    - (* SupAt *)
      destruct Ht as [[s Hs] Hi]. got Hs. destruct (Hst _ _ Hs) as [Is _].
      apply safe_last; [apply sup_at_safe; assumption | fin].
    - (* SupSub *)
      destruct Ht as (s & Hs & Hi). got Hs. destruct (Hst _ _ Hs) as [Is _].
      apply safe_last; [apply sup_sub_safe; assumption | fin].
    - (* SupFront *)
      destruct Ht as [s Hs]. got Hs. destruct (Hst _ _ Hs) as [Is _].
      apply safe_last; [apply sup_front_safe; exact Is | fin].
    - (* SupBack *)
      destruct Ht as [s Hs]. got Hs. destruct (Hst _ _ Hs) as [Is _].
      apply safe_last; [apply sup_back_safe; exact Is | fin].
    - (* SupIter *) destruct Ht as [s Hs]. got Hs. exact I.
    - (* SupEq *) destruct Ht as [[s Hs] [t Ht']]. got Hs. got Ht'. exact I.
    - (* SupSameGrid *) destruct Ht as [[s Hs] [t Ht']]. got Hs. got Ht'. exact I.
    - (* SupIsEmpty *) destruct Ht as [s Hs]. got Hs. exact I.
    - (* SupContains *) destruct Ht as [s Hs]. got Hs. exact I.
    - (* SupGrid *) destruct Ht as [s Hs]. got Hs. exact I.
    - (* SplNew *)
      destruct Ht as ([s Hs] & Hc & _). got Hs. destruct (Hst _ _ Hs) as [Is Gs].
      assert (forallb (fun c => (length c =? ord + 1)%nat) coefs = true) as ->.
      { apply forallb_forall. intros c Hin. apply Nat.eqb_eq.
        rewrite Forall_forall in Hc. apply Hc. exact Hin. }
      cbn [negb].
      apply safe_last; [apply (okP_weaken _ _ (spl_ctor_okP ord s coefs Is Gs Hc)) | fin].
    - (* SplEmpty *)
      destruct Ht as [gr Hg]. got Hg. pose proof (Hst _ _ Hg) as Ig.
      apply safe_last; [apply (okP_weaken _ _ (spl_empty_okP ord gr Ig)) | fin].
    - (* SplCopy *)
      destruct Ht as (s & Ha & Hd). got Ha. rewrite copy_check by exact Hd. exact I.
    - (* SplMove *) destruct Ht as [s Hs]. got Hs. exact I.
    - (* SplMoveAssign *)
      destruct Ht as (t & s & Hd & Ha & Ho). got Hd. got Ha. rewrite Ho, Nat.eqb_refl. exact I.
    - (* SplAssignUp *)
      destruct Ht as (t & s & Hd & Ha & Ho). got Hd. got Ha. pose proof (Hst _ _ Ha) as Is.
      destruct (Nat.ltb_spec (sord s) (sord t)) as [_|Hge]; [|lia]. cbn [negb].
      apply safe_last;
        [apply (okP_weaken _ _ (spl_assign_up_okP (sord t) s Is ltac:(lia))) | fin].
    - (* SplScale *) destruct Ht as [s Hs]. got Hs. exact I.
    - (* SplScaleL *) destruct Ht as [s Hs]. got Hs. exact I.
    - (* SplDiv *)
      destruct Ht as [[s Hs] Hc]. got Hs. pose proof (Hst _ _ Hs) as Is.
      apply safe_last; [apply (okP_weaken _ _ (spl_div_okP s c Is Hc)) | fin].
    - (* SplNeg *) destruct Ht as [s Hs]. got Hs. exact I.
    - (* SplIMul *) destruct Ht as [s Hs]. got Hs. exact I.
    - (* SplIDiv *)
      destruct Ht as [[s Hs] Hc]. got Hs. pose proof (Hst _ _ Hs) as Is.
      apply safe_last; [apply (okP_weaken _ _ (spl_div_okP s c Is Hc)) | fin].
    - (* SplAdd *)
      destruct Ht as [[s Hs] [t Ht']]. got Hs. got Ht'.
      pose proof (Hst _ _ Hs) as Is. pose proof (Hst _ _ Ht') as It.
      apply safe_last; [apply (okP_weaken _ _ (spl_add_okP s t Is It)) | fin].
    - (* SplSub *)
      destruct Ht as [[s Hs] [t Ht']]. got Hs. got Ht'.
      pose proof (Hst _ _ Hs) as Is. pose proof (Hst _ _ Ht') as It.
      apply safe_last; [apply (okP_weaken _ _ (spl_sub_okP s t Is It)) | fin].
    - (* SplMul *)
      destruct Ht as [[s Hs] [t Ht']]. got Hs. got Ht'.
      pose proof (Hst _ _ Hs) as Is. pose proof (Hst _ _ Ht') as It.
      apply safe_last; [apply (okP_weaken _ _ (spl_mul_okP s t Is It)) | fin].
    - (* SplIAdd *)
      destruct Ht as (s & t & Hs & Ht' & Ho). got Hs. got Ht'.
      pose proof (Hst _ _ Hs) as Is. pose proof (Hst _ _ Ht') as It.
      apply safe_last; [apply (okP_weaken _ _ (spl_iadd_okP s t Is It Ho)) | fin].
    - (* SplISub *)
      destruct Ht as (s & t & Hs & Ht' & Ho). got Hs. got Ht'.
      pose proof (Hst _ _ Hs) as Is. pose proof (Hst _ _ Ht') as It.
      apply safe_last; [apply (okP_weaken _ _ (spl_isub_okP s t Is It Ho)) | fin].
    - (* SplLinComb *)
      destruct Ht as ((l & Hl & Ho) & _ & _).
      pose proof (omapM_get_spl_total st ss l Hl) as El. rewrite El. cbn [bind].
      rewrite order_check by exact Ho. cbn [bind].
      apply safe_last; [|fin].
      apply (okP_weaken _ _ (lin_comb_okP cs l (omapM_get_spl_inv st ss l Hst El)
               ltac:(intros s0 s H0 Hin; apply Ho; [exact Hin | eapply nth_error_In; exact H0]))).
    - (* SplEval *)
      destruct Ht as [s Hs]. got Hs. pose proof (Hst _ _ Hs) as Is.
      apply safe_last; [apply spl_eval_safe; exact Is | fin].
    - (* SplFront *)
      destruct Ht as [s Hs]. got Hs. destruct (Hst _ _ Hs) as [Is _]. unfold spl_front.
      apply safe_last; [apply sup_front_safe; exact Is | fin].
    - (* SplBack *)
      destruct Ht as [s Hs]. got Hs. destruct (Hst _ _ Hs) as [Is _]. unfold spl_back.
      apply safe_last; [apply sup_back_safe; exact Is | fin].
    - (* SplIsZero *) destruct Ht as [s Hs]. got Hs. exact I.
    - (* SplOverlap *)
      destruct Ht as [[s Hs] [t Ht']]. got Hs. got Ht'.
      pose proof (Hst _ _ Hs) as Is. pose proof (Hst _ _ Ht') as It.
      apply safe_last; [apply check_overlap_safe; assumption | fin].
    - (* SplEq *)
      destruct Ht as (s & t & Hs & Ht' & Ho). got Hs. got Ht'. rewrite Ho, Nat.eqb_refl. exact I.
    - (* SplSupport *) destruct Ht as [s Hs]. got Hs. exact I.
    - (* Apply *)
      destruct Ht as [[Sl Dv] [s Hs]]. rewrite Dv. cbn [negb].
      destruct (resolve_total st e Sl) as [ex Hex]. rewrite Hex. cbn [bind]. got Hs.
      pose proof (Hst _ _ Hs) as Is.
      apply safe_last; [|fin].
      apply (okP_weaken _ _ (apply_okP (elab ex) s (elab_inv ex (resolve_inv st e Hst ex Hex)) Is)).
    - (* Transform *)
      destruct Ht as ([Sl Dv] & Hne & _ & gr & Hg & Hk). rewrite Dv. cbn [negb].
      destruct (resolve_total st e Sl) as [ex Hex]. rewrite Hex. cbn [bind]. got Hg.
      pose proof (Hst _ _ Hg) as Ig.
      apply safe_last; [|fin].
      apply (okP_weaken _ _ (tr_shape_okP _ _ _
               (transform_total_shape (elab ex) (elab_inv ex (resolve_inv st e Hst ex Hex))
                  input gr k (proj1 (proj2 Ig)) Hk Hne))).
    - (* Bilin *)
      destruct Ht as ([S1 D1] & [S2 D2] & [s Hs] & [t Ht']). rewrite D1, D2. cbn [andb negb].
      destruct (resolve_total st e1 S1) as [x1 Hx1]. rewrite Hx1. cbn [bind].
      destruct (resolve_total st e2 S2) as [x2 Hx2]. rewrite Hx2. cbn [bind].
      got Hs. got Ht'. pose proof (Hst _ _ Hs) as Is. pose proof (Hst _ _ Ht') as It.
      apply safe_last; [|fin].
      apply bilinear_safe; try assumption;
        apply elab_inv; eapply resolve_inv; eassumption.
    - (* Lin *)
      destruct Ht as [[Sl Dv] [s Hs]]. rewrite Dv. cbn [negb].
      destruct (resolve_total st e Sl) as [ex Hex]. rewrite Hex. cbn [bind]. got Hs.
      pose proof (Hst _ _ Hs) as Is.
      apply safe_last; [|fin].
      apply linear_safe; [|exact Is]. apply elab_inv. eapply resolve_inv; eassumption.
    - (* Gen1 *)
      apply safe_last; [apply (okP_weaken _ _ (generate_bsplines_okP order knots Ht)) | fin].
    - (* Gen2 *)
      destruct Ht as [[gr Hg] Hl]. got Hg.
      rewrite <- (bind_assoc (gen_ctor2 knots gr) (fun gn => generate gn order)).
      apply safe_last; [apply (okP_weaken _ _ (generate2_okP order knots gr Hl)) | fin].
    - (* Interp *)
      destruct Ht as ([s Hs] & Ho & Hb & _). got Hs. destruct (Hst _ _ Hs) as [Is Gs].
      destruct (Nat.eqb_spec order 0) as [E0|_]; [lia|]. rewrite Hb, Nat.eqb_refl. cbn [negb orb].
      eapply okP_bind; [apply (interp_system_okP order s y bs Is Gs Ho Hb)|].
      intros sys _ [H2 Ls].
      apply safe_last; [apply (okP_weaken _ _ (interp_build_inv order s sys Is Gs H2 Ls)) | fin].
    - (* InterpDefault *)
      destruct Ht as ([s Hs] & Ho & _). got Hs. destruct (Hst _ _ Hs) as [Is Gs].
      destruct (Nat.eqb_spec order 0) as [E0|_]; [lia|].
      destruct (default_boundaries_ok (F:=F) order Ho) as [_ Hbl].
      eapply okP_bind; [apply (interp_system_okP order s y _ Is Gs Ho Hbl)|].
      intros sys _ [H2 Ls].
      apply safe_last; [apply (okP_weaken _ _ (interp_build_inv order s sys Is Gs H2 Ls)) | fin].
    - (* Show *)
      destruct (lookup st a); exact I.
  Qed.

  (* C09 *)
  Theorem no_ub (st : state F) o : StInv st -> op_typed st o ->
    match snd (step solver st o) with
    | UB _ => False
    | Throw BadOptionalAccess | Throw StdOutOfRange => False
    | _ => True
    end.
  Proof.
    intros Hst Ht. pose proof (eval_safe st o Hst Ht) as H. unfold step.
    destruct (eval_op solver st o) as [[ws r]|e|k]; cbn [snd okP] in *;
      [exact I | destruct e; exact H | exact H].
  Qed.

  (* ---- whole histories ---- *)

  (* every operation of the history is well-typed in the state it is applied to *)
  Fixpoint typed_history (st : state F) (ops : list (op F)) : Prop :=
    match ops with
    | [] => True
    | o :: r => op_typed st o /\ typed_history (fst (step solver st o)) r
    end.

  Definition clean (x : outcome (obs F)) : Prop :=
    match x with
    | UB _ => False
    | Throw BadOptionalAccess | Throw StdOutOfRange => False
    | _ => True
    end.

  (* C09 and C10 together over all well-typed finite histories *)
  Theorem no_ub_history (ops : list (op F)) : forall st : state F,
    StInv st -> typed_history st ops ->
    Forall clean (snd (run solver st ops)) /\ StInv (fst (run solver st ops)).
  Proof.
    induction ops as [|o ops IH]; intros st Hst Ht; [split; [constructor | exact Hst]|].
    destruct Ht as [Ho Ht]. rewrite run_cons. cbn [fst snd].
    pose proof (inv_step st o Hst (op_typed_sized st o Ho)) as Hst'.
    destruct (IH _ Hst' Ht) as [Hc Hi]. split; [|exact Hi].
    constructor; [exact (no_ub st o Hst Ho) | exact Hc].
  Qed.

  (* C14 over histories: a slot that no operation of the history targets keeps
     its binding *)
  Theorem frame_run (ops : list (op F)) : forall (st : state F) i,
    (forall o, In o ops -> ~ In i (targets o)) ->
    lookup (fst (run solver st ops)) i = lookup st i.
  Proof.
    induction ops as [|o ops IH]; intros st i H; [reflexivity|].
    rewrite run_cons. cbn [fst].
    rewrite IH by (intros o' Ho'; apply H; right; exact Ho').
    apply frame. apply H. left. reflexivity.
  Qed.

End PoolFacts.

(* ================================================================== *)
(* The solver of Solver.v satisfies the assumption made about solvers  *)
(* ================================================================== *)
Section SolverLen.
  Context {F : Type} {K : Ops F}.

  Lemma swap_rows_length (rows : list (list F)) i j : length (swap_rows rows i j) = length rows.
  Proof. unfold swap_rows. rewrite map_length, combine_length, seq_length. apply Nat.min_id. Qed.

  Lemma eliminate_length (rows rows' : list (list F)) k :
    eliminate rows k = Some rows' -> length rows' = length rows.
  Proof.
    unfold eliminate. destruct (find_pivot rows k 0) as [p|]; [|discriminate]. intros [= <-].
    rewrite map_length, combine_length, seq_length, Nat.min_id. apply swap_rows_length.
  Qed.

  Lemma gauss_loop_length fuel : forall (rows rows' : list (list F)) k,
    gauss_loop rows k fuel = Some rows' -> length rows' = length rows.
  Proof.
    induction fuel as [|fuel IH]; intros rows rows' k H; cbn [gauss_loop] in H.
    - injection H as <-. reflexivity.
    - destruct (eliminate rows k) as [rows1|] eqn:E; [|discriminate].
      rewrite (IH _ _ _ H). exact (eliminate_length _ _ _ E).
  Qed.

  Theorem gauss_solve_len (sys : list (row F)) :
    length (gauss_solve (length sys) sys) = length sys.
  Proof.
    unfold gauss_solve.
    destruct (gauss_loop (map (dense_row (length sys)) sys) 0 (length sys)) as [rows|] eqn:E.
    - rewrite map_length, (gauss_loop_length _ _ _ _ E), map_length. reflexivity.
    - apply repeat_length.
  Qed.
End SolverLen.

(* ================================================================== *)
(* Why [eval_op_inv] needs [op_sized]: the grid constructor of the      *)
(* model accepts a (mathematical) list of 2^63 points, which no         *)
(* std::vector can hold and which the model's [GInv] excludes           *)
(* ================================================================== *)
Section SizeBound.
  Context {F : Type} {K : Ops F} {L : Laws K}.

  Lemma increasing_fofnat_seq s n : increasing (map (@fofnat F K) (seq s n)).
  Proof.
    intros i a b Ha Hb.
    assert (S i < n)%nat as Hi.
    { assert (nth_error (map (@fofnat F K) (seq s n)) (S i) <> None) as H by congruence.
      apply nth_error_Some in H. rewrite map_length, seq_length in H. exact H. }
    rewrite nth_error_map', nth_error_seq in Ha, Hb by lia. cbn [option_map] in Ha, Hb.
    injection Ha as <-. injection Hb as <-. unfold fofnat. apply fofZ_lt. lia.
  Qed.

  Lemma big_grid (n : nat) : (2 ^ 63 <= N.of_nat n)%N ->
    grid_ctor (map (@fofnat F K) (seq 0 n)) = Ok (map (@fofnat F K) (seq 0 n)) /\
    ~ GInv (map (@fofnat F K) (seq 0 n)).
  Proof.
    intros Hn. split.
    - destruct (proj2 (grid_ctor_iff (map (@fofnat F K) (seq 0 n)))) as [g Hg].
      + split; [|apply increasing_fofnat_seq]. unfold nlen. rewrite map_length, seq_length. lia.
      + rewrite Hg. f_equal. exact (grid_ctor_ok _ _ Hg).
    - intros (_ & H & _). unfold nlen in H. rewrite map_length, seq_length in H. lia.
  Qed.

  Theorem grid_size_bound_needed : exists pts : list F, grid_ctor pts = Ok pts /\ ~ GInv pts.
  Proof.
    eexists. apply (big_grid (N.to_nat (2 ^ 63))). rewrite N2Nat.id. apply N.le_refl.
  Qed.

  Theorem eval_op_inv_size_needed (solver : nat -> list (row F) -> list F) :
    exists (o : op F) ws r, StInv (F:=F) [] /\ eval_op solver [] o = Ok (ws, r) /\
                            ~ Forall (fun w => ObjInv (snd w)) ws.
  Proof.
    destruct grid_size_bound_needed as (pts & Hc & Hn).
    exists (GridNew 0 pts), [(0%nat, VGrid pts)], void. split; [exact inv_init|]. split.
    - unfold eval_op. rewrite Hc. reflexivity.
    - intros H. apply Forall_cons_iff in H as [H _]. exact (Hn H).
  Qed.
End SizeBound.

(* ================================================================== *)
(* Instantiation and witnesses over the rationals                      *)
(* ================================================================== *)
From BSpl Require Import Instances.

(* the theorems apply to the executable model: exact rationals, Gauss solver *)
Definition no_ub_gauss :=
  @no_ub Qcanon.Qc QcOps Qc_laws gauss_solve (@gauss_solve_len Qcanon.Qc QcOps).
Definition inv_history_gauss :=
  @inv_history Qcanon.Qc QcOps Qc_laws gauss_solve (@gauss_solve_len Qcanon.Qc QcOps).

(* the stronger assumption "length (solver n sys) = n for all n" is false for it *)
Example gauss_solve_not_rectangular :
  length (gauss_solve 0 [mkRow [] (qc 0 1)]) = 1%nat.
Proof. vm_compute. reflexivity. Qed.

Definition pool_g1 : list Qcanon.Qc := [qc 0 1; qc 1 1; qc 2 1; qc 3 1].
Definition pool_g2 : list Qcanon.Qc := [qc 0 1; qc 1 1; qc 2 1].

(* [moved_from_sup] needs d <> a: "moving a slot into itself" with the
   move CONSTRUCTOR form keeps the value (the write to d comes last) *)
Example sup_move_same_slot :
  let st := fst (run gauss_solve [] [GridNew 0 pool_g1; SupNew 1 0 0 3]) in
  lookup st 1 = Some (VSup (mkSup pool_g1 0 3)) /\
  lookup (fst (step gauss_solve st (SupMove 1 1))) 1 = Some (VSup (mkSup pool_g1 0 3)).
Proof. split; vm_compute; reflexivity. Qed.

(* a history mixing constructions, arithmetic across one and two grids, moves,
   a self move-assignment, interpolation, the generator, forms and operator
   application: two calls are refused with DIFFERING_GRIDS, all others succeed *)
Definition pool_hist : list (op Qcanon.Qc) :=
  [GridNew 0 pool_g1; GridNew 1 pool_g2; SupNew 2 0 0 3; SupWhole 3 1;
   SplNew 4 1 2 [[qc 1 1; qc 2 1]; [qc 0 1; qc 1 1]];
   SplNew 5 1 3 [[qc 1 1; qc 1 1]; [qc 1 1; qc 1 1]];
   SplAdd 6 4 5; SplAdd 6 4 4; SplMove 7 4; Show 4; SplMoveAssign 6 6; Show 6;
   Interp 8 1 2 [qc 1 1; qc 2 1; qc 0 1] []; SplEval 8 (qc 1 2);
   Gen1 10 1 [qc 0 1; qc 0 1; qc 1 1; qc 2 1; qc 2 1];
   Bilin (PDer 1) (PSpl 10) 10 11; Apply 12 (PSpl 5) 4; Apply 12 (PSpl 5) 8].

Example pool_hist_outcomes :
  map (fun x => match x with Ok _ => None | Throw e => Some (inl e) | UB k => Some (inr k) end)
      (snd (run gauss_solve [] pool_hist))
  = [None; None; None; None; None; None; Some (inl DIFFERING_GRIDS); None; None; None; None; None;
     None; None; None; None; None; Some (inl DIFFERING_GRIDS)].
Proof. vm_compute. reflexivity. Qed.

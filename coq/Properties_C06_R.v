(* Properties_C06_R.v — C06_R: analysis bridge for C06 at the real numbers.
   Statements only: every theorem is closed by [exact <lemma>] and followed by
   Print Assumptions.  The statements quantify over every scalar structure
   (F, K : Ops F) that satisfies the ordered-field laws (Laws K), and over all
   grids, windows, orders, coefficient values, expressions etc. named in them.
   defint is the Riemann integral (Coquelicot is_RInt / RInt); the scalar product is the integral of
   the product of the two evaluated splines over the common support.  Real-number axioms. *)
From Coq Require Import List NArith ZArith Arith Bool.
From BSpl Require Import Scalar Outcome Support Poly Spline Ops Forms Generator Interp Spec Spec_Ops Spec_Gen Proofs_Support Proofs_Scalar Proofs_Poly Proofs_Binom Proofs_Eval Proofs_Outcome Proofs_Spline Proofs_Forms Proofs_Ops Proofs_Forms2 Proofs_Interp Proofs_Pred Proofs_Gen Instances Instances_Ext Proofs_Valid Solver Pool Quad Proofs_Pool Proofs_Quad Proofs_Rounded Proofs_Threads Proofs_Updates Examples Proofs_Examples Proofs_Analysis Proofs_Smooth Proofs_Laws.
Import ListNotations.


Theorem C06_R_defint_is_RInt :
    forall (p : list Rdefinitions.RbaseSymbolsImpl.R) (h : Rdefinitions.RbaseSymbolsImpl.R),
           @RInt.is_RInt Hierarchy.R_NormedModule (fun u : Rdefinitions.RbaseSymbolsImpl.R => pevalR p u)
             (Rdefinitions.RbaseSymbolsImpl.Ropp h) h (@defint Rdefinitions.RbaseSymbolsImpl.R ExactOps p h).
Proof. exact (@Proofs_Analysis.defint_is_RInt). Qed.

Theorem C06_R_defint_RInt :
    forall (p : list Rdefinitions.RbaseSymbolsImpl.R) (h : Rdefinitions.RbaseSymbolsImpl.R),
           @defint Rdefinitions.RbaseSymbolsImpl.R ExactOps p h =
           @RInt.RInt Hierarchy.R_CompleteNormedModule (fun u : Rdefinitions.RbaseSymbolsImpl.R => pevalR p u)
             (Rdefinitions.RbaseSymbolsImpl.Ropp h) h.
Proof. exact (@Proofs_Analysis.defint_RInt). Qed.

Theorem C06_R_scalar_product_sum_of_integrals :
    forall (a b : spline Rdefinitions.RbaseSymbolsImpl.R) (u : support Rdefinitions.RbaseSymbolsImpl.R),
           @SplInv Rdefinitions.RbaseSymbolsImpl.R ExactOps a ->
           @SplInv Rdefinitions.RbaseSymbolsImpl.R ExactOps b ->
           @sgridp Rdefinitions.RbaseSymbolsImpl.R a = @sgridp Rdefinitions.RbaseSymbolsImpl.R b ->
           @calc_inter Rdefinitions.RbaseSymbolsImpl.R ExactOps (@ssup Rdefinitions.RbaseSymbolsImpl.R a)
             (@ssup Rdefinitions.RbaseSymbolsImpl.R b) = @Ok (support Rdefinitions.RbaseSymbolsImpl.R) u ->
           @bilinear Rdefinitions.RbaseSymbolsImpl.R ExactOps (@OId Rdefinitions.RbaseSymbolsImpl.R)
             (@OId Rdefinitions.RbaseSymbolsImpl.R) a b =
           @Ok Rdefinitions.RbaseSymbolsImpl.R
             (@fsum Rdefinitions.RbaseSymbolsImpl.R ExactOps
                (fun k : N =>
                 @RInt.RInt Hierarchy.R_CompleteNormedModule
                   (fun x : Rdefinitions.RbaseSymbolsImpl.R =>
                    Rdefinitions.RbaseSymbolsImpl.Rmult (@den Rdefinitions.RbaseSymbolsImpl.R ExactOps a k x)
                      (@den Rdefinitions.RbaseSymbolsImpl.R ExactOps b k x))
                   (@gnth Rdefinitions.RbaseSymbolsImpl.R ExactOps (@sgridp Rdefinitions.RbaseSymbolsImpl.R a) k)
                   (@gnth Rdefinitions.RbaseSymbolsImpl.R ExactOps (@sgridp Rdefinitions.RbaseSymbolsImpl.R a)
                      (k + 1))) (@interval_list Rdefinitions.RbaseSymbolsImpl.R u)).
Proof. exact (@Proofs_Analysis.scalar_product_sum_of_integrals). Qed.

Theorem C06_R_scalar_product_is_integral :
    forall (a b : spline Rdefinitions.RbaseSymbolsImpl.R) (u : support Rdefinitions.RbaseSymbolsImpl.R),
           @SplInv Rdefinitions.RbaseSymbolsImpl.R ExactOps a ->
           @SplInv Rdefinitions.RbaseSymbolsImpl.R ExactOps b ->
           @sgridp Rdefinitions.RbaseSymbolsImpl.R a = @sgridp Rdefinitions.RbaseSymbolsImpl.R b ->
           @calc_inter Rdefinitions.RbaseSymbolsImpl.R ExactOps (@ssup Rdefinitions.RbaseSymbolsImpl.R a)
             (@ssup Rdefinitions.RbaseSymbolsImpl.R b) = @Ok (support Rdefinitions.RbaseSymbolsImpl.R) u ->
           exists v : Rdefinitions.RbaseSymbolsImpl.R,
             @bilinear Rdefinitions.RbaseSymbolsImpl.R ExactOps (@OId Rdefinitions.RbaseSymbolsImpl.R)
               (@OId Rdefinitions.RbaseSymbolsImpl.R) a b = @Ok Rdefinitions.RbaseSymbolsImpl.R v /\
             @RInt.is_RInt Hierarchy.R_NormedModule
               (fun x : Rdefinitions.RbaseSymbolsImpl.R =>
                Rdefinitions.RbaseSymbolsImpl.Rmult (sfun a x) (sfun b x))
               (@gnth Rdefinitions.RbaseSymbolsImpl.R ExactOps (@sgridp Rdefinitions.RbaseSymbolsImpl.R a)
                  (@sstart Rdefinitions.RbaseSymbolsImpl.R u))
               (@gnth Rdefinitions.RbaseSymbolsImpl.R ExactOps (@sgridp Rdefinitions.RbaseSymbolsImpl.R a)
                  (@sstart Rdefinitions.RbaseSymbolsImpl.R u + @nintervals Rdefinitions.RbaseSymbolsImpl.R u)) v.
Proof. exact (@Proofs_Analysis.scalar_product_is_integral). Qed.


Print Assumptions C06_R_defint_is_RInt.
Print Assumptions C06_R_defint_RInt.
Print Assumptions C06_R_scalar_product_sum_of_integrals.
Print Assumptions C06_R_scalar_product_is_integral.

(* Properties_C20.v — C20: the shipped example solvers are well-defined programs and solve their problems.
   Statements only: every theorem is closed by [exact <lemma>] and followed by
   Print Assumptions.  The statements quantify over every scalar structure
   (F, K : Ops F) that satisfies the ordered-field laws (Laws K), and over all
   grids, windows, orders, coefficient values, expressions etc. named in them.
   PARTIAL: theorems about the MODEL of the solver skeletons (Examples.v: knot set-up, basis
   generation, std::vector front/back/erase/pop_back and indexed access to the eigen solver's output
   in the checked-container reading, assembly with the library's forms, construction of the returned
   splines).  Eigen's dense solvers are arbitrary functions of the right result size.  ORDER is
   SPLINE_ORDER (10 in the shipped code; any ORDER >= 1 here).  Not proved: the straight line for a
   constant coefficient, the numerical spectra of the harmonic oscillator and hydrogen examples
   (floating-point eigen decompositions) - validated with tolerances by the check. *)
From Coq Require Import List NArith ZArith Arith Bool.
From BSpl Require Import Scalar Outcome Support Poly Spline Ops Forms Generator Interp Spec Spec_Ops Spec_Gen Proofs_Support Proofs_Scalar Proofs_Poly Proofs_Binom Proofs_Eval Proofs_Outcome Proofs_Spline Proofs_Forms Proofs_Ops Proofs_Forms2 Proofs_Interp Proofs_Pred Proofs_Gen Instances Instances_Ext Proofs_Valid Solver Pool Quad Proofs_Pool Proofs_Quad Proofs_Rounded Proofs_Threads Proofs_Updates Examples Proofs_Examples Proofs_Analysis Proofs_Smooth Proofs_Laws.
Import ListNotations.


Theorem C20_diffusion_no_ub :
    forall (F : Type) (K : Ops F),
           Laws K ->
           forall (ORDER : nat) (solve : list (list F) -> list F -> list F) (d : spline F) (a b : F),
           SplInv d ->
           nintervals (ssup d) <> 0%N ->
           1 <= ORDER ->
           sstart (ssup d) = 0%N /\ sstop (ssup d) = nlen (sgridp d) ->
           (forall (m : list (list F)) (r : list F), length (solve m r) = length r) ->
           N.to_nat (sstop (ssup d) - sstart (ssup d)) + ORDER >= 4 ->
           exists r : spline F,
             diffusion ORDER solve d a b = Ok r /\ SplInv r /\ sgridp r = sgridp d /\ sord r = ORDER.
Proof. exact (@Proofs_Examples.diffusion_no_ub). Qed.

Theorem C20_diffusion_basis :
    forall (F : Type) (K : Ops F),
           Laws K ->
           forall (ORDER : nat) (d : spline F),
           SplInv d ->
           nintervals (ssup d) <> 0%N ->
           1 <= ORDER ->
           sstart (ssup d) = 0%N /\ sstop (ssup d) = nlen (sgridp d) ->
           exists basis : list (spline F),
             diff_basis ORDER (ssup d) = Ok basis /\
             length basis = N.to_nat (sstop (ssup d) - sstart (ssup d)) + ORDER - 1 /\
             Forall SplInv basis /\ Forall (fun s : spline F => sgridp s = sgridp d /\ sord s = ORDER) basis.
Proof. exact (@Proofs_Examples.diff_basis_count). Qed.

Theorem C20_diffusion_system_shape :
    forall (F : Type) (K : Ops F),
           Laws K ->
           forall (ORDER : nat) (d : spline F) (a b : F),
           SplInv d ->
           nintervals (ssup d) <> 0%N ->
           1 <= ORDER ->
           sstart (ssup d) = 0%N /\ sstop (ssup d) = nlen (sgridp d) ->
           exists (basis : list (spline F)) (sys : diff_system),
             diff_basis ORDER (ssup d) = Ok basis /\
             diffusion_system ORDER d a b = Ok sys /\
             length (ds_inner sys) = length basis - 2 /\
             length (ds_inner sys) = N.to_nat (sstop (ssup d) - sstart (ssup d)) + ORDER - 3 /\
             length (ds_mat sys) = length (ds_inner sys) /\
             Forall (fun row : list F => length row = length (ds_inner sys)) (ds_mat sys) /\
             length (ds_rhs sys) = length (ds_inner sys) /\
             SplInv (ds_first sys) /\
             SplInv (ds_last sys) /\
             Forall SplInv (ds_inner sys) /\
             Forall (fun s : spline F => sgridp s = sgridp d /\ sord s = ORDER)
               (ds_first sys :: ds_last sys :: ds_inner sys).
Proof. exact (@Proofs_Examples.diffusion_system_ok). Qed.

Theorem C20_diffusion_subwindow_refused :
    forall (F : Type) (K : Ops F),
           Laws K ->
           forall (ORDER : nat) (s : support F),
           SInv s ->
           GInv (sgrid s) ->
           nintervals s <> 0%N ->
           ~ (sstart s = 0%N /\ sstop s = nlen (sgrid s)) -> diff_basis ORDER s = Throw INCONSISTENT_DATA.
Proof. exact (@Proofs_Examples.diff_basis_window_refused). Qed.

Theorem C20_diffusion_too_small :
    forall (F : Type) (K : Ops F),
           Laws K ->
           forall (ORDER : nat) (solve : list (list F) -> list F -> list F) (d : spline F) (a b : F),
           SplInv d ->
           nintervals (ssup d) <> 0%N ->
           1 <= ORDER ->
           sstart (ssup d) = 0%N /\ sstop (ssup d) = nlen (sgridp d) ->
           (forall (m : list (list F)) (r : list F), length (solve m r) = length r) ->
           N.to_nat (sstop (ssup d) - sstart (ssup d)) + ORDER < 4 ->
           diffusion ORDER solve d a b = Throw MISSING_DATA.
Proof. exact (@Proofs_Examples.diffusion_too_small). Qed.

Theorem C20_diffusion_end_values :
    forall (F : Type) (K : Ops F),
           Laws K ->
           forall (ORDER : nat) (solve : list (list F) -> list F -> list F) (d : spline F) 
             (a b : F) (r : spline F),
           SplInv d ->
           nintervals (ssup d) <> 0%N ->
           1 <= ORDER ->
           sstart (ssup d) = 0%N /\ sstop (ssup d) = nlen (sgridp d) ->
           (forall (m : list (list F)) (rhs : list F), length (solve m rhs) = length rhs) ->
           diffusion ORDER solve d a b = Ok r ->
           spl_eval r (gnth (sgridp d) 0) = Ok a /\ spl_eval r (gnth (sgridp d) (nlen (sgridp d) - 1)) = Ok b.
Proof. exact (@Proofs_Examples.diffusion_end_values). Qed.

Theorem C20_diffusion_scale :
    forall (F : Type) (K : Ops F),
           Laws K ->
           forall (ORDER : nat) (d : spline F) (lam a b : F) (sys : diff_system),
           SplInv d ->
           nintervals (ssup d) <> 0%N ->
           1 <= ORDER ->
           sstart (ssup d) = 0%N /\ sstop (ssup d) = nlen (sgridp d) ->
           diffusion_system ORDER d a b = Ok sys ->
           exists sys' : diff_system,
             diffusion_system ORDER (spl_scale d lam) a b = Ok sys' /\
             ds_inner sys' = ds_inner sys /\
             ds_first sys' = ds_first sys /\
             ds_last sys' = ds_last sys /\
             ds_mat sys' = map (map (fun x : F => (x * lam)%F)) (ds_mat sys) /\
             ds_rhs sys' = map (fun x : F => (x * lam)%F) (ds_rhs sys).
Proof. exact (@Proofs_Examples.diffusion_scale). Qed.

Theorem C20_diffusion_scale_solution :
    forall (F : Type) (K : Ops F),
           Laws K ->
           forall (ORDER : nat) (d : spline F) (lam a b : F) (sys sys' : diff_system) (c : list F),
           SplInv d ->
           nintervals (ssup d) <> 0%N ->
           1 <= ORDER ->
           sstart (ssup d) = 0%N /\ sstop (ssup d) = nlen (sgridp d) ->
           lam <> f0 ->
           diffusion_system ORDER d a b = Ok sys ->
           diffusion_system ORDER (spl_scale d lam) a b = Ok sys' ->
           mat_apply (ds_mat sys) c = ds_rhs sys <-> mat_apply (ds_mat sys') c = ds_rhs sys'.
Proof. exact (@Proofs_Examples.diffusion_scale_solution). Qed.

Theorem C20_diffusion_scale_invariant :
    forall (F : Type) (K : Ops F),
           Laws K ->
           forall (ORDER : nat) (solve : list (list F) -> list F -> list F) (d : spline F) (lam a b : F),
           SplInv d ->
           nintervals (ssup d) <> 0%N ->
           1 <= ORDER ->
           sstart (ssup d) = 0%N /\ sstop (ssup d) = nlen (sgridp d) ->
           (forall (m : list (list F)) (r : list F),
            solve (map (map (fun x : F => (x * lam)%F)) m) (map (fun x : F => (x * lam)%F) r) = solve m r) ->
           diffusion ORDER solve (spl_scale d lam) a b = diffusion ORDER solve d a b.
Proof. exact (@Proofs_Examples.diffusion_scale_invariant). Qed.

Theorem C20_potential_no_ub :
    forall (F : Type) (K : Ops F),
           Laws K ->
           forall (ORDER : nat) (eigs : list (list F) -> list (list F) -> list (F * list F)) (v : spline F),
           SplInv v ->
           eigs_sized eigs ->
           match potential_solve ORDER eigs v with
           | Throw BadOptionalAccess | Throw StdOutOfRange | UB _ => False
           | _ => True
           end.
Proof. exact (@Proofs_Examples.potential_no_ub). Qed.

Theorem C20_potential_count :
    forall (F : Type) (K : Ops F),
           Laws K ->
           forall (ORDER : nat) (eigs : list (list F) -> list (list F) -> list (F * list F)) (v : spline F),
           SplInv v ->
           eigs_sized eigs ->
           (N.of_nat ORDER + 1 <= nlen (sgridp v))%N ->
           exists l : list (F * spline F),
             potential_solve ORDER eigs v = Ok l /\
             length l = Nat.min 10 (N.to_nat (nlen (sgridp v)) - ORDER - 1) /\
             Forall (fun p : F * spline F => SplInv (snd p) /\ sgridp (snd p) = sgridp v /\ sord (snd p) = ORDER)
               l.
Proof. exact (@Proofs_Examples.potential_count). Qed.

Theorem C20_potential_few_grid_points :
    forall (F : Type) (K : Ops F),
           Laws K ->
           forall (ORDER : nat) (eigs : list (list F) -> list (list F) -> list (F * list F)) (v : spline F),
           SplInv v ->
           (nlen (sgridp v) < N.of_nat ORDER + 1)%N -> potential_solve ORDER eigs v = Throw UNDETERMINED.
Proof. exact (@Proofs_Examples.potential_few). Qed.

Theorem C20_potential_shift :
    forall (F : Type) (K : Ops F),
           Laws K ->
           forall (ORDER : nat) (v v' : spline F) (c : F) (basis : list (spline F)) (h s : list (list F)),
           SplInv v ->
           SplInv v' ->
           ssup v' = ssup v ->
           sstart (ssup v) = 0%N /\ sstop (ssup v) = nlen (sgridp v) ->
           (forall (k : N) (u : F), imem k (ssup v) -> peval (piece v' k) u = (peval (piece v k) u + c)%F) ->
           pot_matrices ORDER v = Ok (basis, h, s) ->
           exists h' : list (list F),
             pot_matrices ORDER v' = Ok (basis, h', s) /\
             length h' = length basis /\
             Forall (fun row : list F => length row = length basis) h' /\
             (forall i j : nat, nth j (nth i h' []) f0 = (nth j (nth i h []) f0 + c * nth j (nth i s []) f0)%F).
Proof. exact (@Proofs_Examples.potential_shift). Qed.

Theorem C20_potential_shift_eigen :
    forall (F : Type) (K : Ops F),
           Laws K ->
           forall (ORDER : nat) (v v' : spline F) (c : F) (basis : list (spline F)) (h s h' : list (list F))
             (x : list F) (lam : F),
           SplInv v ->
           SplInv v' ->
           ssup v' = ssup v ->
           sstart (ssup v) = 0%N /\ sstop (ssup v) = nlen (sgridp v) ->
           (forall (k : N) (u : F), imem k (ssup v) -> peval (piece v' k) u = (peval (piece v k) u + c)%F) ->
           pot_matrices ORDER v = Ok (basis, h, s) ->
           pot_matrices ORDER v' = Ok (basis, h', s) ->
           mat_apply h x = map (fun y : F => (lam * y)%F) (mat_apply s x) ->
           mat_apply h' x = map (fun y : F => ((lam + c) * y)%F) (mat_apply s x).
Proof. exact (@Proofs_Examples.potential_shift_eigen). Qed.

Theorem C20_potential_shift_constant :
    forall (F : Type) (K : Ops F),
           Laws K ->
           forall (ORDER : nat) (v : spline F) (c : F) (basis : list (spline F)) (h s : list (list F)),
           SplInv v ->
           sstart (ssup v) = 0%N /\ sstop (ssup v) = nlen (sgridp v) ->
           pot_matrices ORDER v = Ok (basis, h, s) ->
           exists h' : list (list F),
             pot_matrices ORDER (spl_shift v c) = Ok (basis, h', s) /\
             (forall i j : nat, nth j (nth i h' []) f0 = (nth j (nth i h []) f0 + c * nth j (nth i s []) f0)%F).
Proof. exact (@Proofs_Examples.potential_shift_const). Qed.

Theorem C20_old_loop_reads_out_of_range :
    forall (F : Type) (K : Ops F),
           Laws K ->
           forall (ORDER : nat) (eigs : list (list F) -> list (list F) -> list (F * list F)) (v : spline F),
           SplInv v ->
           eigs_sized eigs ->
           (N.of_nat ORDER + 1 <= nlen (sgridp v))%N ->
           N.to_nat (nlen (sgridp v)) - ORDER - 1 < 10 -> potential_solve_old ORDER eigs v = UB OOBRead.
Proof. exact (@Proofs_Examples.old_loop_reads_out_of_range). Qed.

Theorem C20_clamped_first :
    forall (F : Type) (K : Ops F),
           Laws K -> forall (ORDER : nat) (g : list F), GInv g -> Bk (knots_of ORDER g) ORDER 0 0 (gnth g 0) = f1.
Proof. exact (@Proofs_Examples.clamped_first). Qed.

Theorem C20_clamped_last :
    forall (F : Type) (K : Ops F),
           Laws K ->
           forall (ORDER : nat) (g : list F),
           GInv g -> Bk (knots_of ORDER g) ORDER (length g + ORDER - 2) (length g - 2) (gnth g (nlen g - 1)) = f1.
Proof. exact (@Proofs_Examples.clamped_last). Qed.


Print Assumptions C20_diffusion_no_ub.
Print Assumptions C20_diffusion_basis.
Print Assumptions C20_diffusion_system_shape.
Print Assumptions C20_diffusion_subwindow_refused.
Print Assumptions C20_diffusion_too_small.
Print Assumptions C20_diffusion_end_values.
Print Assumptions C20_diffusion_scale.
Print Assumptions C20_diffusion_scale_solution.
Print Assumptions C20_diffusion_scale_invariant.
Print Assumptions C20_potential_no_ub.
Print Assumptions C20_potential_count.
Print Assumptions C20_potential_few_grid_points.
Print Assumptions C20_potential_shift.
Print Assumptions C20_potential_shift_eigen.
Print Assumptions C20_potential_shift_constant.
Print Assumptions C20_old_loop_reads_out_of_range.
Print Assumptions C20_clamped_first.
Print Assumptions C20_clamped_last.

From BSpl Require Import Scalar.

(* Properties_C04_O.v — C04_O (also serves C05): operator application, as compiled.
   Tie between the C++ source and the model by translation, at the level of whole public operations:
   coq/gen/OpsGen_*.v are regenerated on every run by gen/symops.py, which compiles the headers of
   /repo's current tree with a symbolic scalar type (cpp/symkern_sym.h), runs the real public
   operations (cpp/symops.cpp) on splines whose grid points g0 < g1 < g2 < g3 and coefficients are
   variables and whose windows and orders are concrete, and records the object each one returns
   (o_<scenario>: order, window and every coefficient as an expression, or a scalar).
   ops_<family>_agree (defined in those generated files) says: for every scalar structure satisfying
   the ordered-field laws and all values of the variables, the hand-written model operation - the one
   Pool.eval_op uses for the same C++ call - applied to the same symbolic operands returns exactly
   the object the compiled code returns.  The only premise that occurs is the documented
   precondition of a division by a scalar (divisor <> 0).  The scenario lists are finite (listed per
   theorem); the unbounded statements about the model are in Properties_C04.v and Properties_C05.v.
   Statements only: every theorem is closed by [exact]. *)
From BSpl Require Import Scalar Outcome Support Poly Spline Ops Forms Proofs_KernelTac Proofs_OpsTac.
From BSpl.gen Require Import OpsGen_apply.

(* O * a for an order-2 spline a on [g1,g3] and on the whole grid, O one of Id, Dx<1..3>, X<1>, X<2>,
   X<1>*Dx<1>, Dx<1>*X<1>, their commutator, (-1/2)Dx<2> + (1/2)X<2>, 3*X<1>, X<1>/2, X<1>*c, X<1>+c, c+X<1>,
   X<1>-c, c-Dx<1>, X<1>/c, -X<1>, SplineOperator{v}, SplineOperator{v}*Dx<1>; Dx<1>, X<1>, SplineOperator{v}
   on an empty and on a one-point spline; SplineOperator{v} with v on a distinct but equal Grid object -
   equals apply (elab e) a *)
Theorem C04_O_operator_application_as_compiled : ops_apply_agree.
Proof. exact ops_apply_agree_ok. Qed.
Print Assumptions C04_O_operator_application_as_compiled.

(* Quad.v — model of integration/numerical.h (`integrate<ordergl>(f, m1, m2)`).
   Boost's Gauss–Legendre rule `gauss<T, n>::integrate(g, a, b)` is the section
   variable [rule]; nothing is assumed about it in this file.  No proofs here. *)
From Coq Require Import List NArith Arith Bool.
From BSpl Require Import Scalar Outcome Support Poly Spline Ops.
Import ListNotations.

Section Quad.
  Context {F : Type} {K : Ops F}.

  Variable rule : nat -> (F -> F) -> F -> F -> F.

  (* internal::evaluateInterval as a total function (the arrays are never empty) *)
  Definition horner (x : F) (coeffs : list F) (xm : F) : F :=
    match eval_interval x coeffs xm with Ok v => v | _ => f0 end.

  (* integrate<ordergl>(f, m1, m2) *)
  Definition integrate (n : nat) (f : F -> F) (m1 m2 : spline F) : outcome F :=
    do ns <- calc_inter (ssup m1) (ssup m2);
    fold_left (fun (acc : outcome F) i =>
      do r <- acc;
      do ai <- abs_from_rel ns i;
      do j1 <- value (interval_index (ssup m1) ai);
      do j2 <- value (interval_index (ssup m2) ai);
      do xs <- sup_at (ssup m1) j1;
      do xe <- sup_at (ssup m1) (wadd j1 1);
      let xm := ((xs + xe) / f2)%F in
      do c1 <- at_ (scoefs m1) (N.to_nat j1);
      do c2 <- at_ (scoefs m2) (N.to_nat j2);
      Ok (r + rule n (fun x => f x * horner x c1 xm * horner x c2 xm) xs xe)%F)
      (nrange (num_intervals ns)) (Ok f0).

  (* a polynomial weight sum_j w_j x^j as an operator expression: sum_j w_j * X<j> *)
  Fixpoint weight_expr_from (j : nat) (w : list F) : expr F :=
    match w with
    | [] => ESMulL (ScF f0) EId
    | a :: r => EAdd (ESMulL (ScF a) (EPos j)) (weight_expr_from (S j) r)
    end.
  Definition weight_expr (w : list F) : expr F := weight_expr_from 0 w.
End Quad.

(* Properties_C19.v — C19: the scalar type needs only the documented operations.
   Statements only: every theorem is closed by [exact <lemma>] and followed by
   Print Assumptions.  The statements quantify over every scalar structure
   (F, K : Ops F) that satisfies the ordered-field laws (Laws K), and over all
   grids, windows, orders, coefficient values, expressions etc. named in them.
   The model's sections have exactly the documented operations as their interface (class Ops in
   Scalar.v: 0, 1, + - * /, unary minus, six comparisons; integers enter through fofZ, i.e.
   static_cast<T>(int)), so Coq's type checker guarantees that no definition uses anything else, and
   every theorem of C01-C07, C12 is quantified over ALL scalar structures satisfying the ordered-field
   laws.  Restated here: the laws are satisfiable (Qc), and at that exact field the results are exact.
   The C++ side (compile-as-check with the archetype scalars) is the correspondence run. *)
From Coq Require Import List NArith ZArith Arith Bool.
From BSpl Require Import Scalar Outcome Support Poly Spline Ops Forms Generator Interp Spec Spec_Ops Spec_Gen Proofs_Support Proofs_Scalar Proofs_Poly Proofs_Binom Proofs_Eval Proofs_Outcome Proofs_Spline Proofs_Forms Proofs_Ops Proofs_Forms2 Proofs_Interp Proofs_Pred Proofs_Gen Instances Instances_Ext Proofs_Valid Solver Pool Quad Proofs_Pool Proofs_Quad Proofs_Rounded Proofs_Threads Proofs_Updates Examples Proofs_Examples Proofs_Analysis Proofs_Smooth Proofs_Laws.
Import ListNotations.


Theorem C19_laws_satisfiable :
    Laws QcOps.
Proof. exact (Instances.Qc_laws). Qed.

Theorem C19_generator_any_scalar :
    forall (F : Type) (K : Ops F),
           Laws K ->
           forall (ks : list F) (p : nat) (l : list (spline F)) (i k : nat) (x : F),
           nondecreasing ks ->
           two_distinct ks ->
           (nlen ks < 2 ^ 63)%N ->
           p + 1 <= length ks ->
           generate_bsplines p ks = Ok l ->
           i < length l ->
           k + 1 < length (unique ks) ->
           fleb (nth k (unique ks) f0) x = true ->
           fltb x (nth (k + 1) (unique ks) f0) = true ->
           den (nth i l {| ssup := {| sgrid := []; sstart := 0; sstop := 0 |}; sord := 0; scoefs := [] |})
             (N.of_nat k) x = B ks p i x.
Proof. exact (@Proofs_Gen.gen_is_cox_de_boor). Qed.

Theorem C19_arithmetic_any_scalar :
    forall (F : Type) (K : Ops F),
           Laws K ->
           forall a b : spline F,
           SplInv a ->
           SplInv b ->
           sgridp a = sgridp b ->
           exists (u : support F) (r : spline F),
             calc_inter (ssup a) (ssup b) = Ok u /\
             spl_mul a b = Ok r /\
             SplInv r /\
             ssup r = u /\
             sord r = sord a + sord b /\ (forall (k : N) (x : F), den r k x = (den a k x * den b k x)%F).
Proof. exact (@Proofs_Spline.spl_mul_spec). Qed.

Theorem C19_operators_any_scalar :
    forall (F : Type) (K : Ops F),
           Laws K ->
           forall (e : expr F) (s : spline F),
           SplInv s ->
           factors_ok e (sgridp s) ->
           scalars_ok e ->
           exists r : spline F,
             apply (elab e) s = Ok r /\
             SplInv r /\
             ssup r = ssup s /\
             sord r = out_ord (elab e) (sord s) /\
             (forall (k : N) (u : F), peval (piece r k) u = peval (dsem e (sgridp s) k (piece s k)) u).
Proof. exact (@Proofs_Ops.apply_spec). Qed.

Theorem C19_forms_any_scalar :
    forall (F : Type) (K : Ops F),
           Laws K ->
           forall (e1 e2 : expr F) (a b : spline F) (u : support F),
           SplInv a ->
           SplInv b ->
           sgridp a = sgridp b ->
           factors_ok e1 (sgridp a) ->
           factors_ok e2 (sgridp a) ->
           scalars_ok e1 ->
           scalars_ok e2 ->
           calc_inter (ssup a) (ssup b) = Ok u ->
           bilinear (elab e1) (elab e2) a b =
           Ok
             (fsum
                (fun k : N =>
                 defint (pmul (dsem e1 (sgridp a) k (piece a k)) (dsem e2 (sgridp a) k (piece b k)))
                   (halfwidth (sgridp a) k)) (interval_list u)).
Proof. exact (@Proofs_Forms2.bilinear_exact). Qed.

Theorem C19_interpolation_any_scalar :
    forall (F : Type) (K : Ops F),
           Laws K ->
           forall (order : nat) (x : support F) (y : list F) (bs : list (boundary F)) 
             (rows : list (row F)) (c : list F),
           SInv x ->
           GInv (sgrid x) ->
           1 <= order ->
           sup_size x = nlen y ->
           (2 <= sup_size x)%N ->
           bnd_ok order bs ->
           length bs = order - 1 ->
           interp_system order x y bs = Ok rows ->
           length c = length rows ->
           solves rows c ->
           exists s : spline F,
             interp_build order x c = Ok s /\
             SplInv s /\
             ssup s = x /\
             sord s = order /\
             (forall k : N,
              imem k x ->
              peval (piece s k) (gnth (sgrid x) k - mid (sgrid x) k)%F = nth (N.to_nat (k - sstart x)) y f0 /\
              peval (piece s k) (gnth (sgrid x) (k + 1) - mid (sgrid x) k)%F =
              nth (N.to_nat (k + 1 - sstart x)) y f0) /\
             (forall (k : N) (d : nat),
              imem k x ->
              imem (k + 1) x ->
              1 <= d < order ->
              dval (piece s k) d (gnth (sgrid x) (k + 1)) (mid (sgrid x) k) =
              dval (piece s (k + 1)) d (gnth (sgrid x) (k + 1)) (mid (sgrid x) (k + 1))) /\
             (forall b : boundary F,
              In b bs ->
              bnode b = FIRST ->
              dval (piece s (sstart x)) (bderiv b) (gnth (sgrid x) (sstart x)) (mid (sgrid x) (sstart x)) =
              bvalue b) /\
             (forall b : boundary F,
              In b bs ->
              bnode b = LAST ->
              dval (piece s (sstop x - 2)) (bderiv b) (gnth (sgrid x) (sstop x - 1))
                (mid (sgrid x) (sstop x - 2)) = bvalue b).
Proof. exact (@Proofs_Interp.interp_spec). Qed.

Theorem C19_generator_exact_at_Qc :
    forall (ks : list Qcanon.Qc) (p : nat) (l : list (spline Qcanon.Qc)) (i k : nat) (x : Qcanon.Qc),
           nondecreasing ks ->
           two_distinct ks ->
           (nlen ks < 2 ^ 63)%N ->
           p + 1 <= length ks ->
           generate_bsplines p ks = Ok l ->
           i < length l ->
           k + 1 < length (unique ks) ->
           fleb (nth k (unique ks) f0) x = true ->
           fltb x (nth (k + 1) (unique ks) f0) = true ->
           den (nth i l {| ssup := {| sgrid := []; sstart := 0; sstop := 0 |}; sord := 0; scoefs := [] |})
             (N.of_nat k) x = B ks p i x.
Proof. exact (@Proofs_Gen.gen_is_cox_de_boor Qcanon.Qc QcOps Qc_laws). Qed.

Theorem C19_arithmetic_exact_at_Qc :
    forall a b : spline Qcanon.Qc,
           SplInv a ->
           SplInv b ->
           sgridp a = sgridp b ->
           exists (u : support Qcanon.Qc) (r : spline Qcanon.Qc),
             calc_inter (ssup a) (ssup b) = Ok u /\
             spl_mul a b = Ok r /\
             SplInv r /\
             ssup r = u /\
             sord r = sord a + sord b /\ (forall (k : N) (x : Qcanon.Qc), den r k x = (den a k x * den b k x)%F).
Proof. exact (@Proofs_Spline.spl_mul_spec Qcanon.Qc QcOps Qc_laws). Qed.

Theorem C19_operators_exact_at_Qc :
    forall (e : expr Qcanon.Qc) (s : spline Qcanon.Qc),
           SplInv s ->
           factors_ok e (sgridp s) ->
           scalars_ok e ->
           exists r : spline Qcanon.Qc,
             apply (elab e) s = Ok r /\
             SplInv r /\
             ssup r = ssup s /\
             sord r = out_ord (elab e) (sord s) /\
             (forall (k : N) (u : Qcanon.Qc), peval (piece r k) u = peval (dsem e (sgridp s) k (piece s k)) u).
Proof. exact (@Proofs_Ops.apply_spec Qcanon.Qc QcOps Qc_laws). Qed.

Theorem C19_forms_exact_at_Qc :
    forall (e1 e2 : expr Qcanon.Qc) (a b : spline Qcanon.Qc) (u : support Qcanon.Qc),
           SplInv a ->
           SplInv b ->
           sgridp a = sgridp b ->
           factors_ok e1 (sgridp a) ->
           factors_ok e2 (sgridp a) ->
           scalars_ok e1 ->
           scalars_ok e2 ->
           calc_inter (ssup a) (ssup b) = Ok u ->
           bilinear (elab e1) (elab e2) a b =
           Ok
             (fsum
                (fun k : N =>
                 defint (pmul (dsem e1 (sgridp a) k (piece a k)) (dsem e2 (sgridp a) k (piece b k)))
                   (halfwidth (sgridp a) k)) (interval_list u)).
Proof. exact (@Proofs_Forms2.bilinear_exact Qcanon.Qc QcOps Qc_laws). Qed.

Theorem C19_interpolation_exact_at_Qc :
    forall (order : nat) (x : support Qcanon.Qc) (y : list Qcanon.Qc) (bs : list (boundary Qcanon.Qc))
             (rows : list (row Qcanon.Qc)) (c : list Qcanon.Qc),
           SInv x ->
           GInv (sgrid x) ->
           1 <= order ->
           sup_size x = nlen y ->
           (2 <= sup_size x)%N ->
           bnd_ok order bs ->
           length bs = order - 1 ->
           interp_system order x y bs = Ok rows ->
           length c = length rows ->
           solves rows c ->
           exists s : spline Qcanon.Qc,
             interp_build order x c = Ok s /\
             SplInv s /\
             ssup s = x /\
             sord s = order /\
             (forall k : N,
              imem k x ->
              peval (piece s k) (gnth (sgrid x) k - mid (sgrid x) k)%F = nth (N.to_nat (k - sstart x)) y f0 /\
              peval (piece s k) (gnth (sgrid x) (k + 1) - mid (sgrid x) k)%F =
              nth (N.to_nat (k + 1 - sstart x)) y f0) /\
             (forall (k : N) (d : nat),
              imem k x ->
              imem (k + 1) x ->
              1 <= d < order ->
              dval (piece s k) d (gnth (sgrid x) (k + 1)) (mid (sgrid x) k) =
              dval (piece s (k + 1)) d (gnth (sgrid x) (k + 1)) (mid (sgrid x) (k + 1))) /\
             (forall b : boundary Qcanon.Qc,
              In b bs ->
              bnode b = FIRST ->
              dval (piece s (sstart x)) (bderiv b) (gnth (sgrid x) (sstart x)) (mid (sgrid x) (sstart x)) =
              bvalue b) /\
             (forall b : boundary Qcanon.Qc,
              In b bs ->
              bnode b = LAST ->
              dval (piece s (sstop x - 2)) (bderiv b) (gnth (sgrid x) (sstop x - 1))
                (mid (sgrid x) (sstop x - 2)) = bvalue b).
Proof. exact (@Proofs_Interp.interp_spec Qcanon.Qc QcOps Qc_laws). Qed.


Print Assumptions C19_laws_satisfiable.
Print Assumptions C19_generator_any_scalar.
Print Assumptions C19_arithmetic_any_scalar.
Print Assumptions C19_operators_any_scalar.
Print Assumptions C19_forms_any_scalar.
Print Assumptions C19_interpolation_any_scalar.
Print Assumptions C19_generator_exact_at_Qc.
Print Assumptions C19_arithmetic_exact_at_Qc.
Print Assumptions C19_operators_exact_at_Qc.
Print Assumptions C19_forms_exact_at_Qc.
Print Assumptions C19_interpolation_exact_at_Qc.

(* Properties_C06_O.v — C06_O: bilinear forms, as compiled.
   Tie between the C++ source and the model by translation, at the level of whole public operations:
   coq/gen/OpsGen_*.v are regenerated on every run by gen/symops.py, which compiles the headers of
   /repo's current tree with a symbolic scalar type (cpp/symkern_sym.h), runs the real public
   operations (cpp/symops.cpp) on splines whose grid points g0 < g1 < g2 < g3 and coefficients are
   variables and whose windows and orders are concrete, and records the object each one returns
   (o_<scenario>: order, window and every coefficient as an expression, or a scalar).
   ops_<family>_agree (defined in those generated files) says: for every scalar structure satisfying
   the ordered-field laws and all values of the variables, the hand-written model operation - the one
   Pool.eval_op uses for the same C++ call - applied to the same symbolic operands returns exactly
   the object the compiled code returns.  The only premise that occurs is the documented
   precondition of a division by a scalar (divisor <> 0).  The scenario lists are finite (listed per
   theorem); the unbounded statements about the model are in Properties_C06.v.
   Statements only: every theorem is closed by [exact]. *)
From BSpl Require Import Scalar Outcome Support Poly Spline Ops Forms Proofs_KernelTac Proofs_OpsTac.
From BSpl.gen Require Import OpsGen_bilin.

(* BilinearForm{O1,O2}.evaluate(a, b) for (O1,O2) one of (Id,Id), (Dx<1>,Id), (Dx<1>,Dx<1>), (X<1>,Id),
   (Id,X<2>), (X<1>*Dx<1>,Dx<1>), (SplineOperator{v},Id), ((-1/2)Dx<2>+SplineOperator{v},Id), spline orders
   (1,1), (2,1), (1,2), windows nested either way, staggered, disjoint; operator() for orders (1,1); one
   scenario with b on a distinct but equal Grid object - equals bilinear (elab e1) (elab e2) a b *)
Theorem C06_O_bilinear_form_as_compiled : ops_bilin_agree.
Proof. exact ops_bilin_agree_ok. Qed.
Print Assumptions C06_O_bilinear_form_as_compiled.

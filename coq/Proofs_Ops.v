(* Proofs_Ops.v — the operator layer (C04, C05): the primitive operators
   Derivative<n>, Position<n>, IdentityOperator act as d^n/dx^n, x^n and the
   identity on every interval; every operator expression built with the
   overload set acts as the differential expression it spells ([dsem]). *)
From Coq Require Import List Arith NArith ZArith Bool Lia ZifyBool ZifyN Field Ring.
From BSpl Require Import ListAux Scalar Outcome Support Poly Spline Ops Spec Spec_Ops
  Proofs_Support Proofs_Scalar Proofs_Binom Proofs_Outcome Proofs_Poly Proofs_Spline.
Import ListNotations.
Local Open Scope N_scope.

Ltac Zify.zify_post_hook ::= Z.div_mod_to_equations.

Section OpsFacts.
  Context {F : Type} {K : Ops F} {L : Laws K}.
  Add Field Ffops : (@Fth F K L).

  (* ------------------------------------------------------------------ *)
  (* Part A: the primitive operators (C04)                               *)
  (* ------------------------------------------------------------------ *)

  Lemma grid_sub_gnth (g : list F) k : k < nlen g -> grid_sub g k = Ok (gnth g k).
  Proof.
    intros H. unfold grid_sub, nnth, gnth.
    rewrite (nth_error_nth' g f0) by (unfold nlen in H; lia). reflexivity.
  Qed.

  Lemma transform_id (c g : list F) k : transform OId c g k = Ok c.
  Proof. reflexivity. Qed.

  Lemma transform_der n (c g : list F) k : c <> [] ->
    transform (ODer n) c g k = Ok (if (length c - 1 <? n)%nat then [f0] else pderivn n c).
  Proof. intros H. cbn [transform]. apply der_transform_spec. exact H. Qed.

  Lemma pderivn_short n (c : list F) : (length c <= n)%nat -> pderivn n c = [].
  Proof.
    intros H. apply length_zero_iff_nil. rewrite length_pderivn. lia.
  Qed.

  Lemma peval_transform_der n (c : list F) u : c <> [] ->
    peval (if (length c - 1 <? n)%nat then [f0] else pderivn n c) u = peval (pderivn n c) u.
  Proof.
    intros H. destruct (Nat.ltb_spec (length c - 1) n) as [Hlt|Hge]; [|reflexivity].
    rewrite pderivn_short.
    - cbn [peval]. ring.
    - destruct c as [|a c]; [contradiction|]. cbn [length] in *. lia.
  Qed.

  Lemma peval_ppow (p : list F) n u : peval (ppow p n) u = fpow (peval p u) n.
  Proof.
    induction n as [|n IH]; cbn [ppow fpow].
    - cbn [peval]. ring.
    - rewrite peval_pmul, IH. reflexivity.
  Qed.

  Lemma transform_pos n (c g : list F) k : k + 1 < nlen g -> k + 1 < W ->
    transform (OPos n) c g k = Ok (pmul c (expand_power n (mid g k))).
  Proof.
    intros H1 H2. cbn [transform].
    rewrite grid_sub_gnth by lia. cbn [bind].
    rewrite wadd_small by exact H2.
    rewrite grid_sub_gnth by exact H1. cbn [bind]. reflexivity.
  Qed.

  Lemma peval_transform_pos n (c g : list F) k x :
    peval (pmul c (expand_power n (mid g k))) (x - mid g k)%F
    = (fpow x n * peval c (x - mid g k))%F.
  Proof.
    rewrite peval_pmul, expand_power_spec.
    replace (x - mid g k + mid g k)%F with x by ring. ring.
  Qed.

  (* ------------------------------------------------------------------ *)
  (* Part C (first half): a polynomial function determines its           *)
  (* coefficients; the meaning of an expression depends only on the      *)
  (* function denoted                                                    *)
  (* ------------------------------------------------------------------ *)

  Lemma NoDup_fofnat_seq s n : NoDup (map (@fofnat F K) (seq s n)).
  Proof.
    revert s; induction n as [|n IH]; intros s; cbn [seq map]; constructor.
    - intros Hin. apply in_map_iff in Hin as (x & Hx & Hin). apply in_seq in Hin.
      unfold fofnat in Hx. apply fofZ_inj in Hx. lia.
    - apply IH.
  Qed.

  Lemma peval_ext_coeff (p q : list F) :
    (forall u, peval p u = peval q u) -> forall i, nth i p f0 = nth i q f0.
  Proof.
    intros H i. set (r := padd p (pneg q)).
    assert (Forall (fun a => a = f0) r) as Hr.
    { apply (roots_bound r (map fofnat (seq 0 (length r)))).
      - apply NoDup_fofnat_seq.
      - rewrite map_length, seq_length. lia.
      - intros x _. unfold r. rewrite peval_padd, peval_pneg, H. ring. }
    assert (nth i r f0 = f0) as Hi.
    { destruct (Nat.lt_ge_cases i (length r)) as [Hlt|Hge].
      - exact (proj1 (Forall_nth _ r) Hr i f0 Hlt).
      - apply nth_overflow. exact Hge. }
    unfold r in Hi. rewrite nth_padd, nth_pneg in Hi.
    replace (nth i p f0) with (nth i p f0 + - nth i q f0 + nth i q f0)%F by ring.
    rewrite Hi. ring.
  Qed.

  Lemma peval_pderivn_ext n (p q : list F) :
    (forall u, peval p u = peval q u) ->
    forall u, peval (pderivn n p) u = peval (pderivn n q) u.
  Proof.
    intros H. apply peval_ext_nth. intros i.
    rewrite !nth_pderivn, (peval_ext_coeff p q H). reflexivity.
  Qed.

  Lemma psub_eq (p q : list F) u : peval (psub p q) u = (peval p u - peval q u)%F.
  Proof. unfold psub. rewrite peval_padd, peval_pscale_l. ring. Qed.

  Lemma dsem_ext (e : expr F) g k (p q : list F) :
    (forall u, peval p u = peval q u) ->
    forall u, peval (dsem e g k p) u = peval (dsem e g k q) u.
  Proof.
    revert p q.
    induction e as [|n|n|v|a IHa b IHb|a IHa b IHb|a IHa b IHb|s a IHa|a IHa s|a IHa s
                    |a IHa s|s a IHa|a IHa s|s a IHa|a IHa];
      intros p q H u; cbn [dsem];
      rewrite ?psub_eq, ?peval_padd, ?peval_pscale_l, ?peval_pmul.
    - apply H.
    - rewrite H. reflexivity.
    - apply peval_pderivn_ext. exact H.
    - rewrite H. reflexivity.
    - apply IHa. apply IHb. exact H.
    - rewrite (IHa p q H), (IHb p q H). reflexivity.
    - rewrite (IHa p q H), (IHb p q H). reflexivity.
    - rewrite (IHa p q H). reflexivity.
    - rewrite (IHa p q H). reflexivity.
    - rewrite (IHa p q H). reflexivity.
    - rewrite (IHa p q H), H. reflexivity.
    - rewrite (IHa p q H), H. reflexivity.
    - rewrite (IHa p q H), H. reflexivity.
    - rewrite (IHa p q H), H. reflexivity.
    - rewrite (IHa p q H). reflexivity.
  Qed.

  (* ------------------------------------------------------------------ *)
  (* Part B: every operator expression acts as the differential          *)
  (* expression it spells (C05)                                          *)
  (* ------------------------------------------------------------------ *)

  Lemma cast_sval (s : scalar F) : cast s = sval s.
  Proof. destruct s; reflexivity. Qed.

  Lemma cast_recip (s : scalar F) :
    scalar_wf s -> sval s <> f0 -> cast (recip s) = (f1 / sval s)%F.
  Proof. intros _ _. destruct s; reflexivity. Qed.

  Lemma nonnil_of_length {A} (l : list A) n : length l = (n + 1)%nat -> l <> [].
  Proof. intros H E. rewrite E in H. cbn [length] in H. lia. Qed.

  Lemma length_pos_nonnil {A} (l : list A) : l <> [] -> (0 < length l)%nat.
  Proof. destruct l; [contradiction|cbn [length]; lia]. Qed.

  (* operator [o] applied to the array [c] on interval k succeeds, with the
     length announced by outputOrder, and denotes the polynomial [d] *)
  Definition sound_at (o : opx F) (d c g : list F) (k : N) : Prop :=
    exists t, transform o c g k = Ok t /\
              length t = (out_ord o (length c - 1) + 1)%nat /\
              forall u, peval t u = peval d u.

  Lemma sound_scal o d c g k s x :
    sound_at o d c g k -> cast s = x -> sound_at (OScal s o) (pscale_l x d) c g k.
  Proof.
    intros (t & Ht & Hl & Hp) Hx. exists (pscale (cast s) t).
    cbn [transform out_ord]. rewrite Ht. cbn [bind].
    split; [reflexivity|]. split; [rewrite length_pscale; exact Hl|].
    intros u. rewrite peval_pscale, peval_pscale_l, Hp, Hx. ring.
  Qed.

  Lemma sound_sum a b da db c g k :
    sound_at a da c g k -> sound_at b db c g k -> sound_at (OSum a b) (padd da db) c g k.
  Proof.
    intros (ta & Hta & La & Pa) (tb & Htb & Lb & Pb). exists (arr_add ta tb).
    cbn [transform out_ord]. rewrite Hta, Htb. cbn [bind].
    split; [reflexivity|]. split; [rewrite length_arr_add, La, Lb; lia|].
    intros u. rewrite peval_arr_add, peval_padd, Pa, Pb. reflexivity.
  Qed.

  Lemma sound_diff a b da db c g k :
    sound_at a da c g k -> sound_at b db c g k -> sound_at (ODiff a b) (psub da db) c g k.
  Proof.
    intros (ta & Hta & La & Pa) (tb & Htb & Lb & Pb). exists (arr_add ta (pneg tb)).
    cbn [transform out_ord]. rewrite Hta, Htb. cbn [bind].
    split; [reflexivity|]. split; [rewrite length_arr_add, length_pneg, La, Lb; lia|].
    intros u. rewrite peval_arr_add, peval_pneg, psub_eq, Pa, Pb. ring.
  Qed.

  Lemma sound_id c g k : c <> [] -> sound_at OId c c g k.
  Proof.
    intros Hc. exists c. cbn [transform out_ord]. split; [reflexivity|].
    apply length_pos_nonnil in Hc. split; [lia|reflexivity].
  Qed.

  Lemma sound_scal_id s c g k :
    c <> [] -> sound_at (OScal s OId) (pscale_l (sval s) c) c g k.
  Proof. intros Hc. apply sound_scal; [apply sound_id; exact Hc | apply cast_sval]. Qed.

  Lemma expr_sound (e : expr F) (c g : list F) k :
    GInv g -> k + 1 < nlen g -> factors_ok e g -> scalars_ok e -> c <> [] ->
    exists t, transform (elab e) c g k = Ok t /\
              length t = (out_ord (elab e) (length c - 1) + 1)%nat /\
              forall u, peval t u = peval (dsem e g k c) u.
  Proof.
    intros Hg Hk. pose proof Hg as (_ & Hg63 & _).
    assert (k + 1 < W) as HkW by (unfold W; lia).
    change (factors_ok e g -> scalars_ok e -> c <> [] -> sound_at (elab e) (dsem e g k c) c g k).
    revert c.
    induction e as [|n|n|v|a IHa b IHb|a IHa b IHb|a IHa b IHb|s a IHa|a IHa s|a IHa s
                    |a IHa s|s a IHa|a IHa s|s a IHa|a IHa];
      intros c Hf Hs Hc; cbn [factors_ok scalars_ok] in Hf, Hs; cbn [elab dsem].
    - (* EId *) apply sound_id. exact Hc.
    - (* EPos *)
      exists (pmul c (expand_power n (mid g k))).
      split; [apply transform_pos; assumption|].
      pose proof (length_pos_nonnil c Hc) as Hlc. split.
      + rewrite length_pmul; [|exact Hc|apply (nonnil_of_length _ n), length_expand_power].
        rewrite length_expand_power. cbn [out_ord]. lia.
      + intros u. rewrite peval_pmul, expand_power_spec, peval_pmul, peval_ppow.
        unfold xpoly. cbn [peval].
        replace (mid g k + u * (f1 + u * f0))%F with (u + mid g k)%F by ring. ring.
    - (* EDer *)
      exists (if (length c - 1 <? n)%nat then [f0] else pderivn n c).
      split; [apply transform_der; exact Hc|].
      pose proof (length_pos_nonnil c Hc) as Hlc. split.
      + cbn [out_ord]. destruct (Nat.ltb_spec (length c - 1) n) as [Hlt|Hge].
        * cbn [length]. lia.
        * rewrite length_pderivn. lia.
      + intros u. apply peval_transform_der. exact Hc.
    - (* ESpl *)
      destruct Hf as [Hv Hgv]. unfold sgridp in Hgv. pose proof (proj1 Hv) as Hsv.
      pose proof (length_pos_nonnil c Hc) as Hlc.
      unfold sound_at. cbn [transform out_ord].
      assert (grid_eqb (sgrid (ssup v)) g = true) as -> by (apply grid_eqb_eq; exact Hgv).
      cbn [negb].
      destruct (inb (ssup v) k) eqn:E.
      + apply inb_imem in E. rewrite interval_index_in by assumption.
        rewrite coefs_at_in by assumption. cbn [bind].
        destruct (piece_in v k Hv E) as [_ Lp].
        exists (pmul c (piece v k)). split; [reflexivity|]. split.
        * rewrite length_pmul; [|exact Hc|apply (nonnil_of_length _ (sord v)); exact Lp].
          rewrite Lp. lia.
        * intros u. rewrite !peval_pmul. ring.
      + apply inb_false in E. rewrite interval_index_out; [|exact Hsv|unfold W in *; lia|exact E].
        exists (make_array (length c + sord v) f0). split; [reflexivity|]. split.
        * unfold make_array. rewrite repeat_length. lia.
        * intros u. rewrite peval_make_array0, piece_out by exact E. reflexivity.
    - (* EMul *)
      destruct Hf as [Hfa Hfb]. destruct Hs as [Hsa Hsb].
      destruct (IHb c Hfb Hsb Hc) as (t1 & Ht1 & L1 & P1).
      assert (t1 <> []) as Hn1 by (apply (nonnil_of_length _ _ L1)).
      destruct (IHa t1 Hfa Hsa Hn1) as (t2 & Ht2 & L2 & P2).
      exists t2. cbn [transform out_ord]. rewrite Ht1. cbn [bind].
      split; [exact Ht2|]. split.
      + rewrite L2, L1. f_equal. f_equal. lia.
      + intros u. rewrite P2. apply dsem_ext. exact P1.
    - (* EAdd *)
      destruct Hf as [Hfa Hfb]. destruct Hs as [Hsa Hsb]. apply sound_sum; auto.
    - (* ESub *)
      destruct Hf as [Hfa Hfb]. destruct Hs as [Hsa Hsb]. apply sound_diff; auto.
    - (* ESMulL *)
      destruct Hs as [Hw Hsa]. apply sound_scal; [auto | apply cast_sval].
    - (* ESMulR *)
      destruct Hs as [Hw Hsa]. apply sound_scal; [auto | apply cast_sval].
    - (* EDivS *)
      destruct Hs as (Hw & Hnz & Hsa). apply sound_scal; [auto | apply cast_recip; assumption].
    - (* EAddS *)
      destruct Hs as [Hw Hsa]. apply sound_sum; [auto | apply sound_scal_id; exact Hc].
    - (* ESAdd *)
      destruct Hs as [Hw Hsa]. apply sound_sum; [apply sound_scal_id; exact Hc | auto].
    - (* ESubS *)
      destruct Hs as [Hw Hsa]. apply sound_diff; [auto | apply sound_scal_id; exact Hc].
    - (* ESSub *)
      destruct Hs as [Hw Hsa]. apply sound_diff; [apply sound_scal_id; exact Hc | auto].
    - (* ENeg *)
      apply sound_scal; [auto | reflexivity].
  Qed.

  Lemma length_transform (e : expr F) (c g t : list F) k :
    GInv g -> k + 1 < nlen g -> factors_ok e g -> scalars_ok e -> c <> [] ->
    transform (elab e) c g k = Ok t ->
    length t = (out_ord (elab e) (length c - 1) + 1)%nat.
  Proof.
    intros Hg Hk Hf Hs Hc Ht.
    destruct (expr_sound e c g k Hg Hk Hf Hs Hc) as (t' & Ht' & Hl & _).
    rewrite Ht in Ht'. injection Ht' as ->. exact Hl.
  Qed.

  (* ---- transformSpline ---- *)

  Lemma omapM_map {A B C} (f : B -> outcome C) (h : A -> B) l :
    omapM f (map h l) = omapM (fun a => f (h a)) l.
  Proof. unfold omapM. rewrite map_map. reflexivity. Qed.

  Lemma combine_nrange {A} (l : list A) d :
    combine (nrange (nlen l)) l = map (fun i => (i, nth (N.to_nat i) l d)) (nrange (nlen l)).
  Proof.
    assert (N.to_nat (nlen l) = length l) as Hnl by (unfold nlen; lia).
    apply nth_error_length_ext.
    - rewrite combine_length, map_length, length_nrange. lia.
    - intros i Hi. rewrite combine_length, length_nrange in Hi.
      assert (i < length l)%nat as Hil by lia.
      rewrite nth_error_map', nth_error_nrange by lia. cbn [option_map].
      rewrite Nat2N.id.
      rewrite (nth_error_nth' _ (0, d)) by (rewrite combine_length, length_nrange; lia).
      rewrite combine_nth by (rewrite length_nrange; lia).
      rewrite (nth_error_nth _ _ 0 (nth_error_nrange (nlen l) i ltac:(lia))). reflexivity.
  Qed.

  (* the shape of transformSpline: one pass over the stored intervals *)
  Lemma apply_tab (o : opx F) (s : spline F) (h : N -> list F) : SplInv s ->
    (forall k, imem k (ssup s) -> transform o (piece s k) (sgridp s) k = Ok (h k)) ->
    apply o s = Ok (tab (ssup s) (out_ord o (sord s)) h).
  Proof.
    intros Hs Hh. pose proof Hs as (Hu & Hg & Hn & Hl).
    unfold apply. rewrite (combine_nrange (scoefs s) []), omapM_map.
    rewrite Hn, <- (num_intervals_nintervals (ssup s) Hu).
    apply (omapM_tab (ssup s) _ _ h Hu).
    intros k Hk. pose proof (imem_lt _ _ Hu Hk) as [Hlt _].
    rewrite abs_from_rel_in by assumption. cbn [bind].
    replace (sstart (ssup s) + (k - sstart (ssup s))) with k by (unfold imem in Hk; lia).
    rewrite <- (Hh k Hk). unfold sgridp. f_equal.
    rewrite piece_eq. apply inb_imem in Hk. rewrite Hk. reflexivity.
  Qed.

  Lemma apply_id (s : spline F) :
    SplInv s -> apply OId s = Ok (mkSpl (ssup s) (sord s) (scoefs s)).
  Proof.
    intros Hs. pose proof Hs as (Hu & Hg & Hn & Hl).
    rewrite (apply_tab OId s (piece s) Hs) by (intros k _; reflexivity).
    unfold tab. cbn [out_ord]. f_equal. f_equal.
    assert (N.to_nat (nintervals (ssup s)) = length (scoefs s)) as Hnl by (unfold nlen in Hn; lia).
    apply nth_error_length_ext.
    - rewrite map_length, length_nrange. exact Hnl.
    - intros i Hi. rewrite map_length, length_nrange in Hi.
      rewrite nth_error_map_nrange by exact Hi.
      assert (imem (sstart (ssup s) + N.of_nat i) (ssup s)) as Hk by (apply nintervals_imem; lia).
      destruct (piece_in s _ Hs Hk) as [E _]. rewrite <- E. f_equal. lia.
  Qed.

  Definition tr_total (o : opx F) (c g : list F) (k : N) : list F :=
    match transform o c g k with Ok t => t | _ => [] end.

  Lemma pderivn_nil n : pderivn n (@nil F) = [].
  Proof. apply pderivn_short. cbn [length]. lia. Qed.

  Lemma peval_dsem_nil (e : expr F) g k u : peval (dsem e g k []) u = f0.
  Proof.
    revert u.
    induction e as [|n|n|v|a IHa b IHb|a IHa b IHb|a IHa b IHb|s a IHa|a IHa s|a IHa s
                    |a IHa s|s a IHa|a IHa s|s a IHa|a IHa];
      intros u; cbn [dsem];
      rewrite ?psub_eq, ?peval_padd, ?peval_pscale_l, ?peval_pmul, ?pderivn_nil, ?IHa, ?IHb;
      cbn [peval]; try ring.
    (* EMul *)
    rewrite (dsem_ext a g k _ [] IHb). apply IHa.
  Qed.

  Lemma apply_spec (e : expr F) (s : spline F) :
    SplInv s -> factors_ok e (sgridp s) -> scalars_ok e ->
    exists r, apply (elab e) s = Ok r /\ SplInv r /\ ssup r = ssup s /\
              sord r = out_ord (elab e) (sord s) /\
              forall k u, peval (piece r k) u = peval (dsem e (sgridp s) k (piece s k)) u.
  Proof.
    intros Hs Hf Hsc. pose proof Hs as (Hu & Hg & Hn & Hl).
    set (h := fun k => tr_total (elab e) (piece s k) (sgridp s) k).
    assert (forall k, imem k (ssup s) ->
              transform (elab e) (piece s k) (sgridp s) k = Ok (h k) /\
              length (h k) = (out_ord (elab e) (sord s) + 1)%nat /\
              forall u, peval (h k) u = peval (dsem e (sgridp s) k (piece s k)) u) as Hh.
    { intros k Hk. destruct (piece_in s k Hs Hk) as [_ Lp].
      assert (k + 1 < nlen (sgridp s)) as Hkg.
      { apply SInv_bounds in Hu. unfold imem in Hk. unfold sgridp. lia. }
      destruct (expr_sound e (piece s k) (sgridp s) k Hg Hkg Hf Hsc
                  (nonnil_of_length _ _ Lp)) as (t & Ht & Lt & Pt).
      unfold h, tr_total. rewrite Ht. split; [reflexivity|]. split; [|exact Pt].
      rewrite Lt, Lp. f_equal. f_equal. lia. }
    exists (tab (ssup s) (out_ord (elab e) (sord s)) h).
    split; [apply apply_tab; [exact Hs | intros k Hk; apply (Hh k Hk)]|].
    split; [apply tab_inv; [exact Hu | exact Hg | intros k Hk; apply (Hh k Hk)]|].
    split; [reflexivity|]. split; [reflexivity|].
    intros k u. rewrite piece_tab. destruct (inb (ssup s) k) eqn:E.
    - apply inb_imem in E. apply (Hh k E).
    - apply inb_false in E. rewrite (piece_out s k E), peval_dsem_nil. reflexivity.
  Qed.

  Lemma apply_differing (v s : spline F) :
    SplInv s -> SplInv v -> sgridp v <> sgridp s -> nintervals (ssup s) <> 0 ->
    apply (OSpl v) s = Throw DIFFERING_GRIDS.
  Proof.
    intros Hs Hv Hd Hn0. pose proof Hs as (Hu & Hg & Hn & Hl).
    unfold apply. rewrite (omapM_throw_all _ _ DIFFERING_GRIDS); [reflexivity| |].
    - intros E. apply (f_equal (@length _)) in E.
      rewrite combine_length, length_nrange in E. cbn [length] in E. unfold nlen in *. lia.
    - intros [i c] Hin. apply in_combine_l in Hin. apply In_nrange in Hin. rewrite Hn in Hin.
      rewrite abs_from_rel_in by assumption. cbn [bind transform].
      assert (grid_eqb (sgrid (ssup v)) (sgrid (ssup s)) = false) as ->; [|reflexivity].
      destruct (grid_eqb (sgrid (ssup v)) (sgrid (ssup s))) eqn:E; [|reflexivity].
      apply grid_eqb_eq in E. contradiction.
  Qed.

  (* (d/dx * x - x * d/dx) s = s *)
  Lemma commutator (c g : list F) k u : c <> [] ->
    peval (dsem (ESub (EMul (EDer 1) (EPos 1)) (EMul (EPos 1) (EDer 1))) g k c) u = peval c u.
  Proof.
    intros _. cbn [dsem pderivn ppow]. rewrite psub_eq, peval_pderiv_pmul, !peval_pmul.
    assert (peval (pderiv (pmul (xpoly (mid g k)) [f1])) u = f1) as ->.
    { unfold xpoly. cbn [pmul pscale_l map padd pderiv pderiv_from peval].
      rewrite fofnat_1. ring. }
    ring.
  Qed.

  (* ------------------------------------------------------------------ *)
  (* Part C (second half): every expression denotes a linear map         *)
  (* ------------------------------------------------------------------ *)

  Lemma peval_pderivn_padd n (p q : list F) u :
    peval (pderivn n (padd p q)) u = (peval (pderivn n p) u + peval (pderivn n q) u)%F.
  Proof.
    rewrite <- peval_padd. apply peval_ext_nth. intros i.
    rewrite nth_padd, !nth_pderivn, nth_padd. ring.
  Qed.

  Lemma peval_pderivn_pscale_l n c (p : list F) u :
    peval (pderivn n (pscale_l c p)) u = (c * peval (pderivn n p) u)%F.
  Proof.
    rewrite <- peval_pscale_l. apply peval_ext_nth. intros i.
    rewrite nth_pscale_l, !nth_pderivn, nth_pscale_l. ring.
  Qed.

  Lemma dsem_add (e : expr F) g k (p q : list F) u :
    peval (dsem e g k (padd p q)) u = (peval (dsem e g k p) u + peval (dsem e g k q) u)%F.
  Proof.
    revert p q u.
    induction e as [|n|n|v|a IHa b IHb|a IHa b IHb|a IHa b IHb|s a IHa|a IHa s|a IHa s
                    |a IHa s|s a IHa|a IHa s|s a IHa|a IHa];
      intros p q u; cbn [dsem].
    3: apply peval_pderivn_padd.
    4: { rewrite (dsem_ext a g k _ (padd (dsem b g k p) (dsem b g k q))).
         - apply IHa.
         - intros w. rewrite peval_padd. apply IHb. }
    all: rewrite ?psub_eq, ?peval_padd, ?peval_pscale_l, ?peval_pmul, ?IHa, ?IHb, ?peval_padd; ring.
  Qed.

  Lemma dsem_scale (e : expr F) g k c (p : list F) u :
    peval (dsem e g k (pscale_l c p)) u = (c * peval (dsem e g k p) u)%F.
  Proof.
    revert p u.
    induction e as [|n|n|v|a IHa b IHb|a IHa b IHb|a IHa b IHb|s a IHa|a IHa s|a IHa s
                    |a IHa s|s a IHa|a IHa s|s a IHa|a IHa];
      intros p u; cbn [dsem].
    3: apply peval_pderivn_pscale_l.
    4: { rewrite (dsem_ext a g k _ (pscale_l c (dsem b g k p))).
         - apply IHa.
         - intros w. rewrite peval_pscale_l. apply IHb. }
    all: rewrite ?psub_eq, ?peval_padd, ?peval_pscale_l, ?peval_pmul, ?IHa, ?IHb, ?peval_pscale_l; ring.
  Qed.

End OpsFacts.

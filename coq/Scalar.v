(* Scalar.v — the scalar worlds of the model.

   [Ops F] lists exactly the operations the library documents for its scalar
   type T: constants reachable through static_cast<T>(int) (0, 1 and, derived
   below, every integer), + - * /, unary minus and the six comparisons.
   [Laws K] are the ordered-field laws; they are premises of theorems (section
   context), never axioms.  Nothing in the model files depends on [Laws]. *)
From Coq Require Import List ZArith Field Ring Bool Lia.
Import ListNotations.

Class Ops (F : Type) := {
  f0 : F; f1 : F;
  fadd : F -> F -> F; fmul : F -> F -> F; fsub : F -> F -> F; fopp : F -> F;
  fdiv : F -> F -> F;
  feqb : F -> F -> bool; fneb : F -> F -> bool;
  fltb : F -> F -> bool; fleb : F -> F -> bool;
  fgtb : F -> F -> bool; fgeb : F -> F -> bool }.

Global Arguments f0 : simpl never.
Global Arguments f1 : simpl never.
Global Arguments fadd : simpl never.
Global Arguments fmul : simpl never.
Global Arguments fsub : simpl never.
Global Arguments fopp : simpl never.
Global Arguments fdiv : simpl never.
Global Arguments feqb : simpl never.
Global Arguments fneb : simpl never.
Global Arguments fltb : simpl never.
Global Arguments fleb : simpl never.
Global Arguments fgtb : simpl never.
Global Arguments fgeb : simpl never.

Declare Scope F_scope.
Delimit Scope F_scope with F.
Infix "+" := fadd : F_scope.
Infix "*" := fmul : F_scope.
Infix "-" := fsub : F_scope.
Infix "/" := fdiv : F_scope.
Notation "- x" := (fopp x) : F_scope.

Section Derived.
  Context {F : Type} {K : Ops F}.
  Local Open Scope F_scope.

  Definition finv (x : F) : F := f1 / x.

  (* static_cast<T>(n) for a built-in integer n: the image of n under the
     canonical map Z -> F (binary, so that it runs fast). *)
  Fixpoint fof_pos (p : positive) : F :=
    match p with
    | xH => f1
    | xO q => (f1 + f1) * fof_pos q
    | xI q => f1 + (f1 + f1) * fof_pos q
    end.
  Definition fofZ (z : Z) : F :=
    match z with Z0 => f0 | Zpos p => fof_pos p | Zneg p => - fof_pos p end.
  Definition fofN (n : N) : F := fofZ (Z.of_N n).
  Definition fofnat (n : nat) : F := fofZ (Z.of_nat n).
  Definition f2 : F := fofZ 2.
  Definition fm1 : F := fofZ (-1)%Z.   (* static_cast<T>(-1) *)

  Fixpoint fpow (x : F) (n : nat) : F :=
    match n with O => f1 | S m => x * fpow x m end.
End Derived.

Class Laws {F : Type} (K : Ops F) : Prop := {
  Fth : field_theory f0 f1 fadd fmul fsub fopp fdiv finv (@eq F);
  feqb_true : forall a b : F, feqb a b = true <-> a = b;
  fneb_def : forall a b : F, fneb a b = negb (feqb a b);
  fleb_def : forall a b : F, fleb a b = fltb a b || feqb a b;
  fgtb_def : forall a b : F, fgtb a b = fltb b a;
  fgeb_def : forall a b : F, fgeb a b = fleb b a;
  flt_irrefl : forall a : F, fltb a a = false;
  flt_trans : forall a b c : F, fltb a b = true -> fltb b c = true -> fltb a c = true;
  flt_total : forall a b : F, fltb a b = true \/ a = b \/ fltb b a = true;
  flt_add : forall a b c : F, fltb a b = true -> fltb (fadd a c) (fadd b c) = true;
  flt_mul : forall a b c : F, fltb f0 c = true -> fltb a b = true ->
                              fltb (fmul a c) (fmul b c) = true }.

(* ListAux.v — list lemmas missing from the 8.16 standard library. *)
From Coq Require Import List Arith Lia.
Import ListNotations.

Lemma nth_error_firstn {A} (l : list A) n i : i < n -> nth_error (firstn n l) i = nth_error l i.
Proof.
  revert n i; induction l as [|a l IH]; intros n i H.
  - rewrite firstn_nil. reflexivity.
  - destruct n as [|n]; [lia|]. destruct i as [|i]; simpl; [reflexivity|]. apply IH. lia.
Qed.

Lemma nth_error_skipn {A} (l : list A) n i : nth_error (skipn n l) i = nth_error l (n + i).
Proof.
  revert l; induction n as [|n IH]; intros l; simpl; [reflexivity|].
  destruct l as [|a l]; [destruct i; reflexivity|]. apply IH.
Qed.

Lemma nth_error_map' {A B} (f : A -> B) l i : nth_error (map f l) i = option_map f (nth_error l i).
Proof. revert i; induction l as [|a l IH]; intros [|i]; simpl; auto. Qed.

Lemma nth_error_seq s n i : i < n -> nth_error (seq s n) i = Some (s + i).
Proof.
  revert s i; induction n as [|n IH]; intros s i H; [lia|].
  destruct i as [|i]; simpl; [f_equal; lia|]. rewrite IH by lia. f_equal; lia.
Qed.

Lemma nth_error_length_ext {A} (l l' : list A) :
  length l = length l' -> (forall i, i < length l -> nth_error l i = nth_error l' i) -> l = l'.
Proof.
  revert l'; induction l as [|a l IH]; intros [|b l'] Hlen H; simpl in *; try discriminate; [reflexivity|].
  f_equal.
  - specialize (H 0 ltac:(lia)). simpl in H. congruence.
  - apply IH; [lia|]. intros i Hi. apply (H (S i)). lia.
Qed.

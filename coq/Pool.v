(* Pool.v — the state machine over which histories are quantified (C10, C14,
   C03 in-place sequences, C08 "arguments unchanged") and the single
   interpreter that the correspondence check runs against the C++ harness.

   A state is a pool of numbered slots holding grids, supports and splines.
   [eval_op] computes, for one public operation, the slots it writes and what
   it returns; [step] commits the writes only when the operation did not throw
   (every library operation computes before it assigns).
   No proofs in this file. *)
From Coq Require Import List NArith ZArith Arith Bool.
From BSpl Require Import Scalar Outcome Support Poly Spline Ops Forms Generator Interp Solver.
Import ListNotations.

Section Pool.
  Context {F : Type} {K : Ops F}.

  Inductive obj := VGrid (g : list F) | VSup (s : support F) | VSpl (s : spline F).

  Definition state := list (nat * obj).       (* newest binding first *)

  Fixpoint lookup (st : state) (i : nat) : option obj :=
    match st with
    | [] => None
    | (j, o) :: r => if (i =? j)%nat then Some o else lookup r i
    end.

  Definition write (st : state) (w : nat * obj) : state := w :: st.
  Definition commit (st : state) (ws : list (nat * obj)) : state := fold_left write ws st.

  (* ---- canonical observables ---- *)
  Inductive tag := Tgrid | Tsup | Tspl | Tnone | Tsome | Ttrue | Tfalse | Tvoid | Trow | Tlist.
  Inductive tok := TT (t : tag) | TN (n : N) | TF (x : F).
  Definition obs := list tok.

  Definition tok_bool (b : bool) : obs := [TT (if b then Ttrue else Tfalse)].
  Definition tok_opt (o : option N) : obs :=
    match o with None => [TT Tnone] | Some v => [TT Tsome; TN v] end.
  Definition tok_grid (g : list F) : obs := TT Tgrid :: TN (nlen g) :: map TF g.
  Definition tok_sup (s : support F) : obs :=
    TT Tsup :: TN (sstart s) :: TN (sstop s) :: TN (sup_size s) :: TN (num_intervals s)
       :: tok_grid (sgrid s).
  Definition tok_spl (s : spline F) : obs :=
    TT Tspl :: TN (N.of_nat (sord s)) :: tok_sup (ssup s)
       ++ TN (nlen (scoefs s)) :: flat_map (fun c => TN (nlen c) :: map TF c) (scoefs s).
  Definition tok_obj (o : obj) : obs :=
    match o with VGrid g => tok_grid g | VSup s => tok_sup s | VSpl s => tok_spl s end.
  (* a row of the assembled system, densified: n matrix entries, then the rhs *)
  Definition tok_row (n : nat) (r : row F) : obs := TT Trow :: map TF (dense_row n r).

  (* ---- typed slot access; a slot of the wrong kind is a harness error ---- *)
  Definition get_grid (st : state) (i : nat) : outcome (list F) :=
    match lookup st i with Some (VGrid g) => Ok g | _ => UB IllTyped end.
  Definition get_sup (st : state) (i : nat) : outcome (support F) :=
    match lookup st i with Some (VSup s) => Ok s | _ => UB IllTyped end.
  Definition get_spl (st : state) (i : nat) : outcome (spline F) :=
    match lookup st i with Some (VSpl s) => Ok s | _ => UB IllTyped end.

  (* operator expressions whose spline factors are named by slot *)
  Inductive pexpr :=
  | PId | PPos (n : nat) | PDer (n : nat) | PSpl (slot : nat)
  | PMul (a b : pexpr) | PAdd (a b : pexpr) | PSub (a b : pexpr)
  | PSMulL (s : scalar F) (a : pexpr) | PSMulR (a : pexpr) (s : scalar F)
  | PDivS (a : pexpr) (s : scalar F)
  | PAddS (a : pexpr) (s : scalar F) | PSAdd (s : scalar F) (a : pexpr)
  | PSubS (a : pexpr) (s : scalar F) | PSSub (s : scalar F) (a : pexpr)
  | PNeg (a : pexpr).

  Fixpoint resolve (st : state) (e : pexpr) : outcome (expr F) :=
    match e with
    | PId => Ok EId | PPos n => Ok (EPos n) | PDer n => Ok (EDer n)
    | PSpl i => do v <- get_spl st i; Ok (ESpl v)
    | PMul a b => do a' <- resolve st a; do b' <- resolve st b; Ok (EMul a' b')
    | PAdd a b => do a' <- resolve st a; do b' <- resolve st b; Ok (EAdd a' b')
    | PSub a b => do a' <- resolve st a; do b' <- resolve st b; Ok (ESub a' b')
    | PSMulL s a => do a' <- resolve st a; Ok (ESMulL s a')
    | PSMulR a s => do a' <- resolve st a; Ok (ESMulR a' s)
    | PDivS a s => do a' <- resolve st a; Ok (EDivS a' s)
    | PAddS a s => do a' <- resolve st a; Ok (EAddS a' s)
    | PSAdd s a => do a' <- resolve st a; Ok (ESAdd s a')
    | PSubS a s => do a' <- resolve st a; Ok (ESubS a' s)
    | PSSub s a => do a' <- resolve st a; Ok (ESSub s a')
    | PNeg a => do a' <- resolve st a; Ok (ENeg a')
    end.

  (* a divisor scalar inside an expression must be non-zero (documented precondition) *)
  Definition scalar_zero (s : scalar F) : bool :=
    match s with ScF c => feqb c f0 | ScI z => (z =? 0)%Z | ScRecF _ | ScRecI _ => false end.
  Fixpoint divisors_ok (e : pexpr) : bool :=
    match e with
    | PId | PPos _ | PDer _ | PSpl _ => true
    | PMul a b | PAdd a b | PSub a b => divisors_ok a && divisors_ok b
    | PSMulL _ a | PSMulR a _ | PAddS a _ | PSAdd _ a | PSubS a _ | PSSub _ a | PNeg a => divisors_ok a
    | PDivS a s => negb (scalar_zero s) && divisors_ok a
    end.

  Inductive op :=
  (* grids *)
  | GridNew (d : nat) (pts : list F)
  | GridCopy (d a : nat)
  | GridAt (a : nat) (i : N) | GridSub (a : nat) (i : N) | GridFind (a : nat) (x : F)
  | GridEq (a b : nat) | GridSize (a : nat) | GridFront (a : nat) | GridBack (a : nat)
  (* supports *)
  | SupNew (d g : nat) (i j : N) | SupEmpty (d g : nat) | SupWhole (d g : nat)
  | SupCopy (d a : nat) | SupMove (d a : nat) | SupMoveAssign (d a : nat)
  | SupUnion (d a b : nat) | SupInter (d a b : nat)
  | SupRel (a : nat) (i : N) | SupIvl (a : nat) (i : N) | SupAbs (a : nat) (i : N)
  | SupAt (a : nat) (i : N) | SupSub (a : nat) (i : N)
  | SupFront (a : nat) | SupBack (a : nat) | SupIter (a : nat)
  | SupEq (a b : nat) | SupSameGrid (a b : nat) | SupIsEmpty (a : nat) | SupContains (a : nat)
  | SupGrid (d a : nat)
  (* splines *)
  | SplNew (d : nat) (ord : nat) (sup : nat) (coefs : list (list F))
  | SplEmpty (d : nat) (ord : nat) (g : nat)
  | SplCopy (d a : nat) | SplMove (d a : nat) | SplMoveAssign (d a : nat)
  | SplAssignUp (d a : nat)
  | SplScale (d a : nat) (c : F) | SplScaleL (d : nat) (c : F) (a : nat)
  | SplDiv (d a : nat) (c : F) | SplNeg (d a : nat)
  | SplIMul (a : nat) (c : F) | SplIDiv (a : nat) (c : F)
  | SplAdd (d a b : nat) | SplSub (d a b : nat) | SplMul (d a b : nat)
  | SplIAdd (a b : nat) | SplISub (a b : nat)
  | SplLinComb (d : nat) (cs : list F) (ss : list nat)
  | SplEval (a : nat) (x : F) | SplFront (a : nat) | SplBack (a : nat)
  | SplIsZero (a : nat) | SplOverlap (a b : nat) | SplEq (a b : nat)
  | SplSupport (d a : nat)
  (* operators and forms *)
  | Apply (d : nat) (e : pexpr) (a : nat)
  | Transform (e : pexpr) (input : list F) (g : nat) (k : N)
  | Bilin (e1 e2 : pexpr) (a b : nat)
  | Lin (e : pexpr) (a : nat)
  (* generator *)
  | Gen1 (d0 : nat) (order : nat) (knots : list F)
  | Gen2 (d0 : nat) (order : nat) (knots : list F) (g : nat)
  (* interpolation with the solver parameter *)
  | Interp (d : nat) (order : nat) (x : nat) (y : list F) (bs : list (boundary F))
  | InterpDefault (d : nat) (order : nat) (x : nat) (y : list F)
  (* observation of one slot *)
  | Show (a : nat).

  Variable solver : nat -> list (row F) -> list F.

  Definition ret (ws : list (nat * obj)) (o : obs) : outcome (list (nat * obj) * obs) := Ok (ws, o).
  Definition void : obs := [TT Tvoid].

  Definition store_splines (d0 : nat) (l : list (spline F)) : list (nat * obj) :=
    map (fun '(i, s) => ((d0 + i)%nat, VSpl s)) (combine (seq 0 (length l)) l).

  Definition eval_op (st : state) (o : op) : outcome (list (nat * obj) * obs) :=
    match o with
    | GridNew d pts => do g <- grid_ctor pts; ret [(d, VGrid g)] void
    | GridCopy d a => do g <- get_grid st a; ret [(d, VGrid g)] void
    | GridAt a i => do g <- get_grid st a; do x <- grid_at g i; ret [] [TF x]
    | GridSub a i => do g <- get_grid st a; do x <- grid_sub g i; ret [] [TF x]
    | GridFind a x => do g <- get_grid st a; do i <- grid_find g x; ret [] [TN i]
    | GridEq a b => do g <- get_grid st a; do h <- get_grid st b; ret [] (tok_bool (grid_eqb g h))
    | GridSize a => do g <- get_grid st a; ret [] [TN (grid_size g)]
    | GridFront a => do g <- get_grid st a; do x <- grid_front g; ret [] [TF x]
    | GridBack a => do g <- get_grid st a; do x <- grid_back g; ret [] [TF x]

    | SupNew d g i j => do gr <- get_grid st g; do s <- sup_ctor gr i j; ret [(d, VSup s)] void
    | SupEmpty d g => do gr <- get_grid st g; do s <- create_empty gr; ret [(d, VSup s)] void
    | SupWhole d g => do gr <- get_grid st g; do s <- create_whole gr; ret [(d, VSup s)] void
    | SupCopy d a => do s <- get_sup st a; ret [(d, VSup s)] void
    | SupMove d a =>
        do s <- get_sup st a;
        ret [(a, VSup (sup_empty_on (sgrid s))); (d, VSup s)] void
    | SupMoveAssign d a =>
        do _ <- get_sup st d; do s <- get_sup st a;
        (* target first, then the source is reset: a self-move leaves it empty *)
        ret [(d, VSup s); (a, VSup (sup_empty_on (sgrid s)))] void
    | SupUnion d a b => do s <- get_sup st a; do t <- get_sup st b; do u <- calc_union s t; ret [(d, VSup u)] void
    | SupInter d a b => do s <- get_sup st a; do t <- get_sup st b; do u <- calc_inter s t; ret [(d, VSup u)] void
    | SupRel a i => do s <- get_sup st a; ret [] (tok_opt (rel_from_abs s i))
    | SupIvl a i => do s <- get_sup st a; ret [] (tok_opt (interval_index s i))
    | SupAbs a i => do s <- get_sup st a; do r <- abs_from_rel s i; ret [] [TN r]
    | SupAt a i => do s <- get_sup st a; do x <- sup_at s i; ret [] [TF x]
    | SupSub a i => do s <- get_sup st a; do x <- sup_sub s i; ret [] [TF x]
    | SupFront a => do s <- get_sup st a; do x <- sup_front s; ret [] [TF x]
    | SupBack a => do s <- get_sup st a; do x <- sup_back s; ret [] [TF x]
    | SupIter a => do s <- get_sup st a; ret [] (TT Tlist :: TN (nlen (sup_points s)) :: map TF (sup_points s))
    | SupEq a b => do s <- get_sup st a; do t <- get_sup st b; ret [] (tok_bool (sup_eqb s t) ++ tok_bool (negb (sup_eqb s t)))
    | SupSameGrid a b => do s <- get_sup st a; do t <- get_sup st b; ret [] (tok_bool (has_same_grid s t))
    | SupIsEmpty a => do s <- get_sup st a; ret [] (tok_bool (sup_is_empty s))
    | SupContains a => do s <- get_sup st a; ret [] (tok_bool (contains_intervals s))
    | SupGrid d a => do s <- get_sup st a; ret [(d, VGrid (sgrid s))] void

    | SplNew d ord sup coefs =>
        do s <- get_sup st sup;
        if negb (forallb (fun c => (length c =? ord + 1)%nat) coefs) then UB IllTyped
        else do r <- spl_ctor ord s coefs; ret [(d, VSpl r)] void
    | SplEmpty d ord g => do gr <- get_grid st g; do r <- spl_empty ord gr; ret [(d, VSpl r)] void
    | SplCopy d a =>
        do s <- get_spl st a;
        do _ <- (match lookup st d with
                 | Some (VSpl t) => if (sord t =? sord s)%nat then Ok tt else UB IllTyped
                 | _ => Ok tt end);
        ret [(d, VSpl s)] void
    | SplMove d a =>
        do s <- get_spl st a;
        ret [(a, VSpl (mkSpl (sup_empty_on (sgrid (ssup s))) (sord s) [])); (d, VSpl s)] void
    | SplMoveAssign d a =>
        do t <- get_spl st d; do s <- get_spl st a;
        if negb (sord t =? sord s)%nat then UB IllTyped
        else ret [(d, VSpl s); (a, VSpl (mkSpl (sup_empty_on (sgrid (ssup s))) (sord s) []))] void
    | SplAssignUp d a =>
        do t <- get_spl st d; do s <- get_spl st a;
        if negb (sord s <? sord t)%nat then UB IllTyped
        else do r <- spl_assign_up (sord t) s; ret [(d, VSpl r)] void
    | SplScale d a c => do s <- get_spl st a; ret [(d, VSpl (spl_scale s c))] void
    | SplScaleL d c a => do s <- get_spl st a; ret [(d, VSpl (spl_scale_l c s))] void
    | SplDiv d a c => do s <- get_spl st a; do r <- spl_div s c; ret [(d, VSpl r)] void
    | SplNeg d a => do s <- get_spl st a; ret [(d, VSpl (spl_neg s))] void
    | SplIMul a c => do s <- get_spl st a; ret [(a, VSpl (spl_scale s c))] void
    | SplIDiv a c => do s <- get_spl st a; do r <- spl_div s c; ret [(a, VSpl r)] void
    | SplAdd d a b => do s <- get_spl st a; do t <- get_spl st b; do r <- spl_add s t; ret [(d, VSpl r)] void
    | SplSub d a b => do s <- get_spl st a; do t <- get_spl st b; do r <- spl_sub s t; ret [(d, VSpl r)] void
    | SplMul d a b => do s <- get_spl st a; do t <- get_spl st b; do r <- spl_mul s t; ret [(d, VSpl r)] void
    | SplIAdd a b => do s <- get_spl st a; do t <- get_spl st b; do r <- spl_iadd s t; ret [(a, VSpl r)] void
    | SplISub a b => do s <- get_spl st a; do t <- get_spl st b; do r <- spl_isub s t; ret [(a, VSpl r)] void
    | SplLinComb d cs ss =>
        do l <- omapM (get_spl st) ss;
        do _ <- (match l with
                 | s0 :: _ => if forallb (fun s => (sord s =? sord s0)%nat) l then Ok tt else UB IllTyped
                 | [] => Ok tt end);
        do r <- lin_comb cs l; ret [(d, VSpl r)] void
    | SplEval a x => do s <- get_spl st a; do v <- spl_eval s x; ret [] [TF v]
    | SplFront a => do s <- get_spl st a; do v <- spl_front s; ret [] [TF v]
    | SplBack a => do s <- get_spl st a; do v <- spl_back s; ret [] [TF v]
    | SplIsZero a => do s <- get_spl st a; ret [] (tok_bool (is_zero s))
    | SplOverlap a b => do s <- get_spl st a; do t <- get_spl st b; do r <- check_overlap s t; ret [] (tok_bool r)
    | SplEq a b =>
        do s <- get_spl st a; do t <- get_spl st b;
        if negb (sord s =? sord t)%nat then UB IllTyped
        else ret [] (tok_bool (spl_eqb s t) ++ tok_bool (negb (spl_eqb s t)))
    | SplSupport d a => do s <- get_spl st a; ret [(d, VSup (ssup s))] void

    | Apply d e a =>
        if negb (divisors_ok e) then UB DivByZero else
        do ex <- resolve st e; do s <- get_spl st a;
        do r <- apply (elab ex) s; ret [(d, VSpl r)] void
    | Transform e input g k =>
        if negb (divisors_ok e) then UB DivByZero else
        do ex <- resolve st e; do gr <- get_grid st g;
        do r <- transform (elab ex) input gr k; ret [] (TT Tlist :: TN (nlen r) :: map TF r)
    | Bilin e1 e2 a b =>
        if negb (divisors_ok e1 && divisors_ok e2) then UB DivByZero else
        do x1 <- resolve st e1; do x2 <- resolve st e2;
        do s <- get_spl st a; do t <- get_spl st b;
        do v <- bilinear (elab x1) (elab x2) s t; ret [] [TF v]
    | Lin e a =>
        if negb (divisors_ok e) then UB DivByZero else
        do ex <- resolve st e; do s <- get_spl st a;
        do v <- linear (elab ex) s; ret [] [TF v]

    | Gen1 d0 order knots =>
        do l <- generate_bsplines order knots;
        ret (store_splines d0 l) [TN (nlen l)]
    | Gen2 d0 order knots g =>
        do gr <- get_grid st g;
        do gn <- gen_ctor2 knots gr;
        do l <- generate gn order;
        ret (store_splines d0 l) [TN (nlen l)]

    | Interp d order x y bs =>
        do s <- get_sup st x;
        if (order =? 0)%nat || negb (length bs =? order - 1)%nat then UB IllTyped else
        do sys <- interp_system order s y bs;
        do r <- interp_build order s (solver (length sys) sys);
        ret [(d, VSpl r)] (TT Tlist :: TN (nlen sys) :: flat_map (tok_row (length sys)) sys)
    | InterpDefault d order x y =>
        do s <- get_sup st x;
        if (order =? 0)%nat then UB IllTyped else
        do sys <- interp_system order s y (default_boundaries order);
        do r <- interp_build order s (solver (length sys) sys);
        ret [(d, VSpl r)] (TT Tlist :: TN (nlen sys) :: flat_map (tok_row (length sys)) sys)

    | Show a =>
        match lookup st a with
        | Some v => ret [] (tok_obj v)
        | None => ret [] [TT Tnone]
        end
    end.

  Definition step (st : state) (o : op) : state * outcome obs :=
    match eval_op st o with
    | Ok (ws, r) => (commit st ws, Ok r)
    | Throw e => (st, Throw e)
    | UB k => (st, UB k)
    end.

  Fixpoint run (st : state) (ops : list op) : state * list (outcome obs) :=
    match ops with
    | [] => (st, [])
    | o :: r => let '(st', x) := step st o in
                let '(st'', xs) := run st' r in (st'', x :: xs)
    end.
End Pool.

Arguments obj F : clear implicits.
Arguments state F : clear implicits.
Arguments tok F : clear implicits.
Arguments obs F : clear implicits.
Arguments pexpr F : clear implicits.
Arguments op F : clear implicits.

(* Properties_C07_R.v — C07_R: analysis bridge for C07 at the real numbers.
   Statements only: every theorem is closed by [exact <lemma>] and followed by
   Print Assumptions.  The statements quantify over every scalar structure
   (F, K : Ops F) that satisfies the ordered-field laws (Laws K), and over all
   grids, windows, orders, coefficient values, expressions etc. named in them.
   The identity linear form is the Riemann integral of the evaluated spline over its support. *)
From Coq Require Import List NArith ZArith Arith Bool.
From BSpl Require Import Scalar Outcome Support Poly Spline Ops Forms Generator Interp Spec Spec_Ops Spec_Gen Proofs_Support Proofs_Scalar Proofs_Poly Proofs_Binom Proofs_Eval Proofs_Outcome Proofs_Spline Proofs_Forms Proofs_Ops Proofs_Forms2 Proofs_Interp Proofs_Pred Proofs_Gen Instances Instances_Ext Proofs_Valid Solver Pool Quad Proofs_Pool Proofs_Quad Proofs_Rounded Proofs_Threads Proofs_Updates Examples Proofs_Examples Proofs_Analysis Proofs_Smooth Proofs_Laws.
Import ListNotations.


Theorem C07_R_piece_integral :
    forall (s : spline Rdefinitions.RbaseSymbolsImpl.R) (k : N),
           @SplInv Rdefinitions.RbaseSymbolsImpl.R ExactOps s ->
           @imem Rdefinitions.RbaseSymbolsImpl.R k (@ssup Rdefinitions.RbaseSymbolsImpl.R s) ->
           @RInt.is_RInt Hierarchy.R_NormedModule
             (fun x : Rdefinitions.RbaseSymbolsImpl.R => @den Rdefinitions.RbaseSymbolsImpl.R ExactOps s k x)
             (@gnth Rdefinitions.RbaseSymbolsImpl.R ExactOps
                (@sgrid Rdefinitions.RbaseSymbolsImpl.R (@ssup Rdefinitions.RbaseSymbolsImpl.R s)) k)
             (@gnth Rdefinitions.RbaseSymbolsImpl.R ExactOps
                (@sgrid Rdefinitions.RbaseSymbolsImpl.R (@ssup Rdefinitions.RbaseSymbolsImpl.R s)) 
                (k + 1))
             (@defint Rdefinitions.RbaseSymbolsImpl.R ExactOps (@piece Rdefinitions.RbaseSymbolsImpl.R s k)
                (@halfwidth Rdefinitions.RbaseSymbolsImpl.R ExactOps
                   (@sgrid Rdefinitions.RbaseSymbolsImpl.R (@ssup Rdefinitions.RbaseSymbolsImpl.R s)) k)).
Proof. exact (@Proofs_Analysis.piece_integral). Qed.

Theorem C07_R_linear_form_sum_of_integrals :
    forall s : spline Rdefinitions.RbaseSymbolsImpl.R,
           @SplInv Rdefinitions.RbaseSymbolsImpl.R ExactOps s ->
           @linear Rdefinitions.RbaseSymbolsImpl.R ExactOps (@OId Rdefinitions.RbaseSymbolsImpl.R) s =
           @Ok Rdefinitions.RbaseSymbolsImpl.R
             (@fsum Rdefinitions.RbaseSymbolsImpl.R ExactOps
                (fun k : N =>
                 @RInt.RInt Hierarchy.R_CompleteNormedModule
                   (fun x : Rdefinitions.RbaseSymbolsImpl.R =>
                    @den Rdefinitions.RbaseSymbolsImpl.R ExactOps s k x)
                   (@gnth Rdefinitions.RbaseSymbolsImpl.R ExactOps
                      (@sgrid Rdefinitions.RbaseSymbolsImpl.R (@ssup Rdefinitions.RbaseSymbolsImpl.R s)) k)
                   (@gnth Rdefinitions.RbaseSymbolsImpl.R ExactOps
                      (@sgrid Rdefinitions.RbaseSymbolsImpl.R (@ssup Rdefinitions.RbaseSymbolsImpl.R s)) 
                      (k + 1)))
                (@interval_list Rdefinitions.RbaseSymbolsImpl.R (@ssup Rdefinitions.RbaseSymbolsImpl.R s))).
Proof. exact (@Proofs_Analysis.linear_form_sum_of_integrals). Qed.

Theorem C07_R_linear_form_is_integral :
    forall s : spline Rdefinitions.RbaseSymbolsImpl.R,
           @SplInv Rdefinitions.RbaseSymbolsImpl.R ExactOps s ->
           exists v : Rdefinitions.RbaseSymbolsImpl.R,
             @linear Rdefinitions.RbaseSymbolsImpl.R ExactOps (@OId Rdefinitions.RbaseSymbolsImpl.R) s =
             @Ok Rdefinitions.RbaseSymbolsImpl.R v /\
             @RInt.is_RInt Hierarchy.R_NormedModule (sfun s)
               (@gnth Rdefinitions.RbaseSymbolsImpl.R ExactOps
                  (@sgrid Rdefinitions.RbaseSymbolsImpl.R (@ssup Rdefinitions.RbaseSymbolsImpl.R s))
                  (@sstart Rdefinitions.RbaseSymbolsImpl.R (@ssup Rdefinitions.RbaseSymbolsImpl.R s)))
               (@gnth Rdefinitions.RbaseSymbolsImpl.R ExactOps
                  (@sgrid Rdefinitions.RbaseSymbolsImpl.R (@ssup Rdefinitions.RbaseSymbolsImpl.R s))
                  (@sstart Rdefinitions.RbaseSymbolsImpl.R (@ssup Rdefinitions.RbaseSymbolsImpl.R s) +
                   @nintervals Rdefinitions.RbaseSymbolsImpl.R (@ssup Rdefinitions.RbaseSymbolsImpl.R s))) v.
Proof. exact (@Proofs_Analysis.linear_form_is_integral). Qed.


Print Assumptions C07_R_piece_integral.
Print Assumptions C07_R_linear_form_sum_of_integrals.
Print Assumptions C07_R_linear_form_is_integral.

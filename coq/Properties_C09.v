(* Properties_C09.v — C09: no operation touches memory outside its objects or runs into undefined behaviour.
   Statements only: every theorem is closed by [exact <lemma>] and followed by
   Print Assumptions.  The statements quantify over every scalar structure
   (F, K : Ops F) that satisfies the ordered-field laws (Laws K), and over all
   grids, windows, orders, coefficient values, expressions etc. named in them.
   The model makes every C++ partiality explicit: unchecked subscripts are `sub` (UB OOBRead when
   out of range), optional::value() is `value` (Throw BadOptionalAccess), vector::at is `at_`
   (Throw StdOutOfRange), zero divisors UB DivByZero.  no_ub: on every well-typed operation over a
   valid state none of these occurs — for every history.  Checked accessors throw for every index
   outside the view, for all 64-bit index values (C13 theorems, restated).  Object lifetimes,
   uninitialised storage and allocator behaviour are outside the model (sanitizer runs only). *)
From Coq Require Import List NArith ZArith Arith Bool.
From BSpl Require Import Scalar Outcome Support Poly Spline Ops Forms Generator Interp Spec Spec_Ops Spec_Gen Proofs_Support Proofs_Scalar Proofs_Poly Proofs_Binom Proofs_Eval Proofs_Outcome Proofs_Spline Proofs_Forms Proofs_Ops Proofs_Forms2 Proofs_Interp Proofs_Pred Proofs_Gen Instances Instances_Ext Proofs_Valid Solver Pool Quad Proofs_Pool Proofs_Quad Proofs_Rounded Proofs_Threads Proofs_Updates Examples Proofs_Examples Proofs_Analysis Proofs_Smooth Proofs_Laws Proofs_Sites.
Import ListNotations.


Theorem C09_no_ub :
    forall (F : Type) (K : Ops F),
           Laws K ->
           forall solver : nat -> list (row F) -> list F,
           (forall sys : list (row F), length (solver (length sys) sys) = length sys) ->
           forall (st : state F) (o : op F),
           StInv st ->
           op_typed st o ->
           match snd (step solver st o) with
           | Throw BadOptionalAccess | Throw StdOutOfRange | UB _ => False
           | _ => True
           end.
Proof. exact (@Proofs_Pool.no_ub). Qed.

Theorem C09_no_ub_history :
    forall (F : Type) (K : Ops F),
           Laws K ->
           forall solver : nat -> list (row F) -> list F,
           (forall sys : list (row F), length (solver (length sys) sys) = length sys) ->
           forall (ops : list (op F)) (st : state F),
           StInv st ->
           typed_history solver st ops ->
           Forall clean (snd (run solver st ops)) /\ StInv (fst (run solver st ops)).
Proof. exact (@Proofs_Pool.no_ub_history). Qed.

Theorem C09_no_ub_with_model_solver :
    forall (st : state Qcanon.Qc) (o : op Qcanon.Qc),
           StInv st ->
           op_typed st o ->
           match snd (step gauss_solve st o) with
           | Throw BadOptionalAccess | Throw StdOutOfRange | UB _ => False
           | _ => True
           end.
Proof. exact (@Proofs_Pool.no_ub_gauss). Qed.

Theorem C09_transform_total :
    forall (F : Type) (K : Ops F),
           Laws K ->
           forall (e : expr F) (c g : list F) (k : N),
           expr_inv e ->
           GInv g ->
           (k + 1 < nlen g)%N ->
           c <> [] ->
           (exists t : list F,
              transform (elab e) c g k = Ok t /\ t <> [] /\ length t = out_ord (elab e) (length c - 1) + 1) \/
           transform (elab e) c g k = Throw DIFFERING_GRIDS.
Proof. exact (@Proofs_Pool.transform_total). Qed.

Theorem C09_support_at :
    forall (F : Type) (s : support F) (r : N),
           SInv s ->
           (r < W)%N ->
           sup_at s r = match nnth (sup_points s) r with
                        | Some x => Ok x
                        | None => Throw INVALID_ACCESS
                        end.
Proof. exact (@Proofs_Support.sup_at_spec). Qed.

Theorem C09_interval_index :
    forall (F : Type) (s : support F) (i : N),
           SInv s ->
           (i < W)%N ->
           interval_index s i =
           (if (sstart s <=? i)%N && (i + 1 <? sstop s)%N then Some (i - sstart s)%N else None).
Proof. exact (@Proofs_Support.interval_index_spec). Qed.

Theorem C09_relative_index :
    forall (F : Type) (s : support F) (i : N),
           SInv s ->
           (i < W)%N ->
           rel_from_abs s i = (if (sstart s <=? i)%N && (i <? sstop s)%N then Some (i - sstart s)%N else None).
Proof. exact (@Proofs_Support.rel_from_abs_spec). Qed.

Theorem C09_absolute_index :
    forall (F : Type) (s : support F) (r : N),
           SInv s ->
           (r < W)%N ->
           abs_from_rel s r = (if (r <? sstop s - sstart s)%N then Ok (sstart s + r)%N else Throw UNDETERMINED).
Proof. exact (@Proofs_Support.abs_from_rel_spec). Qed.

Theorem C09_eval_total :
    forall (F : Type) (K : Ops F),
           Laws K -> forall (s : spline F) (x : F), SplInv s -> exists v : F, spl_eval s x = Ok v.
Proof. exact (@Proofs_Eval.seval_total). Qed.



Print Assumptions C09_no_ub.
Print Assumptions C09_no_ub_history.
Print Assumptions C09_no_ub_with_model_solver.
Print Assumptions C09_transform_total.
Print Assumptions C09_support_at.
Print Assumptions C09_interval_index.
Print Assumptions C09_relative_index.
Print Assumptions C09_absolute_index.
Print Assumptions C09_eval_total.

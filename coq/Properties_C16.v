(* Properties_C16.v — C16: floating-point results stay at rounding level of the exact result.
   Statements only: every theorem is closed by [exact <lemma>] and followed by
   Print Assumptions.  The statements quantify over every scalar structure
   (F, K : Ops F) that satisfies the ordered-field laws (Laws K), and over all
   grids, windows, orders, coefficient values, expressions etc. named in them.
   PARTIAL.  (i) The exact reference: the model at any ordered field, proved to be the mathematical
   object by C01-C07 (instances restated here at Qc).  (ii) Standard-model rounding bounds for the
   numerical kernels, over R: the SAME model code run with rounded operations (RndOps rnd, where
   rnd x = x(1+d), |d| <= u) against the exact instance: Horner evaluation about the midpoint, the
   even-power Horner scheme, the linear and bilinear interval kernels, with gamma k = (1+u)^k - 1,
   and the discharge of the rounding hypothesis for round-to-nearest-even with 53 bits (Flocq).
   These theorems depend on the standard library's real-number axioms and, through Flocq, on
   classical logic (printed below).  NOT proved: the bound for composite computations (B-spline
   generation through several recursion levels, operator chains) - validated by the check. *)
From Coq Require Import List NArith ZArith Arith Bool.
From BSpl Require Import Scalar Outcome Support Poly Spline Ops Forms Generator Interp Spec Spec_Ops Spec_Gen Proofs_Support Proofs_Scalar Proofs_Poly Proofs_Binom Proofs_Eval Proofs_Outcome Proofs_Spline Proofs_Forms Proofs_Ops Proofs_Forms2 Proofs_Interp Proofs_Pred Proofs_Gen Instances Instances_Ext Proofs_Valid Solver Pool Quad Proofs_Pool Proofs_Quad Proofs_Rounded Proofs_Threads Proofs_Updates Examples Proofs_Examples Proofs_Analysis Proofs_Smooth Proofs_Laws.
Import ListNotations.


Theorem C16_horner :
    forall u : Rdefinitions.RbaseSymbolsImpl.R,
           Rdefinitions.Rle (Rdefinitions.IZR 0) u ->
           forall rnd : Rdefinitions.RbaseSymbolsImpl.R -> Rdefinitions.RbaseSymbolsImpl.R,
           (forall x : Rdefinitions.RbaseSymbolsImpl.R,
            exists d : Rdefinitions.RbaseSymbolsImpl.R,
              Rdefinitions.Rle (Rbasic_fun.Rabs d) u /\
              rnd x =
              Rdefinitions.RbaseSymbolsImpl.Rmult x (Rdefinitions.RbaseSymbolsImpl.Rplus (Rdefinitions.IZR 1) d)) ->
           forall (x : Rdefinitions.RbaseSymbolsImpl.R) (c : list Rdefinitions.RbaseSymbolsImpl.R)
             (xm v : Rdefinitions.RbaseSymbolsImpl.R),
           @eval_interval Rdefinitions.RbaseSymbolsImpl.R (RndOps rnd) x c xm =
           @Ok Rdefinitions.RbaseSymbolsImpl.R v ->
           Rdefinitions.Rle (Rbasic_fun.Rabs (Rdefinitions.Rminus v (pevalR c (Rdefinitions.Rminus x xm))))
             (Rdefinitions.RbaseSymbolsImpl.Rmult (gamma u (3 * @length Rdefinitions.RbaseSymbolsImpl.R c))
                (pabs c (Rdefinitions.Rminus x xm))).
Proof. exact (@Proofs_Rounded.horner_rounded_bound). Qed.

Theorem C16_horner_2n_bound_is_false :
    forall u : Rdefinitions.RbaseSymbolsImpl.R,
           Rdefinitions.RbaseSymbolsImpl.Rlt (Rdefinitions.IZR 0) u ->
           exists rnd : Rdefinitions.RbaseSymbolsImpl.R -> Rdefinitions.RbaseSymbolsImpl.R,
             (forall x : Rdefinitions.RbaseSymbolsImpl.R,
              exists d : Rdefinitions.RbaseSymbolsImpl.R,
                Rdefinitions.Rle (Rbasic_fun.Rabs d) u /\
                rnd x =
                Rdefinitions.RbaseSymbolsImpl.Rmult x
                  (Rdefinitions.RbaseSymbolsImpl.Rplus (Rdefinitions.IZR 1) d)) /\
             (exists
                (x : Rdefinitions.RbaseSymbolsImpl.R) (c : list Rdefinitions.RbaseSymbolsImpl.R) 
              (xm v : Rdefinitions.RbaseSymbolsImpl.R),
                @eval_interval Rdefinitions.RbaseSymbolsImpl.R (RndOps rnd) x c xm =
                @Ok Rdefinitions.RbaseSymbolsImpl.R v /\
                ~
                Rdefinitions.Rle (Rbasic_fun.Rabs (Rdefinitions.Rminus v (pevalR c (Rdefinitions.Rminus x xm))))
                  (Rdefinitions.RbaseSymbolsImpl.Rmult (gamma u (2 * @length Rdefinitions.RbaseSymbolsImpl.R c))
                     (pabs c (Rdefinitions.Rminus x xm)))).
Proof. exact (@Proofs_Rounded.horner_2n_bound_fails). Qed.

Theorem C16_even_horner :
    forall u : Rdefinitions.RbaseSymbolsImpl.R,
           Rdefinitions.Rle (Rdefinitions.IZR 0) u ->
           forall rnd : Rdefinitions.RbaseSymbolsImpl.R -> Rdefinitions.RbaseSymbolsImpl.R,
           (forall x : Rdefinitions.RbaseSymbolsImpl.R,
            exists d : Rdefinitions.RbaseSymbolsImpl.R,
              Rdefinitions.Rle (Rbasic_fun.Rabs d) u /\
              rnd x =
              Rdefinitions.RbaseSymbolsImpl.Rmult x (Rdefinitions.RbaseSymbolsImpl.Rplus (Rdefinitions.IZR 1) d)) ->
           forall M : Z,
           (forall z : Z, (Z.abs z <= M)%Z -> rnd (Rdefinitions.IZR z) = Rdefinitions.IZR z) ->
           forall (i : nat) (cs : list Rdefinitions.RbaseSymbolsImpl.R) (h2 : Rdefinitions.RbaseSymbolsImpl.R),
           (Z.of_nat (2 * (i + @length Rdefinitions.RbaseSymbolsImpl.R cs)) <= M)%Z ->
           Rdefinitions.Rle
             (Rbasic_fun.Rabs
                (Rdefinitions.Rminus (@even_horner Rdefinitions.RbaseSymbolsImpl.R (RndOps rnd) i cs h2)
                   (@even_horner Rdefinitions.RbaseSymbolsImpl.R ExactOps i cs h2)))
             (Rdefinitions.RbaseSymbolsImpl.Rmult (gamma u (2 * @length Rdefinitions.RbaseSymbolsImpl.R cs))
                (eh_abs i cs h2)).
Proof. exact (@Proofs_Rounded.even_horner_rounded_bound). Qed.

Theorem C16_linear_kernel :
    forall u : Rdefinitions.RbaseSymbolsImpl.R,
           Rdefinitions.Rle (Rdefinitions.IZR 0) u ->
           forall rnd : Rdefinitions.RbaseSymbolsImpl.R -> Rdefinitions.RbaseSymbolsImpl.R,
           (forall x : Rdefinitions.RbaseSymbolsImpl.R,
            exists d : Rdefinitions.RbaseSymbolsImpl.R,
              Rdefinitions.Rle (Rbasic_fun.Rabs d) u /\
              rnd x =
              Rdefinitions.RbaseSymbolsImpl.Rmult x (Rdefinitions.RbaseSymbolsImpl.Rplus (Rdefinitions.IZR 1) d)) ->
           forall M : Z,
           (forall z : Z, (Z.abs z <= M)%Z -> rnd (Rdefinitions.IZR z) = Rdefinitions.IZR z) ->
           forall (a : list Rdefinitions.RbaseSymbolsImpl.R) (h v : Rdefinitions.RbaseSymbolsImpl.R),
           (Z.of_nat (@length Rdefinitions.RbaseSymbolsImpl.R a) + 1 <= M)%Z ->
           @lin_kernel Rdefinitions.RbaseSymbolsImpl.R (RndOps rnd) a h = @Ok Rdefinitions.RbaseSymbolsImpl.R v ->
           Rdefinitions.Rle
             (Rbasic_fun.Rabs (Rdefinitions.Rminus v (@defint Rdefinitions.RbaseSymbolsImpl.R ExactOps a h)))
             (Rdefinitions.RbaseSymbolsImpl.Rmult (gamma u (2 * @length Rdefinitions.RbaseSymbolsImpl.R a + 3))
                (Rdefinitions.RbaseSymbolsImpl.Rmult
                   (Rdefinitions.RbaseSymbolsImpl.Rmult (Rdefinitions.IZR 2) (Rbasic_fun.Rabs h))
                   (eh_abs 0 (@evens Rdefinitions.RbaseSymbolsImpl.R a) (Rdefinitions.RbaseSymbolsImpl.Rmult h h)))).
Proof. exact (@Proofs_Rounded.lin_kernel_rounded_bound). Qed.

Theorem C16_bilinear_kernel :
    forall u : Rdefinitions.RbaseSymbolsImpl.R,
           Rdefinitions.Rle (Rdefinitions.IZR 0) u ->
           forall rnd : Rdefinitions.RbaseSymbolsImpl.R -> Rdefinitions.RbaseSymbolsImpl.R,
           (forall x : Rdefinitions.RbaseSymbolsImpl.R,
            exists d : Rdefinitions.RbaseSymbolsImpl.R,
              Rdefinitions.Rle (Rbasic_fun.Rabs d) u /\
              rnd x =
              Rdefinitions.RbaseSymbolsImpl.Rmult x (Rdefinitions.RbaseSymbolsImpl.Rplus (Rdefinitions.IZR 1) d)) ->
           forall M : Z,
           (forall z : Z, (Z.abs z <= M)%Z -> rnd (Rdefinitions.IZR z) = Rdefinitions.IZR z) ->
           forall (a b : list Rdefinitions.RbaseSymbolsImpl.R) (h v : Rdefinitions.RbaseSymbolsImpl.R),
           (Z.of_nat (@length Rdefinitions.RbaseSymbolsImpl.R a + @length Rdefinitions.RbaseSymbolsImpl.R b) <= M)%Z ->
           @bi_kernel Rdefinitions.RbaseSymbolsImpl.R (RndOps rnd) a b h = @Ok Rdefinitions.RbaseSymbolsImpl.R v ->
           Rdefinitions.Rle
             (Rbasic_fun.Rabs
                (Rdefinitions.Rminus v
                   (@defint Rdefinitions.RbaseSymbolsImpl.R ExactOps
                      (@pmul Rdefinitions.RbaseSymbolsImpl.R ExactOps a b) h)))
             (Rdefinitions.RbaseSymbolsImpl.Rmult
                (gamma u
                   (3 * @length Rdefinitions.RbaseSymbolsImpl.R a + 2 * @length Rdefinitions.RbaseSymbolsImpl.R b +
                    2)) (bi_abs a b h)).
Proof. exact (@Proofs_Rounded.bi_kernel_rounded_bound). Qed.

Theorem C16_gamma_small :
    forall u : Rdefinitions.RbaseSymbolsImpl.R,
           Rdefinitions.Rle (Rdefinitions.IZR 0) u ->
           forall n : nat,
           Rdefinitions.Rle (Rdefinitions.RbaseSymbolsImpl.Rmult (Raxioms.INR n) u)
             (Rdefinitions.Rdiv (Rdefinitions.IZR 1) (Rdefinitions.IZR 2)) ->
           Rdefinitions.Rle (gamma u n)
             (Rdefinitions.RbaseSymbolsImpl.Rmult
                (Rdefinitions.RbaseSymbolsImpl.Rmult (Rdefinitions.IZR 2) (Raxioms.INR n)) u).
Proof. exact (@Proofs_Rounded.gamma_small). Qed.

Theorem C16_binary64_rounding_model :
    forall x : Rdefinitions.RbaseSymbolsImpl.R,
           exists d : Rdefinitions.RbaseSymbolsImpl.R,
             Rdefinitions.Rle (Rbasic_fun.Rabs d) u64 /\
             rnd64 x =
             Rdefinitions.RbaseSymbolsImpl.Rmult x (Rdefinitions.RbaseSymbolsImpl.Rplus (Rdefinitions.IZR 1) d).
Proof. exact (@Proofs_Rounded.flx_rnd_spec). Qed.

Theorem C16_binary64_small_integers_exact :
    forall z : Z, (Z.abs z <= M64)%Z -> rnd64 (Rdefinitions.IZR z) = Rdefinitions.IZR z.
Proof. exact (@Proofs_Rounded.flx_rnd_int). Qed.

Theorem C16_horner_binary64 :
    forall (x : Rdefinitions.RbaseSymbolsImpl.R) (c : list Rdefinitions.RbaseSymbolsImpl.R)
             (xm v : Rdefinitions.RbaseSymbolsImpl.R),
           Rdefinitions.Rle
             (Rdefinitions.RbaseSymbolsImpl.Rmult (Raxioms.INR (3 * @length Rdefinitions.RbaseSymbolsImpl.R c))
                u64) (Rdefinitions.Rdiv (Rdefinitions.IZR 1) (Rdefinitions.IZR 2)) ->
           @eval_interval Rdefinitions.RbaseSymbolsImpl.R (RndOps rnd64) x c xm =
           @Ok Rdefinitions.RbaseSymbolsImpl.R v ->
           Rdefinitions.Rle (Rbasic_fun.Rabs (Rdefinitions.Rminus v (pevalR c (Rdefinitions.Rminus x xm))))
             (Rdefinitions.RbaseSymbolsImpl.Rmult
                (Rdefinitions.RbaseSymbolsImpl.Rmult
                   (Rdefinitions.RbaseSymbolsImpl.Rmult (Rdefinitions.IZR 2)
                      (Raxioms.INR (3 * @length Rdefinitions.RbaseSymbolsImpl.R c))) u64)
                (pabs c (Rdefinitions.Rminus x xm))).
Proof. exact (@Proofs_Rounded.horner_rounded_bound_binary64_eps). Qed.

Theorem C16_linear_kernel_binary64 :
    forall (a : list Rdefinitions.RbaseSymbolsImpl.R) (h v : Rdefinitions.RbaseSymbolsImpl.R),
           (Z.of_nat (@length Rdefinitions.RbaseSymbolsImpl.R a) + 1 <= M64)%Z ->
           @lin_kernel Rdefinitions.RbaseSymbolsImpl.R (RndOps rnd64) a h = @Ok Rdefinitions.RbaseSymbolsImpl.R v ->
           Rdefinitions.Rle
             (Rbasic_fun.Rabs (Rdefinitions.Rminus v (@defint Rdefinitions.RbaseSymbolsImpl.R ExactOps a h)))
             (Rdefinitions.RbaseSymbolsImpl.Rmult (gamma u64 (2 * @length Rdefinitions.RbaseSymbolsImpl.R a + 3))
                (Rdefinitions.RbaseSymbolsImpl.Rmult
                   (Rdefinitions.RbaseSymbolsImpl.Rmult (Rdefinitions.IZR 2) (Rbasic_fun.Rabs h))
                   (eh_abs 0 (@evens Rdefinitions.RbaseSymbolsImpl.R a) (Rdefinitions.RbaseSymbolsImpl.Rmult h h)))).
Proof. exact (@Proofs_Rounded.lin_kernel_rounded_bound_binary64). Qed.

Theorem C16_bilinear_kernel_binary64 :
    forall (a b : list Rdefinitions.RbaseSymbolsImpl.R) (h v : Rdefinitions.RbaseSymbolsImpl.R),
           (Z.of_nat (@length Rdefinitions.RbaseSymbolsImpl.R a + @length Rdefinitions.RbaseSymbolsImpl.R b) <=
            M64)%Z ->
           @bi_kernel Rdefinitions.RbaseSymbolsImpl.R (RndOps rnd64) a b h =
           @Ok Rdefinitions.RbaseSymbolsImpl.R v ->
           Rdefinitions.Rle
             (Rbasic_fun.Rabs
                (Rdefinitions.Rminus v
                   (@defint Rdefinitions.RbaseSymbolsImpl.R ExactOps
                      (@pmul Rdefinitions.RbaseSymbolsImpl.R ExactOps a b) h)))
             (Rdefinitions.RbaseSymbolsImpl.Rmult
                (gamma u64
                   (3 * @length Rdefinitions.RbaseSymbolsImpl.R a + 2 * @length Rdefinitions.RbaseSymbolsImpl.R b +
                    2)) (bi_abs a b h)).
Proof. exact (@Proofs_Rounded.bi_kernel_rounded_bound_binary64). Qed.

Theorem C16_rounded_model_is_the_model :
    RndOps (fun x : Rdefinitions.RbaseSymbolsImpl.R => x) = ExactOps.
Proof. exact (@Proofs_Rounded.RndOps_id). Qed.

Theorem C16_exact_reference_generator :
    forall (ks : list Qcanon.Qc) (p : nat) (l : list (spline Qcanon.Qc)) (i k : nat) (x : Qcanon.Qc),
           @nondecreasing Qcanon.Qc QcOps ks ->
           @two_distinct Qcanon.Qc ks ->
           (@nlen Qcanon.Qc ks < 2 ^ 63)%N ->
           p + 1 <= @length Qcanon.Qc ks ->
           @generate_bsplines Qcanon.Qc QcOps p ks = @Ok (list (spline Qcanon.Qc)) l ->
           i < @length (spline Qcanon.Qc) l ->
           k + 1 < @length Qcanon.Qc (@unique Qcanon.Qc QcOps ks) ->
           @fleb Qcanon.Qc QcOps (@nth Qcanon.Qc k (@unique Qcanon.Qc QcOps ks) (@f0 Qcanon.Qc QcOps)) x = true ->
           @fltb Qcanon.Qc QcOps x (@nth Qcanon.Qc (k + 1) (@unique Qcanon.Qc QcOps ks) (@f0 Qcanon.Qc QcOps)) =
           true ->
           @den Qcanon.Qc QcOps
             (@nth (spline Qcanon.Qc) i l
                {| ssup := {| sgrid := []; sstart := 0; sstop := 0 |}; sord := 0; scoefs := [] |}) 
             (N.of_nat k) x = @B Qcanon.Qc QcOps ks p i x.
Proof. exact (@Proofs_Gen.gen_is_cox_de_boor Qcanon.Qc QcOps Qc_laws). Qed.

Theorem C16_exact_reference_forms :
    forall (e1 e2 : expr Qcanon.Qc) (a b : spline Qcanon.Qc) (u : support Qcanon.Qc),
           @SplInv Qcanon.Qc QcOps a ->
           @SplInv Qcanon.Qc QcOps b ->
           @sgridp Qcanon.Qc a = @sgridp Qcanon.Qc b ->
           @factors_ok Qcanon.Qc QcOps e1 (@sgridp Qcanon.Qc a) ->
           @factors_ok Qcanon.Qc QcOps e2 (@sgridp Qcanon.Qc a) ->
           @scalars_ok Qcanon.Qc QcOps e1 ->
           @scalars_ok Qcanon.Qc QcOps e2 ->
           @calc_inter Qcanon.Qc QcOps (@ssup Qcanon.Qc a) (@ssup Qcanon.Qc b) = @Ok (support Qcanon.Qc) u ->
           @bilinear Qcanon.Qc QcOps (@elab Qcanon.Qc QcOps e1) (@elab Qcanon.Qc QcOps e2) a b =
           @Ok Qcanon.Qc
             (@fsum Qcanon.Qc QcOps
                (fun k : N =>
                 @defint Qcanon.Qc QcOps
                   (@pmul Qcanon.Qc QcOps
                      (@dsem Qcanon.Qc QcOps e1 (@sgridp Qcanon.Qc a) k (@piece Qcanon.Qc a k))
                      (@dsem Qcanon.Qc QcOps e2 (@sgridp Qcanon.Qc a) k (@piece Qcanon.Qc b k)))
                   (@halfwidth Qcanon.Qc QcOps (@sgridp Qcanon.Qc a) k)) (@interval_list Qcanon.Qc u)).
Proof. exact (@Proofs_Forms2.bilinear_exact Qcanon.Qc QcOps Qc_laws). Qed.


Print Assumptions C16_horner.
Print Assumptions C16_horner_2n_bound_is_false.
Print Assumptions C16_even_horner.
Print Assumptions C16_linear_kernel.
Print Assumptions C16_bilinear_kernel.
Print Assumptions C16_gamma_small.
Print Assumptions C16_binary64_rounding_model.
Print Assumptions C16_binary64_small_integers_exact.
Print Assumptions C16_horner_binary64.
Print Assumptions C16_linear_kernel_binary64.
Print Assumptions C16_bilinear_kernel_binary64.
Print Assumptions C16_rounded_model_is_the_model.
Print Assumptions C16_exact_reference_generator.
Print Assumptions C16_exact_reference_forms.
